#!/usr/bin/env python3
"""tools/try_mutant.py <PID> <file-under-rich> <old> <new> [--tier quick]  -- apply a textual mutation to a scratch
copy of the tree under test (outside /repo and /verif), run the check against it with RICH_SRC, clean up.
Also: tools/try_mutant.py <PID> --patch file.diff"""
import os, shutil, subprocess, sys, tempfile
pid = sys.argv[1]
d = tempfile.mkdtemp(prefix="mut-", dir="/tmp")
try:
    shutil.copytree("/repo/rich", d + "/rich")
    if sys.argv[2] == "--patch":
        subprocess.check_call(["patch", "-p1", "-s", "-d", d, "-i", os.path.abspath(sys.argv[3])])
    else:
        f, old, new = sys.argv[2:5]
        p = os.path.join(d, "rich", f)
        s = open(p).read()
        old = old.encode().decode("unicode_escape"); new = new.encode().decode("unicode_escape")
        if s.count(old) < 1:
            print("MUTANT: pattern not found"); sys.exit(3)
        open(p, "w").write(s.replace(old, new, 1))
    env = dict(os.environ, RICH_SRC=d)
    extra = [a for a in sys.argv[5:]] if sys.argv[2] != "--patch" else sys.argv[4:]
    r = subprocess.run(["./check", pid] + extra, cwd="/verif", env=env, stdout=subprocess.PIPE, stderr=subprocess.STDOUT, text=True)
    out = r.stdout.splitlines()
    for l in out:
        if l.startswith(("VIOLATION", "  signature", "KNOWN", "DRIFT", "MACHINERY")) or l.startswith(pid):
            print(l)
    print("exit", r.returncode)
    if r.returncode == 2:
        print("\n".join(out[-15:]))
finally:
    shutil.rmtree(d, ignore_errors=True)
