"""pytest plugin (-p tools.pytest_sgrtrace, PYTHONPATH=/verif): the repository's OWN test-suite as a trace source for C03.
Wraps Console._render_buffer - the one place where buffered segments become the characters written to the file - and
logs, for every call any test makes, one Trace_Sgr record: console configuration in force, the segments (text + what
their style means, after the documented down-conversion), the control segments, and the characters produced, tokenised
lexically (engine/sgrlex.py).  drivers/c03.py hands the records to TLC (Trace_Sgr.tla, the terminal automaton).
The wrapper is add-only and lives in the test process only; nothing in the tree under test is edited.
Records a terminal automaton cannot judge lexically are skipped and counted: segment text holding C0 controls / ESC
(a terminal would interpret them), Jupyter consoles, non-Style styles."""
import hashlib, json, os

_RECS, _SEEN, _STATS = [], set(), dict(calls=0, kept=0, skipped_control_text=0, skipped_odd_control_segment=0, skipped_too_long=0, skipped_other=0, duplicates=0)
MAX_EVENTS = 20000        # Trace_Sgr binds the cell lists once per record (LET): long records are affordable
_CURRENT = [""]


def _record(console, segs, out):
    from drivers import c03
    from engine.sgrlex import lex
    from rich.color import ColorSystem
    from rich.style import Style
    names = {ColorSystem.STANDARD: "standard", ColorSystem.EIGHT_BIT: "256", ColorSystem.TRUECOLOR: "truecolor", ColorSystem.WINDOWS: "windows"}
    if getattr(console, "is_jupyter", False):
        return None
    system = names.get(console._color_system, "none") if console._color_system is not None else "none"
    eff = dict(system=system, nocolor=bool(console.no_color), terminal=bool(console.is_terminal), legacy=bool(console.legacy_windows))
    links = {}
    rec = dict(cfg=eff, exc="none", hasdec=False, dec=[], segs=[], out=lex(out, links, controls=True), ctls=[])
    for seg in segs:
        text, style, ctl = seg
        if style is not None and not isinstance(style, Style):
            return None
        if ctl:
            toks = lex(text, links, controls=True)
            if any(t[0] not in ("ctl", "esc") for t in toks):
                return "oddcontrol"          # a "control code" made of visible characters / newlines (tests do that): not judged
            rec["ctls"].extend(toks)
            continue
        if any((ord(ch) < 32 and ch != "\n") or ord(ch) == 127 for ch in text):
            return "control"
        if text == "":
            continue
        rec["segs"].append(dict(text=[ord(ch) for ch in text], layers=[c03.layer(style, system, links)] if style is not None else []))
    return rec


def pytest_configure(config):
    from rich.console import Console
    orig = Console._render_buffer

    def _render_buffer(self, buffer):
        segs = list(buffer)
        out = orig(self, segs)
        try:
            _STATS["calls"] += 1
            try:
                rec = _record(self, segs, out)
            except Exception:
                rec = None
            if rec == "control":
                _STATS["skipped_control_text"] += 1
            elif rec == "oddcontrol":
                _STATS["skipped_odd_control_segment"] += 1
            elif rec is not None and len(rec["out"]) > MAX_EVENTS:
                _STATS["skipped_too_long"] += 1
            elif rec is None:
                _STATS["skipped_other"] += 1
            else:
                h = hashlib.sha1(json.dumps(rec, sort_keys=True).encode()).hexdigest()
                if h in _SEEN:
                    _STATS["duplicates"] += 1
                else:
                    _SEEN.add(h)
                    rec["test"] = _CURRENT[0]
                    _RECS.append(rec)
                    _STATS["kept"] += 1
        except Exception:          # the recorder must never disturb the test it observes
            pass
        return out
    Console._render_buffer = _render_buffer


def pytest_runtest_setup(item):
    _CURRENT[0] = item.nodeid


def pytest_sessionfinish(session, exitstatus):
    path = os.environ.get("SGRTRACE_OUT")
    if path:
        with open(path, "w") as f:
            json.dump(dict(stats=_STATS, records=_RECS), f)
