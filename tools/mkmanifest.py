import json, os, sys
sys.path.insert(0, os.path.dirname(os.path.abspath(__file__)))
import registry
V = os.path.dirname(os.path.dirname(os.path.abspath(__file__)))
props = [json.loads(l) for l in open(os.path.join(V, "properties.jsonl"))]
checks, na = [], []
for p in props:
    pid = p["id"]
    if pid in registry.CHECKS:
        c = registry.CHECKS[pid]
        checks.append(dict(
            property_id=pid,
            quick_cmd="./check %s --tier quick" % pid,
            thorough_cmd="./check %s --tier thorough" % pid,
            evidence_file="/verif/evidence/%s.json" % pid,
            replay_cmd_template="./check %s --replay {path}" % pid,
            engine="tlc",
            level_claimed=dict(category="model_checking", text=c["text"], design_ref=c["design_ref"]),
            level_note=c["note"], technique=c["technique"]))
    else:
        na.append(dict(property_id=pid, reason=registry.PENDING.get(pid, "check not built yet in this round (planned, see DESIGN.md §4); not claimed until its TLA+ spec and conformance harness exist")))
m = dict(
    version=1,
    setup_cmd="./setup.sh",
    hooks=dict(guard="RICH_VERIF", enable="no source hooks: instrumentation is injected at run time by /verif/engine (monkeypatching, sys.settrace); RICH_VERIF=1 is set by ./check for completeness",
               baseline_off_cmd="cd /repo && /venv/bin/python -m pytest -ra -q -p no:cacheprovider --timeout=900 --continue-on-collection-errors",
               source_commits=[], add_only=True),
    engines=[dict(name="tlc", path="/verif/engine/tlc.py", serves_properties=sorted(registry.CHECKS),
                  kind_free_text="TLC 1.8 on the TLA+ library in /verif/specs: exhaustive model checking (M1), behaviour generation (M2), batch trace validation of recorded executions (M3), slice evaluation (M4)"),
             dict(name="dsched", path="/verif/engine/dsched.py", serves_properties=["C11", "C12"],
                  kind_free_text="deterministic scheduler for real Python threads: lock/event/thread proxies injected at run time (engine/instrument.py), pre-emption at lock, write, clock, line and opcode points, DFS with pre-emption bound / random / PCT / replay strategies; every execution is recorded and judged by TLC"),
             dict(name="lexers", path="/verif/engine/termlex.py", serves_properties=["C03", "C10", "C11", "C15", "C19"],
                  kind_free_text="lexical projections of byte streams into the vocabularies of Screen.tla / Sgr.tla / Record.tla (engine/termlex.py, sgrlex.py, ansilex.py); trusted, purely lexical")],
    checks=checks,
    notes="Specifications: /verif/specs/*.tla.  Drivers: /verif/drivers/cNN.py.  Known findings: /verif/known_findings.json.  Seeded mutants: /verif/seeded/.  See DESIGN.md.",
    not_applicable=na)
json.dump(m, open(os.path.join(V, "MANIFEST.json"), "w"), indent=1)
print("checks:", [c["property_id"] for c in checks], "n/a:", len(na))
