#!/usr/bin/env python3
"""tools/seed_eval.py <seed-dir> <PID> [--keep-as name] [--tier quick]
Confirm a seeded change independently and run our check against it:
 1. scratch worktree of /repo HEAD (outside /repo and /verif), demo passes on it;
 2. apply patch.diff; whole test-suite still 430 passed / same failures; demo fails;
 3. ./check PID with RICH_SRC=<worktree>: caught?
 4. remove the worktree.  With --keep-as: copy patch/demo/meta + result into /verif/seeded/<PID>/<name>/."""
import json, os, shutil, subprocess, sys, tempfile, time
seed, pid = sys.argv[1], sys.argv[2]
keep = sys.argv[sys.argv.index("--keep-as") + 1] if "--keep-as" in sys.argv else None
tier = sys.argv[sys.argv.index("--tier") + 1] if "--tier" in sys.argv else "quick"
wt = tempfile.mkdtemp(prefix="seedwt-", dir="/tmp")
os.rmdir(wt)
res = dict(seed=seed, property=pid)
def sh(cmd, **kw):
    return subprocess.run(cmd, shell=True, stdout=subprocess.PIPE, stderr=subprocess.STDOUT, text=True, **kw)
try:
    sh("git -C /repo worktree add -q --detach %s HEAD" % wt)
    env = dict(os.environ, RICH_TREE=wt)
    demo = "cd %s && /venv/bin/python %s/demo.py" % (wt, seed)
    r0 = sh(demo, env=env); res["demo_clean_exit"] = r0.returncode
    a = sh("git -C %s apply %s/patch.diff" % (wt, seed)); res["apply"] = a.returncode
    if a.returncode != 0:
        a = sh("cd %s && patch -p1 < %s/patch.diff" % (wt, seed)); res["apply"] = a.returncode; res["apply_out"] = a.stdout[-500:]
    t = sh("cd %s && /venv/bin/python -m pytest -q -p no:cacheprovider -x --co -q >/dev/null; /venv/bin/python -m pytest -q -p no:cacheprovider 2>&1 | tail -1" % wt)
    res["suite"] = t.stdout.strip()
    r1 = sh(demo, env=env); res["demo_mutated_exit"] = r1.returncode; res["demo_output"] = r1.stdout[-600:]
    t0 = time.time()
    c = sh("./check %s --tier %s" % (pid, tier), cwd=os.environ.get("VERIF_HOME", "/verif"), env=dict(os.environ, RICH_SRC=wt))
    res["check_exit"] = c.returncode; res["check_wall_s"] = round(time.time() - t0, 1)
    vlines = [l[:400] for l in c.stdout.splitlines() if l.startswith(("VIOLATION", "  signature", "KNOWN-FINDING", "MACHINERY", pid))]
    res["check_lines"] = vlines[:14] + [l[:300] for l in c.stdout.splitlines() if l.startswith("DRIFT")][:4]
    res["caught"] = c.returncode == 1
finally:
    sh("git -C /repo worktree remove --force %s" % wt)
    shutil.rmtree(wt, ignore_errors=True)
print(json.dumps(res, indent=1))
if keep:
    d = "/verif/seeded/%s/%s" % (pid, keep)
    os.makedirs(d, exist_ok=True)
    for f in ("patch.diff", "demo.py", "meta.json"):
        shutil.copy(os.path.join(seed, f), d)
    m = json.load(open(os.path.join(d, "meta.json")))
    m["confirmed"] = dict(demo_on_clean_tree_exit=res["demo_clean_exit"], demo_with_change_exit=res["demo_mutated_exit"], test_suite=res["suite"],
                          check_cmd="RICH_SRC=<scratch worktree with patch> ./check %s --tier %s" % (pid, tier), check_exit=res["check_exit"],
                          caught=res["caught"], check_output=res["check_lines"])
    json.dump(m, open(os.path.join(d, "meta.json"), "w"), indent=1)
