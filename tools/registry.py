"""Per-property registration data -> MANIFEST.json (python3 tools/mkmanifest.py)."""
CHECKS = {}
PENDING = {}

def reg(pid, text, note, technique, design_ref):
    CHECKS[pid] = dict(text=text, note=note, technique=technique, design_ref=design_ref)

reg("C20",
    "TLC exhaustively checks the ThemeStack design (dictionary collapse at push == declarative lookup rule, pop restores, base never popped) "
    "and enumerates every push/pop/use_theme history of 3 (quick) / 4 (thorough) operations; each of those plus seeded random histories "
    "(<= 14 ops) is executed on a real Console and the get_style() table observed after every call is validated step by step by TLC "
    "against the specification's actions (trace validation).  Bounded, not a proof about the Python code.",
    "Trusted: projection of a Style to an id by ==; use_theme blocks well nested; 4 names / 2 style ids / 9 themes.",
    "TLA+ spec ThemeStack.tla; TLC exhaustive model check + TLC-generated histories replayed on the real Console + TLC trace validation of recorded histories",
    "DESIGN.md §4 C20")

reg("C05",
    "TextOps.tla gives every public Text editing call a reference meaning on sequences of styled characters; TLC (M1) exhaustively "
    "checks the laws of that semantics (pieces concatenate back, crops are prefixes, style-only calls keep characters, widths/lengths "
    "hit targets, survivors keep style) over all histories of 2 (quick) / 3 (thorough) calls from a 100-call operation set, and generates "
    "(M2) every 2-call history plus simulated 7-call behaviours; these and seeded random histories (2..12 calls, arguments negative / at / "
    "beyond the ends, control, wide and zero-width characters, overlapping spans) are executed on a real rich.text.Text and TLC validates, "
    "call by call, len(), plain and the effective style of every surviving character against the model (trace validation).  Bounded; "
    "conformance, not proof.",
    "Trusted: projection by Text.render (style -> attribute/colour ids); argument widths from rich.cells (C13). Domain: non-negative counts/"
    "widths, sorted in-range divide offsets, non-self-overlapping separators; wrap() is C02; from_markup is C04.",
    "TLA+ spec TextOps.tla; TLC exhaustive check of the reference semantics' laws + TLC-generated (exhaustive and -simulate) call histories replayed on real Text objects + TLC trace validation of recorded histories",
    "DESIGN.md §4 C05")
