"""Per-property registration data -> MANIFEST.json (python3 tools/mkmanifest.py)."""
CHECKS = {}
PENDING = {}

def reg(pid, text, note, technique, design_ref):
    CHECKS[pid] = dict(text=text, note=note, technique=technique, design_ref=design_ref)

reg("C20",
    "TLC exhaustively checks the ThemeStack design (dictionary collapse at push == declarative lookup rule, pop restores, base never popped) "
    "and enumerates every push/pop/use_theme history of 3 (quick) / 4 (thorough) operations; each of those plus seeded random histories "
    "(<= 14 ops) and tall stacks of 17-40 nested, nearly all inheriting pushes walked up and down is executed on a real Console and the get_style() table observed after every call is validated step by step by TLC "
    "against the specification's actions (trace validation).  Bounded, not a proof about the Python code. The generator was audited against the quantifier and the public options of the anchored code; the dimensions it varies and the corners it deliberately keeps out are listed per property in DESIGN.md §13.",
    "Trusted: projection of a Style to an id by ==; use_theme blocks well nested; 4 names / 2 style ids / 9 themes.",
    "TLA+ spec ThemeStack.tla; TLC exhaustive model check + TLC-generated histories replayed on the real Console + TLC trace validation of recorded histories",
    "DESIGN.md §4 C20")

reg("C05",
    "TextOps.tla gives every public Text editing call a reference meaning on sequences of styled characters; TLC (M1) exhaustively "
    "checks the laws of that semantics (pieces concatenate back, crops are prefixes, style-only calls keep characters, widths/lengths "
    "hit targets, survivors keep style) over all histories of 2 (quick) / 3 (thorough) calls from a 100-call operation set, and generates "
    "(M2) every 2-call history plus simulated 7-call behaviours; these and seeded random histories (2..12 calls, arguments negative / at / "
    "beyond the ends, control, wide and zero-width characters, overlapping spans) are executed on a real rich.text.Text and TLC validates, "
    "call by call, len(), plain and the effective style of every surviving character against the model (trace validation).  Bounded; "
    "conformance, not proof. The generator was audited against the quantifier and the public options of the anchored code; the dimensions it varies and the corners it deliberately keeps out are listed per property in DESIGN.md §13.",
    "Trusted: projection by Text.render (style -> attribute/colour ids); argument widths from rich.cells (C13). Domain: non-negative counts/"
    "widths, sorted in-range divide offsets, non-self-overlapping separators; wrap() is C02; from_markup is C04.",
    "TLA+ spec TextOps.tla; TLC exhaustive check of the reference semantics' laws + TLC-generated (exhaustive and -simulate) call histories replayed on real Text objects + TLC trace validation of recorded histories",
    "DESIGN.md §4 C05")

reg("C10",
    "Live.tla specifies the Live/Progress/Status display protocol (one operator per public call, the escape strings the design emits) on top of "
    "Screen.tla, a terminal screen model in TLA+.  TLC (M1) exhaustively checks every history of 5 (quick) / 7 (thorough) calls incl. a renderable "
    "that starts raising and restarts, for both renderers x transient, against ScreenOK / no-overwrite / cursor-in-region / Restored; (M2) emits "
    "every 3..5-call history.  Those and seeded random histories (<= 40 calls incl. log, argument-less print()/log(), redirected stdout and stderr, "
    "multi-row status texts and spinner changes, task add/hide/show/remove/relabel, faults in the renderable and in the body (from one call on for good, or in the renders of one call only with the renderable working again afterwards - also when the block is then left); display class x transient x "
    "vertical_overflow x console height x terminal width x redirect options x frames whose rows are wider than the terminal) run on the real classes; every byte written to the console file is tokenised and TLC itself replays it on "
    "Screen.tla, comparing the screen, cursor visibility, hook depth and stdio restoration after every call (trace validation).  Bounded; conformance, not proof.",
    "Trusted: engine/termlex.py (lexical tokeniser; text identified by per-line labels, unlabelled text counted as blanks); Screen.tla wraps text "
    "written past the terminal's last column (auto-wrap terminal); unbounded scroll-back; blank rows are not judged; auto_refresh off (timing is C11).",
    "TLA+ specs Live.tla + Screen.tla; TLC exhaustive model check of the display protocol + TLC-generated histories replayed on real Live/Progress/Status + TLC replay of the emitted terminal stream (trace validation)",
    "DESIGN.md §4 C10")

reg("C12",
    "Progress.tla specifies task accounting at the atomic grain; MC_Progress (M1) checks completed = last set + advances, finish / fixed finish time, "
    "non-negative speed and time remaining over every sequential history of 3 (quick) / 4 (thorough) calls on two tasks; MC_ProgressConc models advance() "
    "at the grain of the code's pre-emption points (clock read, lock, read-modify-write, release) for 2-3 threads and must hold with the clock read "
    "under the lock and be violated (vacuity guard) with the pinned order.  TLC-generated and random sequential histories (incl. histories that fill the speed window: more than 1000 samples inside the estimate period) run on a real Progress with "
    "a mock clock and are validated call by call; concurrent programs (2-4 threads) run on real threads under the deterministic scheduler (DFS with "
    "pre-emption bound 2 at lock/clock/write points, bound 1 at every line and at every opcode of advance/update/reset/add_task, random and PCT "
    "schedules) and each recorded history is accepted iff TLC finds a linearisation; track() over lists/generators with the real _TrackThread scheduled.  Bounded.",
    "Trusted: obs_task (reads Task attributes), engine/dsched.py (serialises threads; lock/event proxies), mock clock. Amounts are multiples of 0.5; "
    "percentages judged to 1e-4 for |values| <= 1000; no pre-emption inside a bytecode.",
    "TLA+ specs Progress.tla (+ fine-grain MC_ProgressConc); TLC exhaustive model check + TLC-generated histories replayed on real Progress + TLC trace validation (sequential) and TLC linearisation search over histories recorded from real threads under a deterministic scheduler",
    "DESIGN.md §4 C12, §5")

reg("C17",
  "Syntax.tla defines the source lines (split on newline, Python expandtabs column rule, blank lines at the very end aside), Clip and Expected rows; "
  "TLC exhaustively checks a model of the syntax.py pipeline (Pygments pre-processing, ANY lexer = any token partition with <=2 cuts, ranged assembly, split, slice, numbering) "
  "for every source of <=5 (quick) / 6 (thorough) characters over {x, space, tab, newline} x 8 ranges x numbering: the repaired design satisfies the property, each of the three design choices "
  "of the shipped code (stripnl, unguarded skip loop, remove_suffix before split) makes TLC exhibit a defect.  6 000 (quick) / 78 000 (thorough) real renders of Syntax "
  "(5 lexers incl. an unknown name, ranges inside/straddling/beyond, highlight_lines, word_wrap, code_width, indent guides, 4 themes, truecolor/plain, many widths) and of "
  "Traceback.from_exception over generated modules (leading blank lines, long files, first/last failing line, multi-frame, cross-module, chained, import-time) are projected to "
  "(number, marker, text) rows and judged row by row by TLC against the property part.  Bounded sampling plus a bounded model, not a proof about the Python code. The generator was audited against the quantifier and the public options of the anchored code; the dimensions it varies and the corners it deliberately keeps out are listed per property in DESIGN.md §13.",
  "Trusted: lexical gutter/panel projection (drivers/c17.py:project_rows, printed_lines, project_traceback), width classification (syn_mode), traceback.walk_tb as ground truth. "
  "Texts compared modulo trailing spaces; cropped rows (word_wrap off, narrow width) only as prefixes; spaces at wrap breaks may be absorbed; indent-guide characters accepted only over leading blanks; "
  "line_range judged only with line numbers; no control characters other than newline and tab; marker position in Syntax (non-traceback) and traceback window shape are DRIFT-only.",
  "TLA+ spec Syntax.tla; TLC exhaustive model check of the pipeline design with defect switches + TLC record validation (batch) of real Syntax/Traceback renders",
  "DESIGN.md §4 C17")

reg("C11",
    "ConsoleConc.tla models a print and a refresh at the grain of the code's critical sections (hook phase under the live lock, frame render, write "
    "under the console lock); TLC checks all interleavings of a 2-thread program against the Screen.tla invariants and deadlock freedom for the intended "
    "design (atomic print) and reports that the faithful design violates the screen invariant (the stale-erase race, a recorded known finding).  Real "
    "threads then run every PAIR of calls (one per thread, 47 programs over the three displays) under every schedule with one pre-emption at a lock / write / event point, and random programs (2-4 threads x 1-2 calls over print/log/capture/export/update+refresh/refresh/advance and, in a quarter of the "
    "programs, stop/start of the display from worker threads, with no display, a Live or a Progress, optionally with the refresh thread) under the deterministic scheduler: DFS with pre-emption bound 2 over lock/write/event points, bound 1 "
    "over every executed line of console.py/live.py/live_render.py/progress.py, random and PCT schedules; every recorded execution (calls, hook phases, "
    "writes, recorded copy) is judged by TLC: each print reaches the file exactly once and contiguously, captures are isolated, record order equals file "
    "order, no deadlock, and TLC replays the writes on Screen.tla for the C10 screen invariant.  Bounded schedules, not all.",
    "Trusted: engine/dsched.py (thread serialisation, lock/event proxies), engine/termlex.py, observation of the hook phase by wrapping "
    "LiveRender.position_cursor. No pre-emption inside a bytecode; <= 4 workers. Screen rejections attributable to the stale-erase race are reported as KNOWN-FINDING.",
    "TLA+ specs ConsoleConc.tla + Screen.tla; TLC model check of all interleavings of the fine-grain model + TLC validation of histories recorded from real threads under a deterministic scheduler (systematic pre-emption-bounded DFS, random, PCT)",
    "DESIGN.md §4 C11, §5")

reg("C19",
    "Part (b) redirected output: FileProxy.tla gives write()/flush() their meaning through Sgr.tla, an SGR/OSC-8 pen automaton written in TLA+ independently of "
    "Rich's decoder: the written chunks, concatenated, are interpreted as a terminal would; MC_FileProxy (M1) checks for every chunking of a stream into writes "
    "of 0..3 events with flushes that everything consumed is shown exactly once, in order, with the terminal's pens.  Every TLC-enumerated chunking and seeded "
    "random streams cut at arbitrary character positions (inside escape sequences, empty writes, many newlines, ESC[m, 256/24-bit colours, markup-/emoji-like "
    "text) run on a real FileProxy + truecolor console; both the chunks and the console's output are tokenised lexically and TLC decodes both with Sgr.tla and "
    "compares line by line, character by character, pen by pen (trace validation).  Part (a), decoder round trip, is judged by the same automaton (see C03). The generator was audited against the quantifier and the public options of the anchored code; the dimensions it varies and the corners it deliberately keeps out are listed per property in DESIGN.md §13.",
    "Trusted: engine/sgrlex.py (lexical tokeniser). Console wide enough not to wrap; CR/BS/VT/FF excluded; flush of an escape-only pending fragment not judged.",
    "TLA+ specs FileProxy.tla + Sgr.tla; TLC model check over all chunkings + TLC-generated chunkings replayed on the real FileProxy + TLC trace validation (TLC decodes the input and the output stream)",
    "DESIGN.md §4 C19")

reg("C16",
    "Pretty.tla formalises the literal grammar Rich emits, a recursive-descent evaluator for it written in TLA+ (incl. Python's (x) vs (x,) rule) and the clauses EvalOK / CycleMarker / Abbrev / OneLineIfFits / ExpandedLayout, and transcribes traverse()/_Line.expand()/Node.render(). "
    "TLC model-checks that transcription as a work-list state machine over every abstract value of a bounded domain (containers of <=2-3 items nested 3 levels, atom cell widths 1-2, optional cycle marker) x widths x indent sizes x expand_all x max_length against all clauses: with the closing-separator rule as released in 9.10.0 TLC exhibits the lost 1-tuple comma, with the repaired rule every invariant holds. "
    "The domain's values are instantiated and replayed on the real pretty_repr, together with a systematic family and seeded random values nested <= 6 (all nine container kinds, str/bytes/int/float/bool/None leaves, shared and cyclic references) x max_width 1..200 x indent_size x expand_all x max_length x max_string; every real output is tokenised and judged by TLC, which also reports whether the layout model reproduces it token for token (else DRIFT). Bounded conformance checking, not a proof about the Python code. The generator was audited against the quantifier and the public options of the anchored code; the dimensions it varies and the corners it deliberately keeps out are listed per property in DESIGN.md §13.",
    "Trusted: stdlib tokenize + lexical projection (kind/atom id/gap, '-'NUMBER merged), leaf<->atom id by ast.literal_eval + type, cell width via the tree's cell_len, python object -> abstract value traversal. Assumptions: finite floats; `<class 'T'>` read as factory T; deque maxlen not compared; dict keys are leaves/tuples of leaves; OneLineIfFits only for pure list/tuple/dict/set/frozenset values without cycles/abbreviation/expand_all; abbreviation clauses judge the reported counts and prefix property, not whether Rich abbreviates. quick: M1 63k states, 14k real calls; thorough: M1 1.4M states, 127k real calls.",
    "TLA+ spec Pretty.tla (evaluator + layout relations + transcription of pretty.py); TLC exhaustive model check of the layout design; TLC-generated values replayed on the real code; TLC record validation of tokenised real outputs with delta-debugged witnesses",
    "DESIGN.md §4 C16")

reg("C04",
    "TLC exhaustively checks the Markup design: for every token document of <=5 (thorough 6) Open/Close(name)/[/]/char tokens "
    "the tag-stack machine equals a stack-free statement of the rule (later-opened wins, most-recent-of-that-name, MarkupError exactly "
    "when nothing to close) and the span design; for every string of <=5 (6) symbols lexing escape(s) gives back s, stand-alone and "
    "embedded.  Real rich.markup.render(emoji=False)/escape executions are then judged record by record by TLC against the spec: every "
    "TLC-generated token document of 3 (4) tokens + simulated ones, ALL raw strings of length <=5 (6) over the 12-symbol alphabet "
    "(render result, MarkupError clause, escape clause), the embedded-escape clause in 6 contexts for all strings <=3 (4), and 6k (60k) "
    "random nested/overlapping documents with escaped leaves up to 200 chars.  Bounded conformance, not a proof of the Python code. The generator was audited against the quantifier and the public options of the anchored code; the dimensions it varies and the corners it deliberately keeps out are listed per property in DESIGN.md §13.",
    "Trusted: Style->(fg,bg,bold,link,other) projection; per-character styles read from Text.render segments; the style language "
    "(Style.normalize / Console.get_style of the tree under test) is taken as given for tag names and styles; emoji=False; where the "
    "docs are silent on what a tag is ('[' inside a tag, candidate not closed on its line) a disagreement is DRIFT.  10-tag vocabulary.",
    "TLA+ spec Markup.tla (lexer + tag-stack machine + escape relations); TLC exhaustive model check with per-action coverage + "
    "TLC-generated documents replayed on rich.markup.render + TLC batch validation of recorded render/escape executions",
    "DESIGN.md §4 C04")

reg("C13",
    "TLC judges everything. M1: exhaustive checks that the transcribed designs of set_cell_size/chop_cells (all width strings <= 6/7 x sizes 0..15 x chop widths 2..5), "
    "of the cell_len memo (capacity 2-3, strings <= 3: cached value and returned value always equal CellLen, incl. eviction) and of the Segment line-shaping helpers "
    "(<= 2/3 segments) satisfy the acceptance relations, and that the relations reject the classic wrong designs. M4: get_character_cell_size(chr(cp)) is compared by TLC "
    "with a linear first-match scan of the width table read from the tree under test - quick: every range boundary +-1, shortcut/surrogate edges, 5000 random; thorough: all "
    "1,114,112 code points. M3: cell_len/set_cell_size/chop_cells for all strings over 8/12 concrete mixed-width characters up to length 4 and random strings <= 80 x sizes 0..100; "
    "call histories on the real process-wide caches that exceed both 4096-entry capacities, interleave uncached > 64-char strings and re-measure evicted and resident keys in "
    "different orders; TLC-enumerated (M2) and random histories on a real LRUCache of capacity 1-4 replayed step by step; adjust_line_length / split_and_crop_lines / set_shape / "
    "split_lines / simplify / get_shape records (exact length, characters+styles unchanged, pad style, newline placement). Bounded testing judged by a formal spec, not a proof about the Python code. The generator was audited against the quantifier and the public options of the anchored code; the dimensions it varies and the corners it deliberately keeps out are listed per property in DESIGN.md §13.",
    "Trusted: str<->code-point and Style->id (identity, then ==) projections, reading CELL_WIDTHS from the tree under test, VERDICT parsing. Width is DEFINED by the tree's table "
    "(a changed table is DRIFT, still judged). Where the statement is silent (style of the filler for a half-cut wide char, trailing empty line, set_shape with height < lines, control flags, "
    "maximal fill of chop/crop) every behaviour is allowed; differences from the transcription there are DRIFT only. Hangs inside Rich are observed through a CPU-time watchdog.",
    "TLA+ specs Cells.tla / Segments.tla / LruCache.tla; TLC exhaustive model checks + TLC slice evaluation over all code points + TLC-generated cache histories replayed on the real LRUCache + TLC validation of recorded executions",
    "DESIGN.md §4 C13")

reg("C06",
    "TLC checks exhaustively, over all triples of a small style domain (2 tri-state attributes, 2/3 colours + unset, 2 links + none: 14M / 80M triples), that the abstract Add is associative, has Null as identity, is right-biased per field, that Combine is its fold, that the bit-mask design of __add__ refines it and that Str/Parse round-trip. A construction-routes machine (keywords, parse, normalize.parse, from_color, +, chain, combine, copy, update_link, without_color, str; depth 3) is model-checked for refinement and hash-key consistency of the derived-hash design (the stored-hash transcription of 9.10.0 is refuted by TLC). Every generated route (26k / 59k) is rebuilt with real constructors under bindings covering all 156 ordered pairs of the 13 real attributes, together with triples over the full 13-attribute domain and style definitions (all <=2 / <=3-word definitions over a 52-word vocabulary plus random longer ones). TLC judges each recorded execution (44k / 500k) for right bias, associativity, identity, parse = named style, str/normalize round trips and eq=>hash over all pairs of objects in a record. Bounded conformance, not a proof about the Python code. The generator was audited against the quantifier and the public options of the anchored code; the dimensions it varies and the corners it deliberately keeps out are listed per property in DESIGN.md §13.",
    "Trusted: the driver's lexer for definitions and str() output; projection via public getters (Color -> type/number/triplet + spelling class of its name); substitution of real attributes, colours and urls for the model's; ==/hash() booleans computed by Python. Links non-empty without whitespace; colours limited to default / table names / color(n) / #rrggbb / rgb() in canonical decimal form, and Color objects from parse, from_ansi, from_rgb, default. Values of copy / update_link / without_color / from_color, error cases, upper-case and redefining definitions are only pinned as DRIFT. lru caches are cleared per case.",
    "TLA+ specs Style.tla / MC_Style / Trace_Style; TLC exhaustive model check of the laws and of the constructor-routes machine, TLC-generated routes replayed on the real Style class, TLC batch validation of recorded executions",
    "DESIGN.md §4 C06")

reg("C18",
    "TLC judges the real Color.downgrade(system) (first and second call) and Color.get_ansi_codes(foreground=) point by point against Color.tla: result in the gamut of the target, default stays default, representable colours unchanged (standard index n may be re-tagged windows n), 16-colour targets pick an index of minimum distance under the exact integer radicand of palette.py (any minimiser accepted; sqrt shown order- and tie-preserving), greys to 256 land on {16,231} u 232..255, second conversion identical, SGR parameters 30-37/90-97, 40-47/100-107, 38;5;n/48;5;n, 38;2;r;g;b/48;2;r;g;b, 39/49 for sources and results. Quick: 62 415 stratified source colours. Thorough: all 16 777 216 RGB colours plus the 256 indexed colours and default x {standard, 256, truecolor, windows} x fg/bg (exhaustive enumeration with TLC as evaluator, not state exploration). M1: a transcription of the algorithm in integer/rational arithmetic is model-checked against the relation on a lattice (73 k states, every path of the algorithm covered, relation shown non-trivial). The generator was audited against the quantifier and the public options of the anchored code; the dimensions it varies and the corners it deliberately keeps out are listed per property in DESIGN.md §13.",
    "Trusted: projection Color->(kind, number, r, g, b), decimal strings->ints, dictionary/delta-run grouping of equal observations and the `is` identity test (drivers/c18.py); palettes read from the tree under test. For the 256 target the statement only requires gamut and grey ramp: changes of the cube or threshold arithmetic that stay in gamut are reported as DRIFT against the transcription, not as violations. The 24 saturation ties and 5 grey-step rounding ties are left open in the transcription. Windows-typed and EIGHT_BIT-typed n<16 sources are outside the quantifier (gamut only). Cube sweep: 16-colour tie-break drift compared on 1 row in 8.",
    "TLA+ spec Color.tla; TLC exhaustive model check of the transcription (MC_Color) + TLC slice evaluation (Trace_Color) of recorded real executions over the whole finite input space",
    "DESIGN.md §4 C18")

reg("C03",
    "Sgr.tla is an SGR / OSC-8 terminal pen automaton written in TLA+ independently of Rich's encoder and decoder.  MC_Sgr (M1) checks that the encoder design "
    "(which parameters a style becomes, reset after every segment) composed with that automaton gives back the intended pen for every pen of a 7 452-element domain and "
    "leaves nothing behind.  Seeded random sequences of 1-6 styled segments (13 tri-state attributes x none/default/standard/indexed/24-bit foreground and background x "
    "links, bell control segments) are printed on real consoles of every colour system x NO_COLOR x terminal x legacy-windows configuration, the SAME Style objects on up to 4 "
    "consoles in a row; the written characters are tokenised lexically and TLC interprets them with Sgr.tla and judges: visible characters, per-character attributes / "
    "foreground / background / link against what the style means (after the documented down-conversion), no leak past the end, no escape with colour disabled, no colour "
    "parameter under NO_COLOR, no control code on a non-terminal.  Bounded sampling judged by a formal terminal model. One flush of several hundred segments (neighbours with equal SGR parameters and different hyperlinks) is part of the hand-listed sweep. The repository's own test-suite is a further trace source: tools/pytest_sgrtrace.py logs every Console._render_buffer call the 441 tests make (segments in, characters out) as a Trace_Sgr record and TLC judges each (180 distinct records on the unchanged tree). The generator was audited against the quantifier and the public options of the anchored code; the dimensions it varies and the corners it deliberately keeps out are listed per property in DESIGN.md §13.",
    "Trusted: engine/sgrlex.py; expected pens are read from the Style's public getters and Color.downgrade (the down-conversion itself is C18's subject). Console wide enough "
    "not to wrap.",
    "TLA+ spec Sgr.tla (independent terminal automaton) + MC_Sgr (encoder design vs automaton, exhaustive over a pen domain) + TLC validation of the tokenised output of real consoles (Trace_Sgr)",
    "DESIGN.md §4 C03")

reg("C15",
    "Record.tla formalises the five clauses on token streams (visible text = everything except escape sequences and C0 controls; an ANSI pen decoder in TLA+) "
    "and models console.py's thread buffer, capture marks, record, _render_buffer, Segment.simplify/filter_control and HTML escaping, one operator per public call. "
    "TLC (M1) checks every history of 3 (quick) / 4 (thorough) calls over the full call/chunk alphabet and 5 / 6 calls over a core alphabet, colour system x terminal; "
    "the repaired design satisfies all clauses and each of 7 shipped or mutated design choices is exhibited as a defect of the right clause. Every 2-call history, "
    "400 / 6 000 TLC-simulated 6 / 9-call histories and 1 200 / 20 000 seeded random histories (<= 30 calls; strings with < > & entities quotes, styled Text, links, wide "
    "characters, bare newlines, Control, spans, Panel, Table, print options, log, rule, line, bell, clear, show_cursor, control, captures nested <= 3, export/save text and HTML x "
    "clear x styles/inline; 4 colour systems x terminal x 5 widths) run on a real recording Console and on an identical console that never captures; every write and every "
    "capture/export result is tokenised and TLC replays the history through the property part, naming the failing clause (trace validation). Bounded; conformance, not proof. The generator was audited against the quantifier and the public options of the anchored code; the dimensions it varies and the corners it deliberately keeps out are listed per property in DESIGN.md §13.",
    "Trusted: engine/ansilex.py (lexical ANSI tokeniser; html.parser for tag removal + entity decoding, <pre> only; chunk labels by literal match), the twin console as reference for "
    "'as it would have been written'. Printed text has no C0 controls but newline; markup/emoji/highlight off. Clauses 1-3 strict only on capture-free histories; after sequential "
    "captures either 'recorded' or 'not recorded' is accepted (drift); unjudged between a nested capture / clearing export inside a capture and the next clearing export. Colours compared "
    "modulo down-conversion; HTML styles only inline-vs-class (drift). Control codes inside the styled export are tolerated (decoded away).",
    "TLA+ spec Record.tla; TLC exhaustive model check with defect switches + TLC-generated (exhaustive and -simulate) histories replayed on the real Console + TLC trace validation of tokenised file / capture / export streams",
    "DESIGN.md §4 C15")

reg("C01",
    "Layout.tla formalises the structural minimum MinW of C01 over abstract renderable trees (13 built-in kinds + protocol-only renderables) and the quantifier (InScope); TLC (M1) exhaustively checks the laws of MinW/InScope and that the code's top-down budget arithmetic leaves every child its MinW at W=MinW, over all builder histories of <=3/5 (thorough 4/6) actions, and (M2) emits every <=2-action history with full option products plus simulated 9-action histories. These trees and seeded random trees (nesting <=4, every layout option of the quantifier, ASCII/CJK/emoji/combining/zero-width/newline/tab contents; quick 900 trees, thorough ~14 000) are built as real Rich objects and rendered with Console.render at every W in MinW-2..MinW+12 and a x1.5 ladder to 200; every sub-tree is rendered again stand-alone at the budgets its parent handed down. TLC computes MinW from the tree and judges Fits for every W >= MinW; rejections are delta-debugged with TLC judging every round. Bounded sampling judged by a formal spec, not a proof. The generator was audited against the quantifier and the public options of the anchored code; the dimensions it varies and the corners it deliberately keeps out are listed per property in DESIGN.md §13.",
    "Trusted: segments->lines->cell_len of the tree under test (C13), character->(class,width) projection, tree->constructor calls. Conservative MinW choices C1-C8 in Layout.tla (titled rules +4, width options below the minimum / non-free tables / exposed ignore leaves are out of scope); a rejected record with a rejected sub-tree is attributed to the sub-tree; Console(color_system=None, utf-8).",
    "TLA+ spec Layout.tla; TLC exhaustive model check of the MinW/budget laws + TLC-generated builder histories instantiated as real renderables + TLC validation of recorded renders (trace validation), TLC-judged delta debugging",
    "DESIGN.md §4 C01")

reg("C09",
    "Same tree sources as C01 (Layout.tla, TLC-generated builder histories and seeded random trees incl. renderables without a measure method and __rich__ casts); every sub-tree is measured with Measurement.get at avail in {0..5, MinW-1..MinW+6, x1.6 ladder to 200, random points} and rendered with exactly the reported max and min; TLC judges 0<=min<=max<=avail, Fits at max/min when >=MinW, and for text leaves without tabs (quick ~2 800, thorough ~30 000) min = widest word and max = widest line computed by TLC from per-character classes/widths, and line count at max = source lines. Under-measurement by containers is outside the statement and not detected. Bounded. The generator was audited against the quantifier and the public options of the anchored code; the dimensions it varies and the corners it deliberately keeps out are listed per property in DESIGN.md §13.",
    "Trusted as for C01; the minimum of a text without any word is not judged (statement silent); out-of-scope trees are judged on bounds and text clauses only.",
    "TLA+ spec Layout.tla; TLC-generated builder histories instantiated as real renderables + TLC validation of recorded measurements and renders, TLC-judged delta debugging",
    "DESIGN.md §4 C09")

reg("C08",
    "Frames.tla states the C08 relations (PanelOK, PaddingOK, AlignOK, ConstrainOK, StyledOK, RuleOK, BarOK, ColumnsOK, TreeOK; each names its first "
    "failing clause) over lexically projected renders, plus the design arithmetic of panel/padding/align (RefRender).  TLC (M1) checks, for every "
    "composition of <= 2 (quick) / <= 3 (thorough) panel/padding/align frames x 24 option sets around 3 leaves x 6 widths, that the design satisfies the "
    "relations and that three classic wrong designs (child one cell narrower than framed, centre rounded up, left/right padding swapped) are rejected; "
    "(M2) all 1 728 two-frame compositions are rebuilt from the real classes and replayed.  Those and seeded random Panel / Padding / Align / Constrain / "
    "Styled / Rule / Bar / ProgressBar / Columns / Tree objects (children: self-identifying ASCII / double-width / zero-width / multi-line text, tables, "
    "groups, nested frames, random layout trees; every rich.box, titles, width options, paddings, ascii-only / legacy-windows / colour on-off consoles) "
    "are rendered with Console.render at widths from the structural minimum up; the ConsoleOptions a frame hands to its child are observed and the child "
    "is rendered alone with them; TLC judges every record (M3, ~10 k quick / ~140 k thorough).  Corrupted copies of accepted records must be rejected in "
    "every run.  Bounded random conformance, not a proof. The generator was audited against the quantifier and the public options of the anchored code; the dimensions it varies and the corners it deliberately keeps out are listed per property in DESIGN.md §13.",
    "Trusted: segments -> lines -> code point*4 + rich.cells width (style ids by str(style)); the Console.render hook; runs of identifying characters for "
    "Columns; drivers' structural minimum (only picks widths / tells TLC where the domain starts); spec -> constructor calls.  Domain: W >= Layout!MinW, "
    "width options >= that minimum; frames whose child itself overflows are skipped (C01); titles without line breaks / markup.  Centred Align must use "
    "excess div 2; centred Panel/Rule titles only balanced within one cell (rounding, tree guide shapes, label budget, Columns expand, solid Bar exact = "
    "DRIFT).  TLC -coverage exhausts memory on the recursive relations, so action coverage is asserted on a separate run of the bare state graph.",
    "TLA+ spec Frames.tla; TLC exhaustive check that the frame-composition design satisfies the relations and wrong designs do not + TLC-emitted "
    "compositions replayed on the real classes + TLC batch validation (M3) of recorded renders",
    "DESIGN.md §4 C08")

reg("C14",
    "Parsers.tla states, per entry point, the documented outcome set (Allowed) and a character-level grammar predicting the outcome class (Color.parse: RE_COLOR + int()/range rules incl. Unicode decimal digits vs superscripts; Style.parse: fold over words incl. normal form; Console.get_style; markup: Markup.tla's tag lexer + closing-tag matching through Style.normalize). TLC model-checks the grammar's own sanity (Predicted within Allowed, layering of colour/style/get_style, normal form a fixed point, about 60 unit assumptions, every (entry, predicted class) reachable) and enumerates every token sequence over per-entry alphabets of 14-36 syntax-significant fragments up to length 4 (quick) / 5 (thorough), also inside 3-4 syntactic contexts. Each sequence (207k quick / 3.1M thorough) is fed to the real entry point (Color.parse, Style.parse, get_style with/without default, markup.render, Console.print with/without markup on two consoles, AnsiDecoder.decode, Text) and TLC judges the observed exception class: outside Allowed = violation, allowed but not predicted = drift. 2,500 / 40,000 seeded random Unicode strings (astral, controls, combining, bidi, digits of 15 scripts and No/Nl numerics, 4301-6000-character runs, 26 syntax templates) go to all 9 entry points (property part only). 410 / 7,150 trees of built-in renderables with valid options (layout_gen + option stress + boundary recipes) are rendered, printed and measured at 19 widths from 1 to 200; TLC requires outcome ok at every width >= 1. Bounded conformance testing judged by TLC, not a proof; 'every string' is approximated by the token bound plus sampling. The generator was audited against the quantifier and the public options of the anchored code; the dimensions it varies and the corners it deliberately keeps out are listed per property in DESIGN.md §13.",
    "Trusted: drivers/c14.py:describe (exception class name, isinstance facts for the four documented classes, raising frame), layout_gen.build. Assumptions: StringIO consoles (stream encoding errors outside), surrogate-free strings <= ~6000 characters, trees of nesting <= 4 (RecursionError/MemoryError from absurd sizes outside), 60 s / 120 s call deadline recorded as NoTermination; excluded options: Rule(characters of zero width) (documented ValueError), non-positive widths/paddings, Bar begin/end outside 0..size; layout_gen's user-defined wrapper kinds unwrapped. Name tables (ANSI_COLOR_NAMES, default theme) read from the tree under test.",
    "TLA+ spec Parsers.tla (+ Markup.tla lexer); TLC exhaustive enumeration of token sequences with grammar sanity invariants and per-class action coverage (M1/M2); every enumerated input replayed on the real parsers; TLC record validation of outcome classes with drift channel (M3); random Unicode and random renderable trees judged by TLC with batched delta-debugged witnesses",
    "DESIGN.md §4 C14")

reg("C02",
    "Wrap.tla formalises WrapOK(input, lines) on sequences of styled characters [code, width, id, effective style]: (a) with fold the non-whitespace characters of the output are exactly those of the input, in order; (b) fold/crop/ellipsis lines fit the width; (c) every output character that is an input character keeps its effective style; (d) a word lies on two lines only if indentation + word is wider than the width. RefWrap transcribes Text.wrap (split, expand_tabs, divide_line + chop_cells, divide, rstrip_end, Lines.justify, truncate). TLC (M1) checks WrapOK(I, RefWrap(I)) for every string over {narrow, wide, zero-width, space, tab, newline} of up to 5 (quick) / 6 (thorough) characters x widths 2..6 x 5 justify x 4 overflow x no_wrap (tab sizes 2/4 and soundness of the character identification one length shorter) and must reject four wrong designs (chop loses a character, no final truncate, style slips over a break, word broken though it fits). (M2) every enumerated class string is made concrete with distinct code points from pools starting at the edges of the tree's width table and run through the real Text.wrap: 73 000 / 544 000 enumerated calls plus 2 500 / 25 000 random texts of up to 200 characters with a base style and up to 14 overlapping / nested / duplicate / empty spans at widths 2..200; (M3) TLC computes the effective input styles from base + spans (TextOps semantics), identifies the output characters by code point and judges WrapOK clause by clause; a difference from RefWrap alone is DRIFT. Bounded; conformance, not proof. The generator was audited against the quantifier and the public options of the anchored code; the dimensions it varies and the corners it deliberately keeps out are listed per property in DESIGN.md §13.",
    "Trusted: per-character style read back with Text.render (c05.observe), character widths from rich.cells (C13), class pools chosen with the tree's own width function. Whitespace = space/tab/newline; (a), (b) demanded only when wrapping happens (no_wrap false, overflow != ignore); spaces identified only in interior runs (justify != full) and leading runs (default/left) - padding, full-justify gaps and tab fill are only compared with RefWrap (drift); with repeated code points and dropped characters (c) degrades to 'style of a namesake' and (d) skips the word. Not reached: texts > 200 characters, tab sizes other than 2/4/8, other Unicode spaces, negative span offsets.",
    "TLA+ spec Wrap.tla (acceptance relation + transcription of Text.wrap); TLC exhaustive model check of the design against the relation with wrong-design vacuity guards + TLC-enumerated inputs replayed on the real Text.wrap + TLC validation of the recorded outputs (trace validation; drift against the transcription)",
    "DESIGN.md §4 C02")

reg("C07",
    "Ratio.tla transcribes ratio_distribute / ratio_reduce / Table._collapse_widths in exact integer arithmetic; TLC (M1) checks the promised properties of the transcription on every instance of a grid (totals 0..14, up to 3 (quick) / 4 (thorough) slots) and every instance is also run through the real functions and compared by TLC (drift vs broken promise). Table.tla defines the structural minimum and the clauses Rect / ExpandExact / RowOrder / CellsInColumn over a lexically projected render; MC_Table shows an ideal render of every small recipe is accepted and 8 classic corruptions rejected, and emits random builder histories; those plus seeded random recipes (1..6 columns, 0..8 rows, all options of the quantifier, wide / zero-width / multi-line / nested cells) are built as real rich.table.Table objects, rendered at 5..7 widths from the structural minimum to 200 and judged by TLC (Trace_Table). TableSolver.tla transcribes Table._calculate_column_widths as a whole on top of Ratio.tla; MC_TableSolver (unit-increment states, BFS depth = instance size) exhibits both open findings as smallest counter-examples of the design as it is, model-checks a repaired design (one raise + recollapse step before return) for fits/fed/exact, conservativeness and by ablation; every emitted instance (<=3 columns, content 1..2/<=6, paddings incl. pad_edge/collapse_padding, ratios, min_width; thorough also width/max_width/no_wrap/Table.min_width) is run through the real method at 5..7 widths from the structural minimum and compared by TLC (Trace_TableSolver: same/repaired/patched/DRIFT, never a violation). Bounded sampling plus conformance, not a proof; only the first failing clause per record is reported. The generator was audited against the quantifier and the public options of the anchored code; the dimensions it varies and the corners it deliberately keeps out are listed per property in DESIGN.md §13.",
    "Trusted: drivers/c07.py project/build (characters attributed by per-cell alphabets, blanks and borders by colour tags; widths from rich.cells, C13). Title/caption are not body; Table.width exactness and padding sides are DRIFT only; no_wrap columns with nested renderables, ratio=0 and width caps below the content minimum are outside. Open findings: solver not minimum-aware; min_width re-imposed after collapse (a ~30-line repair is model-checked and kept under proposed_repairs/, not applied: not a minimal change; an empty no_wrap column in an expanding table rendering one cell too wide is masked by the min_width finding).",
    "TLA+ specs Ratio.tla / Table.tla; TLC exhaustive model check of the arithmetic with one real call per model state; TLC check of the acceptance relation against ideal and corrupted renders; TLC-generated (-simulate) builder histories and seeded random recipes rendered by the real Table; TLC batch validation of projected renders; delta-minimisation where each round is one TLC batch",
    "DESIGN.md §4 C07")
