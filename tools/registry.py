"""Per-property registration data -> MANIFEST.json (python3 tools/mkmanifest.py)."""
CHECKS = {}
PENDING = {}

def reg(pid, text, note, technique, design_ref):
    CHECKS[pid] = dict(text=text, note=note, technique=technique, design_ref=design_ref)

reg("C20",
    "TLC exhaustively checks the ThemeStack design (dictionary collapse at push == declarative lookup rule, pop restores, base never popped) "
    "and enumerates every push/pop/use_theme history of 3 (quick) / 4 (thorough) operations; each of those plus seeded random histories "
    "(<= 14 ops) is executed on a real Console and the get_style() table observed after every call is validated step by step by TLC "
    "against the specification's actions (trace validation).  Bounded, not a proof about the Python code.",
    "Trusted: projection of a Style to an id by ==; use_theme blocks well nested; 4 names / 2 style ids / 9 themes.",
    "TLA+ spec ThemeStack.tla; TLC exhaustive model check + TLC-generated histories replayed on the real Console + TLC trace validation of recorded histories",
    "DESIGN.md §4 C20")
