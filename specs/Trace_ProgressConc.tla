------------------------- MODULE Trace_ProgressConc -------------------------
(* M3, concurrent histories: call / return events of several real threads (scheduled by dsched)
   on one Progress.  A history is accepted iff the calls can be linearised - each taking effect
   atomically (Progress.tla) at some point between its call and its return - so that every
   snapshot taken by a refresh (read) shows exactly the model's completed counts, a started task
   that reached its total shows finished, and no snapshot shows a negative speed / time remaining. *)
EXTENDS Progress, Json, IOUtils

Traces == JsonDeserialize(IOEnv.TRACE_FILE)
VARIABLES tid, l, tasks, now, pend, verdict
vars == <<tid, l, tasks, now, pend, verdict>>
Tr == Traces[tid]
Ids == {1, 2}
Absent == [absent |-> TRUE]
Idle == [active |-> FALSE]

\* clauses that need no search: every snapshot of a history with only non-negative advances
Reads == {i \in 1..Len(Tr.events) : Tr.events[i].e = "ret" /\ Tr.events[i].op.k = "read"}
Pre == IF Tr.deadlock THEN "deadlock"
       ELSE IF Tr.exc # "none" THEN "raises-" \o Tr.exc
       ELSE IF Tr.nonneg /\ \E i \in Reads : \E j \in Ids : Tr.events[i].obs[j].exists /\ Tr.events[i].obs[j].speedSign = 0 - 1
            THEN "negative-speed"
       ELSE IF Tr.nonneg /\ \E i \in Reads : \E j \in Ids : Tr.events[i].obs[j].exists /\ Tr.events[i].obs[j].running /\ Tr.events[i].obs[j].remSign = 0 - 1
            THEN "negative-time-remaining"
       ELSE "search"

Init == /\ tid \in 1..Len(Traces) /\ l = 1 /\ now = 0
        /\ tasks = [i \in Ids |-> IF Traces[tid].init[i].exists
                                  THEN NewTask(Traces[tid].init[i].total, Traces[tid].init[i].completed, TRUE, 0) ELSE Absent]
        /\ pend = [t \in 1..Traces[tid].nthreads |-> Idle]
        /\ verdict = Pre

\* the search only needs counts and finished flags: speed samples and the clock are left out of the state so
\* that commuting calls (advances of one task, calls on different tasks) lead to the same state - the search
\* stays polynomial for 6-8 threads.  Negative speed / time remaining are judged directly on the snapshots (Pre).
NoSamples(t) == IF t = Absent THEN t ELSE [t EXCEPT !.samples = <<>>]
Effect(op) ==
    CASE op.k = "advance" -> [tasks EXCEPT ![op.id] = NoSamples(Advance(@, op.a, now))]
      [] op.k = "update"  -> [tasks EXCEPT ![op.id] = NoSamples(Update(@, op.total, op.completed, op.advance, now))]
      [] op.k = "reset"   -> [tasks EXCEPT ![op.id] = NoSamples(Reset(@, TRUE, None, op.completed, now))]
      [] OTHER            -> tasks

ReadOK(obs) == \A i \in Ids :
    /\ obs[i].exists = (tasks[i] # Absent)
    /\ (tasks[i] # Absent =>
          /\ obs[i].c2 = tasks[i].lastSet + tasks[i].sumAdv
          /\ (Finished(tasks[i]) => obs[i].finished))

CallEv == /\ l <= Len(Tr.events) /\ Tr.events[l].e = "call"
          /\ pend' = [pend EXCEPT ![Tr.events[l].t] = [active |-> TRUE, done |-> FALSE, op |-> Tr.events[l].op, at |-> l]]
          /\ l' = l + 1 /\ UNCHANGED <<tid, tasks, now, verdict>>
\* the linearisation point of a pending call; for a read the snapshot is the one logged at its return
RetObs(t) == LET idx == CHOOSE i \in (pend[t].at + 1)..Len(Tr.events) : Tr.events[i].e = "ret" /\ Tr.events[i].t = t IN Tr.events[idx].obs
Linearise(t) == /\ pend[t].active /\ ~pend[t].done
                /\ IF pend[t].op.k = "read" THEN ReadOK(RetObs(t)) /\ UNCHANGED tasks
                   ELSE tasks' = Effect(pend[t].op)
                /\ UNCHANGED now
                /\ pend' = [pend EXCEPT ![t].done = TRUE]
                /\ UNCHANGED <<tid, l, verdict>>
RetEv == /\ l <= Len(Tr.events) /\ Tr.events[l].e = "ret"
         /\ pend[Tr.events[l].t].active /\ pend[Tr.events[l].t].done
         /\ pend' = [pend EXCEPT ![Tr.events[l].t] = Idle]
         /\ l' = l + 1 /\ UNCHANGED <<tid, tasks, now, verdict>>

Next == verdict = "search" /\ (CallEv \/ RetEv \/ \E t \in DOMAIN pend : Linearise(t))
Spec == Init /\ [][Next]_vars

Report == /\ (verdict # "search" => PrintT(<<"VERDICT", tid, verdict>>))
          /\ ((verdict = "search" /\ l = Len(Tr.events) + 1) => PrintT(<<"VERDICT", tid, "ok">>))
=============================================================================
