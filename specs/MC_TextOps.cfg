CONSTANTS
  GenDepth = 3
  MCDepth = 2
SPECIFICATION Spec
VIEW View
CONSTRAINT DepthBound
INVARIANT NoFresh
INVARIANT StyleOnlyKeepsChars
INVARIANT DivideConcat
INVARIANT SplitConcat
INVARIANT SplitNoSep
INVARIANT CropIsPrefix
INVARIANT TruncateFits
INVARIANT AlignExact
INVARIANT JustifyExact
INVARIANT FitExact
INVARIANT BlankCopyEmpty
INVARIANT SetPlainCodes
INVARIANT TokensAppend
INVARIANT SetLengthExact
INVARIANT NoTabsLeft
INVARIANT SurvivorsKeepStyle
INVARIANT NoControlChars
CHECK_DEADLOCK FALSE
