---------------------------- MODULE Trace_Syntax ----------------------------
(* M3: every record is one real render of the tree under test, lexically projected by
   drivers/c17.py:

   kind = "syn"  one Console.print(Syntax(code, lexer, **options)):
       src (code points), tab, start, numbers, range (<<>> or <<a, b>>), hl (highlight_lines),
       mode ("exact": every line fits the code width / "prefix": word_wrap off and the width may
       crop / "wrap": word_wrap on), guides (indent guides drawn), known (lexer name exists),
       conf (compare with the implementation-shaped model), exc ("none" or exception class),
       gutter_ok, rows = <<[hasn, n, m, t]>>
   kind = "tb"   one frame of one Console.print(Traceback.from_exception(...)):
       src (code points of the frame's file), tab (4), lineno (Python's own tb_lineno), mode,
       guides, exc, found (code rows were rendered for this frame), gutter_ok, rows

   The verdict is the first failing clause of the PROPERTY part (Syntax!SynVerdict /
   Syntax!TbVerdict) or "ok"; " drift:<what>" is appended when only the implementation-shaped
   part disagrees (never a violation).                                                        *)
EXTENDS Syntax, Json, IOUtils

\* the pipeline design of the tree the model describes (see Syntax!ImplRows); flip together
\* with the code when a fix lands - a mismatch only produces DRIFT lines
CONSTANTS ImplStripNl, ImplGuardSkip, ImplSuffixFirst

Recs == JsonDeserialize(IOEnv.TRACE_FILE)

VARIABLE tid
Init == tid \in 1..Len(Recs)
Next == UNCHANGED tid
Spec == Init /\ [][Next]_tid

\* rows that carry the pointer are exactly the numbered rows whose number is in highlight_lines
\* (the statement only speaks of the marker for tracebacks -> implementation-shaped)
MarkersAsHighlight(r) ==
    \A k \in 1..Len(r.rows) :
        r.rows[k].m <=> (r.rows[k].hasn /\ \E i \in 1..Len(r.hl) : r.hl[i] = r.rows[k].n)

SynDrift(r) ==
    IF r.exc = "none" /\ r.gutter_ok /\ ~MarkersAsHighlight(r) THEN " drift:marker-not-on-highlight-lines"
    ELSE IF r.conf /\ ~ImplAgrees(r, r.known, ImplStripNl, ImplGuardSkip, ImplSuffixFirst)
         THEN " drift:pipeline-model-differs"
    ELSE ""

\* window of a traceback frame: lineno - extra .. lineno + extra, clipped (traceback.py:491-494)
TbDrift(r) ==
    IF r.exc # "none" \/ ~r.found \/ ~r.gutter_ok THEN ""
    ELSE LET G == Groups(r.rows)
             all == AllLines(r.src, r.tab)
             lo == MaxI(1, r.lineno - r.extra)
         IN IF \E n \in ExistCounts(all) :
                  /\ Len(G) = ClipCount(<<r.lineno - r.extra, r.lineno + r.extra>>, n)
                  /\ \A k \in 1..Len(G) : G[k].n = lo + k - 1
            THEN "" ELSE " drift:window-shape"

Verdict(r) == IF r.kind = "syn"
              THEN LET v == SynVerdict(r) IN v \o SynDrift(r)
              ELSE LET v == TbVerdict(r) IN v \o (IF v = "ok" THEN TbDrift(r) ELSE "")

Report == PrintT(<<"VERDICT", tid, Verdict(Recs[tid])>>)
=============================================================================
