---------------------------- MODULE Trace_Cells ----------------------------
(* M3/M4 judge for records produced by the real rich.cells functions (drivers/c13.py).
   kinds:  slice  [lo, obs]          get_character_cell_size(chr(cp)) for cp = lo .. lo+Len(obs)-1
           cps    [cps, obs]         the same for a list of code points, in call order (sparse
                                     samples and cache-eviction histories)
           str    [s, len, sets, chops]   cell_len(s); set_cell_size(s, n) -> r for several n;
                                     chop_cells(s, w, pos) -> pieces for several (w, pos)
           hist   [events [s, obs]]  a history of cell_len calls on the process-wide cache
           mix    [events [op, s, n, pos, obs, r, err]]   a history that mixes the entry points on the process-wide
                                     caches: op = "len" cell_len(s) -> obs | "seg" Segment(s).cell_length -> obs |
                                     "chr" sum of get_character_cell_size over s -> obs | "set" set_cell_size(s, n) -> r[1] |
                                     "chop" chop_cells(s, n, pos) -> r; results of earlier calls are measured again later
           table  []                 is the table sorted and disjoint, as the statement assumes?
   An observation of -1000 / err # "" stands for "the call raised".
   Verdict: "ok", the failing property clause, or "drift ..." when only the transcription
   (RefSetCellSize / RefChop) disagrees.                                                    *)
EXTENDS CellsData

VARIABLE tid
vars == <<tid>>

I2S(i) == ToString(i)

SliceWhy(r) ==
    LET Why(k) == IF r.obs[k] = CharW(r.lo + k - 1, Table) THEN "ok" ELSE "width-differs"
        j == FirstBadIdx(Len(r.obs), Why)
    IN IF j = 0 THEN "ok"
       ELSE "cp " \o I2S(r.lo + j - 1) \o ": width-differs obs=" \o I2S(r.obs[j])
            \o " table=" \o I2S(CharW(r.lo + j - 1, Table))

CpsWhy(r) ==
    LET Why(k) == IF r.obs[k] = CharW(r.cps[k], Table) THEN "ok" ELSE "width-differs"
        j == FirstBadIdx(Len(r.obs), Why)
    IN IF j = 0 THEN "ok"
       ELSE "call " \o I2S(j) \o " cp " \o I2S(r.cps[j]) \o ": width-differs obs=" \o I2S(r.obs[j])
            \o " table=" \o I2S(CharW(r.cps[j], Table))

StrWhy(r) ==
    LET s == Str(r.s)
        SetWhy(i) == IF r.sets[i].err # "" THEN "raised"
                     ELSE SetCellSizeWhy(s, r.sets[i].n, Str(r.sets[i].r))
        ChWhy(i) == IF r.chops[i].err # "" THEN "raised"
                    ELSE ChopWhy(s, r.chops[i].w, r.chops[i].pos, Strs(r.chops[i].r))
        SetDrift(i) == IF Str(r.sets[i].r) = RefSetCellSize(s, r.sets[i].n) THEN "ok" ELSE "d"
        ChDrift(i) == IF Strs(r.chops[i].r) = RefChop(s, r.chops[i].w, r.chops[i].pos) THEN "ok" ELSE "d"
        js == FirstBadIdx(Len(r.sets), SetWhy)
        jc == FirstBadIdx(Len(r.chops), ChWhy)
    IN IF r.len # CellLen(s) THEN "cell_len: result-differs obs=" \o I2S(r.len) \o " spec=" \o I2S(CellLen(s))
       ELSE IF js # 0 THEN "set " \o I2S(js) \o ": " \o SetWhy(js)
       ELSE IF jc # 0 THEN "chop " \o I2S(jc) \o ": " \o ChWhy(jc)
       ELSE LET ds == FirstBadIdx(Len(r.sets), SetDrift)
                dc == FirstBadIdx(Len(r.chops), ChDrift)
            IN IF ds # 0 THEN "drift set " \o I2S(ds) \o ": differs-from-RefSetCellSize"
               ELSE IF dc # 0 THEN "drift chop " \o I2S(dc) \o ": differs-from-RefChop"
               ELSE "ok"

HistWhy(r) ==
    LET Why(k) == IF r.events[k].obs = CellLen(Str(r.events[k].s)) THEN "ok" ELSE "result-differs"
        j == FirstBadIdx(Len(r.events), Why)
    IN IF j = 0 THEN "ok"
       ELSE "step " \o I2S(j) \o ": result-differs obs=" \o I2S(r.events[j].obs)
            \o " spec=" \o I2S(CellLen(Str(r.events[j].s)))

MixWhy(r) ==
    LET Why(k) == LET e == r.events[k]  s == Str(e.s) IN
                  IF e.err # "" THEN "raised"
                  ELSE IF e.op \in {"len", "seg", "chr"} THEN (IF e.obs = CellLen(s) THEN "ok" ELSE "result-differs")
                  ELSE IF e.op = "set" THEN SetCellSizeWhy(s, e.n, Str(e.r[1]))
                  ELSE IF e.op = "chop" THEN ChopWhy(s, e.n, e.pos, Strs(e.r))
                  ELSE "unknown-op"
        j == FirstBadIdx(Len(r.events), Why)
    IN IF j = 0 THEN "ok" ELSE "step " \o I2S(j) \o " " \o r.events[j].op \o ": " \o Why(j)

Verdict(r) == CASE r.k = "slice" -> SliceWhy(r)
                [] r.k = "cps"   -> CpsWhy(r)
                [] r.k = "str"   -> StrWhy(r)
                [] r.k = "hist"  -> HistWhy(r)
                [] r.k = "mix"   -> MixWhy(r)
                [] r.k = "table" -> IF TableWellFormed(Table) THEN "ok"
                                    ELSE "drift table: not-sorted-or-overlapping"
                [] OTHER -> "unknown-record-kind"

Init == tid \in 1..Len(Recs)
Next == UNCHANGED vars
Spec == Init /\ [][Next]_vars
Report == PrintT(<<"VERDICT", tid, Verdict(Recs[tid])>>)
=============================================================================
