CONSTANTS
  N = 3
  FinalUpdate = FALSE
  MaxTicks = 3
SPECIFICATION Spec
INVARIANT EachOnceInOrder
INVARIANT CompletedIsCount
INVARIANT NeverAhead
INVARIANT NoStuck
CHECK_DEADLOCK FALSE
