------------------------------ MODULE TextOps ------------------------------
(* C05 - Text editing operations keep characters and styles attached.

   Reference semantics of rich.text.Text as a sequence of characters, each carrying the style
   that spans put on it.  One operator per public editing method; the property part is the
   comparison of what a real Text shows after each call with this model:
     plain = the c fields, len() = Len(chars), every surviving (non-fresh) character keeps its
     effective style; characters created by an operation (padding, ellipsis, tab spaces, the
     space replacing half a wide character) are constrained in their code point only.

   A style id k in 1..N stands for a style that sets attribute k and colour k; the effective
   style of a character is abstracted as [set (which ids are present), top (whose colour wins)].
   Id 0 = no style.  A Text's base style lies beneath every span (Under).                   *)
EXTENDS Naturals, Integers, Sequences, FiniteSets, TLC

\* ---- characters --------------------------------------------------------------------------
Mk(c, w, fresh) == [c |-> c, w |-> w, set |-> {}, top |-> 0, fresh |-> fresh]
Over(ch, k)  == IF k = 0 THEN ch ELSE [ch EXCEPT !.set = @ \cup {k}, !.top = k]
Under(ch, b) == IF b = 0 THEN ch ELSE [ch EXCEPT !.set = @ \cup {b}, !.top = IF @ = 0 THEN b ELSE @]

Stripped == {8, 11, 12, 13}          \* control codes the Text constructor removes (control.py)
Space == 32
Tab == 9
Newline == 10
Ellipsis == 8230
IsWs(c) == c \in {32, 9, 10, 11, 12, 13, 28, 29, 30, 31, 133, 160}

Map(f(_), s) == [i \in DOMAIN s |-> f(s[i])]
RECURSIVE SumW(_)
SumW(s) == IF s = <<>> THEN 0 ELSE Head(s).w + SumW(Tail(s))
Rep(ch, n) == [i \in 1..n |-> ch]
Min(a, b) == IF a < b THEN a ELSE b
Max(a, b) == IF a > b THEN a ELSE b
Codes(s) == [i \in DOMAIN s |-> s[i].c]

\* ---- Text values: [chars, base] -----------------------------------------------------------
\* string literal coming from a driver: sequence of <<code, width>>
FromStr(str) == LET kept == SelectSeq(str, LAMBDA p : p[1] \notin Stripped)
                IN [i \in DOMAIN kept |-> Mk(kept[i][1], kept[i][2], FALSE)]

Construct(str, base) == [chars |-> FromStr(str), base |-> base]

\* stylize(style, a, b): negative offsets count from the end; hasB = FALSE means end=None
Stylize(t, k, a, hasB, b) ==
    LET n  == Len(t.chars)
        a1 == IF a < 0 THEN n + a ELSE a
        b0 == IF hasB THEN b ELSE n
        b1 == IF b0 < 0 THEN n + b0 ELSE b0
    IN IF a1 >= n \/ b1 <= a1 THEN t
       ELSE [t EXCEPT !.chars = [i \in DOMAIN @ |->
                 IF i - 1 >= a1 /\ i - 1 < Min(n, b1) THEN Over(@[i], k) ELSE @[i]]]

RECURSIVE StylizeAll(_, _)
StylizeAll(t, spans) == IF spans = <<>> THEN t
                        ELSE StylizeAll(Stylize(t, spans[1][3], spans[1][1], TRUE, spans[1][2]), Tail(spans))

\* a text operand literal [str, base, spans]
Lit(l) == StylizeAll(Construct(l.str, l.base), l.spans)

\* characters of t as they look when moved into another Text (its base becomes a span)
Moved(t) == Map(LAMBDA ch : Under(ch, t.base), t.chars)

AppendStr(t, str, k) == [t EXCEPT !.chars = @ \o Map(LAMBDA ch : Over(ch, k), FromStr(str))]
AppendText(t, other) == [t EXCEPT !.chars = @ \o Moved(other)]

\* append_tokens(<<[str, sty], ...>>): a fold of styled appends.  The strings are taken as they are: the
\* statement does not say whether this entry point strips control codes (9.10.0 does not), so the drivers
\* only pass token strings without them
FromStrRaw(str) == [i \in DOMAIN str |-> Mk(str[i][1], str[i][2], FALSE)]
RECURSIVE AppendTokens(_, _)
AppendTokens(t, toks) ==
    IF toks = <<>> THEN t
    ELSE AppendTokens([t EXCEPT !.chars = @ \o Map(LAMBDA ch : Over(ch, Head(toks).sty), FromStrRaw(Head(toks).str))],
                      Tail(toks))

\* text.plain = str: the characters are replaced wholesale; len / plain are demanded, the styling of the
\* new characters is whatever the code leaves (adopted), an assignment of the same string changes nothing
SetPlain(t, str) ==
    IF [i \in DOMAIN str |-> str[i][1]] = [i \in DOMAIN t.chars |-> t.chars[i].c] THEN t
    ELSE [t EXCEPT !.chars = [i \in DOMAIN str |-> Mk(str[i][1], str[i][2], TRUE)]]

\* blank_copy(): no characters, same base style
BlankCopy(t) == [chars |-> <<>>, base |-> t.base]

\* Text.assemble(*parts, style=base): parts are the current text, strings with a style, texts
\* ("sib": the other live Text object of the history, see Derives below)
RECURSIVE AssembleParts(_, _, _, _)
AssembleParts(acc, parts, cur, sb) ==
    IF parts = <<>> THEN acc
    ELSE LET p == Head(parts)
             nxt == CASE p.kind = "cur"  -> AppendText(acc, cur)
                      [] p.kind = "sib"  -> AppendText(acc, sb)
                      [] p.kind = "str"  -> AppendStr(acc, p.str, p.sty)
                      [] p.kind = "text" -> AppendText(acc, Lit(p.t))
         IN AssembleParts(nxt, Tail(parts), cur, sb)
Assemble(cur, sb, parts, base) == AssembleParts([chars |-> <<>>, base |-> base], parts, cur, sb)

\* sep.join(lines): the result takes the separator's base style (blank_copy)
RECURSIVE JoinChars(_, _)
JoinChars(sep, lines) ==
    IF lines = <<>> THEN <<>>
    ELSE Moved(Head(lines)) \o (IF Len(lines) > 1 THEN Moved(sep) ELSE <<>>) \o JoinChars(sep, Tail(lines))
Join(sep, lines) == [chars |-> JoinChars(sep, lines), base |-> sep.base]

\* Python slice semantics: out-of-range bounds are clamped
Sub(s, a, b) == IF a > b \/ a > Len(s) THEN <<>> ELSE SubSeq(s, Max(a, 1), Min(b, Len(s)))
Piece(t, a, b) == [chars |-> Sub(t.chars, a + 1, b), base |-> t.base]    \* 0-based [a, b)

\* divide(offsets): sorted offsets within 0..len
Divide(t, offs) ==
    LET bounds == <<0>> \o offs \o <<Len(t.chars)>>
    IN [i \in 1..(Len(bounds) - 1) |-> Piece(t, bounds[i], bounds[i + 1])]

\* split(separator, include_separator, allow_blank): str.split semantics on non-overlapping,
\* left-to-right matches; the trailing empty piece is dropped unless allow_blank
IsAt(cs, sep, i) == /\ i + Len(sep) - 1 <= Len(cs)
                    /\ \A j \in 1..Len(sep) : cs[i + j - 1] = sep[j]
RECURSIVE MatchStarts(_, _, _)
MatchStarts(cs, sep, i) ==
    IF i + Len(sep) - 1 > Len(cs) THEN <<>>
    ELSE IF IsAt(cs, sep, i) THEN <<i>> \o MatchStarts(cs, sep, i + Len(sep))
    ELSE MatchStarts(cs, sep, i + 1)
Split(t, sep, inc, allowBlank) ==
    LET cs == Codes(t.chars)
        ms == MatchStarts(cs, sep, 1)
        L  == Len(sep)
        k  == Len(ms)
        \* piece j (1..k+1): from after match j-1 to match j
        from(j) == IF j = 1 THEN 0 ELSE ms[j - 1] - 1 + L
        to(j)   == IF j = k + 1 THEN Len(cs) ELSE (IF inc THEN ms[j] - 1 + L ELSE ms[j] - 1)
        all == [j \in 1..(k + 1) |-> Piece(t, from(j), to(j))]
        endsWith == k > 0 /\ ms[k] - 1 + L = Len(cs)
    IN IF k = 0 THEN << t >>
       ELSE IF ~allowBlank /\ endsWith THEN SubSeq(all, 1, k) ELSE all

\* text[i] - IndexError exactly when a str would raise it
IndexOk(t, i) == LET n == Len(t.chars) IN i < n /\ i >= 0 - n
Index(t, i) == LET n == Len(t.chars)
                   j == IF i < 0 THEN n + i ELSE i
               IN Piece(t, j, j + 1)
\* text[a:b] with optional bounds (Python slice.indices)
Clamp(x, has, n, dflt) == IF ~has THEN dflt ELSE IF x < 0 THEN Max(n + x, 0) ELSE Min(x, n)
Slice(t, hasA, a, hasB, b) ==
    LET n == Len(t.chars)
        a1 == Clamp(a, hasA, n, 0)
        b1 == Clamp(b, hasB, n, n)
    IN IF b1 <= a1 THEN Piece(t, 0, 0) ELSE Piece(t, a1, b1)

Pad(t, n, ch)      == [t EXCEPT !.chars = Rep(Mk(ch[1], ch[2], TRUE), n) \o @ \o Rep(Mk(ch[1], ch[2], TRUE), n)]
PadLeft(t, n, ch)  == [t EXCEPT !.chars = Rep(Mk(ch[1], ch[2], TRUE), n) \o @]
PadRight(t, n, ch) == [t EXCEPT !.chars = @ \o Rep(Mk(ch[1], ch[2], TRUE), n)]

\* set_cell_size on characters: longest prefix that fits, a space when a wide character is cut
RECURSIVE FitPrefix(_, _, _)
FitPrefix(chars, n, k) ==    \* largest k' >= k with SumW(first k') <= n, scanning forward
    IF k < Len(chars) /\ SumW(SubSeq(chars, 1, k + 1)) <= n THEN FitPrefix(chars, n, k + 1) ELSE k
RECURSIVE LongestFit(_, _, _)
LongestFit(chars, n, k) ==   \* largest k <= Len with width of first k <= n (zero-width tails kept)
    IF k = 0 THEN 0 ELSE IF SumW(SubSeq(chars, 1, k)) <= n THEN k ELSE LongestFit(chars, n, k - 1)
SetCells(chars, n) ==
    LET L == SumW(chars)
    IN IF L = n THEN chars
       ELSE IF L < n THEN chars \o Rep(Mk(Space, 1, TRUE), n - L)
       ELSE LET k == LongestFit(chars, n, Len(chars))
                pre == SubSeq(chars, 1, k)
            IN pre \o Rep(Mk(Space, 1, TRUE), n - SumW(pre))

Truncate(t, maxw, ov, pad) ==
    IF ov = "ignore" THEN t
    ELSE LET L == SumW(t.chars)
             cut == IF L > maxw
                    THEN (IF ov = "ellipsis" THEN SetCells(t.chars, maxw - 1) \o <<Mk(Ellipsis, 1, TRUE)>>
                          ELSE SetCells(t.chars, maxw))
                    ELSE t.chars
         IN [t EXCEPT !.chars = IF pad /\ L < maxw THEN cut \o Rep(Mk(Space, 1, TRUE), maxw - L) ELSE cut]

\* align() truncates through truncate(width), i.e. with the Text's own overflow setting (ov; "fold" if unset)
Align(t, how, width, ch, ov) ==
    LET t1 == Truncate(t, width, ov, FALSE)
        ex == width - SumW(t1.chars)
    IN IF ex <= 0 THEN t1
       ELSE CASE how = "left"   -> PadRight(t1, ex, ch)
              [] how = "center" -> PadRight(PadLeft(t1, ex \div 2, ch), ex - (ex \div 2), ch)
              [] OTHER          -> PadLeft(t1, ex, ch)

\* right_crop(n) is s[:len(s)-n] on an ordinary string: nothing is removed for n <= 0 (a negative amount cannot add characters)
RightCrop(t, n) == [t EXCEPT !.chars = SubSeq(@, 1, Min(Len(@), Max(0, Len(@) - n)))]
SetLength(t, n) == IF Len(t.chars) < n THEN PadRight(t, n - Len(t.chars), <<Space, 1>>)
                   ELSE RightCrop(t, Len(t.chars) - n)

RECURSIVE TrailingWs(_)
TrailingWs(chars) == IF chars = <<>> \/ ~IsWs(chars[Len(chars)].c) THEN 0
                     ELSE 1 + TrailingWs(SubSeq(chars, 1, Len(chars) - 1))
Rstrip(t) == RightCrop(t, TrailingWs(t.chars))
\* rstrip_end(size): size is a width; text.py measures in cells (RstripEnd); measuring in characters
\* (RstripEndChars, rich 9.10.0) is the other reading of "ordinary string" and is accepted by the judge
RstripEnd(t, size) == IF SumW(t.chars) > size
                      THEN RightCrop(t, Min(TrailingWs(t.chars), SumW(t.chars) - size)) ELSE t
RstripEndChars(t, size) == IF Len(t.chars) > size
                      THEN RightCrop(t, Min(TrailingWs(t.chars), Len(t.chars) - size)) ELSE t
EndsWith(t, suffix) == LET n == Len(t.chars) IN
    /\ Len(suffix) <= n
    /\ \A j \in 1..Len(suffix) : t.chars[n - Len(suffix) + j].c = suffix[j]
RemoveSuffix(t, suffix) == IF EndsWith(t, suffix) THEN RightCrop(t, Len(suffix)) ELSE t

\* fit(width): one piece per line (split on newline), each set to exactly `width` characters
Fit(t, w) == LET ps == Split(t, <<Newline>>, FALSE, FALSE) IN [i \in DOMAIN ps |-> SetLength(ps[i], w)]

\* Lines([t]).justify(console, width, how, overflow) for how in left / center / right (containers.py):
\* left = truncate with padding; center / right = strip trailing blanks, truncate, pad with blanks
Blank == <<Space, 1>>
Justify(t, how, w, ov) ==
    IF how = "left" THEN Truncate(t, w, ov, TRUE)
    ELSE LET t1 == Truncate(Rstrip(t), w, ov, FALSE)
             ex == w - SumW(t1.chars)
         IN IF ex <= 0 THEN t1
            ELSE IF how = "center" THEN PadRight(PadLeft(t1, ex \div 2, Blank), ex - (ex \div 2), Blank)
            ELSE PadLeft(t1, ex, Blank)

\* expand_tabs(n): str.expandtabs - the tab itself becomes a space (keeps its style), further
\* spaces are new; the column restarts after a newline
RECURSIVE ExpandFrom(_, _, _)
ExpandFrom(chars, col, n) ==
    IF chars = <<>> THEN <<>>
    ELSE LET ch == Head(chars) IN
         IF ch.c = Tab THEN
            LET fill == n - (col % n)
            IN <<[ch EXCEPT !.c = Space, !.w = 1]>> \o Rep(Mk(Space, 1, TRUE), fill - 1)
               \o ExpandFrom(Tail(chars), 0, n)
         ELSE <<ch>> \o ExpandFrom(Tail(chars), IF ch.c = Newline THEN 0 ELSE col + 1, n)
ExpandTabs(t, n) == [t EXCEPT !.chars = ExpandFrom(@, 0, n)]

\* copy_styles(other): other's spans are laid over the text
CopyStyles(t, spans) == StylizeAll(t, spans)


\* ---- one entry point per public call (shared by MC_TextOps and Trace_TextOps) --------------
\* an event e names the call and its arguments; the result is the new current text, the list
\* of pieces for calls that return several texts, and the error a plain str would raise
Res(t) == [err |-> "none", cur |-> t, pieces |-> <<>>]
ResPieces(t, ps, pick) == [err |-> "none", cur |-> IF pick >= 1 /\ pick <= Len(ps) THEN ps[pick] ELSE t, pieces |-> ps]
InsertAt(seq, x, pos) == SubSeq(seq, 1, pos) \o <<x>> \o SubSeq(seq, pos + 1, Len(seq))

\* sb: the other live Text object of the history (operand "sib"); operands may also be the current text
Operand(t, sb, src, lit) == CASE src = "sib" -> sb [] src = "cur" -> t [] OTHER -> Lit(lit)
JoinLines(t, sb, e) == LET l1 == InsertAt(Map(Lit, e.others), t, e.pos)
                       IN IF e.sibpos >= 0 THEN InsertAt(l1, sb, e.sibpos) ELSE l1
AllFresh(t) == [t EXCEPT !.chars = Map(LAMBDA ch : [ch EXCEPT !.fresh = TRUE], @)]

Apply(t, sb, e) ==
    CASE e.k = "new"           -> Res(Lit(e.t))
      [] e.k = "append_str"    -> Res(AppendStr(t, e.str, e.sty))
      [] e.k = "append_text"   -> Res(AppendText(t, Operand(t, sb, e.src, e.t)))
      [] e.k = "append_tokens" -> Res(AppendTokens(t, e.toks))
      [] e.k = "assemble"      -> Res(Assemble(t, sb, e.parts, e.base))
      [] e.k = "join"          -> Res(Join(Operand(t, sb, e.sepsrc, e.sep), JoinLines(t, sb, e)))
      [] e.k = "split"         -> ResPieces(t, Split(t, e.sep, e.inc, e.ab), e.pick)
      [] e.k = "divide"        -> ResPieces(t, Divide(t, e.offs), e.pick)
      [] e.k = "fit"           -> ResPieces(t, Fit(t, e.w), e.pick)
      [] e.k = "index"         -> IF IndexOk(t, e.i) THEN Res(Index(t, e.i))
                                  ELSE [err |-> "IndexError", cur |-> t, pieces |-> <<>>]
      [] e.k = "slice"         -> Res(Slice(t, e.hasA, e.a, e.hasB, e.b))
      [] e.k = "pad"           -> Res(Pad(t, e.n, e.ch))
      [] e.k = "pad_left"      -> Res(PadLeft(t, e.n, e.ch))
      [] e.k = "pad_right"     -> Res(PadRight(t, e.n, e.ch))
      [] e.k = "align"         -> Res(Align(t, e.how, e.width, e.ch, e.ov))
      [] e.k = "truncate"      -> Res(Truncate(t, e.w, e.ov, e.pad))
      [] e.k = "justify"       -> Res(Justify(t, e.how, e.w, e.ov))
      [] e.k = "right_crop"    -> Res(RightCrop(t, e.n))
      [] e.k = "set_length"    -> Res(SetLength(t, e.n))
      [] e.k = "expand_tabs"   -> Res(ExpandTabs(t, e.n))
      [] e.k = "copy"          -> Res(t)
      [] e.k = "blank_copy"    -> Res(BlankCopy(t))
      [] e.k = "set_plain"     -> Res(SetPlain(t, e.str))
      [] e.k = "rstrip"        -> Res(Rstrip(t))
      [] e.k = "rstrip_end"    -> Res(RstripEnd(t, e.n))
      [] e.k = "remove_suffix" -> Res(RemoveSuffix(t, e.suffix))
      [] e.k = "stylize"       -> Res(Stylize(t, e.sty, e.a, e.hasB, e.b))
      [] e.k = "copy_styles"   -> Res(CopyStyles(t, e.spans))
      [] e.k = "highlight"     -> Res(AllFresh(t))
      [] e.k = "highlighter"   -> Res(AllFresh(t))
      [] OTHER                 -> [err |-> "unknown-op", cur |-> t, pieces |-> <<>>]

StyleOnly == {"stylize", "copy_styles", "highlight", "highlighter"}

\* calls that return a NEW object and leave the old one alive; "swap" continues with the old one:
\* an edit of one must never show on the other (no shared span list / text)
Deriving == {"new", "assemble", "join", "split", "divide", "fit", "index", "slice", "copy", "blank_copy"}
Pieces == {"split", "divide", "fit"}
Derives(e, r) == \/ e.k \in (Deriving \ Pieces)
                 \/ (e.k \in {"append_text", "append_str"} /\ e.via = "add")
                 \/ (e.k = "highlighter" /\ e.how = "call")
                 \/ (e.k \in Pieces /\ e.pick >= 1 /\ e.pick <= Len(r.pieces))


\* ---- observation and comparison (property part) -------------------------------------------
\* what can be seen of a character from outside: code point and effective style
Eff(t) == [i \in DOMAIN t.chars |-> Under(t.chars[i], t.base)]

\* obs: [len, chars: Seq(<<c, set-as-seq, top>>)]
ObsSet(x) == {x[i] : i \in DOMAIN x}
CompareText(t, obs) ==
    LET e == Eff(t) IN
    IF Len(obs.chars) # Len(e) THEN "plain-differs"
    ELSE IF \E i \in DOMAIN e : obs.chars[i][1] # e[i].c THEN "plain-differs"
    ELSE IF obs.len # Len(e) THEN "len-differs"
    ELSE IF \E i \in DOMAIN e : ~e[i].fresh /\ (ObsSet(obs.chars[i][2]) # e[i].set \/ obs.chars[i][3] # e[i].top)
         THEN "style-differs"
    ELSE "ok"

\* after a step the model adopts the observed styling of the characters the operation created
Adopt(t, obs) ==
    [t EXCEPT !.chars = [i \in DOMAIN @ |->
        IF @[i].fresh /\ i <= Len(obs.chars)
        THEN [@[i] EXCEPT !.set = ObsSet(obs.chars[i][2]), !.top = obs.chars[i][3], !.fresh = FALSE]
        ELSE [@[i] EXCEPT !.fresh = FALSE]]]
Settle(t) == [t EXCEPT !.chars = Map(LAMBDA ch : [ch EXCEPT !.fresh = FALSE], @)]
=============================================================================
