CONSTANTS
  Names = {"n1", "n2", "d1", "q1"}
  GenDepth = 3
  DefaultNames = {"d1"}
  Sids = {"s1", "s2"}
SPECIFICATION Spec
CONSTRAINT Emit
CHECK_DEADLOCK FALSE
