CONSTANTS
  GenDepth = 0
  MCDepth = 4
SPECIFICATION Spec
VIEW View
CONSTRAINT DepthBound
INVARIANT Accounting
INVARIANT SpeedNonNeg
INVARIANT FinishedWhenDone
INVARIANT FinFixed
INVARIANT RemainingNonNeg
CHECK_DEADLOCK FALSE
