SPECIFICATION Spec
INVARIANT RoundTrip
INVARIANT UnsetColoursStayDefault
INVARIANT NoLeak
CHECK_DEADLOCK FALSE
