CONSTANTS
  CropClamp = FALSE
  StartClamp = TRUE
  CtorLen = TRUE
  CropUpper = TRUE
  MCDepth = 3
SPECIFICATION Spec
INVARIANT Refines
INVARIANT SpansInside
CHECK_DEADLOCK FALSE
