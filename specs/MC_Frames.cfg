CONSTANTS
  MaxNest = 2
  GenDepth = 2
SPECIFICATION Spec
INVARIANT DesignAccepted
INVARIANT ExpandFills
INVARIANT RejectsInnerOffByOne
INVARIANT RejectsCentreRoundedUp
INVARIANT RejectsSwappedPadding
CHECK_DEADLOCK FALSE
