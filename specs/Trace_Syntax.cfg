\* Impl* describe the pipeline of the tree under test for the DRIFT comparison only
\* (the tree as repaired: stripnl=False, guarded skip; remove_suffix still first).  They never influence a verdict.
CONSTANTS
  ImplStripNl = FALSE
  ImplGuardSkip = TRUE
  ImplSuffixFirst = FALSE
SPECIFICATION Spec
CONSTRAINT Report
CHECK_DEADLOCK FALSE
