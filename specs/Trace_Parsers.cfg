CONSTANTS
  ColorNames <- TraceColorNames
  ThemeNames <- TraceThemeNames
SPECIFICATION Spec
CONSTRAINT Report
CHECK_DEADLOCK FALSE
