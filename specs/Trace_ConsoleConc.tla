------------------------- MODULE Trace_ConsoleConc -------------------------
(* M3: one record per execution of real threads (scheduled by dsched) on one console.
   calls   every print / log / capture call: thread, its line labels, what a capture returned
   events  in the order they happened: hook phases (thread, region height read) and writes to
           the console file (thread, tokenised terminal operations)
   rec     the labels of the recorded copy (export_text) in order
   The clauses of C11 are evaluated on the record; no search is needed because every line of
   every call carries a unique label.                                                        *)
EXTENDS Screen, Json, IOUtils, FiniteSets

Recs == JsonDeserialize(IOEnv.TRACE_FILE)
VARIABLE tid
R == Recs[tid]

CallOf(id) == (id % 1000000) \div 10
RECURSIVE Cat(_)
Cat(ss) == IF ss = <<>> THEN <<>> ELSE Head(ss) \o Cat(Tail(ss))
Writes == SelectSeq(R.events, LAMBDA e : e.e = "write")
\* labels of printed lines in one write, in order
PL(ops) == LET ts == SelectSeq(ops, LAMBDA o : o[1] = "t" /\ IsPrinted(o[2])) IN [i \in DOMAIN ts |-> ts[i][2]]
FileLabels == Cat([i \in DOMAIN Writes |-> PL(Writes[i].ops)])
Count(seq, x) == Cardinality({i \in DOMAIN seq : seq[i] = x})
IsSubSeqAt(big, small, k) == \A j \in DOMAIN small : big[k + j - 1] = small[j]
Contiguous(big, small) == small = <<>> \/ \E k \in 1..(Len(big) - Len(small) + 1) : IsSubSeqAt(big, small, k)

Plain == SelectSeq(R.calls, LAMBDA c : c.kind \in {"print", "log"})
Captures == SelectSeq(R.calls, LAMBDA c : c.kind = "capture")

ExactlyOnce == \A i \in DOMAIN Plain : \A j \in DOMAIN Plain[i].labels : Count(FileLabels, Plain[i].labels[j]) = 1
OneWrite == \A i \in DOMAIN Plain : Plain[i].labels = <<>> \/
               \E w \in DOMAIN Writes : Contiguous(PL(Writes[w].ops), Plain[i].labels)
CaptureIsolated == \A i \in DOMAIN Captures :
                      /\ Captures[i].captured = Captures[i].labels
                      /\ \A j \in DOMAIN Captures[i].labels : Count(FileLabels, Captures[i].labels[j]) = 0
\* the recorded copy restricted to what reached the file has the file's order
RecordOrder == SelectSeq(R.rec, LAMBDA x : Count(FileLabels, x) > 0) = FileLabels

\* ---- the screen, for the order in which the writes reached the file ---------------------------
AllOps == Cat([i \in DOMAIN Writes |-> Writes[i].ops])
Final == ApplyAll(InitScreen, AllOps)
NonEmptyRows(rows) == SelectSeq(rows, LAMBDA r : r # <<>>)
ExpectedRows == [i \in DOMAIN FileLabels |-> <<FileLabels[i]>>] \o [i \in DOMAIN R.finalframe |-> <<R.finalframe[i]>>]
\* the known stale-erase race: between a thread's hook phase (where it read the region height h)
\* and its next write, another thread wrote a frame of a different height
FrameHeight(ops) == LET ts == SelectSeq(ops, LAMBDA o : o[1] = "t" /\ (IsFrame(o[2]) \/ o[2] = Ellipsis)) IN Len(ts)
\* ... or moved the cursor to another row at all (a stop()'s line break, printed lines): the erase sequence computed in
\* the hook phase is relative to where the cursor was then
MovesRow(ops) == \E j \in DOMAIN ops : ops[j][1] \in {"nl", "cuu"}
StaleErase == \E i \in DOMAIN R.events : R.events[i].e = "hook" /\
                 \E k \in (i + 1)..Len(R.events) :
                    /\ R.events[k].e = "write" /\ R.events[k].t # R.events[i].t
                    /\ (FrameHeight(R.events[k].ops) # R.events[i].h \/ MovesRow(R.events[k].ops))
                    /\ \A m \in (i + 1)..(k - 1) : ~(R.events[m].e = "write" /\ R.events[m].t = R.events[i].t)
\* a second known defect: a print inside a capture block runs the display's render hook - the frame is rendered into the
\* capture and the display remembers its height although nothing was drawn; when that changes the remembered height the
\* next refresh erases rows that hold something else (h at the hook phase vs h when the capture block ends)
CapturedResize == \E i \in DOMAIN R.events : R.events[i].e = "hook" /\ R.events[i].cap /\
                     \E k \in (i + 1)..Len(R.events) :
                        /\ R.events[k].e = "capend" /\ R.events[k].t = R.events[i].t /\ R.events[k].h # R.events[i].h
                        /\ \A m \in (i + 1)..(k - 1) : ~(R.events[m].e = "capend" /\ R.events[m].t = R.events[i].t)
Why == (IF StaleErase THEN " stale-erase" ELSE "") \o (IF CapturedResize THEN " captured-resize" ELSE "")
\* programs whose workers stop / start the display: frames left behind by a stop are legitimate rows, so only the printed
\* lines are compared (all there, once, in file order) - the per-operation clauses (overwrite, erased line, cursor) stay
PrintedRows(rows) == SelectSeq(Cat(rows), LAMBDA x : IsPrinted(x))
Verdict ==
    IF R.deadlock THEN "deadlock"
    ELSE IF R.exc # "none" THEN "raises-" \o R.exc
    ELSE IF ~ExactlyOnce THEN "print-not-exactly-once"
    ELSE IF ~OneWrite THEN "print-not-contiguous"
    ELSE IF ~CaptureIsolated THEN "capture-not-isolated"
    ELSE IF ~RecordOrder THEN "record-order-differs"
    ELSE IF ~R.live THEN "ok"
    ELSE IF Final.bad # "none" THEN Final.bad \o Why
    ELSE IF R.startstop /\ PrintedRows(Final.rows) # FileLabels THEN "printed-lines-differ-on-screen" \o Why
    ELSE IF ~R.startstop /\ NonEmptyRows(Final.rows) # ExpectedRows THEN "screen-differs" \o Why
    ELSE IF ~Final.vis THEN "cursor-left-hidden"
    ELSE "ok"

Init == tid \in 1..Len(Recs)
Next == FALSE /\ UNCHANGED tid        \* one state per record: the verdict is printed once
Report == PrintT(<<"VERDICT", tid, Verdict>>)
=============================================================================
