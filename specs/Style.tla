------------------------------- MODULE Style -------------------------------
(* Shared module: the abstract meaning of rich.style.Style  (C06; EXTENDed / INSTANCEd by C03, C04, ...).

   1. abstract styles and the algebra  (Null, Add, Combine, WithoutColor, UpdateLink, FromColor)
   2. colour words  (the documented spellings of a colour and the colour each one names)
   3. the style-definition grammar as a fold over tokens  (Parse) and the string form (Str)
   4. property part  (laws and acceptance relations used by MC_Style / Trace_Style)
   5. implementation-shaped part  (the bit-mask / stored-hash design of rich/style.py)

   Vocabulary (everything is an int, a small string or a tuple of ints, so TLC can always compare):
     attribute value  "U" (not set) | "T" | "F"
     colour           Unset = <<>>  |  <<ty, n, r, g, b, sp, k>>   (see ColorVal below)
     link             NoLink = 0    |  positive id of the URL string
     style            [attrs : [Attr -> Tri], fg, bg : colour, link : link]                        *)
EXTENDS Naturals, Integers, Sequences, FiniteSets, TLC

CONSTANT AttrSeq      \* the attribute names, without repetition, in the order str() lists them

Attr   == {AttrSeq[i] : i \in 1..Len(AttrSeq)}
Tri    == {"U", "T", "F"}
Unset  == <<>>
NoLink == 0

StyleSet(colors, links) ==
    [attrs : [Attr -> Tri], fg : colors \cup {Unset}, bg : colors \cup {Unset}, link : links \cup {NoLink}]

\* ---- 1. algebra --------------------------------------------------------------------------
Null == [attrs |-> [x \in Attr |-> "U"], fg |-> Unset, bg |-> Unset, link |-> NoLink]

\* the right operand wins exactly where it specifies a value
Add(a, b) ==
    [attrs |-> [x \in Attr |-> IF b.attrs[x] # "U" THEN b.attrs[x] ELSE a.attrs[x]],
     fg    |-> IF b.fg # Unset THEN b.fg ELSE a.fg,
     bg    |-> IF b.bg # Unset THEN b.bg ELSE a.bg,
     link  |-> IF b.link # NoLink THEN b.link ELSE a.link]

\* Style.combine(seq) / Style.chain(*seq): left fold of Add starting from the first element
RECURSIVE CombineFrom(_, _, _)
CombineFrom(seq, i, acc) == IF i > Len(seq) THEN acc ELSE CombineFrom(seq, i + 1, Add(acc, seq[i]))
Combine(seq) == IF seq = <<>> THEN Null ELSE CombineFrom(seq, 2, seq[1])

WithoutColor(s)  == [s EXCEPT !.fg = Unset, !.bg = Unset]
UpdateLink(s, l) == [s EXCEPT !.link = l]
Copy(s)          == s
FromColor(f, b)  == [Null EXCEPT !.fg = f, !.bg = b]
BackgroundStyle(s) == [Null EXCEPT !.bg = s.bg]      \* Style.background_style: "a Style with background only"
IsNull(s)        == s = Null

\* ---- 2. colour words --------------------------------------------------------------------
(* ColorVal  <<ty, n, r, g, b, sp, k>>
     ty  0 default | 1 standard (0..15) | 2 eight-bit (16..255) | 3 truecolor | 4 windows
     n   colour number or -1;   r, g, b  components or -1
     sp  how the colour is spelled (its name): 0 "default" | 1 a colour name | 2 "color(n)" |
         3 "#rrggbb" | 4 "rgb(r,g,b)" | 9 anything else;   k  index of the name for sp = 1 (else 0)
   The spelling is part of the value because rich.color.Color is a tuple that contains its name:
   "red" and "color(1)" select the same terminal colour but are different Color values.
   A colour *word* is what a lexer sees:  <<sp, k, n, r, g, b>>  (for a name, n is the number the
   name table of the tree under test gives it - the table is data the property takes as given). *)
ColorCore(cv) == SubSeq(cv, 1, 5)
NumType(n)    == IF n < 16 THEN 1 ELSE 2
BadColor      == [ok |-> FALSE, v |-> Unset]

WordColor(w) ==
    LET sp == w[1]  k == w[2]  n == w[3]  r == w[4]  g == w[5]  b == w[6] IN
    CASE sp = 0 -> [ok |-> TRUE, v |-> <<0, -1, -1, -1, -1, 0, 0>>]
      [] sp = 1 -> [ok |-> TRUE, v |-> <<NumType(n), n, -1, -1, -1, 1, k>>]
      [] sp = 2 -> IF n <= 255 THEN [ok |-> TRUE, v |-> <<NumType(n), n, -1, -1, -1, 2, 0>>] ELSE BadColor
      [] sp = 3 -> [ok |-> TRUE, v |-> <<3, -1, r, g, b, 3, 0>>]
      [] sp = 4 -> IF r <= 255 /\ g <= 255 /\ b <= 255
                   THEN [ok |-> TRUE, v |-> <<3, -1, r, g, b, 4, 0>>] ELSE BadColor
      [] OTHER  -> BadColor

\* the word str() writes for a colour value (its name)
ColorWord(cv) == <<cv[6], cv[7], cv[2], cv[3], cv[4], cv[5]>>
\* colour values that a documented spelling can produce
SpelledColor(cv) == Len(cv) = 7 /\ cv[6] \in 0..4 /\ WordColor(ColorWord(cv)) = [ok |-> TRUE, v |-> cv]

\* ---- 3. grammar --------------------------------------------------------------------------
(* A definition is a sequence of tokens (whitespace separated words), each a record with
     t   "attr" (any spelling of attribute .a: bold/b dim/d italic/i underline/u blink blink2 reverse/r
         conceal/c strike/s underline2/uu frame encircle overline/o) | "not" | "on" | "link" | "none" |
         "color" (a well-formed colour word .c) | "word" (anything else)
     w   id of the exact word (it is the URL when the word follows "link")
     up  the word contains upper-case letters (keywords and colours are case-insensitive, the word
         after "not" and a lone "none" are not)
   Later words override earlier ones.  The result is [ok, st, err].                              *)
AttrTok(x)   == [t |-> "attr", a |-> x, w |-> 0, up |-> FALSE]
KwTok(kw)    == [t |-> kw, w |-> 0, up |-> FALSE]
ColorTok(cv) == [t |-> "color", c |-> ColorWord(cv), w |-> 0, up |-> FALSE]
WordTok(id)  == [t |-> "word", w |-> id, up |-> FALSE]

Parsed(s)   == [ok |-> TRUE, st |-> s, err |-> "none"]
SyntaxError == [ok |-> FALSE, st |-> Null, err |-> "StyleSyntaxError"]
TokColor(t) == IF t.t = "color" THEN WordColor(t.c) ELSE BadColor

RECURSIVE ParseFrom(_, _, _)
ParseFrom(toks, i, acc) ==
    IF i > Len(toks) THEN Parsed(acc)
    ELSE LET t    == toks[i]
             more == i < Len(toks)
         IN CASE t.t = "on" ->
                   IF more /\ TokColor(toks[i + 1]).ok
                   THEN ParseFrom(toks, i + 2, [acc EXCEPT !.bg = TokColor(toks[i + 1]).v])
                   ELSE SyntaxError
              [] t.t = "not" ->
                   IF more /\ toks[i + 1].t = "attr" /\ ~toks[i + 1].up
                   THEN ParseFrom(toks, i + 2, [acc EXCEPT !.attrs[toks[i + 1].a] = "F"])
                   ELSE SyntaxError
              [] t.t = "link" ->
                   IF more THEN ParseFrom(toks, i + 2, [acc EXCEPT !.link = toks[i + 1].w])
                   ELSE SyntaxError
              [] t.t = "attr" -> ParseFrom(toks, i + 1, [acc EXCEPT !.attrs[t.a] = "T"])
              [] t.t = "color" ->
                   IF WordColor(t.c).ok THEN ParseFrom(toks, i + 1, [acc EXCEPT !.fg = WordColor(t.c).v])
                   ELSE SyntaxError
              [] OTHER -> SyntaxError      \* "none" inside a definition, or an unknown word

Parse(toks) ==
    IF toks = <<>> \/ (Len(toks) = 1 /\ toks[1].t = "none" /\ ~toks[1].up) THEN Parsed(Null)
    ELSE ParseFrom(toks, 1, Null)

\* definitions on which the documentation is explicit: one or more lower-case words, nothing specified
\* twice, a URL (not a keyword, attribute or colour) after "link"
RECURSIVE SlotsFrom(_, _)
SlotsFrom(toks, i) ==      \* the sequence of "slots" the definition assigns, in order
    IF i > Len(toks) THEN <<>>
    ELSE LET t == toks[i]
             more == i < Len(toks)
         IN CASE t.t = "on" -> <<"bg">> \o SlotsFrom(toks, i + 2)
              [] t.t = "link" -> <<"link">> \o SlotsFrom(toks, i + 2)
              [] t.t = "not" -> (IF more /\ toks[i + 1].t = "attr" THEN << <<"a", toks[i + 1].a>> >> ELSE <<>>)
                                \o SlotsFrom(toks, i + 2)
              [] t.t = "attr" -> << <<"a", t.a>> >> \o SlotsFrom(toks, i + 1)
              [] t.t = "color" -> <<"fg">> \o SlotsFrom(toks, i + 1)
              [] OTHER -> SlotsFrom(toks, i + 1)
Plain(toks) ==
    /\ Len(toks) >= 1
    /\ \A i \in 1..Len(toks) : ~toks[i].up
    /\ \A i \in 1..(Len(toks) - 1) : toks[i].t = "link" => toks[i + 1].t = "word"     \* "link" is followed by a URL
    /\ LET sl == SlotsFrom(toks, 1) IN \A i, j \in 1..Len(sl) : i # j => ToString(sl[i]) # ToString(sl[j])

\* str(style): set attributes in AttrSeq order ("not x" when false), colour, "on" bgcolor, "link" url; else "none"
RECURSIVE AttrToks(_, _)
AttrToks(s, i) ==
    IF i > Len(AttrSeq) THEN <<>>
    ELSE LET x == AttrSeq[i]
         IN (CASE s.attrs[x] = "T" -> <<AttrTok(x)>>
               [] s.attrs[x] = "F" -> <<KwTok("not"), AttrTok(x)>>
               [] OTHER -> <<>>) \o AttrToks(s, i + 1)
Str(s) ==
    LET body == AttrToks(s, 1)
                \o (IF s.fg # Unset THEN <<ColorTok(s.fg)>> ELSE <<>>)
                \o (IF s.bg # Unset THEN <<KwTok("on"), ColorTok(s.bg)>> ELSE <<>>)
                \o (IF s.link # NoLink THEN <<KwTok("link"), WordTok(s.link)>> ELSE <<>>)
    IN IF body = <<>> THEN <<KwTok("none")>> ELSE body

\* xs = Str(..) agrees with a lexed string (the word after "link" is compared by identity, the others by meaning)
TokSame(x, y, isUrl) ==
    IF isUrl THEN x.w = y.w
    ELSE /\ x.t = y.t
         /\ (x.t = "attr" => x.a = y.a)
         /\ (x.t = "color" => x.c = y.c)
         /\ (x.t = "word" => x.w = y.w)
SameToks(xs, ys) ==
    /\ Len(xs) = Len(ys)
    /\ \A i \in 1..Len(xs) : TokSame(xs[i], ys[i], i > 1 /\ xs[i - 1].t = "link")

\* ---- 4. property part --------------------------------------------------------------------
Assoc(a, b, c)  == Add(Add(a, b), c) = Add(a, Add(b, c))
IdentityOf(a)   == Add(a, Null) = a /\ Add(Null, a) = a

\* which field of r is not "b where b specifies, else a" ("none" when r is the right-biased sum)
AddDiff(a, b, r) ==
    CASE \E x \in Attr : r.attrs[x] # (IF b.attrs[x] # "U" THEN b.attrs[x] ELSE a.attrs[x]) -> "attribute"
      [] r.fg # (IF b.fg # Unset THEN b.fg ELSE a.fg) -> "color"
      [] r.bg # (IF b.bg # Unset THEN b.bg ELSE a.bg) -> "bgcolor"
      [] r.link # (IF b.link # NoLink THEN b.link ELSE a.link) -> "link"
      [] OTHER -> "none"
RightBiasOK(a, b, r) == AddDiff(a, b, r) = "none"

\* which field of two styles differs ("none" when equal)
StyleDiff(s, t) ==
    CASE s.attrs # t.attrs -> "attribute" [] s.fg # t.fg -> "color" [] s.bg # t.bg -> "bgcolor"
      [] s.link # t.link -> "link" [] OTHER -> "none"

\* the same with the first differing attribute / the spelling class of the expected colour t has there
StyleDiffX(s, t) ==
    CASE s.attrs # t.attrs -> "attribute " \o ToString(CHOOSE i \in 1..Len(AttrSeq) :
                                   /\ s.attrs[AttrSeq[i]] # t.attrs[AttrSeq[i]]
                                   /\ \A j \in 1..(i - 1) : s.attrs[AttrSeq[j]] = t.attrs[AttrSeq[j]])
      [] s.fg # t.fg -> "color " \o (IF Len(t.fg) = 7 THEN ToString(t.fg[6]) ELSE "unset")
      [] s.bg # t.bg -> "bgcolor " \o (IF Len(t.bg) = 7 THEN ToString(t.bg[6]) ELSE "unset")
      [] s.link # t.link -> "link" [] OTHER -> "none"

RoundTrips(s) == Parse(Str(s)) = Parsed(s)
\* equal styles hash equally: judged on observations  eq = (x == y),  heq = (hash(x) == hash(y))
HashOK(eq, heq) == eq => heq

\* ---- 5. implementation-shaped part: rich/style.py ---------------------------------------
(* A Style object: attribute bit masks (set / val as subsets of Attr), colours, link, the hash
   key hk stored when the object was made, and the _null flag.  HashDesign selects how hk is
   maintained: "stored" transcribes 9.10.0 (style.py:162-170,195-203,400,573,595,655),
   "derived" is the repair (the key is always that of the object's own fields).                *)
Key(set, val, f, b, l) == [fg |-> f, bg |-> b, val |-> val, set |-> set, link |-> l, kw |-> TRUE]

IInit(s) ==                                     \* Style(**keywords), also what Style.parse builds
    LET set == {x \in Attr : s.attrs[x] # "U"}
        val == {x \in Attr : s.attrs[x] = "T"}
    IN [set |-> set, val |-> val, fg |-> s.fg, bg |-> s.bg, link |-> s.link,
        hk |-> Key(set, val, s.fg, s.bg, s.link), null |-> (s = Null)]
INull == IInit(Null)
Abs(o) == [attrs |-> [x \in Attr |-> IF x \notin o.set THEN "U" ELSE IF x \in o.val THEN "T" ELSE "F"],
           fg |-> o.fg, bg |-> o.bg, link |-> o.link]
OwnKey(o) == Key(o.set, o.val, o.fg, o.bg, o.link)
Rehash(design, o, stored) == [o EXCEPT !.hk = IF design = "derived" THEN OwnKey(o) ELSE stored]

IFromColor(design, f, b) ==                     \* from_color hashes (color, bgcolor, None, None, None)
    Rehash(design, [set |-> {}, val |-> {}, fg |-> f, bg |-> b, link |-> NoLink, hk |-> 0,
                    null |-> (f = Unset /\ b = Unset)],
           [Key({}, {}, f, b, NoLink) EXCEPT !.kw = FALSE])
IAdd(design, a, b) ==                           \* __add__
    IF b.null THEN a ELSE IF a.null THEN b
    ELSE Rehash(design, [set |-> a.set \cup b.set, val |-> (a.val \ b.set) \cup (b.val \cap b.set),
                         fg |-> IF b.fg # Unset THEN b.fg ELSE a.fg, bg |-> IF b.bg # Unset THEN b.bg ELSE a.bg,
                         link |-> IF b.link # NoLink THEN b.link ELSE a.link, hk |-> 0, null |-> FALSE],
                b.hk)
RECURSIVE ICombineFrom(_, _, _, _)
ICombineFrom(design, seq, i, acc) ==
    IF i > Len(seq) THEN acc ELSE ICombineFrom(design, seq, i + 1, IAdd(design, acc, seq[i]))
ICombine(design, seq) == ICombineFrom(design, seq, 2, seq[1])
ICopy(o) == IF o.null THEN INull ELSE [o EXCEPT !.null = FALSE]
IWithoutColor(design, o) ==
    IF o.null THEN INull ELSE Rehash(design, [o EXCEPT !.fg = Unset, !.bg = Unset, !.null = FALSE], o.hk)
IUpdateLink(design, o, l) == Rehash(design, [o EXCEPT !.link = l, !.null = FALSE], o.hk)
IBackgroundStyle(o) == IInit(BackgroundStyle(Abs(o)))      \* background_style goes through Style(bgcolor=...)
=============================================================================
