------------------------------- MODULE Record -------------------------------
(* C15 - recording, capture and export agree with what was written (rich/console.py).

   Vocabulary.  Everything a console writes (to its file, into a capture result, into a styled
   export) is a *token stream*; a token is [k, v, l]:
       k = "t"    v = code points of a run of text (newline 10 included), l = per character the id
                  of the chunk the character belongs to (0 = none)
       k = "sgr"  v = the parameters of one SGR sequence  ESC [ v m
       k = "osc"  v = <<u>>  OSC-8 hyperlink, u = id of the URL, 0 = close
       k = "ctl"  v = code points of one control code: a C0 control other than newline, or a whole
                  non-SGR escape sequence (cursor movement, erase, cursor visibility)
   "Visible text" (statement: everything except escape sequences and control codes) is Chars(ts):
   the code points of the "t" tokens, in order.  Plain exports and de-tagged HTML are sequences of
   code points and are compared *raw* - a control code inside them is a difference.

   Property part (judges observations only, shared by MC_Record and Trace_Record): the Obs*
   operators keep what the statement talks about - the visible text (with pens and chunk labels)
   written to the file since the last clearing export, what an identical console would have
   written during each open capture block - and name the first clause an observation breaks.

   Implementation-shaped part (the design of console.py): thread buffer, capture marks, record of
   segments, _render_buffer, Segment.simplify / filter_control, HTML escaping; one Do* operator
   per public call.  Design switches name the choices the shipped code makes that break the
   property (so that TLC shows each one is a defect and the repaired design is not).            *)
EXTENDS Naturals, Integers, Sequences, FiniteSets, TLC

\* ---- tokens -------------------------------------------------------------------------------
Tok(k, v, l) == [k |-> k, v |-> v, l |-> l]
TText(v, l)  == Tok("t", v, l)
TSgr(p)      == Tok("sgr", p, <<>>)
TOsc(u)      == Tok("osc", <<u>>, <<>>)
TCtl(v)      == Tok("ctl", v, <<>>)

RECURSIVE CharsFrom(_, _)
CharsFrom(ts, i) == IF i > Len(ts) THEN <<>>
                    ELSE (IF ts[i].k = "t" THEN ts[i].v ELSE <<>>) \o CharsFrom(ts, i + 1)
Chars(ts) == CharsFrom(ts, 1)          \* the visible text of a token stream

\* lossless flattening (capture results are compared exactly, escape sequences included)
Enc(t) == CASE t.k = "t"   -> t.v
            [] t.k = "sgr" -> <<0 - 1>> \o t.v \o <<0 - 9>>
            [] t.k = "osc" -> <<0 - 2>> \o t.v \o <<0 - 9>>
            [] OTHER       -> <<0 - 3>> \o t.v \o <<0 - 9>>
RECURSIVE RawFrom(_, _)
RawFrom(ts, i) == IF i > Len(ts) THEN <<>> ELSE Enc(ts[i]) \o RawFrom(ts, i + 1)
Raw(ts) == RawFrom(ts, 1)

HasControl(cs) == \E i \in DOMAIN cs : (cs[i] < 32 /\ cs[i] # 10) \/ cs[i] = 127

\* ---- pens: what an ANSI decoder makes of the SGR / OSC-8 tokens -----------------------------
NoPen == [a |-> {}, fg |-> <<>>, bg |-> <<>>, ln |-> 0]
Off(x) == CASE x = 21 -> {1} [] x = 22 -> {1, 2} [] x = 23 -> {3} [] x = 24 -> {4} [] x = 25 -> {5, 6}
            [] x = 27 -> {7} [] x = 28 -> {8} [] x = 29 -> {9} [] x = 54 -> {51, 52} [] x = 55 -> {53} [] OTHER -> {}
RECURSIVE Sgr(_, _, _)
Sgr(pen, p, i) ==
    IF i > Len(p) THEN pen
    ELSE LET x == p[i] IN
      CASE x = 0 -> Sgr([NoPen EXCEPT !.ln = pen.ln], p, i + 1)
        [] x \in (1..9) \cup (51..53) -> Sgr([pen EXCEPT !.a = @ \cup {x}], p, i + 1)
        [] x \in (21..29) \cup {54, 55} -> Sgr([pen EXCEPT !.a = @ \ Off(x)], p, i + 1)
        [] x \in (30..37) \cup (90..97) -> Sgr([pen EXCEPT !.fg = <<x>>], p, i + 1)
        [] x \in (40..47) \cup (100..107) -> Sgr([pen EXCEPT !.bg = <<x - 10>>], p, i + 1)
        [] x = 39 -> Sgr([pen EXCEPT !.fg = <<>>], p, i + 1)
        [] x = 49 -> Sgr([pen EXCEPT !.bg = <<>>], p, i + 1)
        [] x \in {38, 48} /\ i + 2 <= Len(p) /\ p[i + 1] = 5 ->
              Sgr(IF x = 38 THEN [pen EXCEPT !.fg = <<38, 5, p[i + 2]>>] ELSE [pen EXCEPT !.bg = <<38, 5, p[i + 2]>>], p, i + 3)
        [] x \in {38, 48} /\ i + 4 <= Len(p) /\ p[i + 1] = 2 ->
              Sgr(IF x = 38 THEN [pen EXCEPT !.fg = <<38, 2, p[i + 2], p[i + 3], p[i + 4]>>]
                            ELSE [pen EXCEPT !.bg = <<38, 2, p[i + 2], p[i + 3], p[i + 4]>>], p, i + 5)
        [] OTHER -> Sgr([pen EXCEPT !.a = @ \cup {1000 + x}], p, i + 1)     \* not an SGR code: never equal to a style

\* decode a token stream from pen `pen0`: characters, their pens, their labels, the final pen
RECURSIVE Dec(_, _, _, _)
Dec(ts, i, pen, acc) ==
    IF i > Len(ts) THEN [c |-> acc.c, p |-> acc.p, l |-> acc.l, pen |-> pen]
    ELSE LET t == ts[i] IN
      CASE t.k = "t"   -> Dec(ts, i + 1, pen, [c |-> acc.c \o t.v, p |-> acc.p \o [j \in 1..Len(t.v) |-> pen], l |-> acc.l \o t.l])
        [] t.k = "sgr" -> Dec(ts, i + 1, Sgr(pen, t.v, 1), acc)
        [] t.k = "osc" -> Dec(ts, i + 1, [pen EXCEPT !.ln = t.v[1]], acc)
        [] OTHER       -> Dec(ts, i + 1, pen, acc)                          \* control codes show nothing
E3 == [c |-> <<>>, p |-> <<>>, l |-> <<>>]
Decode(ts, pen0) == Dec(ts, 1, pen0, E3)

\* A colour may legitimately differ between the file and the (truecolor) styled export only by
\* down-conversion to the console's colour system: the export's form is then of a higher rank.
Rank(col) == IF col = <<>> THEN 0 ELSE IF Len(col) = 1 THEN 1 ELSE IF col[2] = 5 THEN 2 ELSE 3
ColOK(cs, lo, hi) == lo = hi \/ (cs # "truecolor" /\ Rank(lo) >= 1 /\ Rank(lo) < Rank(hi))
PenOK(cs, f, e)   == f.a = e.a /\ f.ln = e.ln /\ ColOK(cs, f.fg, e.fg) /\ ColOK(cs, f.bg, e.bg)

\* ---- the styles chunks are printed with (ids; the driver builds the same rich.style.Style) ----
\* 1 bold red   2 italic on blue   3 #102030   4 underline + link 1   5 dim reverse strike on color(93)
\* 6 link 2 only   7 dim cyan (log.time)   8 bright green (rule.line)
LinkOf(sid) == IF sid = 4 THEN 1 ELSE IF sid = 6 THEN 2 ELSE 0
SgrOf(sid, cs) ==
    CASE sid = 1 -> <<1, 31>>
      [] sid = 2 -> <<3, 44>>
      [] sid = 3 -> IF cs = "truecolor" THEN <<38, 2, 16, 32, 48>> ELSE IF cs = "256" THEN <<38, 5, 17>> ELSE <<30>>
      [] sid = 4 -> <<4>>
      [] sid = 5 -> IF cs = "standard" THEN <<2, 7, 9, 45>> ELSE <<2, 7, 9, 48, 5, 93>>
      [] sid = 7 -> <<2, 36>>
      [] sid = 8 -> <<92>>
      [] OTHER   -> <<>>
StylePen(sid) == [Sgr(NoPen, SgrOf(sid, "truecolor"), 1) EXCEPT !.ln = LinkOf(sid)]
\* a decoded export pen shows style sid (colours possibly in the console's lower colour system)
ShowsStyle(cs, pen, sid) == LET sp == StylePen(sid) IN
    pen.a = sp.a /\ pen.ln = sp.ln /\ ColOK(cs, pen.fg, sp.fg) /\ ColOK(cs, pen.bg, sp.bg)

\* ============================================================================================
\* Property part.
\*   va    visible text / pens / labels written to the file since the last clearing export
\*   vb    the same plus the visible text of every finished capture block at the place it ended
\*         (the statement is silent on whether captured output is recorded: either is accepted)
\*   alt   what va would be had the last export treated `clear` the other way (names clause 5)
\*   refs  one entry per open capture block: raw stream an identical console would have written
\*         for everything in the block (all) / for what is not inside a nested block (own)
\*   murky the record may legitimately hold something the statement does not determine (nested
\*         capture blocks, an export inside a capture block): clauses 1-3 are not judged until
\*         the next clearing export outside capture blocks
G0 == [va |-> E3, vb |-> <<>>, alt |-> <<>>, hasAlt |-> FALSE, depth |-> 0, refs |-> <<>>, capv |-> <<>>,
       capSince |-> FALSE, murky |-> FALSE, fpen |-> NoPen, nested |-> <<>>,
       html |-> [ok |-> FALSE, r |-> <<>>, k |-> <<>>, inline |-> FALSE]]

Res(g, v, d) == [g |-> g, v |-> v, d |-> d]
NoHtml(g) == [g EXCEPT !.html = [ok |-> FALSE, r |-> <<>>, k |-> <<>>, inline |-> FALSE]]

\* a print-like call wrote w to the file; an identical console that never captures wrote tw
ObsWrite(g0, cs, w, tw) ==
    LET g == NoHtml(g0) IN
    IF g.depth = 0 THEN
        LET d == Decode(w, g.fpen) IN
        Res([g EXCEPT !.va = [c |-> @.c \o d.c, p |-> @.p \o d.p, l |-> @.l \o d.l],
                      !.vb = @ \o d.c, !.alt = @ \o d.c, !.fpen = d.pen],
            "ok", IF Raw(w) = Raw(tw) THEN "none" ELSE "file-differs-from-twin")
    ELSE
        LET r == Raw(tw) IN
        Res([g EXCEPT !.refs = [i \in 1..g.depth |-> [all |-> g.refs[i].all \o r,
                                                     own |-> IF i = g.depth THEN g.refs[i].own \o r ELSE g.refs[i].own]],
                      !.capv = @ \o Chars(tw)],
            IF w = <<>> THEN "ok" ELSE "capture-leak", "none")

ObsBegin(g0, w) ==
    LET g == NoHtml(g0) IN
    Res([g EXCEPT !.depth = @ + 1, !.refs = Append(@, [all |-> <<>>, own |-> <<>>]), !.nested = Append(@, FALSE),
                  !.capSince = TRUE, !.hasAlt = FALSE, !.murky = @ \/ g.depth >= 1],
        IF w = <<>> THEN "ok" ELSE "capture-leak", "none")

\* a capture block ended and returned the stream res; w is what reached the file during the call
ObsEnd(g0, res, w) ==
    LET g == NoHtml(g0)
        top == g.refs[g.depth]
        r == Raw(res)
        inner == g.depth >= 2
        hadInner == g.nested[g.depth]
        g2 == [g EXCEPT !.depth = @ - 1, !.refs = SubSeq(@, 1, g.depth - 1),
                        !.nested = IF inner THEN [SubSeq(@, 1, g.depth - 1) EXCEPT ![g.depth - 1] = TRUE] ELSE <<>>,
                        !.vb = IF inner THEN @ ELSE @ \o g.capv, !.capv = IF inner THEN @ ELSE <<>>]
        v == IF w # <<>> THEN "capture-leak"
             ELSE IF r = top.all \/ r = top.own THEN "ok"
             ELSE IF inner THEN "inner-capture-differs"
             ELSE IF hadInner THEN "outer-capture-differs"
             ELSE "capture-differs"
    IN Res(g2, v, "none")

Judged(g) == ~g.murky /\ g.depth = 0
AfterExport(g, clear) ==
    IF clear THEN [g EXCEPT !.va = E3, !.vb = <<>>, !.alt = IF g.depth = 0 /\ ~g.capSince THEN g.va.c ELSE <<>>,
                            !.hasAlt = g.depth = 0 /\ ~g.capSince,
                            !.capSince = g.depth > 0, !.murky = g.depth > 0, !.capv = <<>>]
    ELSE [g EXCEPT !.alt = <<>>, !.hasAlt = Judged(g) /\ ~g.capSince]

\* clauses 1, 2 (same relation on the code points of the plain export / the de-tagged HTML) and 5
TextVerdict(g, chars, what) ==
    IF Judged(g) /\ (chars = g.va.c \/ chars = g.vb) THEN "ok"
    ELSE IF HasControl(chars) THEN what \o "-has-control-code"      \* no visible text has one: judged always
    ELSE IF ~Judged(g) THEN "ok"
    ELSE IF g.hasAlt /\ chars = g.alt /\ g.alt = <<>> THEN "unclearing-export-emptied-record"
    ELSE IF g.hasAlt /\ chars = g.alt THEN "clearing-export-kept-record"
    ELSE what \o "-differs"
RecDrift(g, chars) == IF Judged(g) /\ chars = g.va.c /\ g.va.c # g.vb THEN "captured-not-recorded" ELSE "none"

ObsExportText(g, chars, clear) ==
    Res(AfterExport(NoHtml(g), clear), TextVerdict(g, chars, "text"), RecDrift(g, chars))

\* HTML: chars = text with tags removed and entities decoded; rule / link = per character ids of
\* the CSS rule and the href in force (statement silent: inline and class output are only
\* compared with each other, as drift)
ObsExportHtml(g, chars, rule, link, clear, inline) ==
    LET v == TextVerdict(g, chars, "html")
        d == IF g.html.ok /\ g.html.inline # inline /\ (g.html.r # rule \/ g.html.k # link)
             THEN "inline-vs-class-styles" ELSE RecDrift(g, chars)
        g2 == AfterExport(g, clear)
    IN Res([g2 EXCEPT !.html = [ok |-> ~clear, r |-> rule, k |-> link, inline |-> inline]], v, d)

\* clause 3: the styled export decodes to the same characters; every character shows the pen it
\* had in the file (modulo colour down-conversion; not when the console writes no styles) and,
\* for characters of a labelled chunk, the style the chunk was printed with (sty: chunk id -> sid)
ObsExportStyled(g, cs, ts, clear, sty) ==
    LET d == Decode(ts, NoPen)
        v0 == TextVerdict(g, d.c, "styled")
        strict == Judged(g) /\ ~g.capSince /\ d.c = g.va.c
        v == IF v0 # "ok" THEN v0
             ELSE IF strict /\ cs # "none" /\ \E i \in DOMAIN d.c : ~PenOK(cs, g.va.p[i], d.p[i]) THEN "styled-pen-differs-from-file"
             ELSE IF strict /\ \E i \in DOMAIN d.c : d.l[i] # 0 /\ sty[d.l[i]] >= 0 /\ ~ShowsStyle(cs, d.p[i], sty[d.l[i]])
                  THEN "styled-style-differs-from-printed"
             ELSE "ok"
    IN Res(AfterExport(NoHtml(g), clear), v, RecDrift(g, d.c))

\* ============================================================================================
\* Implementation-shaped part: the design of console.py / segment.py.
\* segment: [t: code points, s: style id (0 = None), c: is_control, l: chunk id]
Seg(t, s, c, l) == [t |-> t, s |-> s, c |-> c, l |-> l]
NL == Seg(<<10>>, 0, FALSE, 0)

\* Style.render(text, color_system) / the loop of _render_buffer
SegToks(cs, term, sg) ==
    IF sg.c THEN (IF term THEN <<TCtl(sg.t)>> ELSE <<>>)
    ELSE LET txt == TText(sg.t, [i \in 1..Len(sg.t) |-> sg.l])
             sgr == IF sg.s = 0 \/ cs = "none" THEN <<>> ELSE SgrOf(sg.s, cs)
             body == IF sgr = <<>> THEN <<txt>> ELSE <<TSgr(sgr), txt, TSgr(<<0>>)>>
         IN IF sg.s # 0 /\ cs # "none" /\ LinkOf(sg.s) # 0 THEN <<TOsc(LinkOf(sg.s))>> \o body \o <<TOsc(0)>> ELSE body
RECURSIVE WrittenFrom(_, _, _, _)
WrittenFrom(cs, term, segs, i) == IF i > Len(segs) THEN <<>> ELSE SegToks(cs, term, segs[i]) \o WrittenFrom(cs, term, segs, i + 1)
Written(cfg, segs) == WrittenFrom(cfg.cs, cfg.term, segs, 1)

\* Segment.simplify: guard = TRUE is the repaired design (never merge across is_control)
RECURSIVE Simp(_, _, _, _)
Simp(segs, i, last, guard) ==
    IF i > Len(segs) THEN <<last>>
    ELSE LET sg == segs[i] IN
         IF last.s = sg.s /\ ~sg.c /\ (guard => ~last.c)
         THEN Simp(segs, i + 1, Seg(last.t \o sg.t, last.s, FALSE, 0), guard)
         ELSE <<last>> \o Simp(segs, i + 1, sg, guard)
Simplify(segs, guard) == IF segs = <<>> THEN <<>> ELSE Simp(segs, 2, segs[1], guard)
FilterControl(segs) == SelectSeq(segs, LAMBDA sg : ~sg.c)

\* HTML as a flat sequence: tags are negative numbers, text is code points
Amp == <<38, 97, 109, 112, 59>>   Lt == <<38, 108, 116, 59>>   Gt == <<38, 103, 116, 59>>
RECURSIVE Repl(_, _, _, _)
Repl(t, i, ch, by) == IF i > Len(t) THEN <<>> ELSE (IF t[i] = ch THEN by ELSE <<t[i]>>) \o Repl(t, i + 1, ch, by)
Escape(t, order) ==
    CASE order = "amp-first" -> Repl(Repl(Repl(t, 1, 38, Amp), 1, 60, Lt), 1, 62, Gt)
      [] order = "lt-first"  -> Repl(Repl(Repl(t, 1, 60, Lt), 1, 62, Gt), 1, 38, Amp)
      [] OTHER               -> Repl(Repl(t, 1, 60, Lt), 1, 62, Gt)                 \* "no-amp"
HtmlSeg(sg, order) ==
    LET e == Escape(sg.t, order)
        sp == IF sg.s = 0 THEN e ELSE <<0 - (10 + sg.s)>> \o e \o <<0 - 1>>
    IN IF LinkOf(sg.s) # 0 THEN <<0 - 2>> \o sp \o <<0 - 3>> ELSE sp
RECURSIVE HtmlFrom(_, _, _)
HtmlFrom(segs, i, order) == IF i > Len(segs) THEN <<>> ELSE HtmlSeg(segs[i], order) \o HtmlFrom(segs, i + 1, order)
\* what a reader of the HTML does (the driver uses html.parser for this; trusted)
StripTags(h) == SelectSeq(h, LAMBDA x : x >= 0)
Starts(t, i, pat) == i + Len(pat) - 1 <= Len(t) /\ SubSeq(t, i, i + Len(pat) - 1) = pat
RECURSIVE Unesc(_, _)
Unesc(t, i) == IF i > Len(t) THEN <<>>
               ELSE IF Starts(t, i, Amp) THEN <<38>> \o Unesc(t, i + 5)
               ELSE IF Starts(t, i, Lt) THEN <<60>> \o Unesc(t, i + 4)
               ELSE IF Starts(t, i, Gt) THEN <<62>> \o Unesc(t, i + 4)
               ELSE <<t[i]>> \o Unesc(t, i + 1)
HtmlText(h) == Unesc(StripTags(h), 1)
\* per character of the text: style id in force (0 none).  One id per escaped source character.
RECURSIVE SegRule(_, _)
SegRule(segs, i) == IF i > Len(segs) THEN <<>> ELSE [j \in 1..Len(segs[i].t) |-> segs[i].s] \o SegRule(segs, i + 1)

\* Design switches:  simplify "guarded" | "shipped";  capture "mark" | "whole";
\*   esc "amp-first" | "lt-first" | "no-amp";  textctl "filter" | "keep";  clear "honoured" | "ignored" | "always"
\* console state: cfg [cs, term, width, record], file (tokens), rec / buf (segments), caps (buffer
\* length at each begin_capture), g (property bookkeeping), bad (first broken clause), out (last result)
NewConsole(cfg) == [cfg |-> cfg, file |-> <<>>, rec |-> <<>>, buf |-> <<>>, caps |-> <<>>, g |-> G0, bad |-> "none", drift |-> "none"]
Note(s, o) == [s EXCEPT !.g = o.g, !.bad = IF @ = "none" /\ o.v # "ok" THEN o.v ELSE @,
                        !.drift = IF @ = "none" THEN o.d ELSE @]

\* every print-like call: segments go to the thread buffer; outside capture blocks the buffer is
\* rendered at once (_check_buffer -> _render_buffer: extend the record, write to the file)
DoEmit(s, segs) ==
    LET capturing == s.caps # <<>>
        tw == Written(s.cfg, segs)
        s1 == IF capturing THEN [s EXCEPT !.buf = @ \o segs]
              ELSE [s EXCEPT !.file = @ \o tw, !.rec = IF s.cfg.record THEN @ \o segs ELSE @]
    IN Note(s1, ObsWrite(s.g, s.cfg.cs, IF capturing THEN <<>> ELSE tw, tw))

DoPrint(s, segs)  == DoEmit(s, segs \o <<NL>>)
DoLog(s, segs)    == DoEmit(s, <<Seg(<<91, 93>>, 7, FALSE, 0)>> \o segs \o <<NL>>)
DoRule(s)         == DoEmit(s, <<Seg(<<9472, 9472>>, 8, FALSE, 0), NL>>)
DoLine(s, n)      == IF n = 0 THEN s ELSE DoEmit(s, <<Seg([i \in 1..n |-> 10], 0, FALSE, 0)>>)
DoControl(s, cps) == DoEmit(s, <<Seg(cps, 0, TRUE, 0)>>)
DoBell(s)         == DoControl(s, <<7>>)
DoClear(s)        == DoControl(s, <<27, 91, 50, 74, 27, 91, 72>>)
DoShowCursor(s, b) == IF s.cfg.term THEN DoControl(s, <<27, 91, 63, 50, 53, IF b THEN 104 ELSE 108>>) ELSE s

DoBeginCapture(s) == Note([s EXCEPT !.caps = Append(@, Len(s.buf))], ObsBegin(s.g, <<>>))
CanEndCapture(s) == s.caps # <<>>
DoEndCapture(s, design) ==
    LET mark == IF design.capture = "mark" THEN s.caps[Len(s.caps)] ELSE 0
        part == SubSeq(s.buf, mark + 1, Len(s.buf))
        res == Written(s.cfg, part)
        s1 == [s EXCEPT !.buf = SubSeq(@, 1, mark), !.caps = SubSeq(@, 1, Len(@) - 1),
                        !.rec = IF s.cfg.record THEN @ \o part ELSE @]
    IN Note(s1, ObsEnd(s.g, res, <<>>))

Cleared(rec, clear, design) == IF (clear /\ design.clear # "ignored") \/ design.clear = "always" THEN <<>> ELSE rec
RECURSIVE SegChars(_, _, _)
SegChars(segs, i, keepCtl) == IF i > Len(segs) THEN <<>>
                              ELSE (IF segs[i].c /\ ~keepCtl THEN <<>> ELSE segs[i].t) \o SegChars(segs, i + 1, keepCtl)
DoExportText(s, clear, styles, design, sty) ==
    IF ~s.cfg.record THEN s            \* AssertionError, documented
    ELSE LET s1 == [s EXCEPT !.rec = Cleared(@, clear, design)] IN
         IF styles THEN Note(s1, ObsExportStyled(s.g, s.cfg.cs, Written([cs |-> "truecolor", term |-> TRUE], s.rec), clear, sty))
         ELSE Note(s1, ObsExportText(s.g, SegChars(s.rec, 1, design.textctl = "keep"), clear))
DoExportHtml(s, clear, inline, design) ==
    IF ~s.cfg.record THEN s
    ELSE LET segs == FilterControl(Simplify(s.rec, design.simplify = "guarded"))
             h == HtmlFrom(segs, 1, design.esc)
             rule == SegRule(segs, 1)
         IN Note([s EXCEPT !.rec = Cleared(@, clear, design)],
                 ObsExportHtml(s.g, HtmlText(h), rule, [i \in 1..Len(rule) |-> LinkOf(rule[i])], clear, inline))

Repaired == [simplify |-> "guarded", capture |-> "mark", esc |-> "amp-first", textctl |-> "filter", clear |-> "honoured"]
Shipped  == [Repaired EXCEPT !.simplify = "shipped", !.capture = "whole"]
=============================================================================
