------------------------------ MODULE LogRender ------------------------------
(* rich/_log_render.py + Console.log (beyond the listed properties; DESIGN.md §14): the time column of log lines.
   State of one console: `last` - the time text the renderer displayed most recently (0 = none yet); `rows` - what
   the user sees, one entry per output row: [t |-> time shown (0 = blank time cell), own |-> the time the row's log
   call was stamped with (0 for rows that are not first rows of a log call), first |-> first row of a log call].
   Log(t, h): one Console.log call stamped t (an id > 0 for the formatted text) whose message takes h rows; the time is
   displayed unless it equals the one displayed last, in which case the cell is blank (same width).
   PrintRows(h): Console.print of h rows - no time column, the renderer's memory is untouched.
   Property part: reading upwards from the first row of any log call, the first time shown is that call's own time. *)
EXTENDS Naturals, Sequences

Init0 == [last |-> 0, rows |-> <<>>]
Row(t, own, first) == [t |-> t, own |-> own, first |-> first]
Log(s, t, h) ==
    LET shown == IF t = s.last THEN 0 ELSE t IN
    [last |-> t,
     rows |-> s.rows \o <<Row(shown, t, TRUE)>> \o [i \in 1..(h - 1) |-> Row(0, 0, FALSE)]]
PrintRows(s, h) == [s EXCEPT !.rows = @ \o [i \in 1..h |-> Row(0, 0, FALSE)]]

\* the time a reader attributes to row k: the first time shown at or above it (0 = none)
RECURSIVE ReadUp(_, _)
ReadUp(rows, k) == IF k = 0 THEN 0 ELSE IF rows[k].t # 0 THEN rows[k].t ELSE ReadUp(rows, k - 1)
TimesReadable(rows) == \A k \in 1..Len(rows) : rows[k].first => ReadUp(rows, k) = rows[k].own
\* a time is never repeated on directly successive log calls (that is what the blank cell is for)
RECURSIVE PrevFirst(_, _)
PrevFirst(rows, k) == IF k = 0 THEN 0 ELSE IF rows[k].first THEN k ELSE PrevFirst(rows, k - 1)
NoRepeat(rows) == \A k \in 1..Len(rows) : (rows[k].first /\ rows[k].t # 0) =>
                      LET p == PrevFirst(rows, k - 1) IN p = 0 \/ rows[p].own # rows[k].own
LogVerdict(rows) == IF ~TimesReadable(rows) THEN "time-not-readable" ELSE IF ~NoRepeat(rows) THEN "time-repeated" ELSE "ok"
=============================================================================
