---------------------------- MODULE Trace_Table ----------------------------
(* M3 judge for C07.  One record per initial state, one VERDICT line per record.

   kind "table": [t (recipe), W, exc, lines, cells] - a real rich.table.Table built from the recipe and
       rendered at width W by drivers/c07.py; the verdict is Table!TableWhy: "ok", "outside", or the
       first failing clause with its line / column / cell index, followed by  m=<TableMin>  (the
       structural minimum TLC computed; the driver only uses its own copy to CHOOSE widths and
       reports a difference as its own drift) and, where the statement is silent,  d=<note>.
   kind "ratio": [fn, total, rs, bs, vals, wrap, out, raised] - one real call of ratio_distribute /
       ratio_reduce / Table._collapse_widths at table-like magnitudes (and the replay of a rejected
       MC_Ratio instance): "ok", "drift ..." when the result differs from the transcription but keeps
       the promised properties, else the failing clause.                                          *)
EXTENDS Table, Ratio, TLC, Json, IOUtils

Recs == JsonDeserialize(IOEnv.TRACE_FILE)

VARIABLE tid
vars == <<tid>>

TableVerdict(rec) ==
    LET why == TableWhy(rec.t, rec.W, rec.exc, rec.lines, rec.cells)
        d   == IF why[1] # "ok" THEN "none" ELSE DriftWhy(rec.t, rec.W, rec.lines)
    IN why[1] \o " " \o ToString(why[2]) \o " m=" \o ToString(TableMin(rec.t))
       \o (IF d = "none" THEN "" ELSE IF d = "width-option-not-exact" THEN " d=w"
           ELSE IF d = "content-inside-the-padding" THEN " d=p" ELSE " d=a")

RatioVerdict(rec) ==
    LET isD == rec.fn \in {"dist", "distn"}
        isR == rec.fn \in {"red", "redv"}
        mins == IF rec.fn = "distn" THEN <<>> ELSE rec.bs
        md == RatioDistribute(rec.total, rec.rs, mins)
        mr == RatioReduce(rec.total, rec.rs, rec.bs, rec.vals)
        mc == CollapseWidths(rec.bs, rec.wrap, rec.total)
        why == IF isD THEN (IF SumSeq(EffRatios(rec.rs, mins)) <= 0 THEN "ok"
                            ELSE IF rec.raised THEN "raised" ELSE DistWhy(rec.total, rec.rs, mins, rec.out))
               ELSE IF rec.raised THEN "raised"
               ELSE IF isR THEN ReduceWhy(rec.total, rec.rs, rec.bs, rec.vals, rec.out)
               ELSE CollapseWhy(rec.bs, rec.wrap, rec.total, rec.out)
        same == IF isD THEN (IF md.ok THEN ~rec.raised /\ rec.out = md.v ELSE rec.raised)
                ELSE IF isR THEN ~rec.raised /\ rec.out = mr
                ELSE ~rec.raised /\ rec.out = mc
    IN IF why # "ok" THEN "ratio:" \o rec.fn \o " " \o why
       ELSE IF ~same THEN "drift ratio:" \o rec.fn \o " differs"
       ELSE "ok"

Verdict(rec) == IF rec.kind = "table" THEN TableVerdict(rec) ELSE RatioVerdict(rec)

Init == tid \in 1..Len(Recs)
Next == FALSE /\ UNCHANGED tid      \* no steps: the verdict is printed from the initial state, once
Spec == Init /\ [][Next]_vars
Report == PrintT(<<"VERDICT", tid, Verdict(Recs[tid])>>)
=============================================================================
