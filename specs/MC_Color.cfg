CONSTANTS
  StdPalette <- JStd
  WinPalette <- JWin
  EightPalette <- JEight
SPECIFICATION Spec
INVARIANT SourcesWellFormed
INVARIANT DesignSatisfiesRelation
INVARIANT PredicateFormAgrees
INVARIANT SecondIsKeep
INVARIANT RelationIsTight
INVARIANT SgrShape
INVARIANT SgrInjective
PROPERTY IdempotentP
CHECK_DEADLOCK FALSE
