--------------------------- MODULE Trace_ThemeStack ---------------------------
(* M3: histories recorded from a real rich.console.Console are replayed through the actions of
   ThemeStack; after every call the observed get_style() table must equal Lookup. *)
EXTENDS ThemeStack, Json, IOUtils

Traces == JsonDeserialize(IOEnv.TRACE_FILE)

VARIABLES tid, l, s, verdict
vars == <<tid, l, s, verdict>>

Tr == Traces[tid]
Obs(e) == [n \in Names |-> e.obs[n]]

Init == /\ tid \in 1..Len(Traces)
        /\ l = 1
        /\ s = InitState(Traces[tid].base)
        /\ verdict = IF Obs(Traces[tid].init) = Table(InitState(Traces[tid].base).stack)
                     THEN "ok" ELSE "initial-lookup-differs"

Model(e) ==
    CASE e.k = "push"  -> DoPush(s, e.th, e.inh)
      [] e.k = "enter" -> DoUseEnter(s, e.th, e.inh)
      [] e.k = "pop"   -> IF Len(s.stack) > 1 THEN DoPop(s) ELSE DoPopBase(s)
      [] e.k = "exit"  -> DoUseExit(s)
      [] OTHER -> s

Judge(e, s2) ==
    IF e.err # s2.err THEN "step " \o ToString(l) \o " " \o e.k \o ": error-differs"
    ELSE IF e.k \in {"pop", "exit"} /\ s2.err = "none" /\ Obs(e) # s.saved[Len(s.saved)]
         THEN "step " \o ToString(l) \o " " \o e.k \o ": pop-does-not-restore"
    ELSE IF Obs(e) # Table(s2.stack) THEN "step " \o ToString(l) \o " " \o e.k \o ": lookup-differs"
    ELSE IF e.k = "exit" /\ e.exc /\ ~e.propagated THEN "step " \o ToString(l) \o ": exception-swallowed"
    ELSE "ok"

Step == /\ l <= Len(Tr.events) /\ verdict = "ok"
        /\ LET e == Tr.events[l]
               s2 == Model(e)
           IN s' = s2 /\ verdict' = Judge(e, s2)
        /\ l' = l + 1 /\ UNCHANGED tid

Next == Step
Spec == Init /\ [][Next]_vars
AtEnd == l = Len(Tr.events) + 1 \/ verdict # "ok"
Report == AtEnd => PrintT(<<"VERDICT", tid, verdict>>)
=============================================================================
