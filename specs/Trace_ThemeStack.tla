--------------------------- MODULE Trace_ThemeStack ---------------------------
(* M3: histories recorded from a real rich.console.Console (or a bare rich.theme.ThemeStack) are
   replayed through the actions of ThemeStack; after every call the observed lookups must equal Lookup.

   A record holds, per step, obs[n] for every name n: the projected result of the plain lookup of n, or
   "-" when n was not looked up at that step; and obsd[n] = [tn, dk, dn, tm]: the lookup of n with
   `default=` (dk = "name": the name dn, "style": a Style object, "bad": an invalid definition, "none":
   None); tn projects the result relative to n ("-" = not asked), tm relative to the default.          *)
EXTENDS ThemeStack, Json, IOUtils

CONSTANT ParseNames      \* the names that are syntactically valid style definitions

Traces == JsonDeserialize(IOEnv.TRACE_FILE)

VARIABLES tid, l, s, verdict
vars == <<tid, l, s, verdict>>

Tr == Traces[tid]

\* ---- property part ------------------------------------------------------------------------
\* every plain lookup made equals the rule's answer
Match(o, t) == \A n \in Names : o[n] = "-" \/ o[n] = t[n]
\* a lookup with a default: the statement speaks when a theme in effect defines the name (its entry),
\* when no theme defines it and it parses (the parsed definition), and when the default is None
DfltOK(q, t) == \A n \in Names : LET x == q[n] IN
      x.tn = "-" \/ ( /\ (t[n] # Parsed => x.tn = t[n])
                      /\ ((t[n] = Parsed /\ n \in ParseNames) => x.tn = Parsed)
                      /\ (x.dk = "none" => x.tn = t[n]) )
\* ---- implementation-shaped (DRIFT only): an undefined, unparsable name gives the resolved default
DfltDesign(q, t) == \A n \in Names : LET x == q[n] IN
      (x.tn # "-" /\ t[n] = Parsed /\ n \notin ParseNames) =>
          CASE x.dk = "name"  -> x.tm = t[x.dn]
            [] x.dk = "style" -> x.tm = "X"
            [] x.dk = "bad"   -> x.tm = Parsed
            [] OTHER -> TRUE

Init == /\ tid \in 1..Len(Traces)
        /\ l = 1
        /\ s = InitState(Traces[tid].base)
        /\ LET t0 == Table(InitState(Traces[tid].base).stack)
               i0 == Traces[tid].init
           IN /\ verdict = IF ~Match(i0.obs, t0) THEN "initial-lookup-differs"
                           ELSE IF ~DfltOK(i0.obsd, t0) THEN "initial-default-lookup-differs"
                           ELSE "ok"
              /\ (Match(i0.obs, t0) /\ DfltOK(i0.obsd, t0) /\ ~DfltDesign(i0.obsd, t0)) =>
                     PrintT(<<"DRIFT", tid, "step 0 init: fallback-to-default-differs-from-design">>)

\* a ThemeContext object entered a second time may refuse (raise, nothing pushed); the driver then
\* logs the matching exit as "noop"
Model(e) ==
    CASE e.k = "push"  -> DoPush(s, e.th, e.inh)
      [] e.k = "enter" -> IF e.reused /\ e.err # "none" THEN [s EXCEPT !.err = e.err]
                          ELSE DoUseEnter(s, e.th, e.inh)
      [] e.k = "pop"   -> IF Len(s.stack) > 1 THEN DoPop(s) ELSE DoPopBase(s)
      [] e.k = "exit"  -> DoUseExit(s)
      [] OTHER -> [s EXCEPT !.err = "none"]

Judge(e, s2) ==
    IF e.err # s2.err THEN "step " \o ToString(l) \o " " \o e.k \o ": error-differs"
    ELSE IF e.k \in {"pop", "exit"} /\ s2.err = "none" /\ ~Match(e.obs, s.saved[Len(s.saved)])
         THEN "step " \o ToString(l) \o " " \o e.k \o ": pop-does-not-restore"
    ELSE IF ~Match(e.obs, Table(s2.stack)) THEN "step " \o ToString(l) \o " " \o e.k \o ": lookup-differs"
    ELSE IF ~DfltOK(e.obsd, Table(s2.stack)) THEN "step " \o ToString(l) \o " " \o e.k \o ": default-lookup-differs"
    ELSE IF e.k = "exit" /\ e.exc /\ ~e.propagated THEN "step " \o ToString(l) \o ": exception-swallowed"
    ELSE "ok"

Step == /\ l <= Len(Tr.events) /\ verdict = "ok"
        /\ LET e == Tr.events[l]
               s2 == Model(e)
               v == Judge(e, s2)
           IN /\ s' = s2 /\ verdict' = v
              /\ (v = "ok" /\ ~DfltDesign(e.obsd, Table(s2.stack))) =>
                     PrintT(<<"DRIFT", tid, "step " \o ToString(l) \o " " \o e.k \o ": fallback-to-default-differs-from-design">>)
        /\ l' = l + 1 /\ UNCHANGED tid

Next == Step
Spec == Init /\ [][Next]_vars
AtEnd == l = Len(Tr.events) + 1 \/ verdict # "ok"
Report == AtEnd => PrintT(<<"VERDICT", tid, verdict>>)
=============================================================================
