------------------------------ MODULE Trace_Sgr ------------------------------
(* C03 (and the decoder half of C19).  A record is one print of a sequence of styled segments
   on one console configuration:
     cfg   [system ("none","standard","256","truecolor","windows"), nocolor, terminal, legacy]
     segs  the segments as printed: text (code points; 10 = newline) and the styles it was printed
           with, bottom to top, as layers [on, off (attributes set to True / False), fg, bg (a colour
           after the documented down-conversion done by the driver with Color.downgrade - C18's
           subject - or k = "unset"), link (id, 0 = unset)]: a base style given to the console or to
           print() lies under the segment's own style
     ctls  the control segments printed, tokenised (<<"ctl", cp>> / <<"esc", code points>>)
     out   the characters the console wrote, tokenised lexically (engine/sgrlex.py)
     dec   (truecolor only) what rich.ansi.AnsiDecoder made of that output: per character <<cp, pen>>
   TLC interprets `out` with the independent terminal automaton Sgr.tla and judges.           *)
EXTENDS Sgr, Json, IOUtils, TLC

Recs == JsonDeserialize(IOEnv.TRACE_FILE)
VARIABLE tid
R == Recs[tid]

PenOf(p) == [attrs |-> {p.attrs[i] : i \in DOMAIN p.attrs}, fg |-> p.fg, bg |-> p.bg, link |-> p.link]
SetOf(q) == {q[i] : i \in DOMAIN q}
\* what a stack of styles means: an upper layer wins exactly where it specifies a value
RECURSIVE Over(_, _)
Over(pen, ls) ==
    IF ls = <<>> THEN pen
    ELSE LET y == Head(ls) IN
         Over([attrs |-> (pen.attrs \ SetOf(y.off)) \cup SetOf(y.on),
               fg |-> IF y.fg.k = "unset" THEN pen.fg ELSE y.fg,
               bg |-> IF y.bg.k = "unset" THEN pen.bg ELSE y.bg,
               link |-> IF y.link = 0 THEN pen.link ELSE y.link], Tail(ls))
\* ... on this console: nothing with colour disabled, no colours under NO_COLOR, no hyperlink on legacy windows
Means(ls) ==
    LET p == Over(NullPen, ls) IN
    IF R.cfg.system = "none" THEN NullPen
    ELSE [attrs |-> p.attrs, fg |-> IF R.cfg.nocolor THEN Def ELSE p.fg, bg |-> IF R.cfg.nocolor THEN Def ELSE p.bg,
          link |-> IF R.cfg.legacy THEN 0 ELSE p.link]
\* the cells the terminal shows: every character with its pen, newlines included as characters
RECURSIVE Cells(_, _, _)
Cells(pen, es, acc) ==
    IF es = <<>> THEN [cells |-> acc, pen |-> pen]
    ELSE LET e == Head(es) IN
         CASE e[1] = "c"    -> Cells(pen, Tail(es), Append(acc, <<e[2], pen>>))
           [] e[1] = "nl"   -> Cells(pen, Tail(es), Append(acc, <<10, pen>>))
           [] e[1] = "sgr"  -> Cells(Sgr(pen, e[2]), Tail(es), acc)
           [] e[1] = "link" -> Cells([pen EXCEPT !.link = e[2]], Tail(es), acc)
           [] OTHER         -> Cells(pen, Tail(es), acc)
Shown == Cells(NullPen, R.out, <<>>)
RECURSIVE Want(_, _)
Want(segs, acc) == IF segs = <<>> THEN acc
                   ELSE Want(Tail(segs), acc \o [i \in DOMAIN Head(segs).text |-> <<Head(segs).text[i], Means(Head(segs).layers)>>])
Expected == Want(R.segs, <<>>)

HasEscape == \E i \in DOMAIN R.out : R.out[i][1] \in {"sgr", "link", "unk"}
IsControl(e) == e[1] \in {"ctl", "esc"}
HasControl == \E i \in DOMAIN R.out : IsControl(R.out[i]) \/ R.out[i][1] = "unk"
\* the control codes written are those of the control segments, in order (on a terminal)
Codes(es) == [i \in DOMAIN es |-> IF es[i][1] = "ctl" THEN <<es[i][2]>> ELSE es[i][2]]
Controls == Codes(SelectSeq(R.out, IsControl))
HasColourParam == \E i \in DOMAIN R.out : R.out[i][1] = "sgr" /\ ColourParams(R.out[i][2], 1) > 0
\* on a newline cell only the character counts (a pen on a line break shows nothing)
SameCell(a, b) == a[1] = b[1] /\ (a[1] = 10 \/ a[2] = b[2])
FirstDiff(x, y) == CHOOSE i \in 1..Len(x) : ~SameCell(x[i], y[i]) /\ \A j \in 1..(i - 1) : SameCell(x[j], y[j])
What(a, b) == IF a[1] # b[1] THEN "character" ELSE IF a[2].attrs # b[2].attrs THEN "attributes"
              ELSE IF a[2].fg # b[2].fg THEN "foreground" ELSE IF a[2].bg # b[2].bg THEN "background" ELSE "link"

DecCells == [i \in DOMAIN R.dec |-> <<R.dec[i][1], PenOf(R.dec[i][2])>>]
\* Shown / Expected / DecCells are bound once per record (LET values are computed once): records of thousands of cells stay cheap
Verdict ==
    LET sh == Shown
        ex == Expected
        dc == DecCells
    IN
    IF R.exc # "none" THEN "raises-" \o R.exc
    ELSE IF R.cfg.system = "none" /\ HasEscape THEN "escape-sequence-with-colour-disabled"
    ELSE IF R.cfg.nocolor /\ HasColourParam THEN "colour-parameter-under-NO_COLOR"
    ELSE IF ~R.cfg.terminal /\ HasControl THEN "control-code-on-non-terminal"
    ELSE IF \E i \in DOMAIN R.out : R.out[i][1] = "unk" THEN "unknown-escape-sequence"
    ELSE IF R.cfg.terminal /\ Controls # Codes(R.ctls) THEN "control-codes-differ"
    ELSE IF Len(sh.cells) # Len(ex) THEN "visible-characters-differ"
    ELSE IF \E i \in DOMAIN ex : ~SameCell(sh.cells[i], ex[i])
         THEN LET k == FirstDiff(sh.cells, ex) IN "cell-differs:" \o What(sh.cells[k], ex[k])
    ELSE IF sh.pen # NullPen THEN "style-leaks-past-the-end"
    ELSE IF ~R.hasdec THEN "ok"
    ELSE IF Len(dc) # Len(sh.cells) THEN "decoder:characters-differ"
    ELSE IF \E i \in DOMAIN dc : ~SameCell(dc[i], sh.cells[i])
         THEN LET k == FirstDiff(dc, sh.cells) IN "decoder:" \o What(dc[k], sh.cells[k])
    ELSE "ok"

Init == tid \in 1..Len(Recs)
Next == FALSE /\ UNCHANGED tid        \* one state per record: the verdict is printed once
Report == PrintT(<<"VERDICT", tid, Verdict>>)
=============================================================================
