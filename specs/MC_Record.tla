------------------------------ MODULE MC_Record ------------------------------
(* M1: every history of up to MCDepth public calls (print of one or two chunks of every kind, log,
   rule, line, bell, clear, show_cursor, control, begin/end capture nested up to MaxNest, the four
   text exports and the four HTML exports) on a recording console, for every colour system in CSs
   x terminal or not; one invariant per clause of C15, judged by the property part of Record.tla
   on what the design writes / exports / returns.  DesignName selects the design: "repaired" must
   satisfy every clause; each shipped or mutated choice must be exhibited as a defect by TLC.
   M2: with CONSTRAINT Emit the module prints histories of GenDepth calls as JSON.             *)
EXTENDS Record, Json

CONSTANTS MCDepth, GenDepth, MaxNest, CSs, DesignName, Alphabet
VARIABLES s, hist, op
vars == <<s, hist, op>>

Design == CASE DesignName = "repaired"           -> Repaired
            [] DesignName = "shipped"            -> Shipped
            [] DesignName = "shipped-simplify"   -> [Repaired EXCEPT !.simplify = "shipped"]
            [] DesignName = "shipped-capture"    -> [Repaired EXCEPT !.capture = "whole"]
            [] DesignName = "esc-lt-first"       -> [Repaired EXCEPT !.esc = "lt-first"]
            [] DesignName = "esc-no-amp"         -> [Repaired EXCEPT !.esc = "no-amp"]
            [] DesignName = "text-keeps-control" -> [Repaired EXCEPT !.textctl = "keep"]
            [] DesignName = "clear-ignored"      -> [Repaired EXCEPT !.clear = "ignored"]
            [] DesignName = "always-clears"      -> [Repaired EXCEPT !.clear = "always"]

\* the chunk universe: one chunk per kind (two styled ones); id = position
Ch(kind, id, sty) == [kind |-> kind, id |-> id, sty |-> sty]
Universe == << Ch("plain", 1, 0), Ch("special", 2, 0), Ch("styled", 3, 1), Ch("styled", 4, 3), Ch("link", 5, 4),
               Ch("wide", 6, 0), Ch("newline", 7, 0), Ch("control", 8, 0), Ch("styled", 9, 5) >>
StyOf == [i \in 1..Len(Universe) |-> Universe[i].sty]
ChunkSet == {Universe[i] : i \in 1..Len(Universe)}

ChunkSegs(ch) ==
    CASE ch.kind = "plain"   -> <<Seg(<<100 + ch.id, 120 + ch.id>>, 0, FALSE, ch.id)>>
      [] ch.kind = "special" -> <<Seg(<<60, 38, 62, 38, 108, 116, 59, 38, 97, 109, 112, 59, 34>>, 0, FALSE, ch.id)>>   \* <&>&lt;&amp;"
      [] ch.kind \in {"styled", "link"} -> <<Seg(<<100 + ch.id>>, ch.sty, FALSE, ch.id)>>
      [] ch.kind = "wide"    -> <<Seg(<<19990 + ch.id>>, 0, FALSE, ch.id)>>
      [] ch.kind = "newline" -> <<NL>>
      [] OTHER               -> <<Seg(<<7>>, 0, TRUE, 0)>>
RECURSIVE SegsOf(_)
SegsOf(chs) == IF chs = <<>> THEN <<>> ELSE ChunkSegs(Head(chs)) \o SegsOf(Tail(chs))

\* Alphabet "full": every call, every chunk kind alone and the pairs below;  "pairs": every pair of
\* chunks as well;  "core": the calls that interact (text next to control codes, captures, exports)
\* for deeper histories
Full == Alphabet # "core"
PrintArgs == IF ~Full THEN {<<Universe[1]>>, <<Universe[2]>>, <<Universe[3]>>}
             ELSE {<<c>> : c \in ChunkSet} \cup
             (IF Alphabet = "pairs" THEN {<<a, b>> : a \in ChunkSet, b \in ChunkSet}
              ELSE {<<Universe[8], Universe[1]>>, <<Universe[1], Universe[8]>>, <<Universe[3], Universe[3]>>,
                    <<Universe[3], Universe[9]>>, <<Universe[2], Universe[5]>>, <<Universe[7], Universe[8]>>})

Configs == {[cs |-> c, term |-> t, width |-> 40, record |-> TRUE] : c \in CSs, t \in BOOLEAN}
           \cup (IF Full THEN {[cs |-> "none", term |-> FALSE, width |-> 40, record |-> FALSE]} ELSE {})   \* exports refuse

MaxN(a, b) == IF a > b THEN a ELSE b
On == Len(hist) < MaxN(MCDepth, GenDepth)
Log == hist' = Append(hist, op')
Init == /\ \E cfg \in Configs : s = NewConsole(cfg)
        /\ hist = <<>> /\ op = [k |-> "init"]

PrintA == \E chs \in PrintArgs : On /\ s' = DoPrint(s, SegsOf(chs)) /\ op' = [k |-> "print", ch |-> chs] /\ Log
LogA   == \E c \in {Universe[1], Universe[3]} : On /\ Full /\ s' = DoLog(s, ChunkSegs(c)) /\ op' = [k |-> "log", ch |-> <<c>>] /\ Log
RuleA  == On /\ Full /\ s' = DoRule(s) /\ op' = [k |-> "rule"] /\ Log
LineA  == \E n \in {1, 2} : On /\ (Full \/ n = 1) /\ s' = DoLine(s, n) /\ op' = [k |-> "line", n |-> n] /\ Log
BellA  == On /\ s' = DoBell(s) /\ op' = [k |-> "bell"] /\ Log
ClearA == On /\ Full /\ s' = DoClear(s) /\ op' = [k |-> "clear"] /\ Log
ShowCursorA == \E b \in BOOLEAN : On /\ Full /\ s' = DoShowCursor(s, b) /\ op' = [k |-> "cursor", show |-> b] /\ Log
ControlA == On /\ Full /\ s' = DoControl(s, <<27, 91, 49, 65>>) /\ op' = [k |-> "control"] /\ Log
BeginCaptureA == On /\ Len(s.caps) < MaxNest /\ s' = DoBeginCapture(s) /\ op' = [k |-> "begin"] /\ Log
EndCaptureA == On /\ CanEndCapture(s) /\ s' = DoEndCapture(s, Design) /\ op' = [k |-> "end"] /\ Log
ExportTextA == \E clear \in BOOLEAN, styles \in BOOLEAN : On /\
                  s' = DoExportText(s, clear, styles, Design, StyOf) /\ op' = [k |-> "text", clear |-> clear, styles |-> styles] /\ Log
ExportHtmlA == \E clear \in BOOLEAN, inline \in BOOLEAN : On /\ (Full \/ ~inline) /\
                  s' = DoExportHtml(s, clear, inline, Design) /\ op' = [k |-> "html", clear |-> clear, inline |-> inline] /\ Log

Next == PrintA \/ LogA \/ RuleA \/ LineA \/ BellA \/ ClearA \/ ShowCursorA \/ ControlA
        \/ BeginCaptureA \/ EndCaptureA \/ ExportTextA \/ ExportHtmlA
Spec == Init /\ [][Next]_vars

\* ---- one invariant per clause -----------------------------------------------------------------
Clause1Text    == s.bad \notin {"text-differs", "text-has-control-code"}
Clause2Html    == s.bad \notin {"html-differs", "html-has-control-code"}
Clause3Styled  == s.bad \notin {"styled-differs", "styled-has-control-code", "styled-pen-differs-from-file", "styled-style-differs-from-printed"}
Clause4Capture == s.bad \notin {"capture-leak", "capture-differs", "inner-capture-differs", "outer-capture-differs"}
Clause5Clear   == s.bad \notin {"unclearing-export-emptied-record", "clearing-export-kept-record"}
\* the design does what the implementation-shaped part says (captured output recorded, inline = class styles)
DesignNoDrift  == s.drift = "none"
\* design facts: outside capture blocks the buffer is empty; the record never holds more than was printed
BufferInv      == (s.caps = <<>>) => s.buf = <<>>

\* the file is an append-only log that no clause reads except through g.va: hide it (and the history)
View == [s EXCEPT !.file = <<>>]
Emit == /\ Len(hist) <= GenDepth
        /\ (Len(hist) = GenDepth => PrintT(ToJson([beh |-> hist, cfg |-> s.cfg])))
=============================================================================
