------------------------------ MODULE MC_Parsers ------------------------------
(* M1 / M2 for C14.
   A state is one input: (entry point, context, token sequence); the state graph is the tree of all
   token sequences over Alphabet(entry) up to the bound of the entry (CtxCut tokens shorter inside a
   non-empty context).
   M1: invariants on the grammar itself (Predicted is always inside Allowed; the design of the
       parsers agrees with itself: a style word position accepts exactly the colours Color.parse
       accepts, get_style fails exactly where Style.parse fails and the name is no theme name, ...)
       and one action per (entry, predicted class) so that -coverage shows every class is reachable.
   M2: the constraint Emit prints every state as JSON ({"beh": {e, c, t}}) for replay on the real
       code; the token table is printed once.                                                    *)
EXTENDS Parsers, Json

CONSTANTS LColor, LStyle, LGet, LGetd, LMarkup, LPrintm, LDecode, LText, LPrint,
          CtxCut,         \* how much shorter the enumerated part is inside a non-empty context
          EmitOn          \* TRUE: print the inputs (M2)

VARIABLES entry, ctx, seq
vars == <<entry, ctx, seq>>

\* the names a model-checking run knows (the real tables are read from the tree under test in M3):
\* every colour / theme name that can be spelled with tokens of the alphabets
MCColorNames == { <<114,101,100>>, <<114,101,100,49>>, <<100,101,102,97,117,108,116>> }            \* red red1 default
MCThemeNames == { <<110,111,110,101>>, <<98,111,108,100>>, <<114,101,100>>, <<98,108,105,110,107>> } \* none bold red blink

Bound(e) == CASE e = "color" -> LColor [] e = "style" -> LStyle [] e = "get" -> LGet [] e = "getd" -> LGetd
              [] e = "markup" -> LMarkup [] e = "printm" -> LPrintm [] e = "decode" -> LDecode
              [] e = "text" -> LText [] e = "print" -> LPrint
Limit == IF ctx = 1 THEN Bound(entry) ELSE Bound(entry) - CtxCut

Full(e, c, s) == InContext(e, c, s)
Cur == Flat(Full(entry, ctx, seq))

Init == /\ entry \in Entries
        /\ ctx \in 1..Len(Contexts(entry))
        /\ seq = <<>>

On == TRUE
Grow(e, t, cls) == /\ entry = e /\ Len(seq) < Limit
                   /\ seq' = Append(seq, t) /\ UNCHANGED <<entry, ctx>>
                   /\ Predicted(e, Flat(Full(e, ctx, Append(seq, t)))) = cls

ColorOk    == \E t \in Alphabet("color")  : On /\ Grow("color", t, "ok")
ColorErr   == \E t \in Alphabet("color")  : On /\ Grow("color", t, "ColorParseError")
StyleOk    == \E t \in Alphabet("style")  : On /\ Grow("style", t, "ok")
StyleErr   == \E t \in Alphabet("style")  : On /\ Grow("style", t, "StyleSyntaxError")
GetOk      == \E t \in Alphabet("get")    : On /\ Grow("get", t, "ok")
GetMissing == \E t \in Alphabet("get")    : On /\ Grow("get", t, "MissingStyle")
GetdOk     == \E t \in Alphabet("getd")   : On /\ Grow("getd", t, "ok")
MarkupOk   == \E t \in Alphabet("markup") : On /\ Grow("markup", t, "ok")
MarkupErr  == \E t \in Alphabet("markup") : On /\ Grow("markup", t, "MarkupError")
PrintmOk   == \E t \in Alphabet("printm") : On /\ Grow("printm", t, "ok")
PrintmErr  == \E t \in Alphabet("printm") : On /\ Grow("printm", t, "MarkupError")
DecodeOk   == \E t \in Alphabet("decode") : On /\ Grow("decode", t, "ok")
TextOk     == \E t \in Alphabet("text")   : On /\ Grow("text", t, "ok")
PrintOk    == \E t \in Alphabet("print")  : On /\ Grow("print", t, "ok")

Next == ColorOk \/ ColorErr \/ StyleOk \/ StyleErr \/ GetOk \/ GetMissing \/ GetdOk \/ MarkupOk \/ MarkupErr
        \/ PrintmOk \/ PrintmErr \/ DecodeOk \/ TextOk \/ PrintOk

Spec == Init /\ [][Next]_vars

\* ---- sanity invariants of the grammar ---------------------------------------------------------
TypeOK == entry \in Entries /\ ctx \in 1..Len(Contexts(entry)) /\ seq \in Seq(Alphabet(entry))
PredictedAllowed == Predicted(entry, Cur) \in Allowed(entry)
\* the parsers are layered consistently (evaluated on every enumerated string, whatever its entry)
Layering ==
    /\ (GetStyleClass(Cur, FALSE) = "ok") = (Cur \in ThemeNames \/ StyleClass(Cur) = "ok")
    /\ GetStyleClass(Cur, TRUE) = "ok"
    /\ (ColorClass(Cur) = "ok" /\ Words(Cur) # <<>> /\ Len(Words(Cur)) = 1 /\ AttrIdx(Lower(Words(Cur)[1])) = 0
        /\ Lower(Words(Cur)[1]) \notin {S_on, S_not, S_link})
          => StyleClass(Cur) = "ok"                     \* a colour is a style
    /\ (StyleClass(Cur) = "ok") => (Normalize(Cur) = Normalize(Normalize(Cur)))     \* the normal form is a fixed point
\* a string without '[' carries no tag
NoBracketNoError == (\A i \in 1..Len(Cur) : Cur[i] # 91) => MarkupClass(Cur) = "ok"

\* ---- unit checks of the grammar (evaluated once) --------------------------------------------
T(ids) == Flat(ids)
ASSUME /\ ColorClass(T(<<1, 4, 2, 4, 2, 5, 3>>)) = "ok"                  \* rgb(1,1,25)
       /\ ColorClass(T(<<1, 4, 2, 4, 2, 5, 6, 3>>)) = "ColorParseError"  \* rgb(1,1,256)
       /\ ColorClass(T(<<1, 2, 2, 3>>)) = "ColorParseError"              \* rgb(,,)
       /\ ColorClass(T(<<1, 4, 29, 4, 2, 4, 2, 4, 3>>)) = "ColorParseError"   \* rgb(1 1,1,1)
       /\ ColorClass(T(<<1, 29, 4, 30, 2, 4, 2, 4, 3>>)) = "ok"          \* rgb( 1\n,1,1)
       /\ ColorClass(T(<<1, 7, 2, 4, 2, 4, 3>>)) = "ok"                  \* rgb(٣,1,1): \d and int() accept Nd digits
       /\ ColorClass(T(<<1, 8, 2, 4, 2, 4, 3>>)) = "ColorParseError"     \* rgb(²,1,1)
       /\ ColorClass(T(<<1, 4, 2, 4, 3>>)) = "ColorParseError"           \* two components
       /\ ColorClass(T(<<1, 4, 2, 4, 2, 4, 2, 4, 3>>)) = "ColorParseError"    \* four components
       /\ ColorClass(T(<<9, 10, 10>>)) = "ok" /\ ColorClass(T(<<9, 10, 10, 11>>)) = "ColorParseError"
       /\ ColorClass(T(<<9, 10, 7, 7, 7>>)) = "ColorParseError"          \* non-ASCII digits are no hex digits
       /\ ColorClass(T(<<12, 5, 35, 3>>)) = "ok" /\ ColorClass(T(<<12, 5, 6, 3>>)) = "ColorParseError"   \* color(255) color(256)
       /\ ColorClass(T(<<12, 7, 3>>)) = "ColorParseError" /\ ColorClass(T(<<12, 3>>)) = "ColorParseError"
       /\ ColorClass(T(<<29, 13, 30>>)) = "ok" /\ ColorClass(T(<<13, 4>>)) = "ok" /\ ColorClass(T(<<14>>)) = "ok"
       /\ ColorClass(<<>>) = "ColorParseError" /\ ColorClass(T(<<13, 29, 13>>)) = "ColorParseError"
ASSUME /\ StyleClass(<<>>) = "ok" /\ StyleClass(T(<<29>>)) = "ok" /\ StyleClass(T(<<29, 20, 30>>)) = "ok"
       /\ StyleClass(T(<<20, 29, 18>>)) = "StyleSyntaxError"             \* none bold
       /\ StyleClass(T(<<15>>)) = "StyleSyntaxError" /\ StyleClass(T(<<16>>)) = "StyleSyntaxError"
       /\ StyleClass(T(<<17, 29>>)) = "StyleSyntaxError"
       /\ StyleClass(T(<<17, 29, 15>>)) = "ok"                           \* link on
       /\ StyleClass(T(<<15, 29, 13>>)) = "ok" /\ StyleClass(T(<<15, 29, 15>>)) = "StyleSyntaxError"
       /\ StyleClass(T(<<16, 29, 19>>)) = "ok" /\ StyleClass(T(<<16, 29, 13>>)) = "StyleSyntaxError"
       /\ StyleClass(T(<<18, 29, 1, 2, 2, 3>>)) = "StyleSyntaxError"     \* bold rgb(,,)
       /\ StyleClass(T(<<18, 30, 13, 29, 15, 29, 1, 4, 2, 4, 2, 4, 3>>)) = "ok"
       /\ Normalize(T(<<13, 29, 19>>)) = T(<<18, 29, 13>>)               \* "red b" -> "bold red"
       /\ Normalize(T(<<16, 29, 19, 29, 15, 29, 13, 29, 17, 29, 31>>)) = T(<<16, 29, 18, 29, 15, 29, 13, 29, 17, 29, 31>>)
       /\ Normalize(T(<<29, 31, 29>>)) = T(<<31>>) /\ Normalize(T(<<29>>)) = S_none
ASSUME /\ GetStyleClass(T(<<20>>), FALSE) = "ok" /\ GetStyleClass(T(<<31>>), FALSE) = "MissingStyle"
       /\ GetStyleClass(T(<<31>>), TRUE) = "ok"
ASSUME /\ MarkupClass(T(<<21, 23, 22>>)) = "MarkupError"                                  \* [/]
       /\ MarkupClass(T(<<24, 21, 23, 22>>)) = "ok"                                       \* \[/]
       /\ MarkupClass(T(<<24, 24, 21, 23, 22>>)) = "MarkupError"                          \* \\[/]
       /\ MarkupClass(T(<<21, 18, 22, 21, 23, 19, 22>>)) = "ok"                           \* [bold][/b]
       /\ MarkupClass(T(<<21, 18, 22, 21, 23, 31, 22>>)) = "MarkupError"                  \* [bold][/x]
       /\ MarkupClass(T(<<21, 18, 22, 21, 23, 29, 22>>)) = "ok"                           \* [bold][/ ]
       /\ MarkupClass(T(<<21, 19, 29, 13, 22, 21, 23, 13, 29, 18, 22>>)) = "ok"           \* [b red][/red bold]
       /\ MarkupClass(T(<<21, 17, 25, 31, 22, 21, 23, 17, 22>>)) = "ok"                   \* [link=x][/link]
       /\ MarkupClass(T(<<21, 23, 25, 31, 22>>)) = "MarkupError"                          \* [/=x]
       /\ MarkupClass(T(<<21, 23, 30, 22>>)) = "ok"                                       \* [/\n] is no tag
       /\ MarkupClass(T(<<21, 29, 23, 22>>)) = "ok"                                       \* [ /] is no tag
       /\ MarkupClass(T(<<21, 31, 22, 21, 23, 22, 21, 23, 22>>)) = "MarkupError"
ASSUME \A e \in Entries : "ok" \in Allowed(e) /\ Alphabet(e) \subseteq 1..NTok
ASSUME EmitOn => PrintT(ToJson([toktable |-> Tok]))

\* ---- M2 ------------------------------------------------------------------------------------------
Emit == EmitOn => PrintT(ToJson([beh |-> [e |-> entry, c |-> ctx, t |-> Full(entry, ctx, seq)]]))
=============================================================================
