CONSTANTS
  Names = {"n1", "n2", "n3", "d1", "d2", "q1", "q2", "u1"}
  DefaultNames = {"d1", "d2"}
  ParseNames = {"q1", "q2", "u1"}
  Sids = {"s0", "s1", "s2", "s3"}
SPECIFICATION Spec
CONSTRAINT Report
CHECK_DEADLOCK FALSE
