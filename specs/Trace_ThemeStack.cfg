CONSTANTS
  Names = {"n1", "n2", "d1", "q1"}
  DefaultNames = {"d1"}
  Sids = {"s1", "s2"}
SPECIFICATION Spec
CONSTRAINT Report
CHECK_DEADLOCK FALSE
