----------------------------- MODULE Trace_Prompt -----------------------------
(* M3: real Prompt / IntPrompt / Confirm runs on a real Console reading from a stream.  One record = one ask():
   cfg, the lines the stream held, what the console showed (tokenised lexically into prompt / validate / choice /
   other, with what each prompt displayed) and the returned value.  TLC judges the property part
   (PromptVerdict) and - as DRIFT only - agreement with the loop as modelled (Run) and the prompt's parts.    *)
EXTENDS Prompt, Json, IOUtils, TLC

Recs == JsonDeserialize(IOEnv.TRACE_FILE)
VARIABLES tid
R == Recs[tid]
Init == tid \in 1..Len(Recs)
Next == FALSE /\ UNCHANGED tid
Spec == Init /\ [][Next]_tid
Val == IF R.res.t = "none" THEN VDefault ELSE [t |-> R.res.t, s |-> R.res.s, n |-> R.res.n]
Obs == [shown |-> R.shown, res |-> Val, returned |-> R.returned]
N == Len(R.lines) + 1
Model == Run(R.cfg, R.lines, St0, N)
Parts == PromptParts(R.cfg)
Verdict ==
    IF R.exc # "none" THEN "raises-" \o R.exc
    ELSE LET v == PromptVerdict(R.cfg, R.lines, Obs, N) IN
         IF v # "ok" THEN v
         ELSE IF \E j \in 1..Len(R.parts) : R.parts[j].choices # Parts.choices THEN "choices-display-differs"
         ELSE IF \E j \in 1..Len(R.parts) : R.parts[j].default # Parts.default THEN "default-display-differs"
         ELSE "ok"
Drift == Verdict = "ok" /\ Model.done /\ (Model.shown # R.shown \/ Model.res # Val)
Report == /\ PrintT(<<"VERDICT", tid, Verdict>>)
          /\ (Drift => PrintT(<<"DRIFT", tid, "ask loop differs from Prompt.tla Run">>))
=============================================================================
