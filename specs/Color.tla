--------------------------- MODULE Color ---------------------------
(* Colour values, palettes, Rich's weighted-RGB metric, colour down-conversion and SGR code
   generation (rich/color.py, rich/palette.py, rich/_palettes.py).  SHARED module: C18 (this
   property), C03 / C19 (SGR parameters of a pen colour).

   Property part      : Dist2, Nearest, Representable, DownOK (= conjunction of the named clauses
                        DefaultOK, GamutOK, UnchangedOK, NearestOK, GreyOK), IdempotentOK, SgrCodes.
   Implementation part: RefBranch / RefDowngradeSet - a transcription of Color.downgrade
                        (color.py:470-520) and Palette.match (palette.py:44-71) in exact integer
                        arithmetic.  MC_Color shows it satisfies the property part; Trace_Color
                        reports a disagreement of the real code with it as DRIFT only.
                        RefSystem / RefIsDefault / RefIsSystemDefined / RefTruecolor - the read-only
                        accessors (the statement is silent about them: DRIFT only).

   Palettes are DATA of the tree under test (rich/_palettes.py), never written in a spec: the
   three CONSTANTS are bound in the .cfg files to values read from the JSON batch
   (StdPalette <- JStd ...).  A palette is a sequence of <<r, g, b>>; entry n is pal[n + 1].     *)
EXTENDS Integers, Sequences, FiniteSets, TLC

CONSTANTS StdPalette,     \* STANDARD_PALETTE   (16 entries) - target "standard"
          WinPalette,     \* WINDOWS_PALETTE    (16 entries) - target "windows"
          EightPalette    \* EIGHT_BIT_PALETTE  (256 entries) - RGB of an 8-bit source colour

\* ---- colour values ------------------------------------------------------------------------
\* One record shape for every kind (TLC compares records of one shape safely); a field that the
\* kind does not use holds Absent, which is also how the driver projects Python's None.
Absent  == -1
Kinds   == {"default", "standard", "eight", "rgb", "windows"}
Systems == {"standard", "eight", "truecolor", "windows"}       \* ColorSystem.{STANDARD,EIGHT_BIT,TRUECOLOR,WINDOWS}
Byte    == 0..255

Default      == [kind |-> "default",  n |-> Absent, r |-> Absent, g |-> Absent, b |-> Absent]
Std(n)       == [kind |-> "standard", n |-> n,      r |-> Absent, g |-> Absent, b |-> Absent]
Eight(n)     == [kind |-> "eight",    n |-> n,      r |-> Absent, g |-> Absent, b |-> Absent]
Win(n)       == [kind |-> "windows",  n |-> n,      r |-> Absent, g |-> Absent, b |-> Absent]
Rgb(r, g, b) == [kind |-> "rgb",      n |-> Absent, r |-> r,      g |-> g,      b |-> b]

NoTriplet(c) == c.r = Absent /\ c.g = Absent /\ c.b = Absent
WellFormed(c) ==
    IF c.kind = "default" THEN c.n = Absent /\ NoTriplet(c)
    ELSE IF c.kind \in {"standard", "windows"} THEN c.n \in 0..15 /\ NoTriplet(c)
    ELSE IF c.kind = "eight" THEN c.n \in 0..255 /\ NoTriplet(c)
    ELSE IF c.kind = "rgb" THEN c.n = Absent /\ c.r \in Byte /\ c.g \in Byte /\ c.b \in Byte
    ELSE FALSE

\* ColorType whose integer value equals the ColorSystem (color.py:471 `self.type == system`)
KindOf(sys) == IF sys = "truecolor" THEN "rgb" ELSE sys

PalLen(pal)      == Len(pal)
PalEntry(pal, n) == [r |-> pal[n + 1][1], g |-> pal[n + 1][2], b |-> pal[n + 1][3]]
PaletteOf(sys)   == IF sys = "windows" THEN WinPalette ELSE StdPalette

\* ---- the metric ---------------------------------------------------------------------------
(* palette.py:58-68 computes, for the colour (r1,g1,b1) and the palette entry (r2,g2,b2),

       sqrt( (((512 + rm) * dr*dr) >> 8)  +  4*dg*dg  +  (((767 - rm) * db*db) >> 8) ),   rm = (r1+r2)//2

   All operands are Python ints, the products are non-negative, so `>> 8` is floor division by
   256 and the radicand is an exact non-negative INTEGER <= 2*((767*255*255)>>8) + 4*255*255
   = 649 740 < 2^20.  Dist2 below is that radicand, bit for bit ("Rich's weighted-RGB metric").
   Only the final sqrt is a float operation.  IEEE sqrt is correctly rounded, hence monotone, and
   for two different integers N < N' < 2^20:  sqrt(N') - sqrt(N) >= 1/(2*sqrt(N')) > 6e-4, about
   10^9 ulps at magnitude <= 807 (ulp = 1.1e-13), so the two floats differ and are ordered like
   the integers; equal integers give the same float.  Therefore
        float distance(i) <  float distance(k)   <=>   Dist2(i) <  Dist2(k)
        float distance(i) == float distance(k)   <=>   Dist2(i) == Dist2(k)
   and the set of arg-min indices of the code's key function is exactly the set of arg-min
   indices of Dist2: rounding can neither create nor break a tie, nor make the code pick a
   non-minimiser.  Python's min() returns the FIRST minimiser; the property accepts ANY
   minimiser (Nearest), the transcription pins the first one (ArgMinFirst).                     *)
RedMean(r1, r2)       == (r1 + r2) \div 2
DistR(r1, r2)         == ((512 + RedMean(r1, r2)) * (r1 - r2) * (r1 - r2)) \div 256
DistG(g1, g2)         == 4 * (g1 - g2) * (g1 - g2)
DistB(r1, r2, b1, b2) == ((767 - RedMean(r1, r2)) * (b1 - b2) * (b1 - b2)) \div 256
Dist2(c, p)           == DistR(c.r, p.r) + DistG(c.g, p.g) + DistB(c.r, p.r, c.b, p.b)

\* index n is an entry of minimum distance from colour c (fields r, g, b) in palette pal
Nearest(pal, c, n) ==
    /\ n \in 0..(PalLen(pal) - 1)
    /\ LET d == Dist2(c, PalEntry(pal, n))
       IN \A k \in 0..(PalLen(pal) - 1) : d <= Dist2(c, PalEntry(pal, k))

\* ---- property part: down-conversion -------------------------------------------------------
IsGrey(c) == c.kind = "rgb" /\ c.r = c.g /\ c.g = c.b
GreyRamp  == {16, 231} \cup (232..255)           \* black, white and the 24-step ramp

\* RGB that a conversion starts from: 8-bit sources go through the 256-colour palette
SourceRGB(c) == IF c.kind = "rgb" THEN [r |-> c.r, g |-> c.g, b |-> c.b] ELSE PalEntry(EightPalette, c.n)

(* "already representable" per (source kind, target system).  The 16 system colours are
   representable everywhere; a standard index n is the same index n of the legacy Windows
   console.  Colour numbers < 16 built by Color.parse / from_ansi are of kind "standard"; a colour of
   kind "eight" with a number < 16 exists only when the Color tuple is built directly (the driver does
   that too): it is representable in the 256-colour system and everywhere above it.             *)
Representable(c, sys) ==
    \/ c.kind = "default"
    \/ sys = "truecolor"
    \/ sys = "eight"    /\ c.kind \in {"standard", "eight"}
    \/ sys = "standard" /\ c.kind = "standard"
    \/ sys = "windows"  /\ c.kind \in {"standard", "windows"}

(* Pairs on which the statement says nothing beyond the gamut (its inputs are RGB, the 256 indexed
   colours as the constructors build them, and default): a legacy-Windows colour (the result of an
   earlier conversion, or a Color tuple built directly) converted to standard / 256, and an 8-bit
   typed colour with a number < 16 converted to a 16-colour system.  The gamut, idempotence and the
   SGR parameters are still required for them; which of the 16 indices comes back is left open.  *)
Silent(c, sys) ==
    \/ c.kind = "windows" /\ sys \in {"standard", "eight"}
    \/ c.kind = "eight" /\ c.n < 16 /\ sys \in {"standard", "windows"}

NeedsConversion(c, sys) == c.kind # "default" /\ ~Representable(c, sys) /\ ~Silent(c, sys)

Indexed16(r) == r.kind \in {"standard", "windows"}     \* both render as SGR 30-37/90-97
InGamut(sys, r) ==
    /\ WellFormed(r)
    /\ \/ r.kind = "default"
       \/ Indexed16(r)
       \/ sys = "eight" /\ r.kind = "eight"
       \/ sys = "truecolor"

\* "unchanged": the very same value; standard -> windows may re-tag the same index
Unchanged(c, sys, r) == r = c \/ (sys = "windows" /\ c.kind = "standard" /\ r = Win(c.n))

\* named clauses of the statement, each of the form  applicable => requirement
DefaultOK(c, sys, r)   == c.kind = "default" => r = c
GamutOK(c, sys, r)     == InGamut(sys, r) /\ (c.kind # "default" => r.kind # "default")
UnchangedOK(c, sys, r) == (c.kind # "default" /\ Representable(c, sys)) => Unchanged(c, sys, r)
NearestOK(c, sys, r)   == (NeedsConversion(c, sys) /\ sys \in {"standard", "windows"})
                              => (Indexed16(r) /\ Nearest(PaletteOf(sys), SourceRGB(c), r.n))
GreyOK(c, sys, r)      == (sys = "eight" /\ IsGrey(c)) => (r.kind = "eight" /\ r.n \in GreyRamp)

DownOK(c, sys, r) ==
    /\ DefaultOK(c, sys, r)
    /\ GamutOK(c, sys, r)
    /\ UnchangedOK(c, sys, r)
    /\ NearestOK(c, sys, r)
    /\ GreyOK(c, sys, r)

\* r1 = downgrade(c, sys), r2 = downgrade(r1, sys): "converting again changes nothing"
IdempotentOK(r1, r2) == r2 = r1

\* ---- property part: SGR parameters --------------------------------------------------------
\* 30-37/90-97 (fg) 40-47/100-107 (bg) for the 16 system colours, 38;5;n / 48;5;n, 38;2;r;g;b /
\* 48;2;r;g;b, 39 / 49.  Unknown kinds give <<>> (so a malformed observation compares unequal).
SgrCodes(c, foreground) ==
    IF c.kind = "default" THEN << IF foreground THEN 39 ELSE 49 >>
    ELSE IF c.kind \in {"standard", "windows"} THEN
        << IF c.n < 8 THEN (IF foreground THEN 30 ELSE 40) + c.n
                      ELSE (IF foreground THEN 90 ELSE 100) + (c.n - 8) >>
    ELSE IF c.kind = "eight" THEN << IF foreground THEN 38 ELSE 48, 5, c.n >>
    ELSE IF c.kind = "rgb" THEN << IF foreground THEN 38 ELSE 48, 2, c.r, c.g, c.b >>
    ELSE << >>

\* p-th parameter, Absent beyond the end (column form used by the slice judge)
SgrCodeAt(c, foreground, p) ==
    LET s == SgrCodes(c, foreground) IN IF p <= Len(s) THEN s[p] ELSE Absent

\* ---- implementation-shaped part: the read-only accessors (color.py:283-332) ------------------
(* Color.system / is_default / is_system_defined / get_truecolor(theme, foreground).  The statement
   says nothing about them; Trace_Color compares what the real code returned with these
   transcriptions and reports a difference as DRIFT only.  A theme is a record
   [fg, bg : <<r,g,b>>, ansi : sequence of 16 <<r,g,b>>] (TerminalTheme(background, foreground,
   normal, bright): ansi = normal \o (bright or normal)).                                         *)
RefSystem(c) == IF c.kind = "default" THEN "standard" ELSE IF c.kind = "rgb" THEN "truecolor" ELSE c.kind
RefIsDefault(c) == c.kind = "default"
RefIsSystemDefined(c) == RefSystem(c) \notin {"eight", "truecolor"}
RefTruecolor(c, theme, foreground) ==
    IF c.kind = "rgb" THEN <<c.r, c.g, c.b>>
    ELSE IF c.kind = "eight" THEN EightPalette[c.n + 1]
    ELSE IF c.kind = "standard" THEN theme.ansi[c.n + 1]
    ELSE IF c.kind = "windows" THEN WinPalette[c.n + 1]
    ELSE IF foreground THEN theme.fg ELSE theme.bg

\* ---- implementation-shaped part: transcription of Color.downgrade -------------------------
(* Palette.match: min(range(len), key=distance) - a left-to-right scan keeping the first minimum. *)
RECURSIVE ArgMinFrom(_, _, _, _, _)
ArgMinFrom(pal, c, k, bestK, bestD) ==
    IF k >= PalLen(pal) THEN bestK
    ELSE LET d == Dist2(c, PalEntry(pal, k))
         IN IF d < bestD THEN ArgMinFrom(pal, c, k + 1, k, d)
                         ELSE ArgMinFrom(pal, c, k + 1, bestK, bestD)
ArgMinFirst(pal, c) == ArgMinFrom(pal, c, 1, 0, Dist2(c, PalEntry(pal, 0)))

(* The same as a predicate (no recursion - TLC evaluates it 3x faster): n is the first index of
   minimum distance.  At most one n satisfies it (two would each be strictly smaller than the
   other), and MC_Color checks that ArgMinFirst satisfies it, so IsFirstMin(pal,c,n) <=> n = ArgMinFirst(pal,c). *)
IsFirstMin(pal, c, n) ==
    /\ n \in 0..(PalLen(pal) - 1)
    /\ LET d == Dist2(c, PalEntry(pal, n))
       IN \A k \in 0..(PalLen(pal) - 1) :
             IF k < n THEN d < Dist2(c, PalEntry(pal, k)) ELSE d <= Dist2(c, PalEntry(pal, k))

(* truecolor -> 256 (color.py:474-494), with red = R/255.0 etc:
     h,l,s = rgb_to_hls;  s < 0.1 ? grey ramp by round(l*25) : 16 + 36*round(red*5) + 6*round(green*5) + round(blue*5)
   Exact rationals, M = max(R,G,B), m = min(R,G,B), S = M + m:
     l = S/510;   s = 0 if M = m, else (M-m)/S if l <= 1/2 (S <= 255), else (M-m)/(510-S).
     s < 1/10  <=>  10*(M-m) < den,  den = S or 510 - S.
     Whenever 10*(M-m) # den,  |s - 1/10| >= 1/(10*den) >= 1/5100, far beyond the float error of the
     three divisions (and of choosing the l <= 0.5 branch when S is 255 or 256: both formulas then
     agree to 1 part in 255), so the float test equals the rational one.  On the 24 (M,m) pairs with
     10*(M-m) = den the rational s is exactly 1/10 and the float result is an accident of rounding
     (observed both ways, e.g. (55,45) grey, (11,9) cube): the transcription leaves the choice open
     (branch "tie").
     round(l*25) = round(5*S/102) is a rounding tie exactly when 5*S = 102*k + 51, i.e. for
     S in {51, 153, 255, 357, 459} (2.5, 7.5, 12.5, 17.5, 22.5): there the float l*25.0 is within an
     ulp of the half and Python's round-half-even gives k or k+1 by accident of rounding (observed:
     rgb(132,115,140), S = 255, gives step 12): the transcription allows both.  Everywhere else the
     value is at least 1/102 away from a half and round = floor(x + 1/2) = (5*S + 51) \div 102.
     round(R*5/255) = round(R/51): 2*R = 102*k + 51 (even = odd) is impossible, no ties,
     = (2*R + 51) \div 102.                                                                       *)
Max2(a, b) == IF a >= b THEN a ELSE b
Min2(a, b) == IF a <= b THEN a ELSE b
MaxC(c)  == Max2(c.r, Max2(c.g, c.b))
MinC(c)  == Min2(c.r, Min2(c.g, c.b))
SatDen(c) == LET S == MaxC(c) + MinC(c) IN IF S <= 255 THEN S ELSE 510 - S
SatCmp(c) == 10 * (MaxC(c) - MinC(c)) - SatDen(c)      \* < 0: s < 0.1;  = 0: exactly 0.1;  > 0: s > 0.1
GreySteps(c) == LET S5 == 5 * (MaxC(c) + MinC(c))         \* round(l * 25) in 0..25 (two values on a tie)
                IN IF S5 % 102 = 51 THEN {S5 \div 102, S5 \div 102 + 1} ELSE {(S5 + 51) \div 102}
GreyNumberOf(gs) == IF gs = 0 THEN 16 ELSE IF gs = 25 THEN 231 ELSE 231 + gs
GreyNumbers(c) == { GreyNumberOf(gs) : gs \in GreySteps(c) }
CubeStep(x) == (2 * x + 51) \div 102                       \* round(x / 255 * 5) in 0..5
CubeNumber(c) == 16 + 36 * CubeStep(c.r) + 6 * CubeStep(c.g) + CubeStep(c.b)

\* which path of Color.downgrade a call takes
RefBranch(c, sys) ==
    IF c.kind = "default" \/ c.kind = KindOf(sys) THEN "keep"
    ELSE IF sys = "eight" /\ c.kind = "rgb" THEN
        (IF MaxC(c) = MinC(c) \/ SatCmp(c) < 0 THEN "grey" ELSE IF SatCmp(c) = 0 THEN "tie" ELSE "cube")
    ELSE IF sys = "standard" THEN "match-std"
    ELSE IF sys = "windows" THEN (IF c.kind # "rgb" /\ c.n < 16 THEN "win-index" ELSE "match-win")
    ELSE "keep"                                         \* truecolor target; standard -> eight

\* the results the code may produce (a singleton except on a saturation tie or a grey-step rounding tie)
RefDowngradeSet(c, sys) ==
    LET br == RefBranch(c, sys)
    IN IF br = "keep" THEN {c}
       ELSE IF br = "grey" THEN {Eight(n) : n \in GreyNumbers(c)}
       ELSE IF br = "cube" THEN {Eight(CubeNumber(c))}
       ELSE IF br = "tie" THEN {Eight(n) : n \in GreyNumbers(c) \cup {CubeNumber(c)}}
       ELSE IF br = "match-std" THEN {Std(ArgMinFirst(StdPalette, SourceRGB(c)))}
       ELSE IF br = "win-index" THEN {Win(c.n)}
       ELSE {Win(ArgMinFirst(WinPalette, SourceRGB(c)))}

\* membership in RefDowngradeSet without running the scan (used by the slice judge)
RefAccepts(c, sys, r) ==
    LET br == RefBranch(c, sys)
    IN IF br = "match-std" THEN r = Std(r.n) /\ IsFirstMin(StdPalette, SourceRGB(c), r.n)
       ELSE IF br = "match-win" THEN r = Win(r.n) /\ IsFirstMin(WinPalette, SourceRGB(c), r.n)
       ELSE r \in RefDowngradeSet(c, sys)
=============================================================================
