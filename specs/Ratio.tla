------------------------------- MODULE Ratio -------------------------------
(* C07 - the integer arithmetic that splits a table's width over its columns.

   Implementation-shaped part: transcriptions of rich/_ratio.py `ratio_reduce`, `ratio_distribute`
   and of rich/table.py `Table._collapse_widths` (9.10.0) in exact integer / rational arithmetic.

   Floats.  The code computes  round(ratio * remaining / total_ratio)  and  ceil(ratio * remaining /
   total_ratio)  where the product is an exact Python int and `/` is the correctly rounded IEEE
   quotient of two ints.  For |numerator| <= 10^6 and 1 <= denominator <= 10^4 (tables: widths <= a few
   hundred, ratios small) the exact quotient n/d is either an integer or a half-integer - then the
   float is exact - or it is at least 1/(2d) >= 5e-5 away from the nearest integer and half-integer,
   while the float error is <= 2^-53 * |n/d| <= 1.2e-10.  So the float lies strictly on the same side
   of every integer and of every tie as the rational: round() (half-even) and ceil() of the float
   equal RoundHE / Ceil of the rational.  No tie is left open.  MC_Ratio additionally compares every
   enumerated instance with the real functions.

   Property part: what the docstrings promise, restricted to the domain on which they can be meant
   (documented weaker readings where a docstring contradicts itself):

   ratio_distribute  "a list of integers guaranteed to sum to total"; minimums: "minimum values for
       each slot".  A minimum larger than a slot's share cannot both be honoured and keep the sum:
       the sum is demanded exactly when no minimum binds (DistExact); otherwise only  sum >= total
       and every slot that takes part (effective ratio > 0) gets at least its minimum (DistMin).
       Parts of slots that take part are never negative for total >= 0 (DistNonNeg).  A trailing
       slot with effective ratio 0 receives "whatever remains" (code: `distributed =
       max(0, total_remaining)`; 9.10.0 passed a negative remainder on, which crashed tables below
       their structural minimum - C14, fix: d810ee0) - the docstring is silent about the minimum of
       a zero-ratio slot, so that is recorded as an observation, not demanded.
   ratio_reduce      the docstring's "sum to total" can only mean the amount taken away: every value is
       reduced by between 0 and its maximum (ReduceBounds - hence never below zero when maximum <=
       value), the total taken away never exceeds `total` (ReduceAtMost) and equals it when no
       maximum binds (ReduceExact).
   _collapse_widths  "reduce widths so that the total is under max_width": columns that may not wrap
       are untouched, the others shrink but never below zero (CollapseBounds); the loop terminates
       and each round strictly decreases the total (CollapseTerminates); the result sums to at most
       max_width whenever that is achievable, i.e. the non-wrapable columns alone fit
       (CollapseFits), and never shrinks below max_width more than needed (CollapseTight).        *)
EXTENDS Integers, Sequences, FiniteSets

Max2(a, b) == IF a > b THEN a ELSE b
Min2(a, b) == IF a < b THEN a ELSE b

RECURSIVE SumSeq(_)
SumSeq(s) == IF s = <<>> THEN 0 ELSE Head(s) + SumSeq(Tail(s))
RECURSIVE MaxSeq(_)
MaxSeq(s) == IF s = <<>> THEN 0 ELSE Max2(Head(s), MaxSeq(Tail(s)))

\* ---- exact rounding of the rational n/d, d > 0 (TLC: \div floors, % is non-negative) --------
Floor(n, d) == n \div d
Ceil(n, d)  == -((-n) \div d)
RoundHE(n, d) ==                      \* Python 3 round(): ties go to the even neighbour
    LET q == n \div d
        r == n % d
    IN IF 2 * r < d THEN q
       ELSE IF 2 * r > d THEN q + 1
       ELSE IF q % 2 = 0 THEN q ELSE q + 1

\* ---- ratio_reduce (_ratio.py:5-35) -----------------------------------------------------------
RECURSIVE ReduceLoop(_, _, _, _, _, _, _)
ReduceLoop(rs, maxs, vals, i, rem, tr, acc) ==
    IF i > Len(vals) THEN acc
    ELSE IF rs[i] # 0 /\ tr > 0
         THEN LET d == Min2(maxs[i], RoundHE(rs[i] * rem, tr))
              IN ReduceLoop(rs, maxs, vals, i + 1, rem - d, tr - rs[i], Append(acc, vals[i] - d))
         ELSE ReduceLoop(rs, maxs, vals, i + 1, rem, tr, Append(acc, vals[i]))

RatioReduce(total, ratios, maxs, vals) ==
    LET rs == [i \in DOMAIN ratios |-> IF maxs[i] # 0 THEN ratios[i] ELSE 0]
        tr == SumSeq(rs)
    IN IF tr = 0 THEN vals ELSE ReduceLoop(rs, maxs, vals, 1, total, tr, <<>>)

\* ---- ratio_distribute (_ratio.py:38-70) ------------------------------------------------------
\* mins = <<>> stands for minimums=None (an empty list is falsy in the code as well)
EffRatios(ratios, mins) ==
    IF mins = <<>> THEN ratios ELSE [i \in DOMAIN ratios |-> IF mins[i] # 0 THEN ratios[i] ELSE 0]
MinOf(mins, i) == IF mins = <<>> THEN 0 ELSE mins[i]

RECURSIVE DistLoop(_, _, _, _, _, _)
DistLoop(rs, mins, i, rem, tr, acc) ==
    IF i > Len(rs) THEN acc
    \* once the ratios are used up the slot takes what is left - never less than nothing (after the fix: commit;
    \* 9.10.0 took `rem` as it was and handed a negative width to a trailing zero-ratio column)
    ELSE LET d == IF tr > 0 THEN Max2(MinOf(mins, i), Ceil(rs[i] * rem, tr)) ELSE Max2(0, rem)
         IN DistLoop(rs, mins, i + 1, rem - d, tr - rs[i], Append(acc, d))

\* [ok |-> FALSE] = the code's `assert total_ratio > 0` fails
RatioDistribute(total, ratios, mins) ==
    LET rs == EffRatios(ratios, mins)
        tr == SumSeq(rs)
    IN IF tr <= 0 THEN [ok |-> FALSE, v |-> <<>>]
       ELSE [ok |-> TRUE, v |-> DistLoop(rs, mins, 1, total, tr, <<>>)]

\* ---- Table._collapse_widths (table.py:505-542) -----------------------------------------------
\* one round of the while loop; [stop |-> TRUE] when the code breaks out / the guard is false
CollapseRound(widths, wrap, maxw) ==
    LET total  == SumSeq(widths)
        excess == total - maxw
        n      == Len(widths)
        mx     == MaxSeq([i \in 1..n |-> IF wrap[i] THEN widths[i] ELSE 0])      \* widths are >= 0 here
        snd    == MaxSeq([i \in 1..n |-> IF wrap[i] /\ widths[i] # mx THEN widths[i] ELSE 0])
        diff   == mx - snd
        rs     == [i \in 1..n |-> IF widths[i] = mx /\ wrap[i] THEN 1 ELSE 0]
    IN IF ~(total # 0 /\ excess > 0) THEN [stop |-> TRUE, w |-> widths]
       ELSE IF SumSeq(rs) = 0 \/ diff = 0 THEN [stop |-> TRUE, w |-> widths]
       ELSE [stop |-> FALSE,
             w |-> RatioReduce(excess, rs, [i \in 1..n |-> Min2(excess, diff)], widths)]

\* the sequence of width vectors the loop goes through (first = input, last = result); fuel bounds
\* the recursion so that a non-terminating design shows up as an exhausted budget, not a hang
RECURSIVE CollapseRun(_, _, _, _, _)
CollapseRun(widths, wrap, maxw, fuel, acc) ==
    IF fuel = 0 THEN [done |-> FALSE, trace |-> acc]
    ELSE LET r == CollapseRound(widths, wrap, maxw)
         IN IF r.stop THEN [done |-> TRUE, trace |-> acc]
            ELSE CollapseRun(r.w, wrap, maxw, fuel - 1, Append(acc, r.w))

AnyWrap(wrap) == \E i \in DOMAIN wrap : wrap[i]
Collapse(widths, wrap, maxw) ==
    IF AnyWrap(wrap) THEN CollapseRun(widths, wrap, maxw, SumSeq(widths) + 2, <<widths>>)
    ELSE [done |-> TRUE, trace |-> <<widths>>]
CollapseWidths(widths, wrap, maxw) ==
    LET c == Collapse(widths, wrap, maxw) IN c.trace[Len(c.trace)]

\* ======================================= property part =======================================
\* ratio_distribute; out is the list the function returned.  Domain: total >= 0, ratios >= 0,
\* minimums >= 0, effective ratio sum > 0.
Takes(ratios, mins, i) == EffRatios(ratios, mins)[i] > 0
\* the share a slot would get without its minimum, given what was handed out before it
RECURSIVE BindsFrom(_, _, _, _, _, _)
BindsFrom(rs, mins, out, i, rem, tr) ==      \* does some minimum exceed the proportional share?
    IF i > Len(rs) \/ tr <= 0 THEN FALSE
    ELSE \/ MinOf(mins, i) > Ceil(rs[i] * rem, tr)
         \/ BindsFrom(rs, mins, out, i + 1, rem - out[i], tr - rs[i])
MinimumBinds(total, ratios, mins, out) ==
    LET rs == EffRatios(ratios, mins) IN BindsFrom(rs, mins, out, 1, total, SumSeq(rs))

DistShape(ratios, out)  == Len(out) = Len(ratios)
DistExact(total, ratios, mins, out) == ~MinimumBinds(total, ratios, mins, out) => SumSeq(out) = total
DistAtLeast(total, out) == SumSeq(out) >= total
DistMin(ratios, mins, out) == \A i \in DOMAIN out : Takes(ratios, mins, i) => out[i] >= MinOf(mins, i)
DistNonNeg(ratios, mins, out) == \A i \in DOMAIN out : Takes(ratios, mins, i) => out[i] >= 0
DistWhy(total, ratios, mins, out) ==
    IF ~DistShape(ratios, out) THEN "length-differs"
    ELSE IF ~DistExact(total, ratios, mins, out) THEN "sum-differs-from-total"
    ELSE IF ~DistAtLeast(total, out) THEN "sum-below-total"
    ELSE IF ~DistMin(ratios, mins, out) THEN "below-minimum"
    ELSE IF ~DistNonNeg(ratios, mins, out) THEN "negative-part"
    ELSE "ok"
\* observation only (statement silent): a slot that does not take part gets a negative remainder
DistNegativeLeftover(ratios, mins, out) == \E i \in DOMAIN out : ~Takes(ratios, mins, i) /\ out[i] < 0

\* ratio_reduce; domain total >= 0, ratios, maximums >= 0
ReduceShape(vals, out) == Len(out) = Len(vals)
ReduceBounds(maxs, vals, out) == \A i \in DOMAIN out : vals[i] - maxs[i] <= out[i] /\ out[i] <= vals[i]
ReduceAtMost(total, vals, out) == SumSeq(vals) - SumSeq(out) <= total
CapHit(ratios, maxs, vals, out) == \E i \in DOMAIN out : ratios[i] > 0 /\ maxs[i] > 0 /\ vals[i] - out[i] = maxs[i]
ReduceExact(total, ratios, maxs, vals, out) ==
    ((\E i \in DOMAIN out : ratios[i] > 0 /\ maxs[i] > 0) /\ ~CapHit(ratios, maxs, vals, out))
        => SumSeq(vals) - SumSeq(out) = total
ReduceWhy(total, ratios, maxs, vals, out) ==
    IF ~ReduceShape(vals, out) THEN "length-differs"
    ELSE IF ~ReduceBounds(maxs, vals, out) THEN "outside-maximum"
    ELSE IF ~ReduceAtMost(total, vals, out) THEN "reduced-by-more-than-total"
    ELSE IF ~ReduceExact(total, ratios, maxs, vals, out) THEN "reduced-by-less-than-total"
    ELSE "ok"

\* _collapse_widths; domain widths >= 0
CollapseBounds(widths, wrap, out) ==
    /\ Len(out) = Len(widths)
    /\ \A i \in DOMAIN out : IF wrap[i] THEN 0 <= out[i] /\ out[i] <= widths[i] ELSE out[i] = widths[i]
Achievable(widths, wrap, maxw) == SumSeq([i \in DOMAIN widths |-> IF wrap[i] THEN 0 ELSE widths[i]]) <= maxw
CollapseFits(widths, wrap, maxw, out) == Achievable(widths, wrap, maxw) => SumSeq(out) <= maxw
CollapseTight(widths, maxw, out) == SumSeq(out) >= Min2(SumSeq(widths), maxw)
CollapseWhy(widths, wrap, maxw, out) ==
    IF ~CollapseBounds(widths, wrap, out) THEN "outside-bounds"
    ELSE IF ~CollapseFits(widths, wrap, maxw, out) THEN "wider-than-max-width"
    ELSE IF ~CollapseTight(widths, maxw, out) THEN "shrunk-too-far"
    ELSE "ok"
\* the loop: finished within its budget and every round made the total strictly smaller
CollapseTerminates(widths, wrap, maxw) ==
    LET c == Collapse(widths, wrap, maxw)
    IN /\ c.done
       /\ \A k \in 1..(Len(c.trace) - 1) : SumSeq(c.trace[k + 1]) < SumSeq(c.trace[k])
=============================================================================
