---------------------------- MODULE MC_TextSpans ----------------------------
(* C05, design level: rich.text.Text does not store a style per character; it stores a plain
   string, a list of spans (start, end, style) and a cached length, and every editing method
   shifts / trims / extends the span list (text.py).  This module TRANSCRIBES those methods and
   model-checks, over all histories of bounded depth, that the span representation REFINES the
   per-character reference semantics of TextOps.tla: same characters, len = length, and the
   effective style obtained from the spans (base under the spans in list order) equals the
   style the reference semantics attaches to each surviving character.

   The transcriptions are of the code as it is after the fix: commits; the switches below
   re-create the 9.10.0 behaviour so that TLC exhibits each defect (vacuity guard):
     CropClamp   right_crop clamps at zero and slices with the clamped offset (text.py:965-981)
     StartClamp  stylize clamps a negative start at zero               (text.py:320-340)
     CtorLen     the constructor takes its length after stripping      (text.py:139-148)
     CropUpper   right_crop never moves its offset beyond the end (a negative amount) (text.py:973-987) *)
EXTENDS TextOps

CONSTANTS CropClamp, StartClamp, CtorLen, CropUpper, MCDepth
VARIABLES sp, ch, op, depth
vars == <<sp, ch, op, depth>>

\* ---- the span representation ---------------------------------------------------------------
\* sp == [plain: Seq(<<code, width>>), spans: Seq(<<a, b, k>>), base, len]
SMk(str, base) ==
    LET kept == SelectSeq(str, LAMBDA p : p[1] \notin Stripped)
    IN [plain |-> kept, spans |-> <<>>, base |-> base, len |-> IF CtorLen THEN Len(kept) ELSE Len(str)]

\* stylize (text.py:320-340)
SStylize(s, k, a, hasB, b) ==
    LET n  == s.len
        a1 == IF a < 0 THEN (IF StartClamp THEN Max(0, n + a) ELSE n + a) ELSE a
        b0 == IF hasB THEN b ELSE n
        b1 == IF b0 < 0 THEN n + b0 ELSE b0
    IN IF a1 >= n \/ b1 <= a1 THEN s
       ELSE [s EXCEPT !.spans = Append(@, <<a1, Min(n, b1), k>>)]

\* _trim_spans (text.py:706-718): drop spans starting at or after the end, clip the others
Trim(spans, maxo) ==
    LET kept == SelectSeq(spans, LAMBDA x : x[1] < maxo)
    IN [i \in DOMAIN kept |-> IF kept[i][2] < maxo THEN kept[i] ELSE <<kept[i][1], Min(maxo, kept[i][2]), kept[i][3]>>]

\* plain setter (text.py:296-304)
SSetPlain(s, new) ==
    IF new = s.plain THEN s
    ELSE LET s1 == [s EXCEPT !.plain = new, !.len = Len(new)]
         IN IF s.len > Len(new) THEN [s1 EXCEPT !.spans = Trim(@, Len(new))] ELSE s1

\* append(str, style) (text.py:772-790)
SAppendStr(s, str, k) ==
    LET kept == SelectSeq(str, LAMBDA p : p[1] \notin Stripped) IN
    IF str = <<>> THEN s
    ELSE [s EXCEPT !.plain = @ \o kept,
                   !.spans = IF k = 0 THEN @ ELSE Append(@, <<s.len, s.len + Len(kept), k>>),
                   !.len = @ + Len(kept)]

Shift(spans, n) == [i \in DOMAIN spans |-> <<spans[i][1] + n, spans[i][2] + n, spans[i][3]>>]
SPadLeft(s, n, c) == IF n = 0 THEN s ELSE [SSetPlain(s, Rep(c, n) \o s.plain) EXCEPT !.spans = Shift(s.spans, n)]
SPadRight(s, n, c) == IF n = 0 THEN s ELSE SSetPlain(s, s.plain \o Rep(c, n))
SPad(s, n, c) == IF n = 0 THEN s ELSE [SSetPlain(s, Rep(c, n) \o s.plain \o Rep(c, n)) EXCEPT !.spans = Shift(s.spans, n)]

\* right_crop (text.py:965-981)
SRightCrop(s, n) ==
    LET raw  == Len(s.plain) - n
        maxo0 == IF CropClamp THEN Max(0, raw) ELSE raw
        maxo == IF CropUpper THEN Min(Len(s.plain), maxo0) ELSE maxo0
        \* Python: plain[:-n] (9.10.0) gives "" for n = 0 and plain[:len-n] semantics otherwise
        newplain == IF CropClamp THEN SubSeq(s.plain, 1, Min(Len(s.plain), maxo))
                    ELSE IF n = 0 THEN <<>> ELSE SubSeq(s.plain, 1, Min(Len(s.plain), Max(0, raw)))
    IN [s EXCEPT !.spans = Trim(@, maxo), !.plain = newplain, !.len = IF CropClamp THEN maxo ELSE s.len - n]

SSetLength(s, n) == IF s.len = n THEN s
                    ELSE IF s.len < n THEN SPadRight(s, n - s.len, <<Space, 1>>) ELSE SRightCrop(s, s.len - n)

\* truncate (text.py:683-704) on the plain string, through the plain setter
PlainW(p) == IF p = <<>> THEN 0 ELSE LET f[i \in 0..Len(p)] == IF i = 0 THEN 0 ELSE f[i - 1] + p[i][2] IN f[Len(p)]
RECURSIVE LongestFitP(_, _, _)
LongestFitP(p, n, k) == IF k = 0 THEN 0 ELSE IF PlainW(SubSeq(p, 1, k)) <= n THEN k ELSE LongestFitP(p, n, k - 1)
SetCellsP(p, n) ==
    LET L == PlainW(p) IN
    IF L = n THEN p
    ELSE IF L < n THEN p \o Rep(<<Space, 1>>, n - L)
    ELSE LET k == LongestFitP(p, n, Len(p))
             pre == SubSeq(p, 1, k)
         IN pre \o Rep(<<Space, 1>>, n - PlainW(pre))
STruncate(s, maxw, ov, pad) ==
    IF ov = "ignore" THEN s
    ELSE LET L == PlainW(s.plain)
             s1 == IF L > maxw
                   THEN SSetPlain(s, IF ov = "ellipsis" THEN SetCellsP(s.plain, maxw - 1) \o <<<<Ellipsis, 1>>>> ELSE SetCellsP(s.plain, maxw))
                   ELSE s
         IN IF pad /\ L < maxw
            THEN [s1 EXCEPT !.plain = @ \o Rep(<<Space, 1>>, maxw - L), !.len = Len(s1.plain) + (maxw - L)]
            ELSE s1

\* ---- refinement mapping: the style of character i as the renderer derives it from the spans ---
RECURSIVE FoldSpans(_, _, _)
FoldSpans(c, spans, i) ==      \* i is the 0-based offset of the character
    IF spans = <<>> THEN c
    ELSE FoldSpans(IF i >= spans[1][1] /\ i < spans[1][2] THEN Over(c, spans[1][3]) ELSE c, Tail(spans), i)
SpanEff(s, i) == Under(FoldSpans(Mk(s.plain[i][1], s.plain[i][2], FALSE), s.spans, i - 1), s.base)

Refines ==
    /\ Len(sp.plain) = Len(ch.chars)
    /\ sp.len = Len(ch.chars)
    /\ \A i \in DOMAIN ch.chars :
         /\ sp.plain[i][1] = ch.chars[i].c
         /\ (~ch.chars[i].fresh =>
               /\ SpanEff(sp, i).set = Under(ch.chars[i], ch.base).set
               /\ SpanEff(sp, i).top = Under(ch.chars[i], ch.base).top)
\* spans never reach outside the text (a span that does makes render() duplicate characters or raise)
SpansInside == \A j \in DOMAIN sp.spans : sp.spans[j][1] >= 0 /\ sp.spans[j][2] <= Len(sp.plain) /\ sp.spans[j][1] < sp.spans[j][2]

\* ---- histories ------------------------------------------------------------------------------
a == <<97, 1>>   b == <<98, 1>>   wd == <<19990, 2>>   cr == <<13, 0>>   sp1 == <<32, 1>>
Strs == { <<a, b>>, <<a, cr, b>>, <<wd, a>>, <<>> }
On == depth < MCDepth
\* after a step the reference adopts the styling the spans give to the characters an operation
\* created (they are unconstrained), as Trace_TextOps does with the observed styling
Adopt2(t, s) == [t EXCEPT !.chars = [i \in DOMAIN @ |->
                    IF @[i].fresh /\ i <= Len(s.plain)
                    THEN [@[i] EXCEPT !.set = SpanEff(s, i).set, !.top = SpanEff(s, i).top, !.fresh = FALSE]
                    ELSE [@[i] EXCEPT !.fresh = FALSE]]]
Both(s2, t2, o) == sp' = s2 /\ ch' = Adopt2(t2, s2) /\ op' = o /\ depth' = depth + 1

Init == sp = SMk(<<>>, 0) /\ ch = Construct(<<>>, 0) /\ op = "init" /\ depth = 0
New == \E s \in Strs, bs \in {0, 2} : On /\ Both(SMk(s, bs), Construct(s, bs), "new")
AppendA == \E s \in Strs, k \in {0, 1} : On /\ Both(SAppendStr(sp, s, k), AppendStr(ch, s, k), "append")
StylizeA == \E k \in {1, 3}, r \in {<<0, 1>>, <<1, 0>>, <<0 - 1, 0>>, <<0 - 5, 0>>, <<0 - 4, 2>>, <<0, 0 - 1>>} :
               On /\ Both(SStylize(sp, k, r[1], r[2] # 0, r[2]), Stylize(ch, k, r[1], r[2] # 0, r[2]), "stylize")
PadA == \E n \in {0, 1}, kind \in {"l", "r", "b"} : On /\
           Both(CASE kind = "l" -> SPadLeft(sp, n, <<45, 1>>) [] kind = "r" -> SPadRight(sp, n, <<45, 1>>) [] OTHER -> SPad(sp, n, <<45, 1>>),
                CASE kind = "l" -> PadLeft(ch, n, <<45, 1>>) [] kind = "r" -> PadRight(ch, n, <<45, 1>>) [] OTHER -> Pad(ch, n, <<45, 1>>), "pad")
CropA == \E n \in {0, 1, 2, 9, 0 - 1, 0 - 3} : On /\ Both(SRightCrop(sp, n), RightCrop(ch, n), "right_crop")
SetLengthA == \E n \in {0, 1, 4} : On /\ Both(SSetLength(sp, n), SetLength(ch, n), "set_length")
TruncateA == \E w \in {1, 2}, o \in {"crop", "ellipsis"}, p \in BOOLEAN : On /\ Both(STruncate(sp, w, o, p), Truncate(ch, w, o, p), "truncate")

Next == New \/ AppendA \/ StylizeA \/ PadA \/ CropA \/ SetLengthA \/ TruncateA
Spec == Init /\ [][Next]_vars
=============================================================================
