------------------------------- MODULE Screen -------------------------------
(* The screen part of the terminal model used by C10 / C11: what a VT100-style terminal shows
   after a stream of cursor / erase / text operations.

   Text is abstracted to *labels*: every line the harness prints and every line of every live
   frame carries a unique label (an integer); a run of printed characters becomes Txt(label).
   Labels:  1 000 000 + k : a line printed by the user (print / log / redirected stdout)
            2 000 000 + k : a line of a live frame
            3             : the "..." line of vertical_overflow="ellipsis"
            4             : other visible text without a label
   The screen is a growing sequence of rows (unbounded scroll-back: cursor-up never clamps -
   a frame taller than the physical screen cannot be erased on a real terminal, which Rich
   documents; judging with a clamping screen would flag physics, not code).

   `bad` records the first violation of the per-operation clauses of C10:
     overwrite            text written at the start of a row that still holds text
     erased-printed-line  a row holding a user's printed line was erased
     cursor-above-region  the cursor moved above the first row of the live region
     cursor-above-top     the cursor moved above the first row of the session               *)
EXTENDS Naturals, Integers, Sequences, TLC

IsPrinted(id) == id \div 1000000 = 1
IsFrame(id)   == id \div 1000000 = 2
Ellipsis == 3

Grow2(rows, n) == IF Len(rows) >= n THEN rows ELSE rows \o [i \in 1..(n - Len(rows)) |-> <<>>]
\* tw = terminal width in cells (0: unbounded - the design-level screens of Live.tla); col = cells written on the current
\* row.  A text operation may carry its cell count as a third element; text that runs past the last column wraps onto the
\* next row(s) as on a real (auto-wrap) terminal - which is how an over-wide frame line comes to occupy more rows than the
\* display believes and leaves a remnant at the next refresh.
InitScreen == [rows |-> << <<>> >>, cy |-> 1, cx |-> 0, vis |-> TRUE, bad |-> "none", bell |-> 0, tw |-> 0, col |-> 0]
Cells(e) == IF Len(e) >= 3 THEN e[3] ELSE 0
\* a terminal wraps when a character is written beyond the last column (writing exactly tw cells does not wrap yet)
Wraps(s, w) == IF s.tw = 0 \/ w = 0 \/ s.col + w <= s.tw THEN 0 ELSE (s.col + w - 1) \div s.tw
RECURSIVE Spill(_, _, _, _)
Spill(rows, from, k, id) == IF k = 0 THEN rows ELSE Spill([Grow2(rows, from + 1) EXCEPT ![from + 1] = Append(@, id)], from + 1, k - 1, id)

HasPrinted(row) == \E i \in DOMAIN row : IsPrinted(row[i])
\* index of the last row holding a printed label (0 if none): the live region lies below it
RECURSIVE LastPrintedRow(_, _)
LastPrintedRow(rows, k) == IF k = 0 THEN 0 ELSE IF HasPrinted(rows[k]) THEN k ELSE LastPrintedRow(rows, k - 1)

Flag(s, what) == IF s.bad = "none" THEN [s EXCEPT !.bad = what] ELSE s
Grow(rows, n) == IF Len(rows) >= n THEN rows ELSE rows \o [i \in 1..(n - Len(rows)) |-> <<>>]

\* one terminal operation: e = <<kind, arg>>
ApplyOp(s, e) ==
    CASE e[1] = "t"    -> LET s1 == IF s.cx = 0 /\ s.rows[s.cy] # <<>> THEN Flag(s, "overwrite") ELSE s
                              k  == Wraps(s, Cells(e))
                          IN [s1 EXCEPT !.rows = Spill([@ EXCEPT ![s.cy] = Append(@, e[2])], s.cy, k, e[2]), !.cx = 1,
                                        !.cy = @ + k, !.col = s.col + Cells(e) - k * s.tw]
      [] e[1] = "sp"   -> LET k == Wraps(s, Cells(e))              \* blanks: move the cursor only
                          IN [s EXCEPT !.cx = 1, !.cy = @ + k, !.rows = Grow(@, s.cy + k), !.col = s.col + Cells(e) - k * s.tw]
      [] e[1] = "nl"   -> [s EXCEPT !.cy = @ + 1, !.cx = 0, !.col = 0, !.rows = Grow(@, s.cy + 1)]
      [] e[1] = "cr"   -> [s EXCEPT !.cx = 0, !.col = 0]
      [] e[1] = "el2"  -> LET s1 == IF HasPrinted(s.rows[s.cy]) THEN Flag(s, "erased-printed-line") ELSE s
                          IN [s1 EXCEPT !.rows[s.cy] = <<>>]
      [] e[1] = "cuu"  -> IF s.cy - e[2] < 1 THEN Flag([s EXCEPT !.cy = 1], "cursor-above-top")
                          ELSE LET s1 == [s EXCEPT !.cy = @ - e[2]]
                               IN IF s1.cy <= LastPrintedRow(s.rows, Len(s.rows)) THEN Flag(s1, "cursor-above-region") ELSE s1
      [] e[1] = "hide" -> [s EXCEPT !.vis = FALSE]
      [] e[1] = "show" -> [s EXCEPT !.vis = TRUE]
      [] e[1] = "bel"  -> [s EXCEPT !.bell = @ + 1]
      [] OTHER         -> Flag(s, "unknown-escape")

RECURSIVE ApplyAll(_, _)
ApplyAll(s, es) == IF es = <<>> THEN s ELSE ApplyAll(ApplyOp(s, Head(es)), Tail(es))

\* rows with trailing empty rows removed
RECURSIVE Trim(_)
Trim(rows) == IF rows # <<>> /\ rows[Len(rows)] = <<>> THEN Trim(SubSeq(rows, 1, Len(rows) - 1)) ELSE rows

\* ---- the escape strings Rich's live displays are designed to emit (live_render.py) -----------
\* position_cursor for a region of h rows; h = 0 (an empty frame) still erases the current row
Erase(h)   == <<<<"cr", 0>>, <<"el2", 0>>>> \o [i \in 1..(2 * ((IF h = 0 THEN 1 ELSE h) - 1)) |-> IF i % 2 = 1 THEN <<"cuu", 1>> ELSE <<"el2", 0>>]
Restore(h) == <<<<"cr", 0>>>> \o [i \in 1..(2 * h) |-> IF i % 2 = 1 THEN <<"cuu", 1>> ELSE <<"el2", 0>>]
\* lines of text, each followed by a newline
RECURSIVE LinesNl(_)
LinesNl(ids) == IF ids = <<>> THEN <<>>
                ELSE <<IF Head(ids) = 0 THEN <<"sp", 0>> ELSE <<"t", Head(ids)>>, <<"nl", 0>>>> \o LinesNl(Tail(ids))   \* 0: a blank line (print())
\* a frame: rows separated by newlines, none after the last; a blank row (0) writes nothing visible
RECURSIVE FrameOps(_)
FrameOps(rows) == IF rows = <<>> THEN <<>>
                  ELSE (IF Head(rows) = 0 THEN <<<<"sp", 0>>>> ELSE <<<<"t", Head(rows)>>>>)
                       \o (IF Len(rows) > 1 THEN <<<<"nl", 0>>>> ELSE <<>>) \o FrameOps(Tail(rows))
=============================================================================
