--------------------------- MODULE Trace_Pretty ---------------------------
(* M3: every record is one real call of rich.pretty.pretty_repr: the abstract value, the options,
   the atom table and the tokenised output lines.  The verdict names the failing clause of the
   property part of Pretty.tla; after "|" come tags that are not verdicts: which variant of the
   layout model reproduces the output exactly (m=coded/fixed/both/none - "none" is DRIFT), and
   ;1 / ;0 = whether the OneLineIfFits antecedent held (vacuity accounting). *)
EXTENDS Pretty, Json, IOUtils

Recs == JsonDeserialize(IOEnv.TRACE_FILE)

VARIABLES tid, done
vars == <<tid, done>>

ModelTag(rec) ==
    IF rec.err # "" THEN "none"
    ELSE LET c == SameLines(rec.lines, Render(rec.atoms, rec.v, rec.o, "coded"))
             f == SameLines(rec.lines, Render(rec.atoms, rec.v, rec.o, "fixed"))
         IN IF c /\ f THEN "both" ELSE IF c THEN "coded" ELSE IF f THEN "fixed" ELSE "none"
Tags(rec) == "m=" \o ModelTag(rec) \o (IF OneLineApplies(rec.atoms, rec.v, rec.o) THEN ";1" ELSE ";0")

Init == tid \in 1..Len(Recs) /\ done = FALSE
Judge == ~done /\ done' = TRUE /\ UNCHANGED tid
Next == Judge
Spec == Init /\ [][Next]_vars
Report == done => PrintT(<<"VERDICT", tid, Verdict(Recs[tid]) \o "|" \o Tags(Recs[tid])>>)
=============================================================================
