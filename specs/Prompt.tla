------------------------------- MODULE Prompt -------------------------------
(* rich/prompt.py - the ask loop of Prompt / IntPrompt / Confirm (beyond the listed properties; DESIGN.md §14).
   A response line is a sequence of code points as the stream hands it over (the newline included, <<>> at
   end of input).  One loop iteration of PromptBase.__call__ = one Attempt: show the prompt, read one line,
   then return the default / return the converted value / show exactly one error line and go round again.
   Implementation-shaped part: Classify follows process_response / Confirm.process_response / check_choice;
   property part (PromptOK and the invariants of MC_Prompt): what a caller relies on.                        *)
EXTENDS Naturals, Integers, Sequences

IsWs(c) == c \in {32, 10, 9, 13}
RECURSIVE LStrip(_)
LStrip(s) == IF s # <<>> /\ IsWs(Head(s)) THEN LStrip(Tail(s)) ELSE s
RECURSIVE RStrip(_)
RStrip(s) == IF s # <<>> /\ IsWs(s[Len(s)]) THEN RStrip(SubSeq(s, 1, Len(s) - 1)) ELSE s
Strip(s) == RStrip(LStrip(s))
Lower(c) == IF c \in 65..90 THEN c + 32 ELSE c
LowerS(s) == [i \in 1..Len(s) |-> Lower(s[i])]
Digits(s) == s # <<>> /\ \A i \in 1..Len(s) : s[i] \in 48..57
\* the part of Python's int() grammar the alphabet can spell: optional sign, ASCII digits
IsInt(s) == Digits(s) \/ (Len(s) >= 2 /\ s[1] \in {43, 45} /\ Digits(Tail(s)))
RECURSIVE Nat10(_)
Nat10(s) == IF s = <<>> THEN 0 ELSE 10 * Nat10(SubSeq(s, 1, Len(s) - 1)) + (s[Len(s)] - 48)
IntVal(s) == IF s[1] = 45 THEN 0 - Nat10(Tail(s)) ELSE IF s[1] = 43 THEN Nat10(Tail(s)) ELSE Nat10(s)
InSeq(x, q) == \E i \in 1..Len(q) : q[i] = x

\* values a prompt can hand back, in one record shape (TLC cannot compare values of different shapes)
VStr(s) == [t |-> "str", s |-> s, n |-> 0]
VInt(k) == [t |-> "int", s |-> <<>>, n |-> k]
VBool(b) == [t |-> "bool", s |-> <<>>, n |-> IF b THEN 1 ELSE 0]
VDefault == [t |-> "default", s |-> <<>>, n |-> 0]
Yes == <<121>>
No == <<110>>

(* cfg == [kind: {"str","int","confirm"}, haschoices: BOOLEAN, choices: Seq(line), hasdefault: BOOLEAN,
           show_default: BOOLEAN, show_choices: BOOLEAN, default_typed: BOOLEAN]                                                   *)
\* ---- property-level vocabulary: which responses are acceptable, independent of the loop --------------
Acceptable(cfg, raw) ==
    LET v == Strip(raw) IN
    CASE cfg.kind = "confirm" -> LowerS(v) \in {Yes, No}
      [] cfg.kind = "int"     -> IsInt(v) /\ (cfg.haschoices => InSeq(v, cfg.choices))
      [] OTHER                -> cfg.haschoices => InSeq(v, cfg.choices)
Meaning(cfg, raw) ==
    LET v == Strip(raw) IN
    CASE cfg.kind = "confirm" -> VBool(LowerS(v) = Yes)
      [] cfg.kind = "int"     -> VInt(IntVal(v))
      [] OTHER                -> VStr(v)
TakesDefault(cfg, raw) == raw = <<>> /\ cfg.hasdefault

\* ---- implementation-shaped: one loop iteration ---------------------------------------------------------
Classify(cfg, raw) ==          \* process_response: [ok, val, err]
    LET v == Strip(raw) IN
    IF cfg.kind = "confirm" THEN
        (IF LowerS(v) \in {Yes, No} THEN [ok |-> TRUE, val |-> VBool(LowerS(v) = Yes), err |-> "none"]
         ELSE [ok |-> FALSE, val |-> VDefault, err |-> "validate"])
    ELSE IF cfg.kind = "int" /\ ~IsInt(v) THEN [ok |-> FALSE, val |-> VDefault, err |-> "validate"]
    ELSE IF cfg.haschoices /\ ~InSeq(v, cfg.choices) THEN [ok |-> FALSE, val |-> VDefault, err |-> "choice"]
    ELSE [ok |-> TRUE, val |-> IF cfg.kind = "int" THEN VInt(IntVal(v)) ELSE VStr(v), err |-> "none"]

PromptParts(cfg) ==            \* make_prompt: what one prompt shows
    [choices |-> cfg.show_choices /\ (cfg.kind = "confirm" \/ (cfg.haschoices /\ cfg.choices # <<>>)),   \* Confirm carries its own y/n choices
     default |-> cfg.hasdefault /\ cfg.show_default /\ cfg.default_typed]   \* isinstance(default, (str, response_type))

St0 == [i |-> 0, shown |-> <<>>, done |-> FALSE, res |-> VDefault]
\* raw = the line the stream hands over at this attempt
Attempt(cfg, st, raw) ==
    LET shown1 == Append(st.shown, "prompt")
        c == Classify(cfg, raw) IN
    IF TakesDefault(cfg, raw) THEN [i |-> st.i + 1, shown |-> shown1, done |-> TRUE, res |-> VDefault]
    ELSE IF c.ok THEN [i |-> st.i + 1, shown |-> shown1, done |-> TRUE, res |-> c.val]
    ELSE [i |-> st.i + 1, shown |-> Append(shown1, c.err), done |-> FALSE, res |-> VDefault]

LineAt(lines, k) == IF k <= Len(lines) THEN lines[k] ELSE <<>>      \* end of input reads as ""
RECURSIVE Run(_, _, _, _)
Run(cfg, lines, st, fuel) ==
    IF st.done \/ fuel = 0 THEN st ELSE Run(cfg, lines, Attempt(cfg, st, LineAt(lines, st.i + 1)), fuel - 1)

\* ---- property part: what an observed run must satisfy -------------------------------------------------
(* obs == [shown: Seq({"prompt","validate","choice","other"}), res: value, returned: BOOLEAN]; `lines` is what
   the stream held.  A caller relies on: one prompt per response read; one error line per rejected response and
   none otherwise; the call returns at the FIRST response that is acceptable (or empty-at-end with a default)
   and with the meaning of exactly that response; a response outside the choices is never returned.         *)
RECURSIVE CountOf(_, _)
CountOf(q, x) == IF q = <<>> THEN 0 ELSE (IF Head(q) = x THEN 1 ELSE 0) + CountOf(Tail(q), x)
Ends(cfg, raw) == TakesDefault(cfg, raw) \/ Acceptable(cfg, raw)
\* index of the first response that ends the loop (0 if none among the first `n`)
RECURSIVE FirstEnding(_, _, _, _)
FirstEnding(cfg, lines, k, n) == IF k > n THEN 0 ELSE IF Ends(cfg, LineAt(lines, k)) THEN k ELSE FirstEnding(cfg, lines, k + 1, n)
PromptVerdict(cfg, lines, obs, n) ==
    LET k == FirstEnding(cfg, lines, 1, n)
        np == CountOf(obs.shown, "prompt")
        ne == CountOf(obs.shown, "validate") + CountOf(obs.shown, "choice") IN
    IF CountOf(obs.shown, "other") > 0 THEN "unexpected-output"
    ELSE IF k = 0 THEN "ok"                                  \* outside the quantifier: no acceptable response supplied
    ELSE IF ~obs.returned THEN "did-not-return"
    ELSE IF np < k THEN "returned-before-first-acceptable-response"
    ELSE IF np > k THEN "acceptable-response-rejected"
    ELSE IF ne # k - 1 THEN "error-lines-differ-from-rejections"
    ELSE IF \E j \in 1..Len(obs.shown) - 1 : obs.shown[j] # "prompt" /\ obs.shown[j + 1] # "prompt" THEN "two-errors-for-one-response"
    ELSE IF obs.shown[Len(obs.shown)] # "prompt" THEN "error-after-accepted-response"
    ELSE IF TakesDefault(cfg, LineAt(lines, k)) THEN (IF obs.res = VDefault THEN "ok" ELSE "default-not-returned")
    ELSE IF obs.res = VDefault THEN "default-returned-for-a-response"
    ELSE IF obs.res # Meaning(cfg, LineAt(lines, k)) THEN "value-differs"
    ELSE "ok"
=============================================================================
