CONSTANTS
  Threads <- MCThreads3
  Program <- MCProgram3
  AtomicPrint = TRUE
SPECIFICATION Spec
INVARIANT NoBadInv
INVARIANT ScreenInv
INVARIANT NoStuck
CHECK_DEADLOCK FALSE
