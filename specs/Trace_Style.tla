---------------------------- MODULE Trace_Style ----------------------------
(* M3 for C06: records of what the real rich.style.Style did, judged against Style.tla.
   Attributes are 1..13 in str() order (bold dim italic underline blink blink2 reverse conceal strike
   underline2 frame encircle overline).  A style observation ("out") is [ok, st, err]; st is the lexical
   projection of the real object (public getters only), err the exception class name.

   Every record has   k     the kind: "triple" | "route" | "gram" | "class" | "pool" (styles that carry the same terminal
                            colour in different documented spellings - red / color(1) / Color.from_ansi(1), #af00ff /
                            rgb(175,0,255) / Color.from_rgb - alone and under equal attributes and links: whether two of
                            them are == is the library's choice, the statement only demands equal hashes and dict / set
                            interchangeability WHEN they are; nothing implementation-shaped is compared)
                      objs  projections of real Style objects
                      pairs [i, j, eq, heq]:  objs[i] == objs[j]  and  hash(..) == hash(..) as observed
                      rts   [i, str, back, eq, nback, neq]: str = tokens of str(x) for x = objs[i],
                            back = parse(str(x)) with eq = (back == x), nback = parse(normalize(d)) with
                            neq = (nback == parse(d)) where d is str(x) (for "gram": the definition itself)
   The verdict names the failing clauses of the PROPERTY part (first one of each group: the record's own
   law, hashing, round trips; joined by " ; "); if there is none, the first disagreement with the
   implementation-shaped part, prefixed "drift " (never a violation).                                  *)
EXTENDS Style, Json, IOUtils

TraceAttrSeq == <<1, 2, 3, 4, 5, 6, 7, 8, 9, 10, 11, 12, 13>>      \* AttrSeq <- TraceAttrSeq

Recs == JsonDeserialize(IOEnv.TRACE_FILE)

VARIABLE tid
Init == tid \in 1..Len(Recs)
Next == UNCHANGED tid
Spec == Init /\ [][Next]_tid

\* the observed style as a value of the spec (JSON arrays are tuples; make the attribute map a function on Attr)
St(s) == [attrs |-> [x \in Attr |-> s.attrs[x]], fg |-> s.fg, bg |-> s.bg, link |-> s.link]
Same(s, t) == St(s) = St(t)

\* ---- pairs: equal styles have equal hashes ---------------------------------------------------
RECURSIVE HashBad(_, _)
HashBad(r, n) ==
    IF n > Len(r.pairs) THEN ""
    ELSE LET p == r.pairs[n]
         IN (IF p.eq /\ ~p.heq THEN " " \o ToString(p.i) \o "-" \o ToString(p.j) ELSE "") \o HashBad(r, n + 1)
RECURSIVE EqBad(_, _)
EqBad(r, n) ==
    IF n > Len(r.pairs) THEN ""
    ELSE LET p == r.pairs[n]
         IN IF p.eq # Same(r.objs[p.i], r.objs[p.j]) THEN " " \o ToString(p.i) \o "-" \o ToString(p.j) ELSE EqBad(r, n + 1)

\* ---- round trips -----------------------------------------------------------------------------
RECURSIVE RtBad(_, _)
RtBad(r, n) ==
    IF n > Len(r.rts) THEN ""
    ELSE LET e == r.rts[n]
             s == St(r.objs[e.i])
         IN IF ~e.back.ok THEN "roundtrip-str-raises " \o ToString(e.i)
            ELSE IF ~e.eq THEN "roundtrip-str-not-equal " \o ToString(e.i) \o " " \o StyleDiffX(St(e.back.st), s)
            ELSE IF ~e.nback.ok THEN "roundtrip-normalize-raises " \o ToString(e.i)
            ELSE IF ~e.neq THEN "roundtrip-normalize-not-equal " \o ToString(e.i) \o " " \o StyleDiffX(St(e.nback.st), s)
            ELSE RtBad(r, n + 1)
RECURSIVE RtDrift(_, _)
RtDrift(r, n) ==
    IF n > Len(r.rts) THEN ""
    ELSE LET e == r.rts[n]
             s == St(r.objs[e.i])
         IN IF e.back.ok /\ ~Same(e.back.st, s) THEN "roundtrip-abstract-differs " \o ToString(e.i)
            ELSE IF ~SameToks(Str(s), e.str) THEN "str-differs " \o ToString(e.i)
            ELSE RtDrift(r, n + 1)

\* clauses shared by all kinds ("" = holds)
HashV(r)  == IF HashBad(r, 1) # "" THEN "hash-differs" \o HashBad(r, 1) ELSE ""
CommonDrift(r) ==
    IF EqBad(r, 1) # "" THEN "eq-abstract-mismatch" \o EqBad(r, 1)
    ELSE IF RtDrift(r, 1) # "" THEN RtDrift(r, 1)
    ELSE "ok"

\* ---- (i) triples: the algebra -----------------------------------------------------------------
TripleV(r) ==
    LET a == St(r.a)  b == St(r.b)  c == St(r.c) IN
    IF ~(r.ab.ok /\ r.bc.ok /\ r.ab_c.ok /\ r.a_bc.ok /\ r.an.ok /\ r.na.ok) THEN "add-raised"
    ELSE IF ~RightBiasOK(a, b, St(r.ab.st)) THEN "right-bias a+b " \o AddDiff(a, b, St(r.ab.st))
    ELSE IF ~RightBiasOK(b, c, St(r.bc.st)) THEN "right-bias b+c " \o AddDiff(b, c, St(r.bc.st))
    ELSE IF ~RightBiasOK(St(r.ab.st), c, St(r.ab_c.st)) THEN "right-bias (a+b)+c " \o AddDiff(St(r.ab.st), c, St(r.ab_c.st))
    ELSE IF ~RightBiasOK(a, St(r.bc.st), St(r.a_bc.st)) THEN "right-bias a+(b+c) " \o AddDiff(a, St(r.bc.st), St(r.a_bc.st))
    ELSE IF ~Same(r.ab_c.st, r.a_bc.st) THEN "assoc-differs " \o StyleDiff(St(r.ab_c.st), St(r.a_bc.st))
    ELSE IF ~r.eq_assoc THEN "assoc-not-equal"
    ELSE IF ~Same(r.an.st, r.a) \/ ~r.eq_an THEN "identity-right"
    ELSE IF ~Same(r.na.st, r.a) \/ ~r.eq_na THEN "identity-left"
    ELSE IF ~Same(r.comb.st, r.ab_c.st) \/ ~Same(r.chain.st, r.ab_c.st) THEN "combine-differs"
    ELSE "ok"

\* ---- (ii) routes: every constructor, step by step on the observed inputs -----------------------
PropOps == {"add", "chain", "combine", "parse", "normparse"}    \* ops whose value the statement fixes
\* ... for a definition only where the documentation is explicit about it (Plain: e.g. a URL that is itself a keyword,
\* as in "link on", is not); the round trip clauses do not depend on this
IsProp(e) == e.op \in PropOps /\ (e.op \in {"parse", "normparse"} => Plain(e.toks))
In(r, i) == St(r.steps[i].out.st)
Expected(r, l) ==
    LET e == r.steps[l] IN
    CASE e.op = "kwargs"    -> St(e.st)
      [] e.op = "parse"     -> Parse(e.toks).st
      [] e.op = "normparse" -> Parse(e.toks).st
      [] e.op = "fromcolor" -> FromColor(e.fg, e.bg)
      [] e.op = "add"       -> Add(In(r, e.i), In(r, e.j))
      [] e.op = "chain"     -> Combine([n \in 1..Len(e.ix) |-> In(r, e.ix[n])])
      [] e.op = "combine"   -> Combine([n \in 1..Len(e.ix) |-> In(r, e.ix[n])])
      [] e.op = "copy"      -> Copy(In(r, e.i))
      [] e.op = "ulink"     -> UpdateLink(In(r, e.i), e.l)
      [] e.op = "wc"        -> WithoutColor(In(r, e.i))
      [] e.op = "str"       -> In(r, e.i)
      [] e.op = "hash"      -> In(r, e.i)
      [] e.op = "addnone"   -> In(r, e.i)
      [] e.op = "pick"      -> In(r, e.i)
      [] e.op = "bgstyle"   -> BackgroundStyle(In(r, e.i))
      [] e.op = "null"      -> Null
StepBad(r, l) ==
    LET e == r.steps[l] IN
    IF e.op \in {"parse", "normparse"} /\ ~Parse(e.toks).ok THEN ""     \* not a definition: judged by "gram" records only
    ELSE IF ~e.out.ok THEN "raised"
    ELSE IF e.op \in {"parse", "normparse"} /\ Parse(e.toks).st # St(e.st) THEN "spec-parse-differs"
    ELSE IF St(e.out.st) # Expected(r, l) THEN "value-differs " \o StyleDiff(St(e.out.st), Expected(r, l))
    ELSE ""
RECURSIVE RouteBad(_, _, _)
RouteBad(r, l, prop) ==
    IF l > Len(r.steps) THEN ""
    ELSE IF (IsProp(r.steps[l]) = prop) /\ StepBad(r, l) # ""
         THEN "step " \o ToString(l) \o " " \o r.steps[l].op \o " " \o StepBad(r, l)
         ELSE RouteBad(r, l + 1, prop)

\* an object of the route no longer projects to what it projected to when it was made (a later call changed it in place)
ObjChanged(r) == \E l \in 1..Len(r.steps) : /\ r.steps[l].out.ok /\ l <= Len(r.objs)
                                             /\ ~Same(r.objs[l], r.steps[l].out.st)

\* ---- (iii) grammar ------------------------------------------------------------------------------
GramV(r) ==
    LET P == Parse(r.toks) IN
    IF P.ok /\ Plain(r.toks)
    THEN IF ~r.out.ok THEN "parse-rejects"
         ELSE IF St(r.out.st) # P.st THEN "parse-differs " \o StyleDiffX(St(r.out.st), P.st)
         ELSE "ok"
    ELSE "ok"
GramDrift(r) ==
    LET P == Parse(r.toks) IN
    IF P.ok THEN IF ~r.out.ok THEN "parse-rejects-undocumented"
                 ELSE IF St(r.out.st) # P.st THEN "parse-differs-undocumented"
                 ELSE "ok"
    ELSE IF r.out.ok THEN "parse-accepts-invalid"
    ELSE IF r.out.err # P.err THEN "error-class-differs"
    ELSE "ok"

\* ---- verdict --------------------------------------------------------------------------------------
\* the three groups of property clauses are independent: all failing groups are named, joined by " ; "
Join(x, y) == IF x = "" THEN y ELSE IF y = "" THEN x ELSE x \o " ; " \o y
Prop(r) ==
    LET own == CASE r.k = "triple" -> TripleV(r)
                 [] r.k = "route"  -> IF RouteBad(r, 1, TRUE) # "" THEN RouteBad(r, 1, TRUE) ELSE "ok"
                 [] r.k = "gram"   -> GramV(r)
                 [] OTHER -> "ok"
        all == Join(Join(IF own = "ok" THEN "" ELSE own, HashV(r)), RtBad(r, 1))
    IN IF all = "" THEN "ok" ELSE all
Drift(r) ==
    LET own == CASE r.k = "route" -> IF RouteBad(r, 1, FALSE) # "" THEN RouteBad(r, 1, FALSE)
                                     ELSE IF ObjChanged(r) THEN "operand-changed" ELSE "ok"
                 [] r.k = "gram"  -> GramDrift(r)
                 [] r.k = "class" -> IF \E i \in 1..Len(r.objs) : ~Same(r.objs[i], r.val) THEN "member-differs" ELSE "ok"
                 [] OTHER -> "ok"
    IN IF r.k = "pool" THEN "ok" ELSE IF own # "ok" THEN own ELSE CommonDrift(r)
Verdict(r) == IF Prop(r) # "ok" THEN Prop(r) ELSE IF Drift(r) # "ok" THEN "drift " \o Drift(r) ELSE "ok"

Report == PrintT(<<"VERDICT", tid, Verdict(Recs[tid])>>)
=============================================================================
