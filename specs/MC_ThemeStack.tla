--------------------------- MODULE MC_ThemeStack ---------------------------
(* M1: exhaustive exploration of push/pop/use_theme histories (bounded stack depth);
   M2: with MC_ThemeStack_gen.cfg the same module prints every maximal history as JSON. *)
EXTENDS ThemeStack, Json

CONSTANT GenDepth
VARIABLES s, hist, op
vars == <<s, hist, op>>

MaxDepth == 4      \* stack entries


Themes == { [styles |-> [n1 |-> "s1"], ti |-> FALSE],
            [styles |-> [n1 |-> "s2", n2 |-> "s1"], ti |-> FALSE],
            [styles |-> [d1 |-> "s2"], ti |-> FALSE],
            [styles |-> [n2 |-> "s2"], ti |-> TRUE],
            [styles |-> [q1 |-> "s1"], ti |-> FALSE],
            [styles |-> <<>>, ti |-> FALSE] }
BaseTheme == [styles |-> [n1 |-> "s1"], ti |-> TRUE]

\* ---- the code's design: dictionaries are collapsed at push time (theme.py:96-100) ----------
RECURSIVE ImplEntries(_, _)
ImplEntries(stack, k) ==
    IF k = 1 THEN << stack[1].map >>
    ELSE LET below == ImplEntries(stack, k - 1)
             prev  == below[k - 1]
             mine  == stack[k].map
             merged == [n \in (DOMAIN prev) \cup (DOMAIN mine) |->
                          IF n \in DOMAIN mine THEN mine[n] ELSE prev[n]]
         IN Append(below, IF stack[k].inherit THEN merged ELSE mine)
ImplGet(stack, n) == LET top == ImplEntries(stack, Len(stack))[Len(stack)]
                     IN IF n \in DOMAIN top THEN top[n] ELSE Parsed

Log == hist' = Append(hist, op')

Init == s = InitState(BaseTheme) /\ hist = <<>> /\ op = [k |-> "init"]

Push == \E th \in Themes, inh \in BOOLEAN :
          /\ Len(s.stack) < MaxDepth
          /\ s' = DoPush(s, th, inh)
          /\ op' = [k |-> "push", th |-> th, inh |-> inh] /\ Log
Pop == /\ CanPop(s) /\ s' = DoPop(s) /\ op' = [k |-> "pop"] /\ Log
PopBase == /\ Len(s.stack) = 1 /\ s.blocks = <<>> /\ s' = DoPopBase(s) /\ op' = [k |-> "popbase"] /\ Log
UseEnter == \E th \in Themes, inh \in BOOLEAN :
          /\ Len(s.stack) < MaxDepth
          /\ s' = DoUseEnter(s, th, inh)
          /\ op' = [k |-> "enter", th |-> th, inh |-> inh] /\ Log
UseExit == \E exc \in BOOLEAN :
          /\ CanUseExit(s) /\ s' = DoUseExit(s) /\ op' = [k |-> "exit", exc |-> exc] /\ Log

Next == Push \/ Pop \/ PopBase \/ UseEnter \/ UseExit

Spec == Init /\ [][Next]_vars

\* ---- properties ---------------------------------------------------------------------------
DesignAgrees == \A n \in Names : ImplGet(s.stack, n) = Lookup(s.stack, n)
BaseStays == BaseNeverPopped(s) /\ s.stack[1].map = ThemeMap(BaseTheme)
SavedAligned == Len(s.saved) = Len(s.stack) - 1
PopRestoresP == [][(op'.k \in {"pop", "exit"}) => PopRestores(s, s')]_vars
PopBaseHarmless == [][(op'.k = "popbase") => s'.stack = s.stack]_vars

View == s
\* M2: emit every history of exactly GenDepth operations (the tree of histories is explored)
Emit == /\ Len(hist) <= GenDepth
        /\ (Len(hist) = GenDepth => PrintT(ToJson([beh |-> hist])))
=============================================================================
