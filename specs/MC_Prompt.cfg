CONSTANT MaxLines = 3
CONSTANT GenDepth = 0
SPECIFICATION Spec
INVARIANT DesignOK
INVARIANT NeverOutsideChoices
INVARIANT OneErrorPerRejection
INVARIANT RunAgrees
INVARIANT ResultTyped
CONSTRAINT Emit
CHECK_DEADLOCK FALSE
