--------------------------- MODULE Trace_LruCache ---------------------------
(* M3: histories of cell_len(s, cache) on a real rich._lru_cache.LRUCache of small capacity
   (generated exhaustively by MC_LruCache or at random), replayed step by step through
   LruCache!DoMeasure.  Event: [s, obs (result, -1000 = raised), keys (cache keys in order),
   vals (stored values)].
   Property part : every result equals CellLen(s) whatever happened before.
   Drift         : the observed cache content differs from the model's (order / stored values);
                   after a drift only the property part is judged.                          *)
EXTENDS LruCache, CellsData

VARIABLES tid, l, c, verdict, drift
vars == <<tid, l, c, verdict, drift>>

Tr == Recs[tid]

Init == /\ tid \in 1..Len(Recs)
        /\ l = 1
        /\ c = EmptyCache(Recs[tid].cap, Recs[tid].thr)
        /\ verdict = "ok"
        /\ drift = ""

SameContent(e, c2) ==
    /\ Strs(e.keys) = c2.order
    /\ \A i \in 1..Len(e.keys) : e.vals[i] = c2.val[c2.order[i]]

Step == /\ l <= Len(Tr.events) /\ verdict = "ok"
        /\ LET e == Tr.events[l]
               s == Str(e.s)
               c2 == DoMeasure(c, s)
           IN /\ c' = c2
              /\ verdict' = IF e.obs # CellLen(s)
                            THEN "step " \o ToString(l) \o ": result-differs obs=" \o ToString(e.obs)
                                 \o " spec=" \o ToString(CellLen(s)) \o " model=" \o c2.how
                            ELSE "ok"
              /\ drift' = IF drift = "" /\ ~SameContent(e, c2)
                          THEN "drift step " \o ToString(l) \o ": cache-content-differs model=" \o c2.how
                          ELSE drift
        /\ l' = l + 1 /\ UNCHANGED tid

Next == Step
Spec == Init /\ [][Next]_vars
AtEnd == l = Len(Tr.events) + 1 \/ verdict # "ok"
Report == AtEnd => PrintT(<<"VERDICT", tid, IF verdict # "ok" THEN verdict ELSE IF drift # "" THEN drift ELSE "ok">>)
=============================================================================
