---------------------------- MODULE TableSolver ----------------------------
(* C07 - the column-width solver of rich.table.Table, at design level.

   IMPLEMENTATION-SHAPED PART: a transcription of  Table._calculate_column_widths  (rich/table.py, 9.10.0
   + the fix: commits ecb2d1f / 82f770c) in exact integer arithmetic: the measure step
   (_measure_column -> Padding.__rich_measure__ -> Text.__rich_measure__, with the Column.width /
   min_width / max_width clamping), the ratio / flex branch (ratio_distribute with flex_minimum),
   _collapse_widths, the last-resort ratio_reduce, the re-measure of the collapsed columns, and the
   expand / Table.min_width distribution.  ratio_distribute, ratio_reduce and _collapse_widths are the
   transcriptions of Ratio.tla (their float-free rounding is justified there).

   Only `Measurement.maximum` is transcribed: the solver never reads `.minimum` - that IS the open finding
   C07-solver-ignores-column-minimum in one sentence.  For one cell of content widths (cmin, cmax) under
   left+right padding p,  Measurement.get(Padding(cell), mw).maximum  is  mw  when  mw - p < 1  and
   min(cmax, mw - p) + p  otherwise - both are  min(cmax + p, mw)  (p >= 0, cmax >= 1); with no padding
   at all the cell is measured bare: min(cmax, mw), the same formula with p = 0.

   A table instance t:
     ex            expand
     hasmin, tmin  Table.min_width is given; tmin = Table.min_width - _extra_width (borders)
     cols[j]       cmin   content minimum of the column's cells: 1, or 2 when a double-width character occurs
                          (what a fold column needs; NOT what Text.__rich_measure__ calls the minimum - the longest
                          word - which the solver does not read either)
                   cmax   content maximum: cells of the widest line of the column's cells
                   padl, padr   the padding the cells of this column really carry (_get_cells: pad_edge and
                          collapse_padding applied)
                   spad   what _get_padding_width(j) says the padding is (collapse_padding applied, pad_edge
                          NOT applied: for the first / last column of a pad_edge=False table spad > padl + padr)
                   ratio  Column.ratio, -1 = None        w, minw, maxw  Column.width / min_width / max_width, 0 = None
                   nw     Column.no_wrap
   avail = (Table.width if given else the console's max_width) - _extra_width: what the columns may use.

   PROPERTY PART (design level; the same structural minimum as Table.tla):
     Need(c)    = cmax for a no_wrap column, else cmin
     StructMin  = SUM_j padl + padr + max(Need, w, minw)
     InScope    = options not contradictory (Table.tla!ColCapOK) and avail >= StructMin
     (a) Fits     SUM widths <= avail
     (b) Fed      every width >= padl + padr + Need      (no character of a fold column has to be dropped)
     (c) Exact    expand and no column width / max_width  =>  SUM widths = avail

   DESIGN SWITCH  Repaired: ONE new step at the very end, just before `return widths` (Without = the halves of the
   step left out, for ablation):
     "raise"       every column below  padl + padr + Need  is raised to it;
     "recollapse"  when the total then exceeds avail - because a column was raised, or because the re-measure
                   re-imposed a Column.min_width - the excess is collapsed out of what the columns hold ABOVE
                   their bases, base = min(width, padl + padr + max(Need, width option, min_width)): the column's own
                   term of the structural minimum, so a min_width column keeps its min_width and the others give
                   way.  It is the same _collapse_widths, applied to  widths - bases  against  avail - SUM bases;
                   SUM bases <= StructMin <= avail, so it always fits, and _collapse_widths never takes more than
                   the excess, so an expanding table stays exactly avail wide.
   When no column is below its need and the total fits, the step changes nothing: Conservative(t, avail) - whenever
   the design as it is already satisfies (a)(b)(c), the repaired design returns the same widths - holds by
   construction and is model-checked all the same.
   Considered and rejected because they are NOT conservative (TLC refuted each while this module was written, with an
   instance where an acceptable answer changes): a flex_minimum that knows Need, and the same step placed BEFORE the
   expand distribution (pl=2 pr=1 expand, contents 1..1 ratio 2 and 2..2 ratio 1, avail 11: [6,5] becomes [5,6] -
   the intermediate widths change and with them the rounding of the final distribution); making _get_padding_width
   honour pad_edge (a min_width / width column at the edge of a pad_edge=False table loses the surplus padding it
   gets today even when there is room).
   A code patch cannot tell Need = 2 from Need = 1: Measurement carries the longest word, not the widest character.
   Patch(...) is the step with that knowledge only, PatchWhy what it still promises.                          *)
EXTENDS Ratio

CONSTANTS Repaired,        \* BOOLEAN
          Without          \* subset of {"raise", "recollapse"}: halves of the repair switched off

Fix(name, rep) == rep /\ name \notin Without      \* a half of the repair is in force

\* ---- the instance ---------------------------------------------------------------------------------------
Pad(c)  == c.padl + c.padr
Need(c) == IF c.nw THEN c.cmax ELSE c.cmin
ColMin(c) == Max2(Need(c), Max2(c.w, c.minw))
StructMin(t) == SumSeq([j \in DOMAIN t.cols |-> Pad(t.cols[j]) + ColMin(t.cols[j])])
ColOK(c) == /\ c.cmin \in 1..2 /\ c.cmax >= c.cmin /\ c.padl >= 0 /\ c.padr >= 0 /\ c.spad >= Pad(c)
            /\ c.w = 0 \/ c.w >= Need(c)
            /\ c.maxw = 0 \/ (c.maxw >= Need(c) /\ c.maxw >= c.minw)
            /\ c.ratio >= -1                        \* 0 is a ratio: a flexible column that asks for no share (Table.tla)
InScope(t, avail) == /\ Len(t.cols) >= 1
                     /\ \A j \in DOMAIN t.cols : ColOK(t.cols[j])
                     /\ avail >= StructMin(t)
NoWidthCap(t) == \A j \in DOMAIN t.cols : t.cols[j].w = 0 /\ t.cols[j].maxw = 0
Wrapable(c) == c.w = 0 /\ ~c.nw                 \* (column.width is None and not column.no_wrap)
Flexible(c) == c.ratio # -1                     \* Column.flexible: ratio is not None

\* ---- from table-level options to per-column paddings (_get_cells / _get_padding_width) ---------------------
\* oo = [pl, pr (horizontal padding left / right), pe (pad_edge), cp (collapse_padding), ex, tmin (0 = None)],
\* cs[j] = [cmin, cmax, ratio, minw, w, maxw, nw]
PadLOf(oo, n, j) == IF ~oo.pe /\ j = 1 THEN 0
                    ELSE IF oo.cp /\ j > 1 THEN Max2(0, oo.pl - oo.pr)
                    ELSE oo.pl
PadROf(oo, n, j) == IF ~oo.pe /\ j = n THEN 0 ELSE oo.pr
SPadOf(oo, j)    == (IF oo.cp /\ j > 1 THEN Max2(0, oo.pl - oo.pr) ELSE oo.pl) + oo.pr
TableOf(oo, cs) ==
    [ex |-> oo.ex, hasmin |-> oo.tmin # 0, tmin |-> oo.tmin,
     cols |-> [j \in 1..Len(cs) |->
                 [cmin |-> cs[j].cmin, cmax |-> cs[j].cmax, padl |-> PadLOf(oo, Len(cs), j), padr |-> PadROf(oo, Len(cs), j),
                  spad |-> SPadOf(oo, j), ratio |-> cs[j].ratio, w |-> cs[j].w, minw |-> cs[j].minw, maxw |-> cs[j].maxw,
                  nw |-> cs[j].nw]]]

\* ---- _get_padding_width / _measure_column(...).maximum  (table.py:604-646) --------------------------------
MeasureMax(c, mw) ==
    IF mw < 1 THEN 0                                                           \* Measurement(0, 0)
    ELSE IF c.w # 0 THEN Min2(c.w + c.spad, mw)                          \* fixed width column
    ELSE LET m0 == Min2(c.cmax + Pad(c), mw)                                   \* the padded cell, .with_maximum(max_width)
             m1 == IF c.minw # 0 THEN Max2(m0, c.minw + c.spad) ELSE m0  \* clamp: with_minimum
             m2 == IF c.maxw # 0 THEN Min2(m1, c.maxw + c.spad) ELSE m1  \*        with_maximum
         IN m2
OrOne(x) == IF x = 0 THEN 1 ELSE x                                             \* `_range.maximum or 1`

\* ---- _calculate_column_widths (table.py:442-506), the design AS IT IS ------------------------------------------
\* returns every stage (for reading counter-examples); .w is what the method returns, ok = FALSE when an
\* `assert total_ratio > 0` of ratio_distribute would fail
Stages(t, avail) ==
    LET cols == t.cols
        n    == Len(cols)
        idx  == [j \in 1..n |-> j]
        \* widths = [_range.maximum or 1 for _range in width_ranges]
        nat  == [j \in 1..n |-> MeasureMax(cols[j], avail)]
        w0   == [j \in 1..n |-> OrOne(nat[j])]
        \* if self.expand: ratios = [col.ratio or 0 for col in columns if col.flexible]; if any(ratios): ...
        fl   == SelectSeq(idx, LAMBDA j : Flexible(cols[j]))
        rs   == [k \in 1..Len(fl) |-> cols[fl[k]].ratio]
        flexOn == t.ex /\ \E k \in 1..Len(fl) : rs[k] # 0
        fixed == [j \in 1..n |-> IF Flexible(cols[j]) THEN 0 ELSE nat[j]]
        fmin == [k \in 1..Len(fl) |-> LET c == cols[fl[k]] IN (IF c.w # 0 THEN c.w ELSE 1) + c.spad]   \* (column.width or 1) + padding
        dist == IF flexOn THEN RatioDistribute(avail - SumSeq(fixed), rs, fmin) ELSE [ok |-> TRUE, v |-> <<>>]
        rank(j) == Cardinality({k \in 1..j : Flexible(cols[k])})
        w1   == IF flexOn /\ dist.ok
                THEN [j \in 1..n |-> IF Flexible(cols[j]) THEN fixed[j] + dist.v[rank(j)] ELSE w0[j]]
                ELSE w0
        \* if table_width > max_width: collapse, last resort, re-measure
        over == SumSeq(w1) > avail
        wrap == [j \in 1..n |-> Wrapable(cols[j])]
        w2   == CollapseWidths(w1, wrap, avail)
        w3   == IF SumSeq(w2) > avail
                THEN RatioReduce(SumSeq(w2) - avail, [j \in 1..n |-> 1], w2, w2)
                ELSE w2
        w4   == [j \in 1..n |-> OrOne(MeasureMax(cols[j], w3[j]))]
        w5   == IF over THEN w4 ELSE w1
        \* expand / Table.min_width
        tw   == SumSeq(w5)
        grow == (tw < avail /\ t.ex) \/ (t.hasmin /\ tw < t.tmin)
        target == IF ~t.hasmin \/ t.ex THEN avail ELSE Min2(t.tmin, avail)
        pads == IF grow THEN RatioDistribute(target - tw, w5, <<>>) ELSE [ok |-> TRUE, v |-> <<>>]
        w6   == IF grow /\ pads.ok THEN [j \in 1..n |-> w5[j] + pads.v[j]] ELSE w5
    IN [ok |-> dist.ok /\ pads.ok, w |-> w6,
        natural |-> w0, flexed |-> w1, over |-> over, collapsed |-> w2, reduced |-> w3, remeasured |-> w4]

\* ---- the repaired design: ONE step applied to what the method is about to return ------------------------------
\* knows = TRUE: the design-level repair (Need is known).  knows = FALSE: what a patch of rich/table.py can be -
\* Measurement does not carry Need, so a wrapable column is taken to need one cell and a no_wrap column is left as it is.
NeedAs(c, cur, knows) == IF knows THEN Pad(c) + Need(c) ELSE IF c.nw THEN cur ELSE Pad(c) + 1
OwnAs(c, cur, knows)  == IF knows THEN Pad(c) + ColMin(c) ELSE IF c.nw THEN cur ELSE Pad(c) + Max2(1, Max2(c.w, c.minw))
RepairStepAs(t, avail, ws, knows) ==
    LET cols == t.cols
        n    == Len(cols)
        up   == [j \in 1..n |-> IF Fix("raise", TRUE) THEN Max2(ws[j], NeedAs(cols[j], ws[j], knows)) ELSE ws[j]]
        base == [j \in 1..n |-> Min2(up[j], OwnAs(cols[j], up[j], knows))]
    IN IF Fix("recollapse", TRUE) /\ SumSeq(up) > avail
       THEN (IF SumSeq(base) > avail THEN ws          \* below the structural minimum (outside the property): as before
             ELSE LET s == CollapseWidths([j \in 1..n |-> up[j] - base[j]], [j \in 1..n |-> TRUE], avail - SumSeq(base))
                  IN [j \in 1..n |-> base[j] + s[j]])
       ELSE up
RepairStep(t, avail, ws) == RepairStepAs(t, avail, ws, TRUE)
Patch(t, avail, ws)      == RepairStepAs(t, avail, ws, FALSE)
\* what the patch promises: (a) and (c) as the repaired design, (b) for the columns whose need it knows; tables with
\* a no_wrap column are beyond it (such a column is left alone, whatever the last-resort reduce did to it)
PatchWhy(t, avail, ws) ==
    IF ~InScope(t, avail) \/ (\E j \in DOMAIN t.cols : t.cols[j].nw) THEN "outside"
    ELSE IF Len(ws) # Len(t.cols) THEN "length-differs"
    ELSE IF SumSeq(ws) > avail THEN "wider"
    ELSE IF \E j \in DOMAIN t.cols : ~t.cols[j].nw /\ ws[j] < Pad(t.cols[j]) + 1 THEN "starved"
    ELSE IF t.ex /\ (\A j \in DOMAIN t.cols : t.cols[j].w = 0 /\ t.cols[j].maxw = 0) /\ SumSeq(ws) # avail THEN "narrower"
    ELSE "ok"

AsIs(t, avail) == Stages(t, avail).w
Solve(t, avail, rep) == IF rep THEN RepairStep(t, avail, AsIs(t, avail)) ELSE AsIs(t, avail)
Design(t, avail) == Solve(t, avail, Repaired)

\* ======================================= property part =======================================
Fits(t, avail, ws)  == SumSeq(ws) <= avail
Fed(t, avail, ws)   == \A j \in DOMAIN t.cols : ws[j] >= Pad(t.cols[j]) + Need(t.cols[j])
Exact(t, avail, ws) == (t.ex /\ NoWidthCap(t)) => SumSeq(ws) = avail
Shape(t, ws)        == Len(ws) = Len(t.cols)
\* the acceptance relation over ANY width vector (the transcription's or the real solver's)
SolverWhy(t, avail, ws) ==
    IF ~InScope(t, avail) THEN "outside"
    ELSE IF ~Shape(t, ws) THEN "length-differs"
    ELSE IF ~Fits(t, avail, ws) THEN "wider"
    ELSE IF ~Fed(t, avail, ws) THEN "starved"
    ELSE IF ~Exact(t, avail, ws) THEN "narrower"
    ELSE "ok"
SolverOK(t, avail, ws) == SolverWhy(t, avail, ws) \in {"ok", "outside"}
StarvedCol(t, ws) == CHOOSE j \in DOMAIN t.cols : ws[j] < Pad(t.cols[j]) + Need(t.cols[j])
                                                   /\ \A k \in 1..(j - 1) : ws[k] >= Pad(t.cols[k]) + Need(t.cols[k])

Conservative(t, avail) ==
    (InScope(t, avail) /\ SolverWhy(t, avail, AsIs(t, avail)) = "ok") => Solve(t, avail, TRUE) = AsIs(t, avail)
=============================================================================
