CONSTANTS
  OpenIds = {1, 2, 4, 6, 7, 9}
  CloseKeys = {"red", "blue", "bold", "link"}
  MaxToks = 5
  Alpha = {91, 93, 92, 47, 97, 10}
  MaxStr = 5
  Modes = {"doc", "str"}
  GenDepth = 0
SPECIFICATION Spec
INVARIANT TypeOK
INVARIANT StackOrd
INVARIANT EffIsLaterWins
INVARIANT ErrExact
INVARIANT DeclAgrees
INVARIANT SpanDesign
INVARIANT AllClosedAtEnd
INVARIANT RunsToEnd
INVARIANT BaseIsEarliest
INVARIANT EscStandalone
INVARIANT EscEmbedded
INVARIANT EscOnlyAddsBackslashes
CHECK_DEADLOCK FALSE
