----------------------------- MODULE Trace_Parsers -----------------------------
(* M3 for C14: records of real executions judged one by one.

   k = "p"  token input:   [e entry, t token ids, out "ok" | exception class name, isa documented classes it is an instance of]
            verdict: the observed outcome must be in Allowed(e)  (property part);  an allowed outcome that differs from
            Predicted(e, Flat(t)) is DRIFT (printed, verdict stays ok).
   k = "r"  raw string:    [e, out, isa]      only the property part applies (nothing is predicted for arbitrary Unicode)
   k = "t"  renderable tree: [top kind, rs <<W, out_render, out_measure, out_print>> per width]
            verdict: every outcome at W >= 1 is "ok".
   The name tables come from the tree under test (Data.names / Data.theme).                                        *)
EXTENDS Parsers, Json, IOUtils

Data == JsonDeserialize(IOEnv.TRACE_FILE)
Recs == Data.recs
\* (Range(f) evaluates its argument once; writing {Data.names[i] : i \in ...} would re-read the file for every i)
TraceColorNames == Range(Data.names)
TraceThemeNames == Range(Data.theme)

VARIABLES tid
vars == <<tid>>

Ops == <<"render", "measure", "print">>

\* first (width, op) of a tree record whose outcome is not allowed; 0 if none
BadRuns(r) == {i \in 1..Len(r.rs) : \E o \in 1..3 : ~TreeOutcomeOK(r.rs[i][1], r.rs[i][o + 1])}
TreeVerdict(r) ==
    IF BadRuns(r) = {} THEN "ok"
    ELSE LET i == CHOOSE x \in BadRuns(r) : \A y \in BadRuns(r) : x <= y
             o == CHOOSE x \in 1..3 : r.rs[i][x + 1] # "ok" /\ \A y \in 1..3 : r.rs[i][y + 1] # "ok" => x <= y
         IN "tree W=" \o ToString(r.rs[i][1]) \o " " \o Ops[o] \o ": " \o r.rs[i][o + 1]

Pred(r) == Predicted(r.e, Flat(r.t))
Drifts(r) == r.k = "p" /\ Effective(r.e, r.out, r.isa) # Pred(r)

Verdict(r) ==
    IF r.k = "t" THEN TreeVerdict(r)
    ELSE IF ~OutcomeAllowed(r.e, r.out, r.isa) THEN "undocumented " \o r.out \o " from " \o r.e
    ELSE IF Drifts(r) THEN "ok drift pred=" \o Pred(r)
    ELSE "ok"

Init == tid \in 1..Len(Recs)
Next == FALSE /\ UNCHANGED vars
Spec == Init /\ [][Next]_vars

Report == LET r == Recs[tid]
              v == Verdict(r)
          IN /\ PrintT(<<"VERDICT", tid, v>>)
             /\ (r.k = "p" /\ OutcomeAllowed(r.e, r.out, r.isa) /\ Drifts(r))
                    => PrintT(<<"DRIFT", tid, r.e, r.t, "observed", r.out, "predicted", Pred(r)>>)
=============================================================================
