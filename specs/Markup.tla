--------------------------- MODULE Markup ---------------------------
(* C04 - console markup styles exactly the tagged regions; escape() neutralises any text.

   Text is a sequence of code points (small ints), never a TLA+ string.

   (a) LEXER      what is a tag: the documented syntax of rich/markup.py (RE_TAGS):
                  k backslashes, '[', one of [a-z#/], anything but newline up to the FIRST ']'.
                  k backslashes give k div 2 literal backslashes; k odd => the tag is literal text.
   (b) MACHINE    Open / Close(name) / Pop ("[/]") / text over a stack of open tags.  A character
                  gets the styles of the tags open at that point, combined in OPENING order (later
                  opened wins).  MarkupError exactly when a close finds nothing to close.
                  The machine also carries the implementation-shaped `spans` design (one span per
                  tag, later span in the list wins) so that MC_Markup can show design == rule.
   (c) ESCAPE     transcription of escape() and the acceptance relations EscapeOK / EmbeddedOK.

   The style language (which style a tag text denotes, which tag names are the same name) is
   taken as given: for the fixed tag vocabulary below it is part of this spec (TagKey/TagSty);
   for arbitrary tag texts of raw strings it is a table read from the tree under test.        *)
EXTENDS Naturals, Sequences, FiniteSets, TLC

LB == 91      \* [
RB == 93      \* ]
BS == 92      \* backslash
NL == 10
SLASH == 47
TagStart == (97..122) \cup {35, 47}      \* [a-z#/]

Rep(c, n) == [x \in 1..n |-> c]
Max(S) == CHOOSE x \in S : \A y \in S : y <= x
Min(S) == CHOOSE x \in S : \A y \in S : x <= y

\* ---------------------------------------------------------------------------------------------
\* styles: <<fg, bg, bold, link, other>>, 0 = not set by this style
NullSty == <<0, 0, 0, 0, 0>>
Fields == 1..5
FieldName == <<"fg", "bg", "bold", "link", "other">>
Code(st) == st[1] + 10 * st[2] + 100 * st[3] + 1000 * st[4] + 10000 * st[5]     \* wire format of a style
Decode(n) == <<n % 10, (n \div 10) % 10, (n \div 100) % 10, (n \div 1000) % 10, (n \div 10000) % 10>>
Combine(a, b) == [f \in Fields |-> IF b[f] # 0 THEN b[f] ELSE a[f]]      \* right operand wins where it specifies

\* fixed tag vocabulary of generated documents (id -> canonical name, style)
\*   1 [red] 2 [blue] 3 [bold] 4 [b] 5 [on white] 6 [bold red] 7 [link=U] 8 [link=V] 9 [not bold] 10 [zz] (no such style)
\*   spellings whose canonical name differs from the spelling / other ways of writing a style (field digits > 2):
\*   11 [bOLD] 12 [b ] 13 [bold  red] 14 [#ff0000] 15 [rgb(1,2,3)] 16 [color(5)] 17 [on red] 18 [i] 19 [italic]
\*   20 [link=x:a:y] (a target that contains an emoji code) 21 [lINK=U] 22 [click=f] (no such style, with a parameter)
\*   23 [red on white] 24 [zZ ] (no such style; same name as 10)
TagIds == 1..24
TagKey(id) == <<"red", "blue", "bold", "bold", "on white", "bold red", "link", "link", "not bold", "zz",
                "bold", "bold", "bold red", "#ff0000", "rgb(1,2,3)", "color(5)", "on red", "italic", "italic",
                "link", "link", "click", "red on white", "zz">>[id]
TagSty(id) == << <<1,0,0,0,0>>, <<2,0,0,0,0>>, <<0,0,1,0,0>>, <<0,0,1,0,0>>, <<0,1,0,0,0>>,
                 <<1,0,1,0,0>>, <<0,0,0,1,0>>, <<0,0,0,2,0>>, <<0,0,2,0,0>>, NullSty,
                 <<0,0,1,0,0>>, <<0,0,1,0,0>>, <<1,0,1,0,0>>, <<3,0,0,0,0>>, <<5,0,0,0,0>>, <<4,0,0,0,0>>,
                 <<0,2,0,0,0>>, <<0,0,0,0,1>>, <<0,0,0,0,1>>, <<0,0,0,3,0>>, <<0,0,0,1,0>>, NullSty,
                 <<1,1,0,0,0>>, NullSty >>[id]
\* base style handed to the entry point (style=...): 0 = none.  It acts like a tag opened before
\* everything else that is never closed: every tag wins over it, it shows where no tag speaks.
\*   1 "blue"  2 "bold"  3 "not bold on white"  4 "bold red link U"  5 Style(color=blue, italic)
BaseIds == 0..5
BaseSty(id) == << NullSty, <<2,0,0,0,0>>, <<0,0,1,0,0>>, <<0,1,2,0,0>>, <<1,0,1,1,0>>, <<2,0,0,0,1>> >>[id + 1]
Keys == {TagKey(i) : i \in TagIds}

\* ---------------------------------------------------------------------------------------------
\* (a) lexer
RECURSIVE CloseIdx(_, _)
CloseIdx(s, k) ==            \* first ']' at or after k on the same line, else 0
    IF k > Len(s) THEN 0
    ELSE IF s[k] = RB THEN k
    ELSE IF s[k] = NL THEN 0
    ELSE CloseIdx(s, k + 1)

\* j starts a tag candidate; result = index of its closing bracket, 0 if j starts no tag
TagEnd(s, j) == IF s[j] = LB /\ j + 1 <= Len(s) /\ s[j + 1] \in TagStart THEN CloseIdx(s, j + 2) ELSE 0

RECURSIVE NextTag(_, _)
NextTag(s, i) ==             \* leftmost tag start >= i, else 0
    IF i > Len(s) THEN 0 ELSE IF TagEnd(s, i) # 0 THEN i ELSE NextTag(s, i + 1)

RECURSIVE BsBefore(_, _, _)
BsBefore(s, j, lo) ==        \* backslashes immediately before j (not before position lo)
    IF j - 1 >= lo /\ s[j - 1] = BS THEN 1 + BsBefore(s, j - 1, lo) ELSE 0

Chars(seq) == [x \in 1..Len(seq) |-> [k |-> "chr", c |-> seq[x]]]

\* lexical items: [k |-> "chr", c |-> code point]   [k |-> "tag", t |-> text between the brackets]
RECURSIVE LexFrom(_, _)
LexFrom(s, i) ==
    LET j == NextTag(s, i) IN
    IF j = 0 THEN Chars(SubSeq(s, i, Len(s)))
    ELSE LET m == TagEnd(s, j)
             b == BsBefore(s, j, i)
             pre == Chars(SubSeq(s, i, j - b - 1) \o Rep(BS, b \div 2))
         IN IF b % 2 = 1
            THEN pre \o Chars(SubSeq(s, j, m)) \o LexFrom(s, m + 1)
            ELSE pre \o << [k |-> "tag", t |-> SubSeq(s, j + 1, m - 1)] >> \o LexFrom(s, m + 1)
Lex(s) == LexFrom(s, 1)

\* inputs on which the documentation does not say what a tag is: a '[' + tag-start character
\* that is not closed on its line, or whose text up to the first ']' contains another '['
Odd(s) == \E j \in 1..Len(s) :
             /\ s[j] = LB /\ j + 1 <= Len(s) /\ s[j + 1] \in TagStart
             /\ LET m == TagEnd(s, j) IN m = 0 \/ \E x \in (j + 1)..(m - 1) : s[x] = LB

\* ---------------------------------------------------------------------------------------------
\* (b) the tag-stack machine
\* tokens: [k |-> "text", s |-> cps]  [k |-> "chr", c |-> cp]  [k |-> "open", key, sty]
\*         [k |-> "close", key]  [k |-> "pop"]
RECURSIVE EffFrom(_, _)
EffFrom(stack, k) == IF k = 0 THEN NullSty ELSE Combine(EffFrom(stack, k - 1), stack[k].sty)
Eff(stack) == EffFrom(stack, Len(stack))        \* stack order = opening order (StackOrdered)

InitM == [stack |-> <<>>, n |-> 0, out |-> <<>>, spans |-> <<>>, err |-> "none"]

DoText(m, s) ==
    LET e == Eff(m.stack)
    IN [m EXCEPT !.out = @ \o [x \in 1..Len(s) |-> [c |-> s[x], sty |-> e, open |-> m.stack]]]

DoOpen(m, key, sty) ==
    [m EXCEPT !.stack = Append(@, [seq |-> m.n + 1, key |-> key, sty |-> sty, start |-> Len(m.out)]),
              !.n = @ + 1]

\* most recent open tag of that name
MatchIdx(stack, key) ==
    LET S == {i \in 1..Len(stack) : stack[i].key = key} IN IF S = {} THEN 0 ELSE Max(S)

RemoveAt(seq, i) == SubSeq(seq, 1, i - 1) \o SubSeq(seq, i + 1, Len(seq))
SpanOf(e, end) == [seq |-> e.seq, start |-> e.start, end |-> end, sty |-> e.sty]
CloseAt(m, i) == [m EXCEPT !.stack = RemoveAt(@, i),
                           !.spans = Append(@, SpanOf(m.stack[i], Len(m.out)))]
Fail(m) == [m EXCEPT !.err = "MarkupError"]

DoClose(m, key) == LET i == MatchIdx(m.stack, key) IN IF i = 0 THEN Fail(m) ELSE CloseAt(m, i)
DoPop(m) == IF m.stack = <<>> THEN Fail(m) ELSE CloseAt(m, Len(m.stack))

\* end of input: everything still open runs to the end
RECURSIVE DoEnd(_)
DoEnd(m) == IF m.stack = <<>> THEN m ELSE DoEnd(CloseAt(m, Len(m.stack)))

StepTok(m, t) ==
    CASE t.k = "text"  -> DoText(m, t.s)
      [] t.k = "chr"   -> DoText(m, <<t.c>>)
      [] t.k = "open"  -> DoOpen(m, t.key, t.sty)
      [] t.k = "close" -> DoClose(m, t.key)
      [] t.k = "pop"   -> DoPop(m)

RECURSIVE RunFrom(_, _, _)
RunFrom(m, toks, i) ==
    IF i > Len(toks) \/ m.err # "none" THEN m ELSE RunFrom(StepTok(m, toks[i]), toks, i + 1)
Run(toks) == RunFrom(InitM, toks, 1)

Plain(m) == [x \in 1..Len(m.out) |-> m.out[x].c]

\* document tokens carry tag ids; resolve through the fixed vocabulary
Resolve(t) == IF t.k = "open" THEN [k |-> "open", key |-> TagKey(t.id), sty |-> TagSty(t.id)] ELSE t
ResolveAll(toks) == [x \in 1..Len(toks) |-> Resolve(toks[x])]

\* ---- the rule of the statement, stated on an open-tag list without reference to its order ---
LastSetter(open, f) ==
    LET S == {i \in 1..Len(open) : open[i].sty[f] # 0}
    IN IF S = {} THEN 0 ELSE CHOOSE i \in S : \A j \in S : open[j].seq <= open[i].seq
EffDecl(open) == [f \in Fields |-> IF LastSetter(open, f) = 0 THEN 0 ELSE open[LastSetter(open, f)].sty[f]]

StackOrdered(m) == \A i \in 1..Len(m.stack) - 1 : m.stack[i].seq < m.stack[i + 1].seq

\* ---- implementation-shaped: spans (one per tag) kept in opening order, later span wins --------
RECURSIVE SpanFold(_, _, _)
SpanFold(spans, p, q) ==      \* style at 0-based offset p from the spans with seq <= q
    IF q = 0 THEN NullSty
    ELSE LET prev == SpanFold(spans, p, q - 1)
             S == {i \in 1..Len(spans) : spans[i].seq = q /\ spans[i].start <= p /\ p < spans[i].end}
         IN IF S = {} THEN prev ELSE Combine(prev, spans[CHOOSE i \in S : TRUE].sty)
SpanDesignOK(m) ==
    LET fin == DoEnd(m)
    IN \A p \in 1..Len(m.out) : SpanFold(fin.spans, p - 1, m.n) = m.out[p].sty

\* ---------------------------------------------------------------------------------------------
\* (c) escape: transcription of rich.markup.escape (same tag syntax; every backslash in front of
\* a tag is doubled and one more is added)
RECURSIVE EscFrom(_, _)
EscFrom(s, i) ==
    LET j == NextTag(s, i) IN
    IF j = 0 THEN SubSeq(s, i, Len(s))
    ELSE LET m == TagEnd(s, j)
             b == BsBefore(s, j, i)
         IN SubSeq(s, i, j - 1) \o Rep(BS, b) \o <<BS>> \o SubSeq(s, j, m) \o EscFrom(s, m + 1)
Escape(s) == EscFrom(s, 1)

\* acceptance relation on an observed rendering r = [err, plain, sty] of escape(s); sty = style codes;
\* base = the base style handed to the entry point (NullSty when none): "no styling" = nothing but the base
EscapeOK(s, r, base) == /\ r.err = "none"
                        /\ r.plain = s
                        /\ Len(r.sty) = Len(s)
                        /\ \A p \in 1..Len(r.sty) : r.sty[p] = Code(base) \/ r.sty[p] = 0 - 1    \* -1: unobservable

\* side conditions of the embedded form
SideOK(s) == /\ (s = <<>> \/ s[Len(s)] # BS)
             /\ \A i \in 1..Len(s) : s[i] = LB => \E j \in (i + 1)..Len(s) : s[j] = RB

\* the design satisfies both forms at the lexical level (checked exhaustively by MC_Markup)
EscStandaloneLex(s) == Lex(Escape(s)) = Chars(s)
EscEmbeddedLex(P, s, Q) == SideOK(s) => Lex(P \o Escape(s) \o Q) = Lex(P) \o Chars(s) \o Lex(Q)

\* ---------------------------------------------------------------------------------------------
\* (d) emoji codes.  Entry points called with emoji=True replace ":name:" by a glyph when name is
\* an emoji name - a separate feature about which the statement says nothing.  The verbatim clauses
\* are demanded of an emoji=True call exactly when the text (tags removed) contains no ":name:"
\* (no white space inside) whose lower-cased name is an emoji name under ANY pairing of its colons;
\* emo = the emoji names (taken as given from the tree under test) over the characters of the input.
COLON == 58
WS == {9, 10, 11, 12, 13, 28, 29, 30, 31, 32, 133, 160, 5760, 8232, 8233, 8239, 8287, 12288} \cup (8192..8202)
LowerCp(c) == IF c \in 65..90 THEN c + 32 ELSE c
LowerSeq(s) == [x \in 1..Len(s) |-> LowerCp(s[x])]
HasEmoji(plain, emo) ==
    LET C == {i \in 1..Len(plain) : plain[i] = COLON}
        E == {emo[x] : x \in 1..Len(emo)}
    IN E # {} /\ \E i \in C : \E j \in C :
          /\ i < j
          /\ \A x \in (i + 1)..(j - 1) : plain[x] \notin WS
          /\ LowerSeq(SubSeq(plain, i + 1, j - 1)) \in E
=============================================================================
