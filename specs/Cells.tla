------------------------------- MODULE Cells -------------------------------
(* SHARED module (C13; extended by Segments, Wrap, TextOps, Measure ...).  No constants, no
   variables: everything is an operator so that it can be EXTENDed or INSTANCEd freely (a module
   that already defines Char / Space / Min2 / Flatten / FirstBad uses  C == INSTANCE Cells).

   A *character* is a record [w, id]: w \in 0..2 is its terminal cell width, id its identity
   (a code point in trace validation, a position-derived number in model checking).  A *string*
   is a sequence of characters.  The ASCII space is the fixed character Space.

   Property part   : CharW / CellLen (definitions of width), SetCellSizeOK, ChopOK (+ ...Why,
                     the same relations returning the name of the first failing clause).
   Implementation-shaped part (rich/cells.py 9.10.0): RefSetCellSize, RefChop.                *)
EXTENDS Integers, Sequences

Char(w, id) == [w |-> w, id |-> id]
Space       == Char(1, 32)
Spaces(k)   == [i \in 1..k |-> Space]
Widths      == 0..2

\* ---- the width table -----------------------------------------------------------------------
\* table: sequence of <<lo, hi, w>> (rich/_cell_widths.py CELL_WIDTHS of the tree under test);
\* the property DEFINES the width of a code point as: first range containing it, found by a
\* LINEAR scan; w = -1 (non-printable) counts 0; in no range: 1.
\* (written as a filter over all indices - no recursion, the table has ~450 entries)
CharW(cp, table) ==
    LET hits == {i \in 1..Len(table) : table[i][1] <= cp /\ cp <= table[i][2]} IN
    IF hits = {} THEN 1
    ELSE LET first == CHOOSE i \in hits : \A j \in hits : i <= j
         IN IF table[first][3] = -1 THEN 0 ELSE table[first][3]

\* what the statement takes as given about the data: sorted, disjoint, widths in -1..2
TableWellFormed(table) ==
    \A i \in DOMAIN table :
        /\ table[i][1] <= table[i][2]
        /\ table[i][3] \in -1..2
        /\ (i > 1 => table[i - 1][2] < table[i][1])

\* ---- cell length ---------------------------------------------------------------------------
RECURSIVE SumW(_, _)
SumW(s, k) == IF k = 0 THEN 0 ELSE s[k].w + SumW(s, k - 1)
CellLen(s) == SumW(s, Len(s))

RECURSIVE Flatten(_)
Flatten(pieces) == IF pieces = <<>> THEN <<>> ELSE Head(pieces) \o Flatten(Tail(pieces))

Min2(a, b) == IF a < b THEN a ELSE b

\* helpers for total verdicts: Why(j) is "ok" or the name of a failing clause
FirstBadIdx(n, Why(_)) ==       \* first index in 1..n whose verdict is not "ok", else 0
    LET bad == {j \in 1..n : Why(j) # "ok"}
    IN IF bad = {} THEN 0 ELSE CHOOSE j \in bad : \A k \in bad : j <= k
FirstBad(n, Why(_)) == LET j == FirstBadIdx(n, Why) IN IF j = 0 THEN "ok" ELSE Why(j)

\* ---- property part: set_cell_size ----------------------------------------------------------
\* "Resizing a string to n cells yields exactly n cells made of a prefix of the original
\*  followed by spaces."
PrefixThenSpaces(s, r) ==
    \E k \in 0..Min2(Len(s), Len(r)) :
        /\ \A i \in 1..k : r[i] = s[i]
        /\ \A i \in (k + 1)..Len(r) : r[i] = Space
SetCellSizeOK(s, n, r) == CellLen(r) = n /\ PrefixThenSpaces(s, r)
SetCellSizeWhy(s, n, r) ==
    IF CellLen(r) # n THEN "cell-length-differs"
    ELSE IF ~PrefixThenSpaces(s, r) THEN "not-prefix-plus-spaces"
    ELSE "ok"

\* ---- property part: chop_cells -------------------------------------------------------------
\* "chopping to a width of at least two yields pieces that concatenate to the original and each
\*  fit" (the first piece starts at column pos, so it has to fit w - pos).  Domain: w >= 2,
\*  0 <= pos <= w.
ChopOK(s, w, pos, pieces) ==
    /\ Flatten(pieces) = s
    /\ \A i \in DOMAIN pieces : CellLen(pieces[i]) <= w
    /\ pieces # <<>> => CellLen(pieces[1]) <= w - pos
ChopWhy(s, w, pos, pieces) ==
    IF Flatten(pieces) # s THEN "concatenation-differs"
    ELSE IF \E i \in DOMAIN pieces : CellLen(pieces[i]) > w THEN "piece-too-wide"
    ELSE IF pieces # <<>> /\ CellLen(pieces[1]) > w - pos THEN "first-piece-too-wide"
    ELSE "ok"

\* ---- implementation-shaped part: transcription of rich/cells.py ------------------------------
\* set_cell_size (cells.py:74-91): pop characters from the end until the excess is gone; if a
\* double-width character was cut in half (excess = -1) add one space.
RECURSIVE PopLoop(_, _, _)
PopLoop(s, k, excess) ==
    IF excess > 0 /\ k > 0 THEN PopLoop(s, k - 1, excess - s[k].w)
    ELSE [k |-> k, excess |-> excess]
RefSetCellSize(s, n) ==
    LET cl == CellLen(s) IN
    IF cl = n THEN s
    ELSE IF cl < n THEN s \o Spaces(n - cl)
    ELSE LET p == PopLoop(s, Len(s), cl - n)
         IN SubSeq(s, 1, p.k) \o (IF p.excess = -1 THEN <<Space>> ELSE <<>>)

\* chop_cells (cells.py:94-113): greedy fill, a character that does not fit opens a new piece.
RECURSIVE ChopLoop(_, _, _, _, _)
ChopLoop(s, i, w, total, lines) ==
    IF i > Len(s) THEN lines
    ELSE IF total + s[i].w > w
         THEN ChopLoop(s, i + 1, w, s[i].w, Append(lines, <<s[i]>>))
         ELSE ChopLoop(s, i + 1, w, total + s[i].w,
                       [lines EXCEPT ![Len(lines)] = Append(@, s[i])])
RefChop(s, w, pos) == ChopLoop(s, 1, w, pos, << <<>> >>)
=============================================================================
