INIT Init
NEXT Next
CONSTRAINT Report
CHECK_DEADLOCK FALSE
