--------------------------- MODULE Trace_Progress ---------------------------
(* M3, sequential grain: histories executed on a real rich.progress.Progress with a mock clock.
   After every call the driver logs, for both task ids, what the Task objects show; TLC replays
   the call through Progress.tla and judges the C12 clauses.  Also judges track() records.    *)
EXTENDS Progress, Json, IOUtils

Traces == JsonDeserialize(IOEnv.TRACE_FILE)
VARIABLES tid, l, tasks, now, pobs, verdict
vars == <<tid, l, tasks, now, pobs, verdict>>
Tr == Traces[tid]
Ids == {1, 2}
Absent == [absent |-> TRUE]
NoObs == [exists |-> FALSE]

\* track() record: [kind |-> "track", n, yielded (seq of ints), c2, freshTotal2]
TrackVerdict(r) ==
    IF r.exc # "none" THEN "track-raises-" \o r.exc
    ELSE IF Len(r.yielded) # r.n THEN "track-yield-count"
    ELSE IF \E i \in 1..r.n : r.yielded[i] # i THEN "track-order"
    ELSE IF r.c2 # 2 * r.n THEN "track-completed-differs"
    ELSE "ok"

Init == /\ tid \in 1..Len(Traces) /\ l = 1 /\ now = 0
        /\ tasks = [i \in Ids |-> Absent] /\ pobs = [i \in Ids |-> NoObs]
        /\ verdict = IF Traces[tid].kind = "track" THEN TrackVerdict(Traces[tid]) ELSE "ok"

Model(e) ==
    CASE e.k = "add"     -> [tasks EXCEPT ![e.id] = NewTask(e.total, e.completed, e.start, now)]
      [] e.k = "advance" -> [tasks EXCEPT ![e.id] = Advance(@, e.a, now)]
      [] e.k = "update"  -> [tasks EXCEPT ![e.id] = Update(@, e.total, e.completed, e.advance, now)]
      [] e.k = "reset"   -> [tasks EXCEPT ![e.id] = Reset(@, e.start, e.total, e.completed, now)]
      [] e.k = "start"   -> [tasks EXCEPT ![e.id] = StartTask(@, now)]
      [] e.k = "stop"    -> [tasks EXCEPT ![e.id] = StopTask(@, now)]
      [] e.k = "remove"  -> [tasks EXCEPT ![e.id] = Absent]
      [] OTHER           -> tasks

Touched(e, i) == e.k \in {"advance", "update"} /\ e.id = i
\* "... until the total CHANGES": an update that names the total the task already has changes nothing
KeepsFin(e, i) == ~(e.k = "reset" /\ e.id = i) /\ ~(e.k = "update" /\ e.id = i /\ e.total.has /\ tasks[i] # Absent /\ e.total.v # tasks[i].tot)
                  /\ ~(e.k \in {"remove", "add"} /\ e.id = i)

JudgeTask(e, i, t, o) ==
    IF (t = Absent) # ~o.exists THEN "task-existence-differs"
    ELSE IF t = Absent THEN "ok"
    ELSE IF ~Completed(t, o) THEN "completed-differs"
    ELSE IF ~Percent(t, o) THEN "percentage-differs"
    ELSE IF Touched(e, i) /\ t.start.has /\ t.c >= t.tot /\ ~o.finished THEN "not-finished"
    ELSE IF pobs[i].exists /\ pobs[i].finished /\ KeepsFin(e, i) /\ (~o.finished \/ o.fin # pobs[i].fin)
         THEN "finish-time-changed"
    \* "... stays fixed UNTIL the total changes or the task is reset": that is where the finish is evaluated afresh -
    \* a task that such an operation leaves below its total does not go on reporting the old finish
    ELSE IF ~KeepsFin(e, i) /\ e.k \in {"reset", "update"} /\ o.finished /\ t.c < t.tot
         THEN "still-finished-below-total-after-" \o e.k
    ELSE IF t.nonneg /\ o.speedSign = 0 - 1 THEN "negative-speed"
    ELSE IF e.k = "advance" /\ e.id = i /\ t.nonneg /\ t.start.has /\ ~t.stop.has /\ o.remSign = 0 - 1
         THEN "negative-time-remaining"
    ELSE "ok"

Judge(e, ts) ==
    IF e.exc # "none" THEN "raises-" \o e.exc
    ELSE LET v1 == JudgeTask(e, 1, ts[1], e.obs[1]) IN
         IF v1 # "ok" THEN v1 ELSE JudgeTask(e, 2, ts[2], e.obs[2])

\* implementation-shaped agreement (drift only): finished flag and finish time as the model predicts
DriftTask(t, o) == t # Absent /\ o.exists /\ (o.finished # Finished(t) \/ (o.finished /\ t.fin.has /\ o.fin # 2 * t.fin.v))   \* obs in half units

Step == /\ Tr.kind = "history" /\ l <= Len(Tr.events) /\ verdict = "ok"
        /\ LET e == Tr.events[l] IN
           IF e.k = "tick" THEN /\ now' = now + e.d /\ UNCHANGED <<tasks, pobs, verdict>>
           ELSE LET ts == Model(e)
                    v == Judge(e, ts)
                IN /\ tasks' = ts /\ UNCHANGED now
                   /\ pobs' = [i \in Ids |-> e.obs[i]]
                   /\ verdict' = IF v = "ok" THEN "ok" ELSE "step " \o ToString(l) \o " " \o e.k \o ": " \o v
                   /\ (v = "ok" /\ \E i \in Ids : DriftTask(ts[i], e.obs[i])) =>
                          PrintT(<<"DRIFT", tid, "step " \o ToString(l) \o " " \o e.k \o ": finished-flag-or-time-differs-from-model">>)
        /\ l' = l + 1 /\ UNCHANGED tid

Spec == Init /\ [][Step]_vars
AtEnd == Tr.kind = "track" \/ l = Len(Tr.events) + 1 \/ verdict # "ok"
Report == AtEnd => PrintT(<<"VERDICT", tid, verdict>>)
=============================================================================
