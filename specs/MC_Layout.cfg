CONSTANTS
  MaxOps = 3
  MaxNest = 2
  MaxStack = 2
  Opt = "mid"
SPECIFICATION Spec
VIEW View
INVARIANT MinWPositive
INVARIANT TableLaw
INVARIANT BudgetLaw
INVARIANT CollapseLaw
PROPERTY StepLawP
PROPERTY ScopeLawP
CHECK_DEADLOCK FALSE
