CONSTANTS
  MaxLen = 6
  MaxN = 15
  MaxW = 5
SPECIFICATION Spec
INVARIANT SetCellSizeHolds
INVARIANT ChopHolds
INVARIANT WhyAgrees
INVARIANT RejectsLostSpace
INVARIANT RejectsTooLong
INVARIANT RejectsNotPrefix
INVARIANT RejectsMergedPieces
CHECK_DEADLOCK FALSE
