CONSTANTS
  CropClamp = TRUE
  StartClamp = TRUE
  CtorLen = FALSE
  CropUpper = TRUE
  MCDepth = 3
SPECIFICATION Spec
INVARIANT Refines
INVARIANT SpansInside
CHECK_DEADLOCK FALSE
