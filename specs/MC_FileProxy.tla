---------------------------- MODULE MC_FileProxy ----------------------------
(* M1: every way of cutting a small stream into write() calls (cuts inside lines and inside
   "escape sequences" = between any two events, empty writes) interleaved with flushes:
   whatever the chunking, everything consumed so far is shown exactly once, in order, with the
   pens a terminal would have used, and the number of lines is newlines + effective flushes.  *)
EXTENDS FileProxy, TLC, Json

CONSTANTS GenDepth
Stream == << <<"c", 97>>, <<"sgr", <<31>>>>, <<"c", 98>>, <<"nl">>, <<"sgr", <<1>>>>, <<"c", 99>>, <<"sgr", <<0>>>>, <<"nl">>, <<"c", 100>> >>

VARIABLES s, pos, nflush, hist
vars == <<s, pos, nflush, hist>>
Init == s = Init0 /\ pos = 0 /\ nflush = 0 /\ hist = <<>>
WriteA == \E k \in 0..3 : /\ pos + k <= Len(Stream)
             /\ s' = Write(s, 1, SubSeq(Stream, pos + 1, pos + k)) /\ pos' = pos + k /\ UNCHANGED nflush
             /\ hist' = Append(hist, [k |-> "write", n |-> k])
FlushA == /\ TRUE /\ s' = Flush(s, 1) /\ nflush' = nflush + (IF s.px[1].raw > 0 THEN 1 ELSE 0) /\ UNCHANGED pos
          /\ Len(hist) < 2 * Len(Stream) /\ (IF hist = <<>> THEN TRUE ELSE hist[Len(hist)].k # "flush")
          /\ hist' = Append(hist, [k |-> "flush"])
Next == WriteA \/ FlushA
Spec == Init /\ [][Next]_vars

RECURSIVE CatLines(_)
CatLines(ls) == IF ls = <<>> THEN <<>> ELSE Head(ls) \o CatLines(Tail(ls))
Whole == Decode(DecInit, SubSeq(Stream, 1, pos))
NewlinesSoFar == Len(Whole.lines)
\* everything consumed appears exactly once, in order, with the terminal's pens
ExactlyOnceInOrder == CatLines(s.out) \o s.px[1].dec.line = CatLines(Whole.lines) \o Whole.line
LineCount == Len(s.out) = NewlinesSoFar + nflush
PenCarried == s.px[1].dec.pen = Whole.pen
\* the second proxy is untouched by the first one's traffic
ProxiesIndependent == s.px[2] = Proxy0
View == <<s, pos, nflush, IF hist = <<>> THEN "none" ELSE hist[Len(hist)].k>>
Bound == Len(hist) <= 14
Emit == /\ Len(hist) <= GenDepth /\ (Len(hist) = GenDepth => PrintT(ToJson([beh |-> hist])))
=============================================================================
