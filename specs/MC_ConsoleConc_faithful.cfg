CONSTANTS
  Threads <- MCThreads
  Program <- MCProgram
  AtomicPrint = FALSE
SPECIFICATION Spec
INVARIANT NoBadInv
INVARIANT ScreenInv
INVARIANT NoStuck
CHECK_DEADLOCK FALSE
