--------------------------- MODULE MC_TableSolver ---------------------------
(* M1 / M2 for TableSolver.tla.

   A state is a table instance: the options o = [pl, pr, pe, cp, ex, tmin] (horizontal padding left / right,
   pad_edge, collapse_padding, expand, Table.min_width - borders or 0) and the columns
   [cmin, cmax, ratio, minw, w, maxw, nw].  Every action raises ONE number by one (or adds a minimal column, or
   flips one option away from the constructor default), starting from the smallest table there is - so the depth
   of a state in TLC's breadth-first search is the SIZE of the instance, and the first counter-example TLC reports
   (one worker) is a smallest one.  Per-column paddings follow from (pl, pr, pe, cp) exactly as Table._get_cells /
   Table._get_padding_width compute them, so unequal paddings are those a real table can have.

   Every state is judged at  avail = StructMin .. StructMin + MaxSlack  (smallest first):
     AsIsFits / AsIsFed / AsIsExact   the design AS IT IS satisfies (a) / (b) / (c); (a) and (b) are expected to
                                      FAIL: the two open findings of C07; the witness is printed as JSON ("cex")
     DesignOK        the design selected by Repaired / Without satisfies (a)(b)(c); the repaired design returns what
                     the design as it is returns whenever that was acceptable (Conservative); the relation rejects
                     the classic wrong answers derived from an accepted vector (one cell too many; a column one
                     cell below its need; an expanding table one cell short) - so it is not trivially true
     PatchOK         TableSolver!Patch - the same step with the knowledge a patch of rich/table.py can have (a wrapable
                     column needs one cell, a no_wrap column is left alone) - satisfies (a), (c) and (b) for the
                     columns whose need is 1, is conservative, and IS the repaired design when every need is 1
                     (tables with a no_wrap column are outside its promise)
     With WideToo = FALSE, NoPadEdgeToo = FALSE, CollapsePaddingToo = FALSE, MaxMinW = 0 the design as it is is NOT
     refuted (<=3 columns, content <=4, padding <=2): the starvation needs unequal needs - a wide character, pad_edge=False
     or collapse_padding (smallest witnesses: sizes 4, 5 and 8).
     Emit            (M2) prints the instance - drivers/c07_solver.py runs the REAL Table._calculate_column_widths
                     on every printed instance at every avail of the range; Trace_TableSolver compares.      *)
EXTENDS TableSolver, TLC, Json

CONSTANTS MaxCols, MaxCMax, MaxPad, MaxRatio, MaxMinW, MaxSlack,
          NoPadEdgeToo, CollapsePaddingToo,        \* pad_edge=False / collapse_padding=True are part of the domain
          WideToo,                                 \* content minimum 2 (a double-width character) is part of the domain
          MaxW, MaxMaxW, NoWrapToo, MaxTMin,      \* extensions of the domain (0 / FALSE = off)
          RatioNeedsExpand,                        \* ratios only on expanding tables (they are not read otherwise)
          ZeroRatioToo,                            \* an explicit ratio of 0 is part of the domain (None -> 0 -> 1 -> ...)
          EmitMod                                  \* Emit prints the states whose checksum is 0 modulo EmitMod

VARIABLES o, cols
vars == <<o, cols>>

Col0 == [cmin |-> 1, cmax |-> 1, ratio |-> -1, minw |-> 0, w |-> 0, maxw |-> 0, nw |-> FALSE]
Init == /\ o = [pl |-> 0, pr |-> 0, pe |-> TRUE, cp |-> FALSE, ex |-> FALSE, tmin |-> 0]
        /\ cols = <<Col0>>

\* ---- the table the state stands for (TableSolver!TableOf) ------------------------------------------------
T == TableOf(o, cols)

\* ---- growing an instance, one unit at a time ------------------------------------------------------------
On == TRUE
SetO(f, v) == o' = [o EXCEPT ![f] = v] /\ UNCHANGED cols
SetC(j, f, v) == cols' = [cols EXCEPT ![j][f] = v] /\ UNCHANGED o
AddColumn  == On /\ Len(cols) < MaxCols /\ cols' = Append(cols, Col0) /\ UNCHANGED o
BumpPadL   == On /\ o.pl < MaxPad /\ SetO("pl", o.pl + 1)
BumpPadR   == On /\ o.pr < MaxPad /\ SetO("pr", o.pr + 1)
NoPadEdge  == On /\ NoPadEdgeToo /\ o.pe /\ SetO("pe", FALSE)
CollapsePadding == On /\ CollapsePaddingToo /\ ~o.cp /\ SetO("cp", TRUE)
Expand     == On /\ ~o.ex /\ SetO("ex", TRUE)
BumpTMin   == On /\ o.tmin < MaxTMin /\ SetO("tmin", o.tmin + 1)
BumpCMax   == \E j \in DOMAIN cols : On /\ cols[j].cmax < MaxCMax /\ SetC(j, "cmax", cols[j].cmax + 1)
BumpCMin   == \E j \in DOMAIN cols : On /\ WideToo /\ cols[j].cmin < 2 /\ MaxCMax >= 2
                                     /\ cols' = [cols EXCEPT ![j].cmin = 2, ![j].cmax = Max2(@, 2)] /\ UNCHANGED o
NextRatio(r) == IF r = -1 /\ ~ZeroRatioToo THEN 1 ELSE r + 1
BumpRatio  == \E j \in DOMAIN cols : On /\ NextRatio(cols[j].ratio) <= MaxRatio /\ (RatioNeedsExpand => o.ex)
                                     /\ SetC(j, "ratio", NextRatio(cols[j].ratio))
BumpMinW   == \E j \in DOMAIN cols : On /\ cols[j].minw < MaxMinW /\ (\A k \in DOMAIN cols : k # j => cols[k].minw = 0)
                                     /\ SetC(j, "minw", cols[j].minw + 1)
BumpW      == \E j \in DOMAIN cols : On /\ cols[j].w < MaxW /\ SetC(j, "w", cols[j].w + 1)
BumpMaxW   == \E j \in DOMAIN cols : On /\ cols[j].maxw < MaxMaxW /\ SetC(j, "maxw", cols[j].maxw + 1)
NoWrap     == \E j \in DOMAIN cols : On /\ NoWrapToo /\ ~cols[j].nw /\ SetC(j, "nw", TRUE)
Next == \/ AddColumn \/ BumpPadL \/ BumpPadR \/ NoPadEdge \/ CollapsePadding \/ Expand \/ BumpTMin
        \/ BumpCMax \/ BumpCMin \/ BumpRatio \/ BumpMinW \/ BumpW \/ BumpMaxW \/ NoWrap
Spec == Init /\ [][Next]_vars

\* ---- judging ----------------------------------------------------------------------------------------------
\* (the table is built once per state and handed down: TLC re-evaluates a state-level definition at every mention)
AvailsOf(t) == LET m == StructMin(t) IN m..(m + MaxSlack)
Bit(b) == IF b THEN 1 ELSE 0
Witness(t, clause, a) ==
    LET st == Stages(t, a) IN
    PrintT(ToJson([cex |-> clause, size |-> TLCGet("level"), avail |-> a, structmin |-> StructMin(t),
                   o |-> [pl |-> o.pl, pr |-> o.pr, pe |-> Bit(o.pe), cp |-> Bit(o.cp), ex |-> Bit(o.ex), tmin |-> o.tmin],
                   cols |-> [j \in DOMAIN cols |-> [cmin |-> cols[j].cmin, cmax |-> cols[j].cmax, ratio |-> cols[j].ratio,
                                                    minw |-> cols[j].minw, w |-> cols[j].w, maxw |-> cols[j].maxw, nw |-> Bit(cols[j].nw),
                                                    pad |-> Pad(t.cols[j]), spad |-> t.cols[j].spad]],
                   natural |-> st.natural, flexed |-> st.flexed, collapsed |-> st.collapsed, reduced |-> st.reduced,
                   remeasured |-> st.remeasured, result |-> st.w]))
AsIsNever(clause) == LET t == T IN \A a \in AvailsOf(t) : SolverWhy(t, a, AsIs(t, a)) # clause \/ (Witness(t, clause, a) /\ FALSE)
AsIsFits  == AsIsNever("wider")
AsIsFed   == AsIsNever("starved")
AsIsExact == AsIsNever("narrower")

\* one evaluation of the solver per (state, avail): "ok" or the first failing clause
RepairVerdict(t, a) ==
    LET sa == Stages(t, a)
        ws == IF Repaired THEN RepairStep(t, a, sa.w) ELSE sa.w
        why == SolverWhy(t, a, ws)
        j  == Len(ws)
    IN IF ~sa.ok THEN "design: assertion fails"
       ELSE IF why = "outside" THEN "ok"
       ELSE IF why # "ok" THEN "design: " \o why
       ELSE IF Repaired /\ sa.w # ws /\ SolverWhy(t, a, sa.w) = "ok" THEN "not conservative"
       ELSE IF SolverWhy(t, a, [ws EXCEPT ![j] = @ + (a - SumSeq(ws)) + 1]) # "wider" THEN "relation accepts: wider"
       ELSE IF SolverWhy(t, a, [ws EXCEPT ![j] = Pad(t.cols[j]) + Need(t.cols[j]) - 1]) \notin {"starved", "wider"}
            THEN "relation accepts: starved"
       ELSE IF t.ex /\ NoWidthCap(t) /\ ws[1] > Pad(t.cols[1]) + Need(t.cols[1])
               /\ SolverWhy(t, a, [ws EXCEPT ![1] = @ - 1]) # "narrower" THEN "relation accepts: narrower"
       ELSE "ok"
\* the patch (TableSolver!Patch): (a), (c), (b) for what it knows; conservative
PatchVerdict(t, a) ==
    LET sa == Stages(t, a)
        ws == Patch(t, a, sa.w)
        why == PatchWhy(t, a, ws)
    IN IF ~sa.ok THEN "patch: assertion fails"
       ELSE IF why \notin {"ok", "outside"} THEN "patch: " \o why
       ELSE IF why = "ok" /\ sa.w # ws /\ SolverWhy(t, a, sa.w) = "ok" THEN "patch: not conservative"
       ELSE IF why = "ok" /\ ws # RepairStep(t, a, sa.w) /\ \A j \in DOMAIN t.cols : Need(t.cols[j]) = 1 THEN "patch: differs from the repair"
       ELSE "ok"
PatchOK == LET t == T IN
           \A a \in AvailsOf(t) : PatchVerdict(t, a) = "ok"
                                  \/ (PrintT(<<"REJECTED", PatchVerdict(t, a), a, AsIs(t, a), Patch(t, a, AsIs(t, a))>>) /\ FALSE)
DesignOK == LET t == T IN
            \A a \in AvailsOf(t) : RepairVerdict(t, a) = "ok"
                                   \/ (PrintT(<<"REJECTED", RepairVerdict(t, a), a, AsIs(t, a), Design(t, a)>>) /\ FALSE)

\* ---- M2 ---------------------------------------------------------------------------------------------------
RECURSIVE ColSum(_, _)
ColSum(cs, i) == IF i = 0 THEN 0
                 ELSE i * (cs[i].cmin + 3 * cs[i].cmax + 5 * (cs[i].ratio + 1) + 7 * cs[i].minw + 11 * cs[i].w + 13 * cs[i].maxw + Bit(cs[i].nw))
                      + ColSum(cs, i - 1)
Checksum == o.pl + 3 * o.pr + 5 * Bit(o.pe) + 7 * Bit(o.cp) + 11 * Bit(o.ex) + o.tmin + ColSum(cols, Len(cols))
\* compact: <<"TSI", StructMin, pl, pr, pe, cp, ex, tmin, <<cmin, cmax, ratio, minw, w, maxw, nw>>, ...>>
Emit == (Checksum % EmitMod = 0) =>
    PrintT(<<"TSI", StructMin(T), o.pl, o.pr, Bit(o.pe), Bit(o.cp), Bit(o.ex), o.tmin>>
           \o [j \in DOMAIN cols |-> <<cols[j].cmin, cols[j].cmax, cols[j].ratio, cols[j].minw, cols[j].w, cols[j].maxw, Bit(cols[j].nw)>>])
=============================================================================
