------------------------------ MODULE Progress ------------------------------
(* C12 - progress accounting (rich.progress.Progress / Task), atomic grain.

   Amounts are integers scaled by 2 (halves are exact in both worlds); the clock `now` is an
   integer that only Tick advances.  One operator per public call; each returns the new task
   table.  Optional arguments are records [has, v].                                        *)
EXTENDS Naturals, Integers, Sequences, FiniteSets, TLC

None == [has |-> FALSE, v |-> 0]
Some(x) == [has |-> TRUE, v |-> x]
Period == 30          \* speed_estimate_period (seconds), default of Progress

\* a task: completed c, total tot, start / stop / fin (finished_time) optional times,
\* samples (timestamp, amount), ghosts lastSet / sumAdv / nonneg (only non-negative advances so far)
NewTask(total, completed, start, now) ==
    [c |-> completed, tot |-> total, start |-> IF start THEN Some(now) ELSE None, stop |-> None,
     fin |-> None, samples |-> <<>>, lastSet |-> completed, sumAdv |-> 0, nonneg |-> TRUE]

Elapsed(t, now) == IF ~t.start.has THEN None
                   ELSE IF t.stop.has THEN Some(t.stop.v - t.start.v) ELSE Some(now - t.start.v)

RECURSIVE DropOld(_, _)
DropOld(samples, limit) == IF samples # <<>> /\ samples[1][1] < limit THEN DropOld(Tail(samples), limit) ELSE samples

FinishCheck(t, now) == IF t.c >= t.tot /\ ~t.fin.has THEN [t EXCEPT !.fin = Elapsed(t, now)] ELSE t

\* advance(task, a): always records a sample (progress.py:871-894)
Advance(t, a, now) ==
    LET t1 == [t EXCEPT !.c = @ + a, !.sumAdv = @ + a, !.nonneg = @ /\ a >= 0,
                        !.samples = Append(DropOld(@, now - Period), <<now, a>>)]
    IN FinishCheck(t1, now)

\* update(task, total=, completed=, advance=): a total that differs from the current one resets speed data and finish
\* time (9.10.0 reset them for any given total, re-stamping the finish time of a finished task: fix: faa6db6);
\* a sample is recorded only for a positive net change (progress.py:787-833)
Update(t, total, completed, advance, now) ==
    LET t1 == IF total.has /\ total.v # t.tot THEN [t EXCEPT !.tot = total.v, !.samples = <<>>, !.fin = None] ELSE t   \* a CHANGE of the total
        t2 == IF advance.has THEN [t1 EXCEPT !.c = @ + advance.v, !.sumAdv = @ + advance.v, !.nonneg = @ /\ advance.v >= 0] ELSE t1
        t3 == IF completed.has THEN [t2 EXCEPT !.c = completed.v, !.lastSet = completed.v, !.sumAdv = 0] ELSE t2
        d  == t3.c - t.c
        s1 == DropOld(t3.samples, now - Period)
        t4 == [t3 EXCEPT !.samples = IF d > 0 THEN Append(s1, <<now, d>>) ELSE s1]
    IN FinishCheck(t4, now)

Reset(t, start, total, completed, now) ==
    [t EXCEPT !.samples = <<>>, !.fin = None, !.start = IF start THEN Some(now) ELSE None,
              !.tot = IF total.has THEN total.v ELSE @,
              !.c = completed, !.lastSet = completed, !.sumAdv = 0, !.nonneg = TRUE]

StartTask(t, now) == IF t.start.has THEN t ELSE [t EXCEPT !.start = Some(now)]
StopTask(t, now)  == [t EXCEPT !.start = IF @.has THEN @ ELSE Some(now), !.stop = Some(now)]

\* ---- derived values (exact rationals <<num, den>>, den > 0) --------------------------------
Finished(t) == t.fin.has
SamplesSorted(t) == \A i \in 1..(Len(t.samples) - 1) : t.samples[i][1] <= t.samples[i + 1][1]
RECURSIVE SumTail(_)
SumTail(s) == IF s = <<>> THEN 0 ELSE s[1][2] + SumTail(Tail(s))
\* speed = (sum of all samples but the first) / (last timestamp - first timestamp); None if no data
SpeedNum(t) == SumTail(Tail(t.samples))
SpeedDen(t) == t.samples[Len(t.samples)][1] - t.samples[1][1]
HasSpeed(t) == t.start.has /\ t.samples # <<>> /\ SpeedDen(t) # 0

\* percentage*10^4 observed as an integer p4; exact value 100*c/tot clamped to 0..100, 0 if tot=0
Abs(x) == IF x < 0 THEN 0 - x ELSE x
PercentOK(c, tot, p4) ==
    IF tot = 0 THEN p4 = 0
    ELSE LET cc == IF tot < 0 THEN 0 - c ELSE c
             tt == Abs(tot)
         IN IF cc <= 0 THEN p4 = 0
            ELSE IF cc >= tt THEN p4 = 1000000
            ELSE Abs(p4 * tt - 1000000 * cc) <= tt

\* ---- property part: what an observation of a task must satisfy ------------------------------
\* obs: [c2 (completed*2), tot2, p4, finished, fin (has,v2: finished_time*2), speedSign (-1,0,1; 2 = None),
\*       remSign (time_remaining sign; 2 = None), started, running]
Completed(t, o) == o.c2 = t.lastSet + t.sumAdv
Percent(t, o)   == o.small => PercentOK(t.c, t.tot, o.p4)
SpeedOK(t, o)   == t.nonneg => o.speedSign \in {0, 1, 2}
=============================================================================
