CONSTANTS
  MaxCols = 2
  MaxRows = 2
  Mode = "check"
SPECIFICATION Spec
INVARIANT IdealAccepted
INVARIANT CorruptionsRejected
INVARIANT MinLaw
CHECK_DEADLOCK FALSE
