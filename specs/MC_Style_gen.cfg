CONSTANTS
  AttrSeq <- MCAttrSeq
  NCol = 3
  NLink = 2
  NSeed = 6
  GenDepth = 3
  HashDesign = "derived"
SPECIFICATION RouteSpec
CONSTRAINT Emit
CHECK_DEADLOCK FALSE
