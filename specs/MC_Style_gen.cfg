CONSTANTS
  AttrSeq <- MCAttrSeq
  NCol = 3
  NLink = 2
  NSeed = 7
  GenDepth = 3
  HashDesign = "derived"
SPECIFICATION RouteSpec
CONSTRAINT Emit
CHECK_DEADLOCK FALSE
