CONSTANTS
  MaxSegs = 3
  MaxCells = 2
  MaxChars = 3
  MaxN = 5
SPECIFICATION Spec
INVARIANT SplitLinesHolds
INVARIANT AdjustHolds
INVARIANT SplitCropHolds
INVARIANT SetShapeHolds
INVARIANT SimplifyHolds
INVARIANT RejectsWrongPadStyle
INVARIANT RejectsOffByOne
INVARIANT RejectsLostChar
CHECK_DEADLOCK FALSE
