CONSTANTS
  Capacity = 2
  Threshold = 2
  MaxStr = 3
  GenDepth = 0
SPECIFICATION Spec
INVARIANT Sound
INVARIANT Exact
INVARIANT IsBounded
INVARIANT AnyMeasureExact
PROPERTY HitKeepsMap
CHECK_DEADLOCK FALSE
