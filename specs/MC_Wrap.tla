------------------------------ MODULE MC_Wrap ------------------------------
(* M1: the design of Text.wrap (RefWrapD with Design = "real") satisfies WrapOK for EVERY string
   over the character classes  N narrow, W wide, Z zero-width, S space, T tab, L newline  up to
   MaxLen characters, at every width 2..MaxWidth, justify mode, overflow mode, no_wrap and tab
   size in TabSizes - so the relation is satisfiable by the design (non-vacuity) and the design
   has the property.  The state is the class string; the configurations are quantified inside
   the invariants so that TLC's workers share the work.
   Vacuity guards: with Design in {"chopdrop", "notrunc", "styleslip", "breakfit"} (a chop that
   loses the character at the break, no final truncate, a style that slips over a break, a word
   broken although it fits on the next line) TLC must report InvA/InvB, InvB, InvC, InvD violated.
   M2: CONSTRAINT Emit prints every class string (replayed on the real Text.wrap by drivers/c02.py).
   With Extra = TRUE two more classes take part:  U IDEOGRAPHIC SPACE (whitespace two cells wide) and
   V NO-BREAK SPACE (whitespace that is not " ": Lines.justify("full") does not split there).
   Overflow "ignore" is enumerated both as the wrap argument and as the Text's own attribute (ovarg). *)
EXTENDS Wrap, Json

CONSTANTS MaxLen, MaxWidth, Design, TabSizes, Extra

VARIABLE s
vars == <<s>>

\* character at position i of class cls: code points are distinct per position for the visible
\* classes, every position has its own style
CharOf(cls, i) ==
    CASE cls = "N" -> Ch(1000 + i, 1, i, <<{i}, i>>)
      [] cls = "W" -> Ch(2000 + i, 2, i, <<{i}, i>>)
      [] cls = "Z" -> Ch(3000 + i, 0, i, <<{i}, i>>)
      [] cls = "S" -> Ch(SP, 1, i, <<{i}, i>>)
      [] cls = "T" -> Ch(TAB, 0, i, <<{i}, i>>)
      [] cls = "L" -> Ch(NL, 0, i, <<{i}, i>>)
      [] cls = "U" -> Ch(12288, 2, i, <<{i}, i>>)
      [] cls = "V" -> Ch(160, 1, i, <<{i}, i>>)
Chars(str) == [i \in DOMAIN str |-> CharOf(str[i], i)]

HasTab(str) == \E i \in DOMAIN str : str[i] = "T"
Inputs(str) ==
    {[chars |-> Chars(str), width |-> w, justify |-> j, overflow |-> om[1], ovarg |-> om[2], no_wrap |-> nw, tab |-> t] :
        w \in 2..MaxWidth, j \in Justifies,
        om \in {<<o, o>> : o \in Overflows} \cup {<<"ignore", "none">>}, nw \in BOOLEAN,
        t \in IF HasTab(str) THEN TabSizes ELSE {CHOOSE x \in TabSizes : TRUE}}
\* no_wrap together with overflow = ignore is the same call path as overflow = ignore
Configs(str) == {I \in Inputs(str) : ~(I.no_wrap /\ I.overflow = "ignore")}

Init == s = <<>>
On == TRUE
AddN == On /\ Len(s) < MaxLen /\ s' = Append(s, "N")
AddW == On /\ Len(s) < MaxLen /\ s' = Append(s, "W")
AddZ == On /\ Len(s) < MaxLen /\ s' = Append(s, "Z")
AddS == On /\ Len(s) < MaxLen /\ s' = Append(s, "S")
AddT == On /\ Len(s) < MaxLen /\ s' = Append(s, "T")
AddL == On /\ Len(s) < MaxLen /\ s' = Append(s, "L")
AddU == Extra /\ Len(s) < MaxLen /\ s' = Append(s, "U")
AddV == Extra /\ Len(s) < MaxLen /\ s' = Append(s, "V")
Next == AddN \/ AddW \/ AddZ \/ AddS \/ AddT \/ AddL \/ AddU \/ AddV
Spec == Init /\ [][Next]_vars

InvWrap == \A I \in Configs(s) : WrapWhy(I, RefWrapD(I, Design)) = "ok"
\* clause by clause (used with the wrong designs)
InvA == \A I \in Configs(s) : AppliesA(I) => WhyA(I, RefWrapD(I, Design)) = "ok"
InvB == \A I \in Configs(s) : AppliesB(I) => WhyB(I, RefWrapD(I, Design)) = "ok"
InvC == \A I \in Configs(s) : WhyC(I, RefWrapD(I, Design)) = "ok"
InvD == \A I \in Configs(s) : WhyD(I, RefWrapD(I, Design)) = "ok"

\* the identification of observed characters (used on real output, where ids are unknown) gives
\* back the ids of the design's output wherever it identifies a character
Strip(lines) == [l \in DOMAIN lines |-> [k \in DOMAIN lines[l] |-> [lines[l][k] EXCEPT !.id = 0]]]
InvIdentify ==
    \A I \in Configs(s) :
        LET ref == RefWrapD(I, Design)
            got == Identify(I, Strip(ref))
        IN \A l \in DOMAIN ref : \A k \in DOMAIN ref[l] :
              got[l][k].id # 0 => got[l][k].id = ref[l][k].id

\* both at once, sharing the evaluation of the design (this is what MC_Wrap.cfg checks)
InvM1 ==
    \A I \in Configs(s) :
        LET ref == RefWrapD(I, Design)
            got == Identify(I, Strip(ref))
        IN /\ WrapWhy(I, ref) = "ok"
           /\ \A l \in DOMAIN ref : \A k \in DOMAIN ref[l] :
                 got[l][k].id # 0 => got[l][k].id = ref[l][k].id

\* non-vacuity witnesses: each must be reported VIOLATED (a word is really broken somewhere, a line
\* is really cropped somewhere ...)
NeverBroken == \A I \in Configs(s) :
    LET occ == LinesOfIds(RefWrapD(I, Design))
    IN \A a \in WordStarts(I.chars) :
          Cardinality({occ[p][2] : p \in {q \in DOMAIN occ : occ[q][1] >= a
                                           /\ occ[q][1] <= WordEnd(I.chars, a)}}) < 2
NeverDropped == \A I \in Configs(s) : NonWsIds(Flatten(RefWrapD(I, Design))) = NonWsIds(I.chars)

Emit == PrintT(ToJson([beh |-> s]))
=============================================================================
