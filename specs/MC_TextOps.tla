---------------------------- MODULE MC_TextOps ----------------------------
(* M1: exhaustive exploration of the reference semantics over a small operation set, checking
   the laws that make it a sensible meaning of "what the same operations give on an ordinary
   string" (pieces concatenate back, crops are prefixes, style-only calls keep characters,
   widths/lengths hit their targets).  M2: with a depth constant and CONSTRAINT Emit the same
   module prints every history of GenDepth calls for replay on a real Text. *)
EXTENDS TextOps, Json

CONSTANTS GenDepth, MCDepth
VARIABLES t, sib, hist, op, prev
vars == <<t, sib, hist, op, prev>>

a == <<97, 1>>   b == <<98, 1>>   sp == <<32, 1>>   tb == <<9, 1>>   nl == <<10, 1>>
wd == <<19990, 2>>   zw == <<769, 0>>   cr == <<13, 1>>

Lits == { [str |-> <<a, sp, b>>, base |-> 0, spans |-> << <<0, 2, 1>> >>],
          [str |-> <<a, tb, b, nl>>, base |-> 2, spans |-> << <<1, 4, 1>>, <<0, 2, 3>> >>],
          [str |-> <<wd, a, cr, sp>>, base |-> 0, spans |-> << <<0, 3, 2>> >>],
          [str |-> <<>>, base |-> 1, spans |-> <<>>] }
SmallLits == { [str |-> <<b>>, base |-> 3, spans |-> <<>>],
               [str |-> <<sp, a>>, base |-> 0, spans |-> << <<1, 2, 2>> >>] }
Strs == { <<a>>, <<sp>>, <<b, nl>> }

On == TRUE
Log == hist' = Append(hist, op') /\ prev' = t
Do(e) == LET r == Apply(t, sib, e) IN t' = Settle(r.cur) /\ sib' = (IF r.err = "none" /\ Derives(e, r) THEN t ELSE sib) /\ op' = e /\ Log
\* continue with the object the current one was derived from (it must be unaffected by later edits)
SwapA       == On /\ t' = sib /\ sib' = t /\ op' = [k |-> "swap"] /\ Log

New         == \E l \in Lits : On /\ Do([k |-> "new", t |-> l])
AppendStrA  == \E s \in Strs, y \in {0, 2}, v \in {"append", "add"} : On /\ Do([k |-> "append_str", str |-> s, sty |-> IF v = "add" THEN 0 ELSE y, via |-> v])
NoLit == [str |-> <<>>, base |-> 0, spans |-> <<>>]
AppendTextA == \/ \E l \in SmallLits, v \in {"append", "append_text", "add"} : On /\ Do([k |-> "append_text", t |-> l, via |-> v, src |-> "lit"])
               \/ \E v \in {"append_text", "add"} : On /\ Do([k |-> "append_text", t |-> NoLit, via |-> v, src |-> "sib"])
\* src = "cur": a text appended to itself
AppendSelfA == \E v \in {"append", "append_text", "add"} : On /\ Do([k |-> "append_text", t |-> NoLit, via |-> v, src |-> "cur"])
AppendTokensA == \E y \in {0, 3} : On /\ Do([k |-> "append_tokens", toks |-> << [str |-> <<a, sp>>, sty |-> y], [str |-> <<>>, sty |-> 1], [str |-> <<wd>>, sty |-> 2] >>])
AssembleA   == \E y \in {0, 4} : On /\ Do([k |-> "assemble", base |-> y,
                   parts |-> << [kind |-> "str", str |-> <<a>>, sty |-> 1], [kind |-> "cur"], [kind |-> "sib"] >>])
JoinA       == \E l \in SmallLits, v \in {<<"lit", 0 - 1>>, <<"cur", 0 - 1>>, <<"sib", 2>>} :
                   /\ (v[1] # "lit" => l.base = 3)
                   /\ Do([k |-> "join", sep |-> IF v[1] = "lit" THEN l ELSE NoLit, sepsrc |-> v[1],
                          others |-> << [str |-> <<a>>, base |-> 4, spans |-> <<>>] >>, pos |-> 1, sibpos |-> v[2]])
SplitA      == \E s \in {<<10>>, <<32>>}, i \in BOOLEAN, ab \in BOOLEAN, p \in {1, 2} :
                   On /\ Do([k |-> "split", sep |-> s, inc |-> i, ab |-> ab, pick |-> p])
DivideA     == \E o \in {<<1>>, <<0, 2>>, <<1, 1>>}, p \in {1, 2} :
                   /\ \A j \in DOMAIN o : o[j] <= Len(t.chars)
                   /\ Do([k |-> "divide", offs |-> o, pick |-> p])
IndexA      == \E i \in {0 - 1, 0, 1, 7} : On /\ Do([k |-> "index", i |-> i])
SliceA      == \E ab \in {<<1, 3>>, <<0 - 2, 9>>, <<2, 1>>} , hb \in BOOLEAN :
                   On /\ Do([k |-> "slice", hasA |-> TRUE, a |-> ab[1], hasB |-> hb, b |-> ab[2]])
PadA        == \E n \in {0, 1}, kind \in {"pad", "pad_left", "pad_right"} : On /\ Do([k |-> kind, n |-> n, ch |-> <<45, 1>>])
AlignA      == \E h \in {"left", "center", "right"}, w \in {1, 4} : On /\ Do([k |-> "align", how |-> h, width |-> w, ch |-> sp, ov |-> "fold"])
FitA        == \E w \in {0, 2}, p \in {1, 2} : On /\ Do([k |-> "fit", w |-> w, pick |-> p])
JustifyA    == \E h \in {"left", "center", "right"}, v \in {<<2, "ellipsis">>, <<5, "fold">>} : On /\ Do([k |-> "justify", how |-> h, w |-> v[1], ov |-> v[2]])
BlankCopyA  == On /\ Do([k |-> "blank_copy"])
SetPlainA   == \E s \in {<<>>, <<a>>, <<b, sp, wd, a, a>>} : On /\ Do([k |-> "set_plain", str |-> s])
TruncateA   == \E w \in {1, 2, 3}, o \in {"crop", "ellipsis", "ignore"}, p \in BOOLEAN :
                   On /\ Do([k |-> "truncate", w |-> w, ov |-> o, pad |-> p])
RightCropA  == \E n \in {0, 1, 9, 0 - 2} : On /\ Do([k |-> "right_crop", n |-> n])
SetLengthA  == \E n \in {0, 2, 6} : On /\ Do([k |-> "set_length", n |-> n])
ExpandTabsA == \E n \in {4, 8} : On /\ Do([k |-> "expand_tabs", n |-> n])
CopyA       == On /\ Do([k |-> "copy"])
RstripA     == On /\ Do([k |-> "rstrip"])
RstripEndA  == \E n \in {0, 2} : On /\ Do([k |-> "rstrip_end", n |-> n])
RemoveSuffixA == \E s \in {<<>>, <<98>>} : On /\ Do([k |-> "remove_suffix", suffix |-> s])
StylizeA    == \E y \in {1, 3}, r \in {<<0, 1>>, <<1, 0>>, <<0 - 1, 0>>, <<0, 0 - 1>>} :
                   On /\ Do([k |-> "stylize", sty |-> y, a |-> r[1], hasB |-> r[2] # 0, b |-> r[2]])
CopyStylesA == Len(t.chars) >= 2 /\ Do([k |-> "copy_styles", spans |-> << <<0, 2, 4>> >>])

Init == t = [chars |-> <<>>, base |-> 0] /\ sib = [chars |-> <<>>, base |-> 0] /\ hist = <<>> /\ op = [k |-> "init"] /\ prev = t
Next == New \/ AppendStrA \/ AppendTextA \/ AssembleA \/ JoinA \/ SplitA \/ DivideA \/ IndexA \/ SliceA
        \/ PadA \/ AlignA \/ TruncateA \/ RightCropA \/ SetLengthA \/ ExpandTabsA \/ CopyA \/ RstripA
        \/ RstripEndA \/ RemoveSuffixA \/ StylizeA \/ CopyStylesA \/ SwapA
        \/ AppendSelfA \/ AppendTokensA \/ FitA \/ JustifyA \/ BlankCopyA \/ SetPlainA
Spec == Init /\ [][Next]_vars

\* ---- laws of the reference semantics -------------------------------------------------------
RECURSIVE Concat(_)
Concat(ps) == IF ps = <<>> THEN <<>> ELSE Head(ps).chars \o Concat(Tail(ps))
IsPrefix(x, y) == Len(x) <= Len(y) /\ SubSeq(y, 1, Len(x)) = x
NoFresh == \A i \in DOMAIN t.chars : ~t.chars[i].fresh
StyleOnlyKeepsChars == op.k \in StyleOnly => Codes(t.chars) = Codes(prev.chars)
DivideConcat == op.k = "divide" => Concat(Divide(prev, op.offs)) = prev.chars
SplitConcat == (op.k = "split" /\ op.inc /\ op.ab) => Concat(Split(prev, op.sep, TRUE, TRUE)) = prev.chars
SplitNoSep == (op.k = "split" /\ ~op.inc) =>
                 \A i \in DOMAIN Split(prev, op.sep, FALSE, op.ab) :
                     MatchStarts(Codes(Split(prev, op.sep, FALSE, op.ab)[i].chars), op.sep, 1) = <<>>
CropIsPrefix == op.k \in {"right_crop", "rstrip", "rstrip_end", "remove_suffix"} => IsPrefix(t.chars, prev.chars)
TruncateFits == (op.k = "truncate" /\ op.ov # "ignore") =>
                   /\ SumW(t.chars) <= Max(op.w, SumW(prev.chars))
                   /\ (SumW(prev.chars) > op.w => SumW(t.chars) = op.w)
                   /\ (op.pad /\ SumW(prev.chars) <= op.w => SumW(t.chars) = op.w)
AlignExact == op.k = "align" => SumW(t.chars) = op.width
JustifyExact == (op.k = "justify" /\ op.how = "left") => SumW(t.chars) = op.w
FitExact == op.k = "fit" => \A i \in DOMAIN Fit(prev, op.w) : Len(Fit(prev, op.w)[i].chars) = op.w
BlankCopyEmpty == op.k = "blank_copy" => t.chars = <<>> /\ t.base = prev.base
SetPlainCodes == op.k = "set_plain" => Codes(t.chars) = [i \in DOMAIN op.str |-> op.str[i][1]]
TokensAppend == op.k = "append_tokens" => IsPrefix(prev.chars, t.chars)
SetLengthExact == op.k = "set_length" => Len(t.chars) = op.n
NoTabsLeft == op.k = "expand_tabs" => \A i \in DOMAIN t.chars : t.chars[i].c # Tab
SurvivorsKeepStyle ==   \* a crop / pad / copy never alters the style of a character it keeps
    op.k \in {"right_crop", "pad_right", "copy", "set_length", "rstrip"} =>
        \A i \in 1..Min(Len(t.chars), Len(prev.chars)) : Eff(t)[i].set = Eff(prev)[i].set /\ Eff(t)[i].top = Eff(prev)[i].top
NoControlChars == \A i \in DOMAIN t.chars : t.chars[i].c \notin Stripped

View == <<t, sib, op, prev>>
DepthBound == Len(hist) <= MCDepth /\ Len(t.chars) <= 12
Emit == /\ Len(hist) <= GenDepth
        /\ (Len(hist) = GenDepth => PrintT(ToJson([beh |-> hist])))
=============================================================================
