CONSTANT GenDepth = 0
SPECIFICATION Spec
VIEW View
CONSTRAINT Bound
INVARIANT ExactlyOnceInOrder
INVARIANT LineCount
INVARIANT PenCarried
INVARIANT ProxiesIndependent
CHECK_DEADLOCK FALSE
