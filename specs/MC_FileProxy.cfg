CONSTANT GenDepth = 0
SPECIFICATION Spec
VIEW View
CONSTRAINT Bound
INVARIANT ExactlyOnceInOrder
INVARIANT LineCount
INVARIANT PenCarried
CHECK_DEADLOCK FALSE
