--------------------------- MODULE Pretty ---------------------------
(* C16 - pretty-printed data evaluates back to the data (rich/pretty.py).

   Vocabulary.  An abstract value is a record [k, a, c]:
     k = "atom" (a = atom id)            "list" "tuple" "set" "frozenset" "deque" "array" (c = items)
         "dict" "counter" "defaultdict"  (c = sequence of "pair" records, insertion order)
         "pair" (c = <<key, value>>)     "cycle" (reference to a container that is being printed)
     a = atom id of: the typecode string (array), the factory name string or the None atom
         (defaultdict), the maxlen literal or 0 (deque; ignored by equality, as in Python).
   Values produced by Eval additionally use
     "more"  (the `... +n` item: a = n, c = <<atom of the literal n>>)
     "trunc" (the `'abc'+n` string: a = n, c = <<atom of the shown literal, atom of n>>)
     "braces" (`{... +n}`: a dict or a set, cannot be told apart)
   and carry the token span [s, e) they were read from.
   Atom table A: sequence of [t, w, n, cp] - t in "str" "bytes" "int" "float" "bool" "none",
   w = cell width of the literal, n = the value of a small non-negative int (else -1),
   cp = code points (str) / byte values (bytes).  Ids are assigned by the driver by
   ast.literal_eval equality + type (trusted).
   A token is <<kind, atom id, gap>> (gap = blanks in front of it on its line); in a flattened
   stream a 4th component is the line number.

   Property part:      Eval, Diff (EvalOK / CycleMarker / Abbrev), OneLineIfFits, Lay (ExpandedLayout)
   Implementation-shaped part: Abbr (traverse), OneLine (Node.iter_tokens), ExpandLine
   (_Line.expand), LineFits (_Line.check_length), Render (Node.render as a recursive function). *)
EXTENDS Integers, Sequences, FiniteSets, TLC

\* ---- token kinds ---------------------------------------------------------------------------
LBRACK == 1   RBRACK == 2   LPAR == 3    RPAR == 4    LBRACE == 5   RBRACE == 6
COMMA == 7    COLON == 8    ELLIPSIS == 9   PLUS == 10   ATOM == 11
NSET == 12    NFROZENSET == 13   NDEQUE == 14   NCOUNTER == 15   NDEFAULTDICT == 16   NARRAY == 17
LESS == 18    GREATER == 19   NCLASS == 20   NMAXLEN == 21   EQUALS == 22   TOTHER == 99

KW(k) == CASE k \in {LBRACK, RBRACK, LPAR, RPAR, LBRACE, RBRACE, COMMA, COLON, PLUS, LESS, GREATER, EQUALS} -> 1
           [] k \in {ELLIPSIS, NSET} -> 3
           [] k \in {NDEQUE, NARRAY, NCLASS} -> 5
           [] k = NMAXLEN -> 6
           [] k = NCOUNTER -> 7
           [] k = NFROZENSET -> 9
           [] k = NDEFAULTDICT -> 11
           [] OTHER -> 1

KName(k) == CASE k = LBRACK -> "[" [] k = RBRACK -> "]" [] k = LPAR -> "(" [] k = RPAR -> ")"
              [] k = LBRACE -> "{" [] k = RBRACE -> "}" [] k = COMMA -> "," [] k = COLON -> ":"
              [] k = ELLIPSIS -> "..." [] k = PLUS -> "+" [] k = ATOM -> "literal" [] k = NSET -> "set"
              [] k = NFROZENSET -> "frozenset" [] k = NDEQUE -> "deque" [] k = NCOUNTER -> "Counter"
              [] k = NDEFAULTDICT -> "defaultdict" [] k = NARRAY -> "array" [] k = LESS -> "<"
              [] k = 0 -> "|" [] OTHER -> "other"

Mk(k, a, c) == [k |-> k, a |-> a, c |-> c]
Nil == Mk("nil", 0, <<>>)
AtomV(a) == Mk("atom", a, <<>>)
T(k) == <<k, 0, 0>>
TG(k) == <<k, 0, 1>>

SeqKinds  == {"list", "tuple", "deque", "array"}
SetKinds  == {"set", "frozenset"}
DictKinds == {"dict", "counter", "defaultdict"}
Containers == SeqKinds \cup SetKinds \cup DictKinds \cup {"braces"}
BasicKinds == {"list", "tuple", "dict", "set", "frozenset"}      \* the kinds the repr() clause names
IsContainer(v) == v.k \in Containers
Body(n) == IF n.k = "pair" THEN n.c[2] ELSE n
IsStrAtom(A, a) == a \in 1..Len(A) /\ A[a].t \in {"str", "bytes"}
IsCount(A, a) == a \in 1..Len(A) /\ A[a].t = "int" /\ A[a].n >= 0

\* =============================================================================================
\* The literal grammar: how a value is written on one line (Python's repr conventions; for the
\* basic kinds this *is* repr()).  Used by the property part (ReprToks) and by the layout model.
FactoryToks(A, f) == IF f \in 1..Len(A) /\ A[f].t = "none" THEN << <<ATOM, f, 0>> >>
                     ELSE << T(LESS), T(NCLASS), <<ATOM, f, 1>>, T(GREATER) >>
OpenToks(A, v) ==
    CASE v.k = "list" -> << T(LBRACK) >>
      [] v.k = "tuple" -> << T(LPAR) >>
      [] v.k \in {"dict", "set", "braces"} -> << T(LBRACE) >>
      [] v.k = "frozenset" -> << T(NFROZENSET), T(LPAR), T(LBRACE) >>
      [] v.k = "deque" -> << T(NDEQUE), T(LPAR), T(LBRACK) >>
      [] v.k = "counter" -> << T(NCOUNTER), T(LPAR), T(LBRACE) >>
      [] v.k = "defaultdict" -> << T(NDEFAULTDICT), T(LPAR) >> \o FactoryToks(A, v.a) \o << T(COMMA), TG(LBRACE) >>
      [] v.k = "array" -> << T(NARRAY), T(LPAR), <<ATOM, v.a, 0>>, T(COMMA), TG(LBRACK) >>
      [] OTHER -> << T(TOTHER) >>
CloseToks(v) ==
    CASE v.k = "list" -> << T(RBRACK) >>
      [] v.k = "tuple" -> << T(RPAR) >>
      [] v.k \in {"dict", "set", "braces"} -> << T(RBRACE) >>
      [] v.k \in {"frozenset", "counter", "defaultdict"} -> << T(RBRACE), T(RPAR) >>
      [] v.k \in {"deque", "array"} -> << T(RBRACK), T(RPAR) >>
      [] OTHER -> << T(TOTHER) >>
EmptyToks(A, v) ==
    CASE v.k = "list" -> << T(LBRACK), T(RBRACK) >>
      [] v.k = "tuple" -> << T(LPAR), T(RPAR) >>
      [] v.k \in {"dict", "braces"} -> << T(LBRACE), T(RBRACE) >>
      [] v.k = "set" -> << T(NSET), T(LPAR), T(RPAR) >>
      [] v.k = "frozenset" -> << T(NFROZENSET), T(LPAR), T(RPAR) >>
      [] v.k = "deque" -> << T(NDEQUE), T(LPAR), T(RPAR) >>
      [] v.k = "counter" -> << T(NCOUNTER), T(LPAR), T(RPAR) >>
      [] v.k = "defaultdict" -> << T(NDEFAULTDICT), T(LPAR) >> \o FactoryToks(A, v.a) \o << T(COMMA), TG(LBRACE), T(RBRACE), T(RPAR) >>
      [] v.k = "array" -> << T(NARRAY), T(LPAR), <<ATOM, v.a, 0>>, T(RPAR) >>
      [] OTHER -> << T(TOTHER) >>

WithGap(toks) == << <<toks[1][1], toks[1][2], 1>> >> \o Tail(toks)

RECURSIVE OneLine(_, _), JoinItems(_, _, _)
JoinItems(A, cs, i) ==
    IF i > Len(cs) THEN <<>>
    ELSE (IF i = 1 THEN OneLine(A, cs[1]) ELSE << T(COMMA) >> \o WithGap(OneLine(A, cs[i]))) \o JoinItems(A, cs, i + 1)
OneLine(A, v) ==
    CASE v.k = "atom" -> << <<ATOM, v.a, 0>> >>
      [] v.k = "cycle" -> << T(ELLIPSIS) >>
      [] v.k = "more" -> << T(ELLIPSIS), TG(PLUS), <<ATOM, v.c[1].a, 0>> >>
      [] v.k = "trunc" -> << <<ATOM, v.c[1].a, 0>>, T(PLUS), <<ATOM, v.c[2].a, 0>> >>
      [] v.k = "pair" -> OneLine(A, v.c[1]) \o << T(COLON) >> \o WithGap(OneLine(A, v.c[2]))
      [] v.k \in Containers ->
            IF v.c = <<>> THEN EmptyToks(A, v)
            ELSE OpenToks(A, v) \o JoinItems(A, v.c, 1)
                 \o (IF v.k = "tuple" /\ Len(v.c) = 1 THEN << T(COMMA) >> ELSE <<>>) \o CloseToks(v)
      [] OTHER -> << T(TOTHER) >>

RECURSIVE TokLenFrom(_, _, _)
TokLenFrom(A, toks, i) ==
    IF i > Len(toks) THEN 0
    ELSE toks[i][3] + (IF toks[i][1] = ATOM
                       THEN (IF toks[i][2] \in 1..Len(A) THEN A[toks[i][2]].w ELSE 100000)
                       ELSE KW(toks[i][1])) + TokLenFrom(A, toks, i + 1)
TokLen(A, toks) == TokLenFrom(A, toks, 1)

\* =============================================================================================
\* PROPERTY PART
\* ---- Eval: recursive-descent evaluator for the literal grammar ------------------------------
MkS(k, a, c, s, e) == [k |-> k, a |-> a, c |-> c, s |-> s, e |-> e]
NilS == MkS("nil", 0, <<>>, 0, 0)
Fail(p) == [ok |-> FALSE, v |-> NilS, p |-> p]
Good(v, p) == [ok |-> TRUE, v |-> v, p |-> p]
K(t, p) == IF p >= 1 /\ p <= Len(t) THEN t[p][1] ELSE 0
Closers == {RBRACK, RPAR, RBRACE, 0}
NoPairs(vs) == \A i \in 1..Len(vs) : vs[i].k # "pair"
CountOf(vs, kind) == Cardinality({i \in 1..Len(vs) : vs[i].k = kind})

RECURSIVE Expr(_, _, _), Items(_, _, _, _, _)
\* item (, item)* [,]  up to (not including) a closing token; item is expr or expr : expr
Items(A, t, p, acc, tc) ==
    IF K(t, p) \in Closers THEN [ok |-> TRUE, vs |-> acc, p |-> p, tc |-> tc]
    ELSE IF acc # <<>> /\ ~tc THEN [ok |-> FALSE, vs |-> <<>>, p |-> p, tc |-> FALSE]
    ELSE LET e == Expr(A, t, p) IN
         IF ~e.ok THEN [ok |-> FALSE, vs |-> <<>>, p |-> e.p, tc |-> FALSE]
         ELSE LET item == IF K(t, e.p) = COLON
                          THEN LET e2 == Expr(A, t, e.p + 1)
                               IN IF e2.ok THEN Good(MkS("pair", 0, <<e.v, e2.v>>, e.v.s, e2.v.e), e2.p)
                                  ELSE Fail(e2.p)
                          ELSE e
              IN IF ~item.ok THEN [ok |-> FALSE, vs |-> <<>>, p |-> item.p, tc |-> FALSE]
                 ELSE IF K(t, item.p) = COMMA THEN Items(A, t, item.p + 1, Append(acc, item.v), TRUE)
                 ELSE Items(A, t, item.p, Append(acc, item.v), FALSE)

\* NAME ( ... ) forms
CallForm(A, t, p) ==
    LET k == K(t, p) IN
    IF K(t, p + 1) # LPAR THEN Fail(p + 1)
    ELSE IF k \in {NSET, NFROZENSET, NDEQUE, NCOUNTER} /\ K(t, p + 2) = RPAR THEN
         Good(MkS(CASE k = NSET -> "set" [] k = NFROZENSET -> "frozenset" [] k = NDEQUE -> "deque" [] OTHER -> "counter",
                  0, <<>>, p, p + 3), p + 3)
    ELSE IF k = NFROZENSET THEN
         LET r == Expr(A, t, p + 2) IN
         IF r.ok /\ r.v.k \in {"set", "braces"} /\ K(t, r.p) = RPAR
         THEN Good(MkS("frozenset", 0, r.v.c, p, r.p + 1), r.p + 1) ELSE Fail(r.p)
    ELSE IF k = NCOUNTER THEN
         LET r == Expr(A, t, p + 2) IN
         IF r.ok /\ r.v.k \in {"dict", "braces"} /\ K(t, r.p) = RPAR
         THEN Good(MkS("counter", 0, r.v.c, p, r.p + 1), r.p + 1) ELSE Fail(r.p)
    ELSE IF k = NDEQUE THEN
         LET r == Expr(A, t, p + 2) IN
         IF ~(r.ok /\ r.v.k = "list") THEN Fail(r.p)
         ELSE IF K(t, r.p) = RPAR THEN Good(MkS("deque", 0, r.v.c, p, r.p + 1), r.p + 1)
         ELSE IF K(t, r.p) = COMMA /\ K(t, r.p + 1) = NMAXLEN /\ K(t, r.p + 2) = EQUALS
                 /\ K(t, r.p + 3) = ATOM /\ K(t, r.p + 4) = RPAR
              THEN Good(MkS("deque", t[r.p + 3][2], r.v.c, p, r.p + 5), r.p + 5)
         ELSE Fail(r.p)
    ELSE IF k = NARRAY THEN
         IF K(t, p + 2) # ATOM THEN Fail(p + 2)
         ELSE IF K(t, p + 3) = RPAR THEN Good(MkS("array", t[p + 2][2], <<>>, p, p + 4), p + 4)
         ELSE IF K(t, p + 3) # COMMA THEN Fail(p + 3)
         ELSE LET r == Expr(A, t, p + 4) IN
              IF r.ok /\ r.v.k = "list" /\ K(t, r.p) = RPAR
              THEN Good(MkS("array", t[p + 2][2], r.v.c, p, r.p + 1), r.p + 1) ELSE Fail(r.p)
    ELSE IF k = NDEFAULTDICT THEN
         LET viaClass == K(t, p + 2) = LESS /\ K(t, p + 3) = NCLASS /\ K(t, p + 4) = ATOM /\ K(t, p + 5) = GREATER
                         /\ IsStrAtom(A, t[p + 4][2])
             viaNone == K(t, p + 2) = ATOM /\ t[p + 2][2] \in 1..Len(A) /\ A[t[p + 2][2]].t = "none"
             q == IF viaClass THEN p + 6 ELSE p + 3
             f == IF viaClass THEN t[p + 4][2] ELSE t[p + 2][2]
         IN IF ~(viaClass \/ viaNone) THEN Fail(p + 2)
            ELSE IF K(t, q) # COMMA THEN Fail(q)
            ELSE LET r == Expr(A, t, q + 1) IN
                 IF r.ok /\ r.v.k \in {"dict", "braces"} /\ K(t, r.p) = RPAR
                 THEN Good(MkS("defaultdict", f, r.v.c, p, r.p + 1), r.p + 1) ELSE Fail(r.p)
    ELSE Fail(p)

Expr(A, t, p) ==
    LET k == K(t, p)
        counted == K(t, p + 1) = PLUS /\ K(t, p + 2) = ATOM /\ IsCount(A, t[p + 2][2])
    IN
    CASE k = ATOM ->
            IF counted /\ IsStrAtom(A, t[p][2])
            THEN Good(MkS("trunc", A[t[p + 2][2]].n, <<AtomV(t[p][2]), AtomV(t[p + 2][2])>>, p, p + 3), p + 3)
            ELSE Good(MkS("atom", t[p][2], <<>>, p, p + 1), p + 1)
      [] k = ELLIPSIS ->
            IF counted THEN Good(MkS("more", A[t[p + 2][2]].n, <<AtomV(t[p + 2][2])>>, p, p + 3), p + 3)
            ELSE Good(MkS("cycle", 0, <<>>, p, p + 1), p + 1)
      [] k = LBRACK ->
            LET r == Items(A, t, p + 1, <<>>, FALSE) IN
            IF r.ok /\ K(t, r.p) = RBRACK /\ NoPairs(r.vs)
            THEN Good(MkS("list", 0, r.vs, p, r.p + 1), r.p + 1) ELSE Fail(r.p)
      [] k = LPAR ->
            LET r == Items(A, t, p + 1, <<>>, FALSE) IN
            IF ~(r.ok /\ K(t, r.p) = RPAR /\ NoPairs(r.vs)) THEN Fail(r.p)
            \* Python: (x) is x; (x,) is a 1-tuple
            ELSE IF Len(r.vs) = 1 /\ ~r.tc THEN Good(r.vs[1], r.p + 1)
            ELSE Good(MkS("tuple", 0, r.vs, p, r.p + 1), r.p + 1)
      [] k = LBRACE ->
            LET r == Items(A, t, p + 1, <<>>, FALSE) IN
            IF ~(r.ok /\ K(t, r.p) = RBRACE) THEN Fail(r.p)
            ELSE LET n == Len(r.vs)  np == CountOf(r.vs, "pair")  nm == CountOf(r.vs, "more") IN
                 IF n = 0 \/ (np > 0 /\ np + nm = n) THEN Good(MkS("dict", 0, r.vs, p, r.p + 1), r.p + 1)
                 ELSE IF np = 0 /\ nm < n THEN Good(MkS("set", 0, r.vs, p, r.p + 1), r.p + 1)
                 ELSE IF np = 0 THEN Good(MkS("braces", 0, r.vs, p, r.p + 1), r.p + 1)
                 ELSE Fail(p)
      [] k \in {NSET, NFROZENSET, NDEQUE, NCOUNTER, NDEFAULTDICT, NARRAY} -> CallForm(A, t, p)
      [] OTHER -> Fail(p)

\* the whole token stream must be one expression
Eval(A, t) == LET r == Expr(A, t, 1) IN IF r.ok /\ r.p = Len(t) + 1 THEN r ELSE [r EXCEPT !.ok = FALSE]

\* ---- Diff: "" when the evaluated value ev denotes the input value v, else the failed clause ---
\* allowItems / allowChars: max_length / max_string were given (abbreviations may appear)
IsPrefix(s, full) == Len(s) <= Len(full) /\ SubSeq(full, 1, Len(s)) = s
Shape(v) == v.k \o "#" \o ToString(Len(v.c))

RECURSIVE Diff(_, _, _, _, _), DiffSeq(_, _, _, _, _, _)
DiffSeq(A, es, vs, i, ai, ac) ==
    IF i > Len(es) THEN ""
    ELSE LET d == Diff(A, es[i], vs[i], ai, ac) IN IF d # "" THEN d ELSE DiffSeq(A, es, vs, i + 1, ai, ac)
Diff(A, ev, v, ai, ac) ==
    IF v.k = "cycle" THEN (IF ev.k = "cycle" THEN "" ELSE "CycleMarker missing got=" \o ev.k)
    ELSE IF ev.k = "cycle" THEN "CycleMarker spurious want=" \o Shape(v)
    \* diagnosis only: the text denotes the single item of a 1-tuple, i.e. `(x)` was printed for `(x,)`
    ELSE IF v.k = "tuple" /\ Len(v.c) = 1 /\ ~(ev.k = "tuple" /\ Len(ev.c) = 1) /\ Diff(A, ev, v.c[1], ai, ac) = ""
         THEN "EvalOK 1-tuple-read-as-its-item"
    ELSE IF ev.k = "trunc" THEN
         IF ~(v.k = "atom" /\ IsStrAtom(A, v.a) /\ A[v.a].t = A[ev.c[1].a].t) THEN "EvalOK type want=" \o Shape(v) \o " got=trunc-str"
         ELSE IF ~ac THEN "Abbrev unrequested-truncation"
         ELSE IF ~IsPrefix(A[ev.c[1].a].cp, A[v.a].cp) THEN "Abbrev shown-chars-not-a-prefix"
         ELSE IF ev.a < 1 \/ Len(A[ev.c[1].a].cp) + ev.a # Len(A[v.a].cp)
              THEN "Abbrev omitted-chars reported=" \o ToString(ev.a) \o " actual=" \o ToString(Len(A[v.a].cp) - Len(A[ev.c[1].a].cp))
         ELSE ""
    ELSE IF ev.k = "atom" THEN
         IF v.k # "atom" THEN "EvalOK type want=" \o Shape(v) \o " got=atom"
         ELSE IF ev.a # v.a THEN "EvalOK literal-differs" ELSE ""
    ELSE IF ev.k = "more" THEN "EvalOK stray-abbreviation"
    ELSE IF ev.k = "pair" THEN
         IF v.k # "pair" THEN "EvalOK type want=" \o Shape(v) \o " got=pair" ELSE DiffSeq(A, ev.c, v.c, 1, ai, ac)
    ELSE IF ~(ev.k = v.k \/ (ev.k = "braces" /\ v.k \in {"dict", "set"})) THEN "EvalOK type want=" \o Shape(v) \o " got=" \o ev.k
    ELSE IF v.k \in {"defaultdict", "array"} /\ ev.a # v.a THEN "EvalOK " \o v.k \o "-argument-differs"
    ELSE LET n == Len(ev.c)
             abbr == n > 0 /\ ev.c[n].k = "more"
             m == IF abbr THEN n - 1 ELSE n
             shown == SubSeq(ev.c, 1, m)
         IN IF \E i \in 1..m : ev.c[i].k = "more" THEN "EvalOK stray-abbreviation"
            ELSE IF abbr /\ ~ai THEN "Abbrev unrequested-abbreviation"
            ELSE IF abbr /\ (ev.c[n].a < 1 \/ m + ev.c[n].a # Len(v.c))
                 THEN "Abbrev omitted-items reported=" \o ToString(ev.c[n].a) \o " actual=" \o ToString(Len(v.c) - m)
            ELSE IF ~abbr /\ m # Len(v.c) THEN "EvalOK length want=" \o Shape(v) \o " got=" \o ToString(m)
            ELSE IF v.k \in SetKinds \/ (ev.k = "braces" /\ v.k = "set") THEN
                 \* sets are compared as sets.  Same order is sufficient; otherwise every shown member must
                 \* be a member and no two shown members may be the same member (a truncated string may
                 \* stand for several members: such ambiguous items are not counted against each other)
                 IF DiffSeq(A, shown, v.c, 1, ai, ac) = "" THEN ""
                 ELSE LET M(i) == {j \in 1..Len(v.c) : Diff(A, shown[i], v.c[j], ai, ac) = ""}
                          unamb == {i \in 1..m : Cardinality(M(i)) = 1}
                          us == {i \in 1..m : M(i) = {}}
                          uv == {j \in 1..Len(v.c) : \A i \in 1..m : j \notin M(i)}
                      IN IF /\ us = {}
                            /\ \A i1 \in unamb : \A i2 \in unamb : i1 # i2 => M(i1) # M(i2)
                            /\ (~abbr => uv = {})
                         THEN ""
                         ELSE IF Cardinality(us) = 1 /\ Cardinality(uv) = 1       \* one member differs: say how
                         THEN Diff(A, shown[CHOOSE i \in us : TRUE], v.c[CHOOSE j \in uv : TRUE], ai, ac)
                         ELSE "EvalOK set-members-differ want=" \o Shape(v)
            ELSE DiffSeq(A, shown, v.c, 1, ai, ac)     \* sequences and dicts: in (insertion) order

\* ---- OneLineIfFits ------------------------------------------------------------------------------
RECURSIVE AllBasic(_), NoCycle(_), WithinLimits(_, _, _, _)
AllBasic(v) == v.k = "atom" \/ (v.k \in BasicKinds \cup {"pair"} /\ \A i \in 1..Len(v.c) : AllBasic(v.c[i]))
NoCycle(v) == v.k # "cycle" /\ \A i \in 1..Len(v.c) : NoCycle(v.c[i])
\* no container longer than max_length, no string longer than max_string (-1 = not given)
WithinLimits(A, v, ml, ms) ==
    IF v.k = "atom" THEN ms < 0 \/ ~IsStrAtom(A, v.a) \/ Len(A[v.a].cp) <= ms
    ELSE /\ (IsContainer(v) => (ml < 0 \/ Len(v.c) <= ml))
         /\ \A i \in 1..Len(v.c) : WithinLimits(A, v.c[i], ml, ms)
ReprToks(A, v) == OneLine(A, v)         \* for AllBasic values this is the token sequence of repr(v)
ReprLen(A, v) == TokLen(A, ReprToks(A, v))
OneLineApplies(A, v, o) ==
    /\ ~o.xa /\ IsContainer(v) /\ AllBasic(v) /\ NoCycle(v) /\ WithinLimits(A, v, o.ml, o.ms)
    /\ ReprLen(A, v) <= o.w
\* lines: sequence of [ind, cells, toks]
OneLineHolds(A, v, lines) ==
    /\ Len(lines) = 1 /\ lines[1].ind = 0
    /\ lines[1].toks = ReprToks(A, v)
    /\ lines[1].cells = ReprLen(A, v)

\* ---- ExpandedLayout -----------------------------------------------------------------------------
\* t: flattened tokens <<kind, atom, gap, line>>; L: lines; ev: value with spans from Eval
RECURSIVE FlatFrom(_, _)
FlatFrom(lines, i) ==
    IF i > Len(lines) THEN <<>>
    ELSE [j \in 1..Len(lines[i].toks) |-> <<lines[i].toks[j][1], lines[i].toks[j][2], lines[i].toks[j][3], i>>]
         \o FlatFrom(lines, i + 1)
Flat(lines) == FlatFrom(lines, 1)
LineOf(t, p) == t[p][4]
FirstOnLine(t, p) == p = 1 \/ t[p - 1][4] # t[p][4]
LastOnLine(t, p) == p = Len(t) \/ t[p + 1][4] # t[p][4]
\* p is the last token of an item: nothing follows on its line except an optional comma
EndsItsLine(t, p) == LastOnLine(t, p) \/ (K(t, p + 1) = COMMA /\ t[p + 1][4] = t[p][4] /\ LastOnLine(t, p + 1))

RECURSIVE Lay(_, _, _, _, _), LayKids(_, _, _, _, _, _)
LayKids(t, L, cs, i, d, o) ==
    IF i > Len(cs) THEN ""
    ELSE LET r == Lay(t, L, cs[i], d, o) IN IF r # "" THEN r ELSE LayKids(t, L, cs, i + 1, d, o)
Lay(t, L, n, d, o) ==
    LET b == Body(n)
        ln == LineOf(t, n.s)
        nonEmpty == IsContainer(b) /\ b.c # <<>>
    IN
    IF ~FirstOnLine(t, n.s) THEN "item-not-at-line-start depth=" \o ToString(d)
    ELSE IF L[ln].ind # o.ind * d THEN "indentation depth=" \o ToString(d) \o " is=" \o ToString(L[ln].ind) \o " size=" \o ToString(o.ind)
    ELSE IF LineOf(t, n.e - 1) = ln THEN
         \* kept on one line
         IF ~EndsItsLine(t, n.e - 1) THEN "two-items-on-one-line"
         ELSE IF nonEmpty /\ L[ln].cells > o.w THEN "inline-overflow kind=" \o b.k
         ELSE ""
    ELSE IF ~nonEmpty THEN "atom-split-over-lines"
    ELSE LET cs == b.c
             first == cs[1]
             lastc == cs[Len(cs)]
             close == IF K(t, lastc.e) = COMMA THEN lastc.e + 1 ELSE lastc.e     \* first closing token
         IN IF ~(LineOf(t, first.s - 1) = ln /\ LineOf(t, first.s) = ln + 1) THEN "opening-line kind=" \o b.k
            ELSE IF \E i \in 1..(Len(cs) - 1) :
                      ~(/\ K(t, cs[i].e) = COMMA /\ LineOf(t, cs[i].e) = LineOf(t, cs[i].e - 1)
                        /\ cs[i + 1].s = cs[i].e + 1 /\ LineOf(t, cs[i + 1].s) = LineOf(t, cs[i].e) + 1)
                 THEN "items-share-line kind=" \o b.k
            ELSE IF ~(/\ close = lastc.e \/ LineOf(t, lastc.e) = LineOf(t, lastc.e - 1)
                      /\ LineOf(t, close) = LineOf(t, close - 1) + 1
                      /\ L[LineOf(t, close)].ind = o.ind * d
                      /\ LineOf(t, b.e - 1) = LineOf(t, close)
                      /\ EndsItsLine(t, b.e - 1))
                 THEN "closing-line kind=" \o b.k
            ELSE LayKids(t, L, cs, 1, d + 1, o)

\* ---- the verdict for one output (kept under ~50 characters: TLC wraps longer printed tuples) -------------------------------------------------------------------
\* rec: [v, o = [w, ind, xa, ml, ms], atoms, lines, err]
Verdict(rec) ==
    IF rec.err # "" THEN "EvalOK " \o rec.err
    ELSE LET A == rec.atoms
             t == Flat(rec.lines)
             r == Eval(A, t)
         IN IF ~r.ok THEN "EvalOK unparsable at=" \o KName(K(t, r.p - 2)) \o " " \o KName(K(t, r.p - 1)) \o " " \o KName(K(t, r.p))
            ELSE LET d == Diff(A, r.v, rec.v, rec.o.ml >= 0, rec.o.ms >= 0) IN
                 IF d # "" THEN d
                 ELSE IF OneLineApplies(A, rec.v, rec.o) /\ ~OneLineHolds(A, rec.v, rec.lines)
                      THEN "OneLineIfFits differs-from-repr lines=" \o ToString(Len(rec.lines))
                 ELSE LET l == Lay(t, rec.lines, r.v, 0, rec.o) IN
                      IF l # "" THEN "ExpandedLayout " \o l ELSE "ok"

\* =============================================================================================
\* IMPLEMENTATION-SHAPED PART (rich/pretty.py 9.10.0)
\* ---- traverse(): abbreviation of the value into the Node tree ------------------------------------
FindAtom(A, t, cp) == IF \E j \in 1..Len(A) : A[j].t = t /\ A[j].cp = cp
                      THEN CHOOSE j \in 1..Len(A) : A[j].t = t /\ A[j].cp = cp ELSE 0
FindCount(A, n) == IF \E j \in 1..Len(A) : A[j].t = "int" /\ A[j].n = n
                   THEN CHOOSE j \in 1..Len(A) : A[j].t = "int" /\ A[j].n = n ELSE 0
\* to_repr(): strings longer than max_string are cut
AbbrLeaf(A, v, ms) ==
    IF v.k = "atom" /\ ms >= 0 /\ IsStrAtom(A, v.a) /\ Len(A[v.a].cp) > ms
    THEN Mk("trunc", Len(A[v.a].cp) - ms,
            <<AtomV(FindAtom(A, A[v.a].t, SubSeq(A[v.a].cp, 1, ms))), AtomV(FindCount(A, Len(A[v.a].cp) - ms))>>)
    ELSE v
RECURSIVE Abbr(_, _, _, _)
Abbr(A, v, ml, ms) ==
    IF v.k = "atom" THEN AbbrLeaf(A, v, ms)
    ELSE IF v.k = "pair" THEN Mk("pair", 0, <<AbbrLeaf(A, v.c[1], ms), Abbr(A, v.c[2], ml, ms)>>)   \* keys: repr only
    ELSE IF ~IsContainer(v) THEN v
    ELSE LET n == Len(v.c)
             cut == ml >= 0 /\ n > ml
             m == IF cut THEN ml ELSE n
         IN Mk(v.k, v.a, [i \in 1..m |-> Abbr(A, v.c[i], ml, ms)]
                          \o (IF cut THEN << Mk("more", n - ml, <<AtomV(FindCount(A, n - ml))>>) >> ELSE <<>>))

\* ---- _Line / Node.render --------------------------------------------------------------------------
\* a model line: d = nesting depth (whitespace = indent_size * d), text or node, sfx = 1 for ","
NodeLine(node, d, sfx, root, last) == [d |-> d, text |-> <<>>, node |-> node, sfx |-> sfx, root |-> root, last |-> last]
TextLine(text, d, sfx) == [d |-> d, text |-> text, node |-> Nil, sfx |-> sfx, root |-> FALSE, last |-> FALSE]
Expandable(line) == line.node.k # "nil" /\ IsContainer(Body(line.node)) /\ Body(line.node).c # <<>>
LineToks(A, line) == line.text \o (IF line.node.k = "nil" THEN <<>> ELSE OneLine(A, line.node))
                     \o (IF line.sfx = 1 THEN << T(COMMA) >> ELSE <<>>)
LineCells(A, line, ind) == ind * line.d + TokLen(A, LineToks(A, line))
LineFits(A, line, o) == LineCells(A, line, o.ind) <= o.w           \* _Line.check_length

\* _Line.expand.  rule = "coded": the closing line's separator as written in 9.10.0 (pretty.py:378-382);
\*                rule = "fixed": the closing line inherits the separator of the line being expanded.
ExpandLine(A, line, rule) ==
    LET n == line.node
        b == Body(n)
        one == b.k = "tuple" /\ Len(b.c) = 1
        open == IF n.k = "pair" THEN OneLine(A, n.c[1]) \o << T(COLON) >> \o WithGap(OpenToks(A, b))
                ELSE OpenToks(A, b)
        kids == [i \in 1..Len(b.c) |->
                    NodeLine(b.c[i], line.d + 1, IF one THEN 1 ELSE IF i = Len(b.c) THEN 0 ELSE 1, FALSE, i = Len(b.c))]
        closeSfx == IF rule = "coded"
                    THEN (IF one /\ ~line.root THEN 1 ELSE IF line.last THEN 0 ELSE 1)
                    ELSE line.sfx
    IN << TextLine(open, line.d, 0) >> \o kids \o << TextLine(CloseToks(b), line.d, closeSfx) >>

RootLine(A, v, o) == NodeLine(Abbr(A, v, o.ml, o.ms), 0, 0, TRUE, TRUE)
OutLine(A, line, o) == [ind |-> o.ind * line.d, cells |-> LineCells(A, line, o.ind), toks |-> LineToks(A, line)]
OutLines(A, lines, o) == [i \in 1..Len(lines) |-> OutLine(A, lines[i], o)]

\* the while-loop of Node.render written as a recursive function (MC_Pretty shows both agree)
RECURSIVE RenderLine(_, _, _, _), RenderAll(_, _, _, _, _)
RenderAll(A, ls, i, o, rule) == IF i > Len(ls) THEN <<>> ELSE RenderLine(A, ls[i], o, rule) \o RenderAll(A, ls, i + 1, o, rule)
RenderLine(A, line, o, rule) ==
    IF Expandable(line) /\ (o.xa \/ ~LineFits(A, line, o))
    THEN LET ex == ExpandLine(A, line, rule) IN
         << OutLine(A, ex[1], o) >> \o RenderAll(A, SubSeq(ex, 2, Len(ex) - 1), 1, o, rule) \o << OutLine(A, ex[Len(ex)], o) >>
    ELSE << OutLine(A, line, o) >>
Render(A, v, o, rule) == RenderLine(A, RootLine(A, v, o), o, rule)

\* lines as recorded (toks are JSON arrays) compared with model lines
SameLines(real, model) ==
    /\ Len(real) = Len(model)
    /\ \A i \in 1..Len(real) : /\ real[i].ind = model[i].ind /\ real[i].cells = model[i].cells
                               /\ real[i].toks = model[i].toks
=============================================================================
