----------------------------- MODULE MC_Frames -----------------------------
(* M1: every composition of panel / padding / align frames (nesting <= MaxNest) around a small
   text leaf, rendered by the design arithmetic RefRender (Frames.tla) at every width of WSeq that
   keeps the leaf unwrapped.  Shown: the acceptance relations of C08 accept the design
   (satisfiable, DesignAccepted) and reject three classic wrong designs applied to the outermost
   frame - child rendered one cell narrower than the room framed for it (RejectsInnerOffByOne),
   centre offset rounded up (RejectsCentreRoundedUp), left / right padding swapped
   (RejectsSwappedPadding).
   M2: with MC_Frames_gen.cfg every composition of exactly GenDepth frames is printed as JSON
   (with the widths in its domain); the driver builds the real renderables and replays them. *)
EXTENDS Frames, Json

CONSTANTS MaxNest, GenDepth
VARIABLE t
vars == <<t>>

a == Cell(97, 1)
b == Cell(98, 1)
wide == Cell(19990, 2)
Leaves == { [k |-> "leaf", ls |-> << <<a>> >>],
            [k |-> "leaf", ls |-> << <<a, a, a>>, <<b>> >>],
            [k |-> "leaf", ls |-> << <<wide, b>> >>] }
Pads == { <<0>>, <<0, 1>>, <<1, 2, 0, 1>> }
Titles2 == { <<>>, <<Cell(84, 1)>> }
WSeq == <<4, 7, 8, 11, 12, 16>>
B0 == <<Cell(43, 1), Cell(45, 1), Cell(43, 1), Cell(124, 1), Cell(124, 1), Cell(43, 1), Cell(45, 1), Cell(43, 1)>>

RECURSIVE Nest(_)
Nest(x) == IF x.k = "leaf" THEN 0 ELSE 1 + Nest(x.c)

On == TRUE
Init == t \in Leaves
WrapPanel == \E pad \in Pads, ex \in BOOLEAN, title \in Titles2 :
                On /\ Nest(t) < MaxNest /\ t' = [k |-> "panel", c |-> t, pad |-> pad, ex |-> ex, title |-> title]
WrapPadding == \E pad \in Pads, ex \in BOOLEAN :
                On /\ Nest(t) < MaxNest /\ t' = [k |-> "padding", c |-> t, pad |-> pad, ex |-> ex]
WrapAlign == \E al \in {"left", "center", "right"}, padr \in BOOLEAN :
                On /\ Nest(t) < MaxNest /\ t' = [k |-> "align", c |-> t, al |-> al, padr |-> padr]
Next == WrapPanel \/ WrapPadding \/ WrapAlign
Spec == Init /\ [][Next]_vars

Dom == {i \in DOMAIN WSeq : t.k # "leaf" /\ RefFits(t, WSeq[i], WSeq[i])}
Rec(i, flaw) == RefRecord(t, WSeq[i], B0, flaw)

\* ---- the design satisfies the relations ------------------------------------------------------
DesignAccepted == \A i \in Dom : FrameWhy(Rec(i, "none")) = "ok" /\ ~ChildOverflows(Rec(i, "none"))
\* expanding frames fill the width, and the widths in the domain are not all trivial
ExpandFills == \A i \in Dom : (t.k \in {"panel", "padding"} /\ t.ex) => CL(Rec(i, "none").out[1]) = WSeq[i]

\* ---- classic wrong designs are rejected --------------------------------------------------------
RejectsInnerOffByOne == \A i \in Dom : t.k \in {"panel", "padding"} => FrameWhy(Rec(i, "inner-1")) # "ok"
OddCentre(i) == t.k = "align" /\ t.al = "center" /\ Rec(i, "none").ch # <<>> /\ (WSeq[i] - BlockW(Rec(i, "none").ch)) % 2 = 1
RejectsCentreRoundedUp == \A i \in Dom : OddCentre(i) => FrameWhy(Rec(i, "centre-up")) = "offset-differs"
Lopsided == t.k \in {"panel", "padding"} /\ Unpack(t.pad).l # Unpack(t.pad).r
RejectsSwappedPadding == \A i \in Dom : Lopsided /\ Rec(i, "none").ch # <<>> => FrameWhy(Rec(i, "swap-lr")) # "ok"

\* ---- M2 ----------------------------------------------------------------------------------------
Emit == Nest(t) = GenDepth =>
            PrintT(ToJson([beh |-> [t |-> t, ws |-> [i \in DOMAIN WSeq |-> IF i \in Dom THEN WSeq[i] ELSE 0],
                                    odd |-> \E i \in Dom : OddCentre(i), lop |-> Lopsided /\ Dom # {}]]))
=============================================================================
