CONSTANTS
  Repaired = TRUE
  Without = {}
  MaxCols = 2
  MaxCMax = 4
  MaxPad = 2
  MaxRatio = 2
  MaxMinW = 3
  MaxSlack = 6
  NoPadEdgeToo = TRUE
  CollapsePaddingToo = TRUE
  WideToo = TRUE
  MaxW = 0
  MaxMaxW = 0
  NoWrapToo = FALSE
  MaxTMin = 0
  RatioNeedsExpand = TRUE
  ZeroRatioToo = FALSE
  EmitMod = 1
SPECIFICATION Spec
INVARIANT DesignOK
CHECK_DEADLOCK FALSE
