-------------------------------- MODULE Wrap --------------------------------
(* C02 - Word wrapping keeps every character, in order, with its own style.

   A *character* is a record [c, w, id, sty]:
     c    code point            w   terminal cell width (0..2, data of the tree under test)
     id   position in the wrapped text (1..n); 0 = not an input character (created by
          wrapping: padding of justify, ellipsis, spaces of an expanded tab, the blank that
          replaces half of a wide character) or, in trace validation, not identifiable
     sty  effective style <<set, top>> in the vocabulary of TextOps.tla (which style ids cover
          the character, whose colour wins); opaque here, only compared.
   Whitespace = space, tab, newline and the other characters Python (str.isspace, regex \s) counts
   as white space that a Text can hold: FS GS RS US, NEL, NBSP, OGHAM SPACE, U+2000-200A, LS, PS,
   NNBSP, MMSP, IDEOGRAPHIC SPACE (cell widths 0, 1 and 2).  The statement only protects
   non-whitespace characters, so all of these may be dropped at a break like a space.
   An *input* is [chars, width, justify, overflow, no_wrap, tab, ovarg]; an output is a sequence of
   lines, each a sequence of characters.  justify / overflow / no_wrap are the EFFECTIVE options of
   the call (wrap argument if given, else the Text's own attribute, else default / fold / false);
   ovarg is the overflow exactly as passed in the argument ("none" when the argument is None) - it
   is read by the implementation-shaped part only (9.10.0 skips the division into lines when the
   ARGUMENT is "ignore", not when the Text's attribute is).

   Property part             : WrapWhy / WrapOK (clauses a-d), Identify (how observed characters,
                               which carry no ids, are matched to input characters).
   Implementation-shaped part: RefWrap - transcription of rich/text.py Text.wrap 9.10.0 =
                               split("\n") -> expand_tabs -> _wrap.divide_line (+ cells.chop_cells)
                               -> divide -> rstrip_end -> containers.Lines.justify -> truncate.   *)
EXTENDS Cells, FiniteSets, TLC

Ch(c, w, id, sty) == [c |-> c, w |-> w, id |-> id, sty |-> sty]
NoSty   == <<{}, 0>>
SP      == 32
TAB     == 9
NL      == 10
DOTS    == 8230
Blank   == Ch(SP, 1, 0, NoSty)
Blanks(k) == [i \in 1..k |-> Blank]
Dots    == Ch(DOTS, 1, 0, NoSty)
OtherWs == {28, 29, 30, 31, 133, 160, 5760, 8192, 8193, 8194, 8195, 8196, 8197, 8198, 8199, 8200, 8201, 8202,
            8232, 8233, 8239, 8287, 12288}
WsCodes == {SP, TAB, NL} \cup OtherWs
IsWs(c) == c \in WsCodes
PlainWs(c) == c = SP \/ c \in OtherWs            \* whitespace that wrapping copies as it is (no tab, no newline)

Justifies == {"default", "left", "center", "right", "full"}
Overflows == {"fold", "crop", "ellipsis", "ignore"}

Max2(a, b) == IF a > b THEN a ELSE b
Sub(s, a, b) == IF a > b THEN <<>> ELSE SubSeq(s, a, b)          \* 1-based inclusive, empty when a > b

\* =============================================================================================
\* Implementation-shaped part
\* =============================================================================================

\* ---- Text.split(sep, allow_blank): k separators give k+1 pieces -------------------------------
RECURSIVE SplitAt(_, _, _, _)
SplitAt(s, sep, i, cur) ==
    IF i > Len(s) THEN <<cur>>
    ELSE IF s[i].c = sep THEN <<cur>> \o SplitAt(s, sep, i + 1, <<>>)
    ELSE SplitAt(s, sep, i + 1, Append(cur, s[i]))
SplitLines(s) == SplitAt(s, NL, 1, <<>>)                         \* split("\n", allow_blank=True)
SplitWords(s) ==                                                 \* split(" "): trailing blank piece dropped
    LET ps == SplitAt(s, SP, 1, <<>>)
    IN IF s # <<>> /\ s[Len(s)].c = SP THEN SubSeq(ps, 1, Len(ps) - 1) ELSE ps

\* ---- Text.expand_tabs: a tab becomes the spaces up to the next multiple of tab (columns are
\*      counted in characters from the start of the line) ---------------------------------------
RECURSIVE ExpandFrom(_, _, _, _)
ExpandFrom(s, i, pos, tab) ==
    IF i > Len(s) THEN <<>>
    ELSE IF s[i].c = TAB
         THEN LET fill == tab - (pos % tab) IN Blanks(fill) \o ExpandFrom(s, i + 1, pos + fill, tab)
         ELSE <<s[i]>> \o ExpandFrom(s, i + 1, pos + 1, tab)
ExpandTabs(s, tab) == IF \E i \in DOMAIN s : s[i].c = TAB THEN ExpandFrom(s, 1, 0, tab) ELSE s

\* ---- _wrap.words: successive matches of \s*\S+\s* ---------------------------------------------
RECURSIVE SkipWs(_, _)
SkipWs(s, i) == IF i <= Len(s) /\ IsWs(s[i].c) THEN SkipWs(s, i + 1) ELSE i
RECURSIVE SkipNonWs(_, _)
SkipNonWs(s, i) == IF i <= Len(s) /\ ~IsWs(s[i].c) THEN SkipNonWs(s, i + 1) ELSE i
RECURSIVE WordsFrom(_, _)
WordsFrom(s, i) ==          \* [from, bodyEnd, to]: match = s[from..to], word.rstrip() = s[from..bodyEnd]
    LET a == SkipWs(s, i) IN
    IF a > Len(s) THEN <<>>
    ELSE LET b == SkipNonWs(s, a)
             e == SkipWs(s, b)
         IN <<[from |-> i, bodyEnd |-> b - 1, to |-> e - 1]>> \o WordsFrom(s, e)

\* ---- cells.chop_cells with the deliberately wrong variants used as vacuity guards --------------
DropHeads(pieces) == [j \in DOMAIN pieces |-> IF j = 1 THEN pieces[j] ELSE Tail(pieces[j])]
Chop(word, width, pos, design) ==
    IF design = "chopdrop" THEN DropHeads(RefChop(word, width, pos)) ELSE RefChop(word, width, pos)

RECURSIVE CumLen(_, _)
CumLen(pieces, j) == IF j = 0 THEN 0 ELSE Len(pieces[j]) + CumLen(pieces, j - 1)

\* ---- _wrap.divide_line: st = [pos (line_position), divs (offsets, 0-based)] ---------------------
RECURSIVE DivideLoop(_, _, _, _, _, _, _)
DivideLoop(s, ws, k, width, fold, design, st) ==
    IF k > Len(ws) THEN st.divs
    ELSE LET wd    == ws[k]
             start == wd.from - 1
             word  == SubSeq(s, wd.from, wd.to)
             wlen  == CellLen(SubSeq(s, wd.from, wd.bodyEnd))         \* cell_len(word.rstrip())
             full  == CellLen(word)
             tooLong == IF design = "breakfit" THEN TRUE ELSE wlen > width
             nxt ==
               IF st.pos + wlen > width THEN
                  IF tooLong THEN
                     IF fold THEN
                        LET pieces == Chop(word, width, st.pos, design)
                            n == Len(pieces)
                        IN [pos  |-> CellLen(pieces[n]),
                            divs |-> st.divs \o [j \in 1..(n - 1) |-> start + CumLen(pieces, j)]]
                     ELSE [pos |-> full, divs |-> IF start # 0 THEN Append(st.divs, start) ELSE st.divs]
                  ELSE IF st.pos # 0 /\ start # 0
                       THEN [pos |-> full, divs |-> Append(st.divs, start)]
                       ELSE st
               ELSE [pos |-> st.pos + full, divs |-> st.divs]
         IN DivideLoop(s, ws, k + 1, width, fold, design, nxt)
DivideLine(s, width, fold, design) ==
    DivideLoop(s, WordsFrom(s, 1), 1, width, fold, design, [pos |-> 0, divs |-> <<>>])

\* ---- Text.divide(offsets) ---------------------------------------------------------------------
Divide(s, offs, design) ==
    LET bounds == <<0>> \o offs \o <<Len(s)>>
        plain  == [i \in 1..(Len(bounds) - 1) |-> Sub(s, bounds[i] + 1, bounds[i + 1])]
    IN IF design # "styleslip" THEN plain
       ELSE \* wrong on purpose: the first character of a continuation line takes the style of the
            \* character before the break
            [i \in DOMAIN plain |->
                IF i > 1 /\ plain[i] # <<>> /\ bounds[i] >= 1
                THEN [plain[i] EXCEPT ![1].sty = s[bounds[i]].sty] ELSE plain[i]]

\* ---- Text.rstrip / rstrip_end / right_crop -----------------------------------------------------
RECURSIVE TrailWs(_, _)
TrailWs(s, k) == IF k = 0 \/ ~IsWs(s[k].c) THEN 0 ELSE 1 + TrailWs(s, k - 1)
Rstrip(s) == SubSeq(s, 1, Len(s) - TrailWs(s, Len(s)))
RstripEnd(s, size) ==      \* (the text is measured in cells since the fix "rstrip_end measures the text in cells")
    IF CellLen(s) > size
    THEN SubSeq(s, 1, Len(s) - Min2(TrailWs(s, Len(s)), CellLen(s) - size))
    ELSE s

\* ---- cells.set_cell_size / Text.truncate --------------------------------------------------------
SetCells(s, n) ==
    LET cl == CellLen(s) IN
    IF cl = n THEN s
    ELSE IF cl < n THEN s \o Blanks(n - cl)
    ELSE LET p == PopLoop(s, Len(s), cl - n)
         IN SubSeq(s, 1, p.k) \o (IF p.excess = -1 THEN <<Blank>> ELSE <<>>)
Truncate(s, maxw, ov, pad) ==
    IF ov = "ignore" THEN s
    ELSE LET L   == CellLen(s)
             cut == IF L > maxw
                    THEN (IF ov = "ellipsis" THEN Append(SetCells(s, maxw - 1), Dots) ELSE SetCells(s, maxw))
                    ELSE s
         IN IF pad /\ L < maxw THEN cut \o Blanks(maxw - L) ELSE cut

\* ---- containers.Lines.justify -------------------------------------------------------------------
\* (a pad count that is not positive pads nothing)
PadLeft(s, n)  == IF n > 0 THEN Blanks(n) \o s ELSE s
PadRight(s, n) == IF n > 0 THEN s \o Blanks(n) ELSE s

RECURSIVE SumCells(_, _)
SumCells(ws, k) == IF k = 0 THEN 0 ELSE CellLen(ws[k]) + SumCells(ws, k - 1)

FullLine(s, width) ==        \* every gap is rebuilt from new spaces; extra spaces are dealt from the right
    LET ws    == SplitWords(s)
        n     == Len(ws) - 1
        size  == SumCells(ws, Len(ws))
        extra == IF n > 0 /\ size + n < width THEN width - size - n ELSE 0
        gap(g) == 1 + (extra \div n) + (IF n - g < extra % n THEN 1 ELSE 0)
    IN Flatten([t \in 1..(2 * n + 1) |->
                  IF t % 2 = 1 THEN ws[(t + 1) \div 2] ELSE Blanks(gap(t \div 2))])

Justify(lines, width, how, ov) ==
    CASE how = "left"   -> [i \in DOMAIN lines |-> Truncate(lines[i], width, ov, TRUE)]
      [] how = "center" -> [i \in DOMAIN lines |->
                              LET t == Truncate(Rstrip(lines[i]), width, ov, FALSE)
                                  l == PadLeft(t, (width - CellLen(t)) \div 2)
                              IN PadRight(l, width - CellLen(l))]
      [] how = "right"  -> [i \in DOMAIN lines |->
                              LET t == Truncate(Rstrip(lines[i]), width, ov, FALSE)
                              IN PadLeft(t, width - CellLen(t))]
      [] how = "full"   -> [i \in DOMAIN lines |->
                              IF i = Len(lines) THEN lines[i] ELSE FullLine(lines[i], width)]
      [] OTHER          -> lines

\* ---- Text.wrap ------------------------------------------------------------------------------------
WrapLine(line0, I, design) ==
    LET line     == ExpandTabs(line0, I.tab)
        noWrap   == I.no_wrap \/ I.ovarg = "ignore"
        pieces   == IF noWrap THEN <<line>>
                    ELSE Divide(line, DivideLine(line, I.width, I.overflow = "fold", design), design)
        stripped == [k \in DOMAIN pieces |-> RstripEnd(pieces[k], I.width)]
        just     == Justify(stripped, I.width, I.justify, I.overflow)
    IN IF design = "notrunc" THEN just
       ELSE [k \in DOMAIN just |-> Truncate(just[k], I.width, I.overflow, FALSE)]

RefWrapD(I, design) ==
    LET src == SplitLines(I.chars)
    IN Flatten([k \in DOMAIN src |-> WrapLine(src[k], I, design)])
RefWrap(I) == RefWrapD(I, "real")

\* =============================================================================================
\* Property part
\* =============================================================================================
NonWs(s)    == SelectSeq(s, LAMBDA ch : ~IsWs(ch.c))
NonWsIds(s) == LET f == NonWs(s) IN [i \in DOMAIN f |-> f[i].id]
NonWsCodes(s) == LET f == NonWs(s) IN [i \in DOMAIN f |-> f[i].c]

\* which clauses the statement makes for an input
Wrapping(I) == ~I.no_wrap /\ I.overflow # "ignore"
AppliesA(I) == Wrapping(I) /\ I.overflow = "fold"
AppliesB(I) == Wrapping(I)

\* (a) no non-whitespace character is dropped, duplicated or reordered
WhyA(I, lines) ==
    LET got  == NonWsIds(Flatten(lines))
        want == NonWsIds(I.chars)
    IN IF got = want THEN "ok"
       ELSE IF Len(got) < Len(want) THEN "a: nonws lost"
       ELSE IF Len(got) > Len(want) THEN "a: nonws added"
       ELSE "a: nonws differ"

\* (b) every produced line fits the width
WhyB(I, lines) ==
    IF \A l \in DOMAIN lines : CellLen(lines[l]) <= I.width THEN "ok" ELSE "b: line too wide"

\* (c) every output character that is an input character has that character's style; a
\*     non-whitespace output character that could not be identified (its code point occurs more
\*     than once in the input and characters were dropped) has the style of one of its namesakes
StyleOf(I, ch) ==
    IF ch.id # 0
    THEN ch.id \in DOMAIN I.chars /\ I.chars[ch.id].c = ch.c /\ I.chars[ch.id].sty = ch.sty
    ELSE IsWs(ch.c)
         \/ LET same == {j \in DOMAIN I.chars : I.chars[j].c = ch.c}
            IN same = {} \/ \E j \in same : I.chars[j].sty = ch.sty
WhyC(I, lines) ==
    IF \A l \in DOMAIN lines : \A k \in DOMAIN lines[l] : StyleOf(I, lines[l][k]) THEN "ok"
    ELSE "c: style differs"

\* (d) a word is broken only when it, with the indentation before it, is wider than the width.
\*     Words: maximal runs of non-whitespace inside one source line.
WordStarts(cs) == {a \in DOMAIN cs : ~IsWs(cs[a].c) /\ (a = 1 \/ IsWs(cs[a - 1].c))}
WordEnd(cs, a) == SkipNonWs(cs, a) - 1
RECURSIVE BackToLineStart(_, _)
BackToLineStart(cs, j) == IF j = 0 \/ cs[j].c = NL THEN j + 1 ELSE BackToLineStart(cs, j - 1)
LineStart(cs, a) == BackToLineStart(cs, a - 1)     \* first position of the source line containing a
RECURSIVE Cols(_, _, _, _, _)
Cols(cs, i, hi, col, tab) ==  \* displayed width of cs[i..hi] starting at column col (tab stops)
    IF i > hi THEN col
    ELSE Cols(cs, i + 1, hi, IF cs[i].c = TAB THEN col + tab - (col % tab) ELSE col + cs[i].w, tab)
RECURSIVE ColsCh(_, _, _, _, _, _)
ColsCh(cs, i, hi, pos, cells, tab) ==  \* the same with tab stops counted in characters (what str.expandtabs does)
    IF i > hi THEN cells
    ELSE IF cs[i].c = TAB THEN LET fill == tab - (pos % tab) IN ColsCh(cs, i + 1, hi, pos + fill, cells + fill, tab)
    ELSE ColsCh(cs, i + 1, hi, pos + 1, cells + cs[i].w, tab)
\* The statement does not say where tab stops lie when the indentation holds characters that are not one cell
\* wide (IDEOGRAPHIC SPACE, zero-width separators): either reading of "the indentation" may justify a break.
Indent(I, a) ==
    LET ls == LineStart(I.chars, a)
    IN IF \A j \in ls..(a - 1) : IsWs(I.chars[j].c)
       THEN Max2(Cols(I.chars, ls, a - 1, 0, I.tab), ColsCh(I.chars, ls, a - 1, 0, 0, I.tab))
       ELSE 0

LinesOfIds(lines) ==         \* <<id, line>> for every identified output character
    SelectSeq(Flatten([l \in DOMAIN lines |-> [k \in DOMAIN lines[l] |-> <<lines[l][k].id, l>>]]),
              LAMBDA p : p[1] # 0)
WhyD(I, lines) ==
    LET cs  == I.chars
        occ == LinesOfIds(lines)
        Broken(a) == LET b == WordEnd(cs, a)
                     IN Cardinality({occ[p][2] : p \in {q \in DOMAIN occ : occ[q][1] >= a /\ occ[q][1] <= b}}) >= 2
        Wide(a)   == Indent(I, a) + CellLen(SubSeq(cs, a, WordEnd(cs, a))) > I.width
    IN IF \A a \in WordStarts(cs) : Broken(a) => Wide(a) THEN "ok" ELSE "d: word broken though fits"

WrapWhy(I, lines) ==
    LET a == IF AppliesA(I) THEN WhyA(I, lines) ELSE "ok"
        b == IF AppliesB(I) THEN WhyB(I, lines) ELSE "ok"
        c == WhyC(I, lines)
        d == WhyD(I, lines)
    IN IF a # "ok" THEN a ELSE IF b # "ok" THEN b ELSE IF c # "ok" THEN c ELSE d
WrapOK(I, lines) == WrapWhy(I, lines) = "ok"

\* ---- identifying observed characters -------------------------------------------------------------
\* raw: lines of characters as observed (id = 0 everywhere).  Non-whitespace characters:
\*   * when the non-whitespace code points of the output are exactly those of the input, in
\*     order, the k-th one IS the k-th input one (this is the only way clause (a) can hold, and
\*     it needs no uniqueness of code points);
\*   * otherwise a character is identified only when its code point occurs exactly once in the
\*     input (drivers make code points distinct wherever the pools allow it).
\* Whitespace (spaces and the other plain whitespace characters) is identified only where the output leaves
\* no doubt:
\*   * justify # full: a run between two identified neighbours i < j of one line whose length is
\*     j - i - 1 and the input between i and j consists of the same plain whitespace characters;
\*   * justify in {default, left}: the run a line starts with, when the input has the same characters
\*     at exactly those positions before the identified first visible character.
\* Everything else keeps id 0 (created / not identifiable) and is constrained by (c) only
\* through its namesakes.
RECURSIVE Ordinals(_, _, _)
Ordinals(line, k, n) ==      \* running number of the non-whitespace characters, 0 for whitespace
    IF k > Len(line) THEN <<>>
    ELSE IF IsWs(line[k].c) THEN <<0>> \o Ordinals(line, k + 1, n)
    ELSE <<n + 1>> \o Ordinals(line, k + 1, n + 1)
RECURSIVE LineBases(_, _, _)
LineBases(raw, l, acc) ==
    IF l > Len(raw) THEN <<>>
    ELSE <<acc>> \o LineBases(raw, l + 1, acc + Len(NonWs(raw[l])))

\* line[from..to] are plain whitespace characters and the very characters cs[lo..] of the input
SameWs(cs, lo, line, from, to) ==
    lo >= 1 /\ \A q \in from..to : PlainWs(line[q].c) /\ (lo + (q - from)) \in DOMAIN cs /\ cs[lo + (q - from)].c = line[q].c

RECURSIVE PrevVis(_, _, _)
PrevVis(line, k, last) ==    \* for every position: the nearest visible position at or before it, 0 if none
    IF k > Len(line) THEN <<>>
    ELSE IF IsWs(line[k].c) THEN <<last>> \o PrevVis(line, k + 1, last)
    ELSE <<k>> \o PrevVis(line, k + 1, k)
RECURSIVE NextVis(_, _, _)
NextVis(line, k, nxt) ==     \* the nearest visible position at or after it, 0 if none (built from the right)
    IF k = 0 THEN <<>>
    ELSE IF IsWs(line[k].c) THEN Append(NextVis(line, k - 1, nxt), nxt)
    ELSE Append(NextVis(line, k - 1, k), k)

IdentifyLine(I, line, ids) ==        \* ids: identities of the non-whitespace characters (0 for ws)
    LET cs == I.chars
        pv == PrevVis(line, 1, 0)
        nv == NextVis(line, Len(line), 0)
        SpaceId(k) ==
            LET L == pv[k]
                R == nv[k]
            IN IF ~PlainWs(line[k].c) \/ R = 0 THEN 0
               ELSE IF ids[R] = 0 THEN 0
               ELSE IF L # 0 THEN
                    (IF I.justify # "full" /\ ids[L] # 0 /\ ids[R] - ids[L] = R - L
                        /\ SameWs(cs, ids[L] + 1, line, L + 1, R - 1)
                     THEN ids[L] + (k - L) ELSE 0)
               ELSE (IF I.justify \in {"default", "left"} /\ SameWs(cs, ids[R] - (R - 1), line, 1, R - 1)
                     THEN ids[R] - (R - k) ELSE 0)
    IN [k \in DOMAIN line |->
          [line[k] EXCEPT !.id = IF IsWs(line[k].c) THEN SpaceId(k) ELSE ids[k]]]

Identify(I, raw) ==
    LET cs     == I.chars
        inIds  == NonWsIds(cs)
        exact  == NonWsCodes(Flatten(raw)) = NonWsCodes(cs)
        bases  == LineBases(raw, 1, 0)
        Unique(c) == LET same == {j \in DOMAIN cs : cs[j].c = c}
                     IN IF Cardinality(same) = 1 THEN CHOOSE j \in same : TRUE ELSE 0
        IdsOf(l) == LET ord == Ordinals(raw[l], 1, bases[l])
                    IN [k \in DOMAIN raw[l] |->
                          IF ord[k] = 0 THEN 0
                          ELSE IF exact THEN inIds[ord[k]] ELSE Unique(raw[l][k].c)]
    IN [l \in DOMAIN raw |-> IdentifyLine(I, raw[l], IdsOf(l))]

\* ---- comparison with the transcription (drift, never a violation) ---------------------------------
DriftWhy(I, raw) ==
    LET ref == RefWrap(I) IN
    IF Len(ref) # Len(raw) THEN "drift: line count"
    ELSE IF \E l \in DOMAIN ref : Len(ref[l]) # Len(raw[l]) THEN "drift: line length"
    ELSE IF \E l \in DOMAIN ref : \E k \in DOMAIN ref[l] : ref[l][k].c # raw[l][k].c THEN "drift: characters"
    ELSE IF \E l \in DOMAIN ref : \E k \in DOMAIN ref[l] :
               ref[l][k].id # 0 /\ ref[l][k].sty # raw[l][k].sty THEN "drift: style"
    ELSE "ok"
=============================================================================
