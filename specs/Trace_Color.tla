--------------------------- MODULE Trace_Color ---------------------------
(* M4 judge for C18: records are SLICES of the input space together with what the real
   rich.color.Color did on every point of the slice; TLC evaluates the property part of Color.tla
   on every point and prints one verdict per record naming the first failing point and clause.

   JSON batch (TRACE_FILE):  { std, win, eight : palettes of the tree under test,
                               themes : the terminal themes given to get_truecolor (theme 1 = None = the default theme),
                               recs : [record] }
   record:
     row   <<R, G>>  - the slice is the 256 colours rgb(R, G, 0..255)          (pts = <<>>), or
     pts   <<colour, ...>> - an explicit list of source colours                (row = <<>>)
     n     number of points; point i (0-based) is Pt(rec, i)
     tab   dictionary of the distinct observations made in this slice; an observation is
             exc   "" or the class name of an exception raised by downgrade / get_ansi_codes
             same  TRUE: downgrade returned the source object itself (`is`), else c = projected result
             same2 TRUE: the second downgrade returned its argument itself, else c2 = projected result
             fg,bg get_ansi_codes(foreground=True/False) of the first result (<<>> when same: that call
                   IS the call on the source, judged through sf / sb)
     cols  per target system a column: for every point the index (1-based) into tab
     ref   the target systems for which the result is also compared with the transcription
           RefDowngradeSet (implementation-shaped part, DRIFT only; a coverage choice of the driver)
     sf,sb 5 columns each: parameter p of get_ansi_codes(foreground=True / False) of the SOURCE
           colour, Absent (-1) beyond the end of the list
     props observations of the read-only accessors for some points (implementation-shaped part, DRIFT only):
             i     the point (0-based)
             exc   "" or the class name of an exception raised by one of the accessors
             sys, isdef, sysdef   Color.system (projected name), is_default, is_system_defined (1 / 0)
             tc    get_truecolor(theme, foreground) for theme 1..Len(themes) x (True, False), as <<r,g,b>>
   In which order the four targets were asked for a point, in which of its call forms get_ansi_codes was
   called, and which earlier calls the process had already made (other points, repeated points, colours that
   are themselves results of earlier conversions) is the driver's choice of history; the verdict of a point
   does not depend on it.
   A column is stored losslessly as delta-runs <<o, len, start, step>>: points o .. o+len-1 have the
   values start, start+step, ...  (TLC checks that the runs tile 0..n-1 exactly).  Dictionary and
   runs are a lossless re-arrangement of the per-point observations; nothing is decided in Python. *)
EXTENDS Color, Json, IOUtils

Data   == JsonDeserialize(IOEnv.TRACE_FILE)
JStd   == Data.std
JWin   == Data.win
JEight == Data.eight
Recs   == Data.recs
Themes == Data.themes

VARIABLES tid, verdict
vars == <<tid, verdict>>

SysOrder == <<"standard", "windows", "eight", "truecolor">>
Range(seq) == {seq[i] : i \in 1..Len(seq)}
MinOf(S) == CHOOSE x \in S : \A y \in S : x <= y

Pt(rec, i) == IF Len(rec.row) = 2 THEN Rgb(rec.row[1], rec.row[2], i) ELSE rec.pts[i + 1]

\* ---- columns ------------------------------------------------------------------------------
RunsTile(runs, n) ==
    /\ Len(runs) >= 1 /\ runs[1][1] = 0
    /\ \A k \in 1..Len(runs) :
          /\ Len(runs[k]) = 4 /\ runs[k][2] >= 1
          /\ runs[k][1] + runs[k][2] = (IF k < Len(runs) THEN runs[k + 1][1] ELSE n)
IndexRuns(runs, hi) ==
    \A k \in 1..Len(runs) : /\ runs[k][3] \in 1..hi
                            /\ (runs[k][3] + runs[k][4] * (runs[k][2] - 1)) \in 1..hi
\* P(i, v) for every point i with its column value v
ColumnAll(runs, P(_, _)) ==
    \A k \in 1..Len(runs) : \A j \in 0..(runs[k][2] - 1) : P(runs[k][1] + j, runs[k][3] + runs[k][4] * j)
\* slow random access, used only to describe a failure
ValueAt(runs, i) ==
    LET k == CHOOSE k \in 1..Len(runs) : runs[k][1] <= i /\ i < runs[k][1] + runs[k][2]
    IN runs[k][3] + runs[k][4] * (i - runs[k][1])

Shape(rec) ==
    /\ rec.n >= 1
    /\ (Len(rec.row) = 2 /\ rec.n = 256 /\ rec.row[1] \in Byte /\ rec.row[2] \in Byte) \/ (Len(rec.row) = 0 /\ Len(rec.pts) = rec.n)
    /\ \A k \in 1..4 : RunsTile(rec.cols[SysOrder[k]], rec.n) /\ IndexRuns(rec.cols[SysOrder[k]], Len(rec.tab))
    /\ Len(rec.sf) = 5 /\ Len(rec.sb) = 5
    /\ \A p \in 1..5 : RunsTile(rec.sf[p], rec.n) /\ RunsTile(rec.sb[p], rec.n)
    /\ \A k \in 1..Len(rec.props) : rec.props[k].i \in 0..(rec.n - 1)
\* every source is a colour (a malformed Color tuple cannot be judged: its conversions are not defined)
SourcesOK(rec) == Len(rec.row) = 2 \/ \A i \in 0..(rec.n - 1) : WellFormed(Pt(rec, i))

\* ---- one point, one target ----------------------------------------------------------------
First(c, e)  == IF e.same THEN c ELSE e.c                  \* result of downgrade(c)
Second(c, e) == IF e.same2 THEN First(c, e) ELSE e.c2      \* result of downgrading that again

PointOK(c, sys, e) ==
    /\ e.exc = ""
    /\ DownOK(c, sys, First(c, e))
    /\ IdempotentOK(First(c, e), Second(c, e))
\* per dictionary entry (independent of the point): the SGR parameters of the result
EntryOK(e) == e.exc = "" => (e.same \/ (e.fg = SgrCodes(e.c, TRUE) /\ e.bg = SgrCodes(e.c, FALSE)))

PointClause(c, sys, e) ==
    IF e.exc # "" THEN "raised-" \o e.exc
    ELSE LET r1 == First(c, e)
             r2 == Second(c, e)
         IN IF ~DefaultOK(c, sys, r1) THEN "default-changed"
            ELSE IF ~GamutOK(c, sys, r1) THEN "out-of-gamut"
            ELSE IF ~UnchangedOK(c, sys, r1) THEN "changed"
            ELSE IF ~NearestOK(c, sys, r1) THEN "not-nearest"
            ELSE IF ~GreyOK(c, sys, r1) THEN "grey-off-ramp"
            ELSE IF ~IdempotentOK(r1, r2) THEN "not-idempotent"
            ELSE IF ~e.same /\ e.fg # SgrCodes(r1, TRUE) THEN "sgr-fg-result"
            ELSE IF ~e.same /\ e.bg # SgrCodes(r1, FALSE) THEN "sgr-bg-result"
            ELSE "ok"

ColourStr(c) ==
    IF c.kind = "rgb" THEN "rgb(" \o ToString(c.r) \o "," \o ToString(c.g) \o "," \o ToString(c.b) \o ")"
    ELSE IF c.kind = "default" THEN "default"
    ELSE c.kind \o "(" \o ToString(c.n) \o ")"

\* the point inside the record: "rgb(1,2,3)#17"
PointStr(rec, i) == ColourStr(Pt(rec, i)) \o "#" \o ToString(i)

\* ---- the read-only accessors (DRIFT only) ---------------------------------------------------
PropsClause(rec, q) ==
    LET c == Pt(rec, q.i)
    IN IF q.exc # "" THEN "raised-" \o q.exc
       ELSE IF q.sys # RefSystem(c) THEN "system"
       ELSE IF q.isdef # (IF RefIsDefault(c) THEN 1 ELSE 0) THEN "is_default"
       ELSE IF q.sysdef # (IF RefIsSystemDefined(c) THEN 1 ELSE 0) THEN "is_system_defined"
       ELSE IF Len(q.tc) # 2 * Len(Themes) THEN "truecolor-count"
       ELSE LET bad == {k \in 1..Len(q.tc) : q.tc[k] # RefTruecolor(c, Themes[(k + 1) \div 2], k % 2 = 1)}
            IN IF bad = {} THEN "ok"
               ELSE "truecolor-theme" \o ToString((MinOf(bad) + 1) \div 2) \o (IF MinOf(bad) % 2 = 1 THEN "-fg" ELSE "-bg")
PropsAgree(rec) == \A k \in 1..Len(rec.props) : PropsClause(rec, rec.props[k]) = "ok"
DescribeProps(rec) ==
    LET k0 == MinOf({k \in 1..Len(rec.props) : PropsClause(rec, rec.props[k]) # "ok"})
    IN "drift:" \o PointStr(rec, rec.props[k0].i) \o ">props:" \o PropsClause(rec, rec.props[k0])

\* ---- a whole slice ------------------------------------------------------------------------
TargetOK(rec, sys) ==
    ColumnAll(rec.cols[sys], LAMBDA i, v : PointOK(Pt(rec, i), sys, rec.tab[v]))
TabOK(rec) == \A t \in 1..Len(rec.tab) : EntryOK(rec.tab[t])
SourceCodesOK(rec, fg) ==
    \A p \in 1..5 : ColumnAll((IF fg THEN rec.sf ELSE rec.sb)[p], LAMBDA i, v : v = SgrCodeAt(Pt(rec, i), fg, p))
\* implementation-shaped: the real result is one the transcription produces (DRIFT otherwise)
RefAgrees(rec, sys) ==
    ColumnAll(rec.cols[sys], LAMBDA i, v : RefAccepts(Pt(rec, i), sys, First(Pt(rec, i), rec.tab[v])))

\* Verdict strings stay below 56 characters: TLC wraps longer tuples over several lines.
DescribeTarget(rec, sys) ==
    LET clause(i) == PointClause(Pt(rec, i), sys, rec.tab[ValueAt(rec.cols[sys], i)])
        i0 == MinOf({i \in 0..(rec.n - 1) : clause(i) # "ok"})
    IN PointStr(rec, i0) \o ">" \o sys \o ":" \o clause(i0)
DescribeSource(rec, fg) ==
    LET cols == IF fg THEN rec.sf ELSE rec.sb
        i0 == MinOf({i \in 0..(rec.n - 1) : \E p \in 1..5 : ValueAt(cols[p], i) # SgrCodeAt(Pt(rec, i), fg, p)})
    IN PointStr(rec, i0) \o ">-:" \o (IF fg THEN "sgr-fg-of-source" ELSE "sgr-bg-of-source")
DescribeDrift(rec, sys) ==
    LET i0 == MinOf({i \in 0..(rec.n - 1) :
                       ~RefAccepts(Pt(rec, i), sys, First(Pt(rec, i), rec.tab[ValueAt(rec.cols[sys], i)]))})
    IN "drift:" \o PointStr(rec, i0) \o ">" \o sys \o "="
         \o ColourStr(First(Pt(rec, i0), rec.tab[ValueAt(rec.cols[sys], i0)]))

Judge(rec) ==
    IF ~Shape(rec) THEN "malformed-record"
    ELSE IF ~SourcesOK(rec) THEN
         PointStr(rec, MinOf({i \in 0..(rec.n - 1) : ~WellFormed(Pt(rec, i))})) \o ">-:malformed-source"
    ELSE LET badT == {k \in 1..4 : ~(TargetOK(rec, SysOrder[k]))}
         IN IF badT # {} THEN DescribeTarget(rec, SysOrder[MinOf(badT)])
            ELSE IF ~TabOK(rec) THEN
                 \* an entry with wrong SGR parameters: report it at the first point that uses it
                 LET k0 == MinOf({k \in 1..4 : \E i \in 0..(rec.n - 1) :
                                     ~EntryOK(rec.tab[ValueAt(rec.cols[SysOrder[k]], i)])})
                 IN DescribeTarget(rec, SysOrder[k0])
            ELSE IF ~SourceCodesOK(rec, TRUE) THEN DescribeSource(rec, TRUE)
            ELSE IF ~SourceCodesOK(rec, FALSE) THEN DescribeSource(rec, FALSE)
            ELSE LET badD == {k \in 1..4 : SysOrder[k] \in Range(rec.ref) /\ ~RefAgrees(rec, SysOrder[k])}
                 IN IF badD # {} THEN DescribeDrift(rec, SysOrder[MinOf(badD)])
                    ELSE IF ~PropsAgree(rec) THEN DescribeProps(rec) ELSE "ok"

Init == tid \in 1..Len(Recs) /\ verdict = Judge(Recs[tid])
Next == UNCHANGED vars
Spec == Init /\ [][Next]_vars
Report == PrintT(<<"VERDICT", tid, verdict>>)
=============================================================================
