----------------------------- MODULE Trace_Record -----------------------------
(* M3: histories executed on a real rich.console.Console(record=True, file=StringIO, ...) and on an
   identical console that never captures (the "twin").  After every call the driver logs what was
   appended to each file, tokenised lexically (engine/ansilex.py), and for capture / export calls
   the returned string projected: capture result and styled export tokenised, plain export as
   code points, HTML with tags removed and entities decoded (html.parser, trusted) plus per
   character the id of the CSS rule / href in force.
   TLC replays every call through the property part of Record.tla (ObsWrite / ObsBegin / ObsEnd /
   ObsExportXxx), names the first clause that fails, and reports - as drift only - where the code
   leaves the design of the implementation-shaped part (captured output recorded, inline = class
   styles, file = twin outside captures, layout of simple prints).

   record:  [cfg: [cs, term, width, record], sty: chunk id -> style id (-1 = not judged),
             text: chunk id -> code points, events]
   event:   [k, exc, held, w, tw] + print: [simple, ch: <<[k: "s" | "t" | "c", id]>>] + line: [n]
            + end: [toks] + text: [clear, styles, chars, toks] + html: [clear, inline, chars, rule, link] *)
EXTENDS Record, Json, IOUtils

Traces == JsonDeserialize(IOEnv.TRACE_FILE)
VARIABLES tid, l, st
vars == <<tid, l, st>>
Tr == Traces[tid]

\* "enter" / "exit": a `with console:` block - output is held back until the block ends (then written by "exit")
WriteOps == {"print", "log", "rule", "line", "bell", "clear", "cursor", "control", "enter", "exit"}

\* ---- what the design writes for the simplest calls (drift only) -------------------------------
RECURSIVE Join(_, _)
Join(parts, i) == IF i > Len(parts) THEN <<>> ELSE (IF i > 1 THEN <<32>> ELSE <<>>) \o parts[i] \o Join(parts, i + 1)
Flush(p) == IF p = <<>> THEN <<>> ELSE Join(p, 1) \o <<10>>
\* strings are joined by a space and end with a newline; a Text is a line of its own; a Control shows nothing
RECURSIVE PP(_, _, _)
PP(ch, i, pending) ==
    IF i > Len(ch) THEN Flush(pending)
    ELSE IF ch[i].k = "s" THEN PP(ch, i + 1, Append(pending, Tr.text[ch[i].id]))
    ELSE Flush(pending) \o (IF ch[i].k = "t" THEN Tr.text[ch[i].id] \o <<10>> ELSE <<>>) \o PP(ch, i + 1, <<>>)
Layout(e) ==
    IF e.held THEN TRUE       \* inside a `with console:` block nothing is written until it ends
    ELSE
    CASE e.k = "print" /\ e.simple -> Chars(e.tw) = PP(e.ch, 1, <<>>)
      [] e.k = "line" -> Chars(e.tw) = [i \in 1..e.n |-> 10]
      [] e.k \in {"bell", "clear", "cursor", "control"} ->
            /\ Chars(e.tw) = <<>>
            /\ (~Tr.cfg.term => e.tw = <<>>)
            /\ (Tr.cfg.term => Len(e.tw) >= 1 /\ \A i \in DOMAIN e.tw : e.tw[i].k = "ctl")
      [] OTHER -> TRUE

Obs(g, e) ==
    IF e.exc # "none" THEN
        IF e.k \in {"text", "html"} /\ ~Tr.cfg.record /\ e.exc = "AssertionError" THEN Res(g, "ok", "none")   \* documented
        ELSE IF e.k \in {"text", "html", "begin", "end"} THEN Res(g, "raises-" \o e.exc, "none")
        ELSE Res(g, "ok", "call-raises-" \o e.exc)           \* failures of rendering are C14's subject
    ELSE CASE e.k \in WriteOps ->
                LET o == ObsWrite(g, Tr.cfg.cs, e.w, e.tw)
                IN IF o.d = "none" /\ ~Layout(e) THEN Res(o.g, o.v, "layout-differs") ELSE o
           [] e.k = "begin" -> ObsBegin(g, e.w)
           [] e.k = "end"   -> IF g.depth = 0 THEN Res(g, "ok", "unbalanced-end") ELSE ObsEnd(g, e.toks, e.w)
           [] e.k = "text"  -> IF e.styles THEN ObsExportStyled(g, IF Tr.cfg.nocolor THEN "none" ELSE Tr.cfg.cs, e.toks, e.clear, Tr.sty)   \* NO_COLOR: the file carries no colours, the export does - pens are not compared with the file
                               ELSE ObsExportText(g, e.chars, e.clear)
           [] e.k = "html"  -> ObsExportHtml(g, e.chars, e.rule, e.link, e.clear, e.inline)
           [] OTHER         -> Res(g, "unknown-event", "none")

At(e, what) == "step " \o ToString(l) \o " " \o e.k \o ": " \o what

Init == /\ tid \in 1..Len(Traces) /\ l = 1
        /\ st = [g |-> G0, verdict |-> "ok", drift |-> "none"]

Step == /\ l <= Len(Tr.events) /\ st.verdict = "ok"
        /\ LET e == Tr.events[l]
               o == Obs(st.g, e)
           IN st' = [g |-> o.g,
                     verdict |-> IF o.v = "ok" THEN "ok" ELSE At(e, o.v),
                     drift |-> IF st.drift = "none" /\ o.d # "none" THEN At(e, o.d) ELSE st.drift]
        /\ l' = l + 1 /\ UNCHANGED tid

Spec == Init /\ [][Step]_vars
View == <<tid, l>>
AtEnd == l = Len(Tr.events) + 1 \/ st.verdict # "ok"
Final == IF st.verdict # "ok" THEN st.verdict ELSE IF st.drift # "none" THEN "drift " \o st.drift ELSE "ok"
Report == AtEnd => PrintT(<<"VERDICT", tid, Final>>)
=============================================================================
