----------------------------- MODULE MC_Layout -----------------------------
(* M1: a builder state machine over abstract renderable trees (Layout.tla).  Trees are built
   bottom-up on a small stack, so every sub-tree of every reachable tree has itself been a stack
   entry: invariants stated on stack entries hold for every node.  Checked: sanity laws of MinW
   (at least 1; wrapping never decreases it and adds exactly the frame; groups take the maximum;
   the table law edges + dividers + SUM column minima; box = None removes exactly edges and
   dividers), of the quantifier (InScope: cropping containers shelter `ignore` leaves), and the
   design law that at W = MinW the budget handed down by the code's arithmetic (ChildBudget,
   LabelBudget) still gives every child its own MinW (non-vacuity of the oracle: the top-down
   budget threading can satisfy C01 at the structural minimum).
   M2 (MC_Layout_gen.cfg / -simulate): the same machine prints builder histories together with
   the abstract tree they build as JSON; the driver instantiates real Rich renderables from them. *)
EXTENDS Layout, Json

CONSTANTS MaxOps,    \* bound on the number of builder actions
          MaxNest,   \* bound on Nesting of a stack entry
          MaxStack,  \* stack size
          Opt        \* option sets: "full" (M2 generation), "mid" (M1 wide and shallow), "min" (M1 deep and narrow)

VARIABLES st, hist, op
vars == <<st, hist, op>>

A == <<0, 1>>   \* narrow character
Wd == <<0, 2>>  \* wide character
Sp == <<1, 1>>
NL == <<2, 0>>
TextPool == << <<A>>, <<Wd, A>>, <<A, A, Sp, A, NL, A>>, <<>> >>
Ovs == {"none", "fold", "crop", "ellipsis", "ignore"}
Rich == Opt = "full"
Tiny == Opt = "min"
LeafChoices == IF Rich THEN (DOMAIN TextPool) \X Ovs
               ELSE IF Tiny THEN {<<1, "none">>, <<2, "ignore">>}
               ELSE {<<1, "none">>, <<1, "ignore">>, <<2, "none">>, <<3, "none">>, <<4, "none">>}
TT == TRUE
FF == FALSE
TableOpts == IF Rich THEN {"none", "SQUARE"} \X BOOLEAN \X BOOLEAN \X BOOLEAN \X {<<0, 0>>, <<2, 1>>, <<1, 2>>} \X BOOLEAN
             ELSE IF Tiny THEN { <<"none", TT, FF, TT, <<2, 1>>, TT>>, <<"SQUARE", TT, TT, FF, <<1, 2>>, FF>> }
             ELSE { <<"none", TT, TT, FF, <<0, 0>>, FF>>, <<"none", TT, FF, TT, <<2, 1>>, TT>>,
                    <<"SQUARE", TT, TT, FF, <<2, 1>>, TT>>, <<"SQUARE", FF, FF, FF, <<2, 1>>, FF>>,
                    <<"SQUARE", TT, FF, TT, <<2, 1>>, FF>>, <<"SQUARE", FF, TT, TT, <<0, 0>>, TT>>,
                    <<"none", TT, TT, TT, <<2, 1>>, FF>>, <<"SQUARE", TT, TT, TT, <<1, 2>>, TT>> }

Txt(v, ov) == [k |-> "txt", cs |-> TextPool[v], ov |-> ov, nw |-> FALSE]
Blank == [k |-> "txt", cs |-> <<>>, ov |-> "none", nw |-> FALSE]
TitleCs(b) == IF b THEN <<A, Wd>> ELSE <<>>

Top == st[Len(st)]
Below == st[Len(st) - 1]
Replace(x) == [st EXCEPT ![Len(st)] = x]
Merge(x) == Append(SubSeq(st, 1, Len(st) - 2), x)
Log == hist' = Append(hist, op')
CanWrap == Len(st) >= 1 /\ Nesting(Top) < MaxNest /\ Len(hist) < MaxOps
CanPush == Len(st) < MaxStack /\ Len(hist) < MaxOps
CanMerge == Len(st) >= 2 /\ Len(hist) < MaxOps

Init == st = <<>> /\ hist = <<>> /\ op = [a |-> "init"]

NewText == \E lc \in LeafChoices :
    /\ CanPush /\ st' = Append(st, Txt(lc[1], lc[2])) /\ op' = [a |-> "NewText", v |-> lc[1], ov |-> lc[2]] /\ Log
MakeRule == \E ti \in BOOLEAN, wide \in BOOLEAN :
    /\ CanPush /\ (Tiny => (ti /\ ~wide))
    /\ st' = Append(st, [k |-> "rule", title |-> TitleCs(ti), chars |-> IF wide THEN <<Wd>> ELSE <<A>>])
    /\ op' = [a |-> "MakeRule", ti |-> ti, wide |-> wide] /\ Log
MakeBar == \E pb \in BOOLEAN :
    /\ CanPush /\ (Tiny => pb) /\ st' = Append(st, [k |-> IF pb THEN "progressbar" ELSE "bar"])
    /\ op' = [a |-> "MakeBar", pb |-> pb] /\ Log

WrapInPanel == \E pad \in (IF Rich THEN {<<0, 0>>, <<1, 1>>, <<2, 0>>} ELSE IF Tiny THEN {<<2, 1>>} ELSE {<<0, 0>>, <<2, 1>>}),
                  ti \in (IF Tiny THEN {TRUE} ELSE BOOLEAN), ex \in (IF Rich THEN BOOLEAN ELSE {TRUE}) :
    /\ CanWrap
    /\ st' = Replace([k |-> "panel", c |-> Top, pl |-> pad[1], pr |-> pad[2], w |-> 0, ex |-> ex, title |-> TitleCs(ti)])
    /\ op' = [a |-> "WrapInPanel", pl |-> pad[1], pr |-> pad[2], ti |-> ti] /\ Log
WrapInPadding == \E pad \in (IF Tiny THEN {<<1, 2>>} ELSE {<<1, 0>>, <<1, 2>>}), ex \in (IF Rich THEN BOOLEAN ELSE {TRUE}) :
    /\ CanWrap
    /\ st' = Replace([k |-> "padding", c |-> Top, pl |-> pad[1], pr |-> pad[2], ex |-> ex])
    /\ op' = [a |-> "WrapInPadding", pl |-> pad[1], pr |-> pad[2]] /\ Log
WrapInAlign == \E al \in (IF Rich THEN {"left", "center", "right"} ELSE {"center"}) :
    /\ CanWrap /\ st' = Replace([k |-> "align", c |-> Top, w |-> 0, al |-> al])
    /\ op' = [a |-> "WrapInAlign"] /\ Log
WrapInConstrain ==
    /\ CanWrap /\ ~Tiny /\ st' = Replace([k |-> "constrain", c |-> Top, w |-> 0])
    /\ op' = [a |-> "WrapInConstrain"] /\ Log
WrapInStyled == \E kind \in (IF Rich THEN {"styled", "opaque", "cast"} ELSE {"styled"}) :
    /\ CanWrap /\ ~Tiny /\ st' = Replace([k |-> kind, c |-> Top])
    /\ op' = [a |-> "WrapInStyled"] /\ Log
MakeGroup ==
    /\ CanMerge /\ Max(Nesting(Top), Nesting(Below)) < MaxNest
    /\ st' = Merge([k |-> "group", ch |-> <<Below, Top>>])
    /\ op' = [a |-> "MakeGroup"] /\ Log

Col(hdr) == [hdr |-> hdr, ftr |-> Blank, w |-> 0, minw |-> 0, maxw |-> 0, ratio |-> 0, nw |-> FALSE]
MakeTable == \E o \in TableOpts : LET box == o[1] edge == o[2] pe == o[3] cp == o[4] pad == o[5] sh == o[6] IN
    /\ CanWrap
    /\ st' = Replace([k |-> "table", cols |-> <<Col(Txt(2, "none"))>>, rows |-> << <<Top>> >>,
                      box |-> box, edge |-> edge, sh |-> sh, sf |-> FALSE, pl |-> pad[1], pr |-> pad[2],
                      pe |-> pe, cp |-> cp, w |-> 0, minw |-> 0, title |-> <<>>, caption |-> <<>>])
    /\ op' = [a |-> "MakeTable", box |-> box, edge |-> edge, pe |-> pe, cp |-> cp, pl |-> pad[1], pr |-> pad[2], sh |-> sh] /\ Log
\* the stack top becomes the cell of a new column (first row); other rows get a blank cell
AddColumn ==
    /\ CanMerge /\ Below.k = "table" /\ NCols(Below) < 3 /\ Nesting(Top) < MaxNest
    /\ st' = Merge([Below EXCEPT !.cols = Append(@, Col(Blank)),
                                 !.rows = [i \in DOMAIN @ |-> Append(@[i], IF i = 1 THEN Top ELSE Blank)]])
    /\ op' = [a |-> "AddColumn"] /\ Log
AddRow ==
    /\ CanMerge /\ Below.k = "table" /\ Len(Below.rows) < 2 /\ Nesting(Top) < MaxNest
    /\ st' = Merge([Below EXCEPT !.rows = Append(@, [j \in 1..NCols(Below) |-> IF j = 1 THEN Top ELSE Blank])])
    /\ op' = [a |-> "AddRow"] /\ Log
MakeColumns ==
    /\ CanWrap /\ st' = Replace([k |-> "columns", ch |-> <<Top>>, w |-> 0, title |-> <<>>])
    /\ op' = [a |-> "MakeColumns"] /\ Log
AddItem ==
    /\ CanMerge /\ Below.k = "columns" /\ Len(Below.ch) < 3 /\ Nesting(Top) < MaxNest
    /\ st' = Merge([Below EXCEPT !.ch = Append(@, Top)])
    /\ op' = [a |-> "AddItem"] /\ Log
Node(x) == [k |-> "tree", label |-> x, ch |-> <<>>, exp |-> TRUE]
\* the stack top becomes the label of a new tree (optionally with one blank child already)
MakeTree == \E exp \in BOOLEAN, kid \in BOOLEAN :
    /\ CanWrap
    /\ st' = Replace([k |-> "tree", label |-> Top, ch |-> IF kid THEN <<Node(Blank)>> ELSE <<>>, exp |-> exp])
    /\ op' = [a |-> "MakeTree", exp |-> exp, kid |-> kid] /\ Log
AddChild ==
    /\ CanMerge /\ Below.k = "tree" /\ Len(Below.ch) < 2 /\ Nesting(Top) < MaxNest
    /\ st' = Merge([Below EXCEPT !.ch = Append(@, Node(Top))])
    /\ op' = [a |-> "AddChild"] /\ Log
AddGrandChild ==
    /\ CanMerge /\ Below.k = "tree" /\ Len(Below.ch) >= 1 /\ Nesting(Top) < MaxNest
    /\ Len(Below.ch[Len(Below.ch)].ch) < 2
    /\ st' = Merge([Below EXCEPT !.ch[Len(Below.ch)].ch = Append(@, Node(Top))])
    /\ op' = [a |-> "AddGrandChild"] /\ Log

Next == NewText \/ MakeRule \/ MakeBar \/ WrapInPanel \/ WrapInPadding \/ WrapInAlign \/ WrapInConstrain
        \/ WrapInStyled \/ MakeGroup \/ MakeTable \/ AddColumn \/ AddRow \/ MakeColumns \/ AddItem
        \/ MakeTree \/ AddChild \/ AddGrandChild
Spec == Init /\ [][Next]_vars

\* ---- invariants over stack entries (= over every node, see the module comment) -------------
All(P(_)) == \A i \in DOMAIN st : P(st[i])

MinWPositive == All(LAMBDA t : MinW(t) >= 1)
TableLawAt(t) == t.k = "table" =>
    /\ MinW(t) = Edges(t) + Dividers(t) + SeqSum([j \in DOMAIN t.cols |-> PadW(t, j) + ColMin(t, j)])
    /\ MinW(t) >= Edges(t) + Dividers(t) + NCols(t)
    /\ MinW([t EXCEPT !.box = "none"]) = MinW(t) - Edges(t) - Dividers(t)
    /\ MinW(t) = Overhead(t) + SeqSum([j \in DOMAIN t.cols |-> ColMin(t, j)])
    /\ MinW([t EXCEPT !.pe = TRUE]) >= MinW(t)
    /\ MinW([t EXCEPT !.cp = FALSE]) >= MinW(t)
TableLaw == All(TableLawAt)
\* at W = MinW the code's budget arithmetic leaves every child its own minimum (exactly, for frames)
BudgetLawAt(t) ==
    /\ HasFixedBudget(t) => ChildBudget(t, MinW(t)) >= MinW(t.c)
    /\ (t.k \in {"panel", "padding"} => ChildBudget(t, MinW(t)) = MinW(t.c))
RECURSIVE TreeBudgetOK(_, _, _)
TreeBudgetOK(t, W, d) == /\ LabelBudget(W, d) >= MinW(t.label)
                         /\ (t.exp => \A i \in DOMAIN t.ch : TreeBudgetOK(t.ch[i], W, d + 1))
BudgetLaw == All(LAMBDA t : BudgetLawAt(t) /\ (t.k = "tree" => TreeBudgetOK(t, MinW(t), 0)))
\* a collapsed tree needs no more than the expanded one
CollapseLaw == All(LAMBDA t : t.k = "tree" => MinW([t EXCEPT !.exp = FALSE]) <= MinW([t EXCEPT !.exp = TRUE]))
ASSUME FitsSane == Fits(1, <<>>) /\ Fits(3, <<3, 0>>) /\ ~Fits(3, <<1, 4>>)
ASSUME TextSane == /\ WidestLine(TextPool[3]) = 4 /\ WidestWord(TextPool[3]) = 2 /\ NumLines(TextPool[3]) = 2
            /\ WidestLine(TextPool[2]) = 3 /\ ~HasWord(<<Sp, NL>>) /\ WidestLine(<<Sp, NL, Sp>>) = 1

\* ---- action properties: what each builder step does to MinW and to the quantifier ----------
act == op'.a
NewTop == st'[Len(st')]
StepLaw ==
    /\ (act \in {"WrapInPanel", "WrapInPadding", "WrapInAlign", "WrapInConstrain", "WrapInStyled", "MakeTable",
               "MakeColumns", "MakeTree"} => MinW(NewTop) >= MinW(Top))
    /\ (act = "WrapInPanel" => MinW(NewTop) = MinW(Top) + 2 + op'.pl + op'.pr)
    /\ (act = "WrapInPadding" => MinW(NewTop) = MinW(Top) + op'.pl + op'.pr)
    /\ (act \in {"WrapInAlign", "WrapInConstrain", "WrapInStyled", "MakeColumns"} => MinW(NewTop) = MinW(Top))
    /\ (act = "MakeTree" => MinW(NewTop) = IF op'.exp /\ op'.kid THEN Max(MinW(Top), 5) ELSE MinW(Top))
    /\ (act = "MakeGroup" => MinW(NewTop) = Max(MinW(Top), MinW(Below)))
    /\ (act = "MakeTable" => MinW(NewTop) = Overhead(NewTop) + Max(MinW(Top), IF op'.sh THEN 2 ELSE 1))
    /\ (act = "AddColumn" => MinW(NewTop) >= MinW(Below) + MinW(Top))
    /\ (act \in {"AddRow", "AddItem"} => MinW(NewTop) = Max(MinW(NewTop), Max(MinW(Below), MinW(Top))))
    /\ (act = "AddChild" => MinW(NewTop) >= MinW(Below) /\ (Below.exp => MinW(NewTop) >= 4 + MinW(Top)))
    /\ (act = "AddGrandChild" => MinW(NewTop) >= MinW(Below) /\ (Below.exp => MinW(NewTop) >= 8 + MinW(Top)))
ScopeLaw ==
    /\ (act \in {"WrapInPanel", "WrapInPadding", "MakeTable", "MakeColumns", "MakeTree"} => InScope(NewTop))
    /\ (act \in {"WrapInAlign", "WrapInConstrain", "WrapInStyled"} => InScope(NewTop) = InScope(Top))
    /\ (act = "MakeGroup" => InScope(NewTop) = (InScope(Top) /\ InScope(Below)))
    /\ (act = "NewText" => InScope(NewTop) = (op'.ov # "ignore"))
StepLawP == [][StepLaw]_vars
ScopeLawP == [][ScopeLaw]_vars

View == st
\* M2: print every history (with the tree it builds) that leaves exactly one tree on the stack
Emit == (Len(st) = 1 /\ Len(hist) >= 1) => PrintT(ToJson([beh |-> hist, tree |-> st[1]]))
=============================================================================
