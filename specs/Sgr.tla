-------------------------------- MODULE Sgr --------------------------------
(* The pen part of the terminal model (C03 / C19): what the SGR parameters and OSC 8 mean on
   an xterm-style terminal, independent of Rich's own encoder / decoder.

   pen == [attrs: set of attribute numbers 1..13, fg, bg: colour, link: link id (0 = none)]
   attribute numbers follow the SGR "on" codes: 1 bold 2 dim 3 italic 4 underline 5 blink
   6 blink2 7 reverse 8 conceal 9 strike 10 underline2 (SGR 21) 11 frame (51) 12 encircle (52)
   13 overline (53).
   colour == [k, a, b, c]: "def" | "std" a (0..15; bright colours are 8..15; an indexed colour
   below 16 is the same colour) | "idx" a (16..255) | "rgb" a b c                              *)
EXTENDS Naturals, Integers, Sequences, FiniteSets

Def == [k |-> "def", a |-> 0, b |-> 0, c |-> 0]
Std(n) == [k |-> "std", a |-> n, b |-> 0, c |-> 0]
Idx(n) == IF n < 16 THEN Std(n) ELSE [k |-> "idx", a |-> n, b |-> 0, c |-> 0]
Rgb(r, g, b) == [k |-> "rgb", a |-> r, b |-> g, c |-> b]
NullPen == [attrs |-> {}, fg |-> Def, bg |-> Def, link |-> 0]

\* one parameter list, consumed left to right (38 / 48 take their arguments)
RECURSIVE SgrFrom(_, _, _)
SgrFrom(pen, ps, i) ==
    IF i > Len(ps) THEN pen
    ELSE LET p == ps[i] IN
      IF p = 0 THEN SgrFrom([NullPen EXCEPT !.link = pen.link], ps, i + 1)   \* the hyperlink is not an SGR attribute
      ELSE IF p \in 1..9 THEN SgrFrom([pen EXCEPT !.attrs = @ \cup {p}], ps, i + 1)
      ELSE IF p = 21 THEN SgrFrom([pen EXCEPT !.attrs = @ \cup {10}], ps, i + 1)
      ELSE IF p = 22 THEN SgrFrom([pen EXCEPT !.attrs = @ \ {1, 2}], ps, i + 1)
      ELSE IF p = 23 THEN SgrFrom([pen EXCEPT !.attrs = @ \ {3}], ps, i + 1)
      ELSE IF p = 24 THEN SgrFrom([pen EXCEPT !.attrs = @ \ {4, 10}], ps, i + 1)
      ELSE IF p = 25 THEN SgrFrom([pen EXCEPT !.attrs = @ \ {5, 6}], ps, i + 1)
      ELSE IF p \in 27..29 THEN SgrFrom([pen EXCEPT !.attrs = @ \ {p - 20}], ps, i + 1)
      ELSE IF p \in 30..37 THEN SgrFrom([pen EXCEPT !.fg = Std(p - 30)], ps, i + 1)
      ELSE IF p \in 90..97 THEN SgrFrom([pen EXCEPT !.fg = Std(p - 90 + 8)], ps, i + 1)
      ELSE IF p = 39 THEN SgrFrom([pen EXCEPT !.fg = Def], ps, i + 1)
      ELSE IF p \in 40..47 THEN SgrFrom([pen EXCEPT !.bg = Std(p - 40)], ps, i + 1)
      ELSE IF p \in 100..107 THEN SgrFrom([pen EXCEPT !.bg = Std(p - 100 + 8)], ps, i + 1)
      ELSE IF p = 49 THEN SgrFrom([pen EXCEPT !.bg = Def], ps, i + 1)
      ELSE IF p \in {38, 48} THEN
           IF i + 2 <= Len(ps) /\ ps[i + 1] = 5
           THEN SgrFrom(IF p = 38 THEN [pen EXCEPT !.fg = Idx(ps[i + 2])] ELSE [pen EXCEPT !.bg = Idx(ps[i + 2])], ps, i + 3)
           ELSE IF i + 4 <= Len(ps) /\ ps[i + 1] = 2
           THEN SgrFrom(IF p = 38 THEN [pen EXCEPT !.fg = Rgb(ps[i + 2], ps[i + 3], ps[i + 4])]
                        ELSE [pen EXCEPT !.bg = Rgb(ps[i + 2], ps[i + 3], ps[i + 4])], ps, i + 5)
           ELSE pen                                     \* malformed: the rest is ignored
      ELSE IF p \in 51..53 THEN SgrFrom([pen EXCEPT !.attrs = @ \cup {p - 40}], ps, i + 1)
      ELSE IF p = 54 THEN SgrFrom([pen EXCEPT !.attrs = @ \ {11, 12}], ps, i + 1)
      ELSE IF p = 55 THEN SgrFrom([pen EXCEPT !.attrs = @ \ {13}], ps, i + 1)
      ELSE SgrFrom(pen, ps, i + 1)                      \* unknown parameters are ignored
\* ESC[m (no parameter) is a reset
Sgr(pen, ps) == IF ps = <<>> THEN [NullPen EXCEPT !.link = pen.link] ELSE SgrFrom(pen, ps, 1)

\* the parameters of a list that select a colour (30-49, 90-107, and the arguments of 38 / 48)
RECURSIVE ColourParams(_, _)
ColourParams(ps, i) ==
    IF i > Len(ps) THEN 0
    ELSE IF ps[i] \in {38, 48} THEN 1 + (IF i + 1 <= Len(ps) /\ ps[i + 1] = 5 THEN ColourParams(ps, i + 3)
                                          ELSE IF i + 1 <= Len(ps) /\ ps[i + 1] = 2 THEN ColourParams(ps, i + 5) ELSE 0)
    ELSE IF ps[i] \in 30..49 \/ ps[i] \in 90..107 THEN 1 + ColourParams(ps, i + 1)
    ELSE ColourParams(ps, i + 1)

\* a stream of events  <<"c", cp>> | <<"sgr", params>> | <<"nl">> | <<"link", id>>  shown as lines of <<cp, pen>>
\* decoding state: [pen, line (current, unfinished), lines (finished)]
DecInit == [pen |-> NullPen, line |-> <<>>, lines |-> <<>>]
DecStep(d, e) ==
    CASE e[1] = "c"    -> [d EXCEPT !.line = Append(@, <<e[2], d.pen>>)]
      [] e[1] = "sgr"  -> [d EXCEPT !.pen = Sgr(@, e[2])]
      [] e[1] = "link" -> [d EXCEPT !.pen.link = e[2]]
      [] e[1] = "nl"   -> [d EXCEPT !.lines = Append(@, d.line), !.line = <<>>]
      [] OTHER         -> d
RECURSIVE Decode(_, _)
Decode(d, es) == IF es = <<>> THEN d ELSE Decode(DecStep(d, Head(es)), Tail(es))
=============================================================================
