---------------------------- MODULE Trace_Layout ----------------------------
(* M3 judge for C01 and C09.  A record is an abstract tree (the construction recipe the driver
   built the real Rich renderable from) plus what the real code did with it:

     p = "C01":  rs = sequence of <<W, distinct line cell widths, number of lines>>, one per
                 Console.render of the renderable with W cells available (every W the driver
                 rendered, also below the minimum); hb = <<W, budget the root container handed to
                 its child>> (implementation-shaped part ChildBudget; a difference is reported
                 as " d=W" = DRIFT, never a violation).  TLC computes MinW(tree) and demands
                 Fits(W, widths) for every W >= MinW; trees outside the quantifier give "oos".
     p = "C09":  ms = sequence of <<avail, min, max, widths at max, lines at max, widths at min,
                 lines at min>>: Measurement.get(console, renderable, avail) and the renders with
                 exactly max / min cells available (empty when the value is < 1).
   Verdicts name the failing clause and the width: "overflow W=3 w=4 m=3", "bounds a=..",
   "max-overflow a=..", "min-overflow a=..", "text-max a=..", "text-min a=..", "wrapped a=..". *)
EXTENDS Layout, Json, IOUtils

Recs == JsonDeserialize(IOEnv.TRACE_FILE)

VARIABLE tid
R == Recs[tid]
S(n) == ToString(n)

\* smallest index satisfying P, 0 if none
First(n, P(_)) == LET bad == {i \in 1..n : P(i)} IN
                  IF bad = {} THEN 0 ELSE CHOOSE i \in bad : \A j \in bad : i <= j

C01Verdict ==
    LET t == R.tree
        m == MinW(t)
        Bad(i) == R.rs[i][1] >= m /\ ~Fits(R.rs[i][1], R.rs[i][2])
        i == First(Len(R.rs), Bad)
        judged == Cardinality({j \in DOMAIN R.rs : R.rs[j][1] >= m})
        \* DRIFT channel (never a violation): the budget the real container handed to its child differs from ChildBudget
        hb == IF "hb" \in DOMAIN R THEN R.hb ELSE <<>>
        Off(h) == HasFixedBudget(t) /\ hb[h][2] # ChildBudget(t, hb[h][1])
        d == First(Len(hb), Off)
        drift == IF d = 0 THEN "" ELSE " d=" \o S(hb[d][1])
    IN IF ~InScopeEnv(t) THEN "oos m=" \o S(m) \o drift
       ELSE IF i = 0 THEN "ok m=" \o S(m) \o " j=" \o S(judged) \o drift
       ELSE "overflow W=" \o S(R.rs[i][1]) \o " w=" \o S(Widest(R.rs[i][2])) \o " m=" \o S(m)

C09Verdict ==
    LET t == R.tree
        m == MinW(t)
        in == InScopeEnv(t)
        isTxt == t.k = "txt"
        n == Len(R.ms)
        e(i) == R.ms[i]
        bBounds(i) == ~BoundsOK(e(i)[1], e(i)[2], e(i)[3])
        bMax(i) == in /\ e(i)[3] >= m /\ ~Fits(e(i)[3], e(i)[4])
        bMin(i) == in /\ e(i)[2] >= m /\ ~Fits(e(i)[2], e(i)[6])
        bTMax(i) == isTxt /\ ~TextMaxOK(t.cs, e(i)[1], e(i)[3])
        bTMin(i) == isTxt /\ ~TextMinOK(t.cs, e(i)[1], e(i)[2])
        bWrap(i) == isTxt /\ DefaultEnd(t) /\ ~TextNotWrapped(t.cs, e(i)[1], e(i)[3], e(i)[5])
        i1 == First(n, bBounds)
        i2 == First(n, bMax)
        i3 == First(n, bMin)
        i4 == First(n, bTMax)
        i5 == First(n, bTMin)
        i6 == First(n, bWrap)
        judged == Cardinality({j \in 1..n : in /\ (e(j)[3] >= m \/ e(j)[2] >= m)})
    IN IF i1 # 0 THEN "bounds a=" \o S(e(i1)[1]) \o " min=" \o S(e(i1)[2]) \o " max=" \o S(e(i1)[3])
       ELSE IF i2 # 0 THEN "max-overflow a=" \o S(e(i2)[1]) \o " max=" \o S(e(i2)[3]) \o " w=" \o S(Widest(e(i2)[4])) \o " m=" \o S(m)
       ELSE IF i3 # 0 THEN "min-overflow a=" \o S(e(i3)[1]) \o " min=" \o S(e(i3)[2]) \o " w=" \o S(Widest(e(i3)[6])) \o " m=" \o S(m)
       ELSE IF i4 # 0 THEN "text-max a=" \o S(e(i4)[1]) \o " max=" \o S(e(i4)[3]) \o " want=" \o S(Min(Max(e(i4)[1], 0), WidestLine(t.cs)))
       ELSE IF i5 # 0 THEN "text-min a=" \o S(e(i5)[1]) \o " min=" \o S(e(i5)[2]) \o " want=" \o S(Min(Max(e(i5)[1], 0), WidestWord(t.cs)))
       ELSE IF i6 # 0 THEN "wrapped a=" \o S(e(i6)[1]) \o " max=" \o S(e(i6)[3]) \o " n=" \o S(e(i6)[5]) \o " want=" \o S(NumLines(t.cs))
       ELSE (IF in THEN "ok m=" ELSE "oos m=") \o S(m) \o " j=" \o S(judged)

Verdict == IF R.p = "C01" THEN C01Verdict ELSE C09Verdict

Init == tid \in 1..Len(Recs)
Next == UNCHANGED tid
Report == PrintT(<<"VERDICT", tid, Verdict>>)
=============================================================================
