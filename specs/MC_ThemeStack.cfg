CONSTANTS
  Names = {"n1", "n2", "d1", "q1"}
  GenDepth = 3
  DefaultNames = {"d1"}
  Sids = {"s1", "s2"}
SPECIFICATION Spec
VIEW View
INVARIANT DesignAgrees
INVARIANT BaseStays
INVARIANT SavedAligned
PROPERTY PopRestoresP
PROPERTY PopBaseHarmless
CHECK_DEADLOCK FALSE
