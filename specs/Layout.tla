------------------------------- MODULE Layout -------------------------------
(* SHARED module (C01, C09; C07/C08 reuse the tree vocabulary and MinW).

   Abstract renderable trees, the "structural minimum" MinW of the statement of C01, the
   acceptance relations Fits (C01) and MeasureSound / TextMeasureOK (C09), and - as the
   implementation-shaped part - the width budget a container hands to its child (ChildBudget).

   A tree is a record with a kind field k; only the fields of its kind are ever accessed
   (JSON records carry further construction-only fields that this module ignores):

     txt         cs (content: sequence of <<class, cell width>>, one per character),
                 ov ("none","fold","crop","ellipsis","ignore"), nw (no_wrap),
                 optional: end ("nl" | "none" | "sp": the text's `end` string; absent = "nl")
     (root only, optional)  env: the console / options the recipe is rendered under; read here:
                 env.oov (overflow handed in through ConsoleOptions, "none" = unset), env.onw (no_wrap)
     panel       c, pl, pr (horizontal padding), w (width option, 0 = None), ex (expand), title (cs)
     padding     c, pl, pr, ex
     align       c, w (0 = None)
     constrain   c, w (0 = None)
     styled      c                    opaque c (renderable without __rich_measure__)
     cast        c (object with __rich__)
     group       ch (children)
     table       cols (seq of [hdr, ftr : tree, w, minw, maxw, ratio : Nat (0 = None), nw : BOOLEAN]),
                 rows (seq of seq of tree, rectangular), box ("none" or a box name), edge, sh, sf,
                 pl, pr (cell padding), pe (pad_edge), cp (collapse_padding), w, minw (0 = None),
                 title, caption (cs)
     columns     ch, w (0 = None), title (cs)
     tree        label (tree), ch (seq of tree nodes), exp (expanded)
     rule        title (cs), chars (cs)
     bar, progressbar   (no field is needed)

   MinW - the structural minimum "borders and padding plus room for one character (two if
   double-width characters occur) in every innermost column":

     txt          1, or 2 if a character of width 2 occurs in it
     panel        2 + pl + pr + MinW(c)          (a title is not a column: it does not raise MinW)
     padding      pl + pr + MinW(c)
     align, constrain, styled, opaque, cast      MinW(c)
     group        max over children (1 when empty)
     table        edges + dividers + SUM_j (PadL(j) + PadR(j) + ColMin(j)), where
                  edges = 2 if box and show_edge, dividers = ncols-1 if box,
                  PadL/PadR = the cell padding the options ask for (collapse_padding: left
                  becomes max(0, left-right) except in the first column; pad_edge = FALSE: no
                  left padding in the first, no right padding in the last column),
                  ColMin(j) = max over the cells shown in column j (header if show_header,
                  footer if show_footer, every row) of MinW(cell), at least 1
     columns      max over the items (1 when empty): Columns chooses how many columns to lay
                  out, the narrowest arrangement is a single column without padding
     tree         max over displayed nodes of 4 * depth + MinW(label); children of a node that is
                  not expanded are not displayed
     rule         1 (2 if a wide character occurs in its characters or title), + 4 with a title
     bar, progressbar   1

   Conservative choices (statement silent => the LARGER minimum, i.e. less coverage, no alarm):
     C1  a table / columns title or caption is treated as one more text stacked above / below:
         MinW is at least 2 when it contains a wide character;
     C2  a rule with a title needs 4 more cells (the code pads the title with a space and one
         rule character per side);
     C3  for a rule, wide characters in the title OR in the rule characters make the base 2;
     C4  a width option (Panel.width, Align.width, Constrain.width) smaller than the structural
         minimum of what it constrains is not a valid configuration: InScope is FALSE;
     C5  tables with a column width / min_width / no_wrap or Table.width / Table.min_width, and
         Columns with a width, are not "free to wrap": InScope is FALSE;
     C6  a text leaf with overflow "ignore" or no_wrap is in scope only beneath a container that
         crops what it frames (panel, padding, table cell, columns item, tree label);
     C7  the structural minimum of a text that contains no character at all is still 1;
     C8  Console.render does not cast twice: cast(cast(x)) is not a renderable and is never built.
   Exact where the statement speaks: padding/borders are exactly those the options ask for
   (pad_edge, collapse_padding, show_edge, box = None are honoured, not over-approximated), a
   panel title does not count (not a column), collapsed tree nodes do not count (not rendered). *)
EXTENDS Naturals, Integers, Sequences, FiniteSets, TLC

Max(a, b) == IF a > b THEN a ELSE b
Min(a, b) == IF a < b THEN a ELSE b

RECURSIVE SeqMax(_)
SeqMax(s) == IF s = <<>> THEN 0 ELSE Max(Head(s), SeqMax(Tail(s)))
RECURSIVE SeqSum(_)
SeqSum(s) == IF s = <<>> THEN 0 ELSE Head(s) + SeqSum(Tail(s))

\* ---- text content -----------------------------------------------------------------------
ClsChar == 0    \* anything that is not white space
ClsSpace == 1   \* white space that separates words but not lines
ClsNL == 2      \* line feed
ClsTab == 3     \* tab (measurement of such text is outside C09's exactness clause)
ClsOther == 4   \* characters Text removes when it is constructed (CR, VT, FF): never in a recipe; outside, like tabs.
                \* The characters only str.splitlines() takes for line boundaries (FS GS RS NEL LS PS) are white space of
                \* width 0 inside a line for Rich (Text.split("\n"), Text.wrap): the driver sends them as <<ClsSpace, 0>>

HasWide(cs) == \E i \in DOMAIN cs : cs[i][2] = 2
LeafMin(cs) == IF HasWide(cs) THEN 2 ELSE 1
TitleMin(cs) == IF Len(cs) = 0 THEN 0 ELSE LeafMin(cs)

\* widest run of characters not containing a class in `stops` (cell widths summed)
RECURSIVE WidestRun(_, _, _, _, _)
WidestRun(cs, stops, i, cur, best) ==
    IF i > Len(cs) THEN Max(best, cur)
    ELSE IF cs[i][1] \in stops THEN WidestRun(cs, stops, i + 1, 0, Max(best, cur))
    ELSE WidestRun(cs, stops, i + 1, cur + cs[i][2], best)
WidestLine(cs) == WidestRun(cs, {ClsNL}, 1, 0, 0)
WidestWord(cs) == WidestRun(cs, {ClsNL, ClsSpace}, 1, 0, 0)
NumLines(cs) == 1 + Cardinality({i \in DOMAIN cs : cs[i][1] = ClsNL})
HasWord(cs) == \E i \in DOMAIN cs : cs[i][1] = ClsChar
Plain(cs) == \A i \in DOMAIN cs : cs[i][1] \in {ClsChar, ClsSpace, ClsNL}     \* "text without tabs"

\* ---- structural minimum ------------------------------------------------------------------
Wrappers == {"align", "constrain", "styled", "opaque", "cast"}
Kinds == {"txt", "panel", "padding", "group", "table", "columns", "tree", "rule", "bar", "progressbar"} \cup Wrappers

HasBox(t) == t.box # "none"
NCols(t) == Len(t.cols)
Edges(t) == IF HasBox(t) /\ t.edge THEN 2 ELSE 0
Dividers(t) == IF HasBox(t) /\ NCols(t) > 0 THEN NCols(t) - 1 ELSE 0
PadL(t, j) == IF ~t.pe /\ j = 1 THEN 0
              ELSE IF t.cp /\ j > 1 THEN (IF t.pl > t.pr THEN t.pl - t.pr ELSE 0)
              ELSE t.pl
PadR(t, j) == IF ~t.pe /\ j = NCols(t) THEN 0 ELSE t.pr
PadW(t, j) == PadL(t, j) + PadR(t, j)

RECURSIVE MinW(_), TreeMin(_, _), ColMin(_, _)
ColMin(t, j) ==
    Max(1, Max(Max(IF t.sh THEN MinW(t.cols[j].hdr) ELSE 0, IF t.sf THEN MinW(t.cols[j].ftr) ELSE 0),
               SeqMax([i \in DOMAIN t.rows |-> MinW(t.rows[i][j])])))
TableStruct(t) == Edges(t) + Dividers(t) + SeqSum([j \in DOMAIN t.cols |-> PadW(t, j) + ColMin(t, j)])
TreeMin(t, d) == Max(4 * d + MinW(t.label),
                     IF t.exp THEN SeqMax([i \in DOMAIN t.ch |-> TreeMin(t.ch[i], d + 1)]) ELSE 0)
MinW(t) ==
    CASE t.k = "txt"      -> LeafMin(t.cs)
      [] t.k = "panel"    -> 2 + t.pl + t.pr + MinW(t.c)
      [] t.k = "padding"  -> t.pl + t.pr + MinW(t.c)
      [] t.k \in Wrappers -> MinW(t.c)
      [] t.k = "group"    -> Max(1, SeqMax([i \in DOMAIN t.ch |-> MinW(t.ch[i])]))
      [] t.k = "table"    -> Max(Max(1, TableStruct(t)), Max(TitleMin(t.title), TitleMin(t.caption)))
      [] t.k = "columns"  -> Max(Max(1, SeqMax([i \in DOMAIN t.ch |-> MinW(t.ch[i])])), TitleMin(t.title))
      [] t.k = "tree"     -> TreeMin(t, 0)
      [] t.k = "rule"     -> (IF HasWide(t.chars) \/ HasWide(t.title) THEN 2 ELSE 1)
                             + (IF Len(t.title) > 0 THEN 4 ELSE 0)
      [] t.k \in {"bar", "progressbar"} -> 1

\* frame cells a container adds around its child (C07/C08 reuse)
Overhead(t) ==
    CASE t.k = "panel"   -> 2 + t.pl + t.pr
      [] t.k = "padding" -> t.pl + t.pr
      [] t.k = "table"   -> Edges(t) + Dividers(t) + SeqSum([j \in DOMAIN t.cols |-> PadW(t, j)])
      [] OTHER -> 0

\* ---- the quantifier of C01: which trees are inside ----------------------------------------
FreeTable(t) == /\ t.w = 0 /\ t.minw = 0
                /\ \A j \in DOMAIN t.cols : t.cols[j].w = 0 /\ t.cols[j].minw = 0 /\ ~t.cols[j].nw
OptOK(w, need) == w = 0 \/ w >= need

\* C9 (audit-1): the caller may hand overflow / no_wrap in from outside (Console.print(overflow=, no_wrap=),
\* ConsoleOptions.update): e = [ov, nw].  A text leaf without an overflow / no_wrap of its own takes them
\* wherever no container resets them; on the way to a leaf that is NOT beneath a cropping container the
\* options travel unchanged (align, constrain, styled, opaque, cast, group only narrow the width), so such a
\* leaf is as loose as the options make it.  Beneath a cropping container the leaf is in scope either way (C6).
\* C10 (audit-1): a text with an `end` other than the line feed (optional field end: "nl" | "none" | "sp") asks
\* for its last line to be continued / extended: in scope only beneath a cropping container, like C6.
NoEnv == [ov |-> "none", nw |-> FALSE]
DefaultEnd(t) == "end" \notin DOMAIN t \/ t.end = "nl"
LooseLeaf(t, e) == \/ t.ov = "ignore" \/ (t.ov = "none" /\ e.ov = "ignore")
                   \/ t.nw \/ e.nw
                   \/ ~DefaultEnd(t)
\* a table / columns title or caption is one more text stacked above / below (C1): it is rendered with the
\* options the table received, so it is as loose as they make it
LooseTitle(cs, e) == Len(cs) > 0 /\ (e.ov = "ignore" \/ e.nw)
\* rich.align.VerticalCenter (sent as k = "styled" with the optional field impl = "vcenter": transparent for MinW and for the
\* budget) renders its child with Console.render_lines: it crops what it frames, like a panel (C6)
IsVC(t) == t.k = "styled" /\ "impl" \in DOMAIN t /\ t.impl = "vcenter"
RECURSIVE ScopeE(_, _, _)
ScopeE(t, cropped, e) ==
    CASE t.k = "txt"       -> LooseLeaf(t, e) => cropped
      [] t.k = "panel"     -> OptOK(t.w, MinW(t)) /\ ScopeE(t.c, TRUE, e)
      [] t.k = "padding"   -> ScopeE(t.c, TRUE, e)
      [] t.k \in {"align", "constrain"} -> OptOK(t.w, MinW(t.c)) /\ ScopeE(t.c, cropped, e)
      [] t.k \in {"styled", "opaque", "cast"} -> ScopeE(t.c, cropped \/ IsVC(t), e)
      [] t.k = "group"     -> \A i \in DOMAIN t.ch : ScopeE(t.ch[i], cropped, e)
      [] t.k = "table"     -> /\ FreeTable(t)
                              /\ (LooseTitle(t.title, e) \/ LooseTitle(t.caption, e)) => cropped
                              /\ \A j \in DOMAIN t.cols : ScopeE(t.cols[j].hdr, TRUE, e) /\ ScopeE(t.cols[j].ftr, TRUE, e)
                              /\ \A i \in DOMAIN t.rows : \A j \in DOMAIN t.rows[i] : ScopeE(t.rows[i][j], TRUE, e)
      [] t.k = "columns"   -> /\ t.w = 0 /\ (LooseTitle(t.title, e) => cropped)
                              /\ \A i \in DOMAIN t.ch : ScopeE(t.ch[i], TRUE, e)
      [] t.k = "tree"      -> ScopeE(t.label, TRUE, e) /\ \A i \in DOMAIN t.ch : ScopeE(t.ch[i], TRUE, e)
      [] OTHER -> TRUE
Scope(t, cropped) == ScopeE(t, cropped, NoEnv)
InScope(t) == Scope(t, FALSE)
\* the root of a recipe may carry the console / options environment it is rendered under (optional field env;
\* only env.oov, env.onw matter here - everything else is construction-only)
TreeEnv(t) == IF "env" \in DOMAIN t THEN [ov |-> t.env.oov, nw |-> t.env.onw] ELSE NoEnv
\* env.prt (optional): the recipe was shown with Console.print on a console of width W and the lines are those of the output:
\* print crops what it prints to the console width, i.e. the console itself is a cropping container around the root (C6)
RootCropped(t) == "env" \in DOMAIN t /\ "prt" \in DOMAIN t.env /\ t.env.prt
InScopeEnv(t) == ScopeE(t, RootCropped(t), TreeEnv(t))

RECURSIVE Nesting(_)
Nesting(t) ==
    CASE t.k \in {"panel", "padding"} \cup Wrappers -> 1 + Nesting(t.c)
      [] t.k \in {"group", "columns"} -> 1 + SeqMax([i \in DOMAIN t.ch |-> Nesting(t.ch[i])])
      [] t.k = "table" -> 1 + Max(SeqMax([j \in DOMAIN t.cols |-> Max(Nesting(t.cols[j].hdr), Nesting(t.cols[j].ftr))]),
                                  SeqMax([i \in DOMAIN t.rows |-> SeqMax([j \in DOMAIN t.rows[i] |-> Nesting(t.rows[i][j])])]))
      [] t.k = "tree" -> 1 + Max(Nesting(t.label), SeqMax([i \in DOMAIN t.ch |-> Nesting(t.ch[i]) - 1]))
      [] OTHER -> 0

\* ---- implementation-shaped part: the budget handed down -----------------------------------
\* width a container that received W cells gives its (single) child; only the cases whose
\* arithmetic is independent of measurements (expanding frames, transparent wrappers)
HasFixedBudget(t) == \/ t.k = "panel" /\ t.ex /\ t.w = 0 /\ Len(t.title) = 0
                     \/ t.k = "padding" /\ t.ex
                     \/ t.k \in {"styled", "opaque", "cast"}
                     \/ t.k = "constrain"
ChildBudget(t, W) ==
    CASE t.k = "panel"     -> W - 2 - t.pl - t.pr
      [] t.k = "padding"   -> W - t.pl - t.pr
      [] t.k = "constrain" -> IF t.w = 0 THEN W ELSE Min(t.w, W)
      [] OTHER -> W
\* a tree node at depth d renders its label with W - 4 d cells
LabelBudget(W, d) == W - 4 * d

\* ---- property part ------------------------------------------------------------------------
\* C01: no line is wider than the W cells available
Fits(W, lineWidths) == \A i \in DOMAIN lineWidths : lineWidths[i] <= W
Widest(lineWidths) == SeqMax(lineWidths)

\* C09, every renderable: 0 <= min <= max <= avail; rendering at max / at min stays within it
BoundsOK(avail, min, max) == 0 <= min /\ min <= max /\ max <= Max(avail, 0)
MeasureSound(avail, min, max, linesAtMax, linesAtMin, minw) ==
    /\ BoundsOK(avail, min, max)
    /\ (max >= minw => Fits(max, linesAtMax))
    /\ (min >= minw => Fits(min, linesAtMin))

\* C09, text without tabs: min = widest word, max = widest line (both capped by avail; the
\* statement is silent on the minimum of a text without any word), never wrapped at its maximum
TextMaxOK(cs, avail, max) == Plain(cs) => max = Min(Max(avail, 0), WidestLine(cs))
TextMinOK(cs, avail, min) == (Plain(cs) /\ HasWord(cs)) => min = Min(Max(avail, 0), WidestWord(cs))
TextNotWrapped(cs, avail, max, nLinesAtMax) ==
    (Plain(cs) /\ avail >= WidestLine(cs) /\ max >= 1) => nLinesAtMax = NumLines(cs)
=============================================================================
