------------------------- MODULE Trace_TableSolver -------------------------
(* M3 judge for the conformance of TableSolver.tla with the REAL Table._calculate_column_widths.
   One record per initial state, one VERDICT line per record.

   record [o, cols, m, real]: an instance MC_TableSolver emitted (o, cols: see TableSolver!TableOf; booleans as
   0 / 1), m = the structural minimum MC_TableSolver printed, real[s] = [ok, w]: what the real method of the tree
   under test returned for  max_width = m + s - 1  (ok = 0: it raised; w = <<>> then), s = 1 .. MaxSlack + 1.
   drivers/c07_solver.py builds the table (box=None, one row of Text cells with the given content widths).

   verdict  "<agreement> st=<n> wd=<n> nr=<n> ra=<n>"
     agreement  same                    every real vector equals the transcription of the design AS IT IS
                repaired                ... differs, but every real vector equals the REPAIRED design
                patched                 ... every real vector equals TableSolver!Patch (the repair step with what a
                                        patch of rich/table.py can know)
                drift s=<s> m=<<..>>    none of the three; s = first width at which the real vector differs from the
                                        transcription of the design as it is, m = that transcription
                mach m-differs          the driver decoded another instance than TLC emitted (machinery, never a verdict)
     st / wd / nr / ra   how many of the real vectors the PROPERTY part rejects as starved / wider / narrower, and
                how many calls raised - information only: a difference from the transcription is DRIFT; property-level
                rejections of real renders are the business of Trace_Table (and of the open findings of C07).       *)
EXTENDS TableSolver, TLC, Json, IOUtils

Recs == JsonDeserialize(IOEnv.TRACE_FILE)

VARIABLE tid
vars == <<tid>>

B(x) == x = 1
SetMin0(S) == IF S = {} THEN 0 ELSE CHOOSE x \in S : \A y \in S : x <= y
Verdict(rec) ==
    LET oo == [pl |-> rec.o.pl, pr |-> rec.o.pr, pe |-> B(rec.o.pe), cp |-> B(rec.o.cp), ex |-> B(rec.o.ex), tmin |-> rec.o.tmin]
        cs == [j \in DOMAIN rec.cols |-> [cmin |-> rec.cols[j].cmin, cmax |-> rec.cols[j].cmax, ratio |-> rec.cols[j].ratio,
                                          minw |-> rec.cols[j].minw, w |-> rec.cols[j].w, maxw |-> rec.cols[j].maxw, nw |-> B(rec.cols[j].nw)]]
        t  == TableOf(oo, cs)
        m  == StructMin(t)
        S  == DOMAIN rec.real
        av(s) == m + s - 1
        asis == [s \in S |-> Stages(t, av(s))]
        rep  == [s \in S |-> RepairStep(t, av(s), asis[s].w)]
        Agrees(ok, w, r) == IF ok THEN r.ok = 1 /\ r.w = w ELSE r.ok = 0
        notsame == {s \in S : ~Agrees(asis[s].ok, asis[s].w, rec.real[s])}
        notrep  == {s \in S : ~Agrees(asis[s].ok, rep[s], rec.real[s])}
        notpat  == {s \in S : ~Agrees(asis[s].ok, Patch(t, av(s), asis[s].w), rec.real[s])}
        why == [s \in S |-> IF rec.real[s].ok = 1 THEN SolverWhy(t, av(s), rec.real[s].w) ELSE "raised"]
        N(x) == ToString(Cardinality({s \in S : why[s] = x}))
        agreement == IF notsame = {} THEN "same"
                     ELSE IF notrep = {} THEN "repaired"
                     ELSE IF notpat = {} THEN "patched"
                     ELSE LET s == SetMin0(notsame) IN "drift s=" \o ToString(s) \o " m=" \o ToString(asis[s].w)
    IN IF m # rec.m THEN "mach m-differs"
       ELSE agreement \o " st=" \o N("starved") \o " wd=" \o N("wider") \o " nr=" \o N("narrower") \o " ra=" \o N("raised")

Init == tid \in 1..Len(Recs)
Next == FALSE /\ UNCHANGED tid
Spec == Init /\ [][Next]_vars
Report == PrintT(<<"VERDICT", tid, Verdict(Recs[tid])>>)
=============================================================================
