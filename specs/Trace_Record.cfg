SPECIFICATION Spec
VIEW View
CONSTRAINT Report
CHECK_DEADLOCK FALSE
