------------------------------ MODULE LruCache ------------------------------
(* C13 - "caching never changes a result": the memo in front of cell_len (rich/cells.py:8-25,
   rich/_lru_cache.py) as a bounded map that stores results.

   Implementation-shaped part: DoMeasure(c, s) = one call cell_len(s) on cache state c:
     hit            - the stored value is returned (cells.py looks up with dict.get, which does
                      not go through LRUCache.__getitem__, so a hit does not refresh recency:
                      eviction order is insertion order)
     miss           - the width is computed; strings longer than Threshold are not stored;
                      otherwise the entry is inserted, evicting the oldest one when full.
   Property part: ResultExact (the result of any call in any cache state is CellLen - i.e. the
   result is independent of the history), CacheSound (inductive invariant), Bounded.          *)
EXTENDS Cells, FiniteSets

\* cache state: cap = cache_size, thr = longest string (in characters) that is stored (64 in
\* cells.py), order = keys oldest first, val = key -> stored result; ret/last/how describe the
\* last call (history variables)
EmptyCache(cap, thr) == [cap |-> cap, thr |-> thr, order |-> <<>>, val |-> [k \in {} |-> 0],
                         ret |-> 0, last |-> <<>>, how |-> "init"]

IsHit(c, s)      == s \in DOMAIN c.val
IsUncached(c, s) == ~IsHit(c, s) /\ Len(s) > c.thr
IsEvict(c, s)    == ~IsHit(c, s) /\ Len(s) <= c.thr /\ Len(c.order) >= c.cap
IsInsert(c, s)   == ~IsHit(c, s) /\ Len(s) <= c.thr /\ Len(c.order) < c.cap

Store(val, drop, s, total) ==
    [k \in ((DOMAIN val) \ drop) \cup {s} |-> IF k = s THEN total ELSE val[k]]

DoMeasure(c, s) ==
    IF IsHit(c, s) THEN [c EXCEPT !.ret = c.val[s], !.last = s, !.how = "hit"]
    ELSE LET total == CellLen(s) IN
         IF IsUncached(c, s) THEN [c EXCEPT !.ret = total, !.last = s, !.how = "uncached"]
         ELSE IF IsEvict(c, s)
              THEN [c EXCEPT !.order = Append(Tail(c.order), s),
                             !.val = Store(c.val, {Head(c.order)}, s, total),
                             !.ret = total, !.last = s, !.how = "evict"]
              ELSE [c EXCEPT !.order = Append(c.order, s),
                             !.val = Store(c.val, {}, s, total),
                             !.ret = total, !.last = s, !.how = "insert"]

\* ---- property part -------------------------------------------------------------------------
CacheSound(c)  == \A k \in DOMAIN c.val : c.val[k] = CellLen(k)
ResultExact(c) == c.how # "init" => c.ret = CellLen(c.last)
Bounded(c)     == /\ Len(c.order) <= c.cap
                  /\ DOMAIN c.val = {c.order[i] : i \in DOMAIN c.order}
                  /\ Cardinality(DOMAIN c.val) = Len(c.order)
=============================================================================
