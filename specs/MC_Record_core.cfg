CONSTANTS
  MCDepth = 5
  GenDepth = 0
  MaxNest = 2
  CSs = {"truecolor"}
  DesignName = "repaired"
  Alphabet = "core"
SPECIFICATION Spec
VIEW View
INVARIANT Clause1Text
INVARIANT Clause2Html
INVARIANT Clause3Styled
INVARIANT Clause4Capture
INVARIANT Clause5Clear
INVARIANT DesignNoDrift
INVARIANT BufferInv
CHECK_DEADLOCK FALSE
