-------------------------------- MODULE Live --------------------------------
(* C10 - Live / Progress / Status display protocol (rich/live.py, live_render.py, progress.py).

   State of one live display on one terminal console:
     started, mode ("last": live.py's renderer keeps the shape of the last frame;
                    "max": live_render.py's LiveRender used by Progress never shrinks),
     transient, overflow (crop | ellipsis | visible), H (console height),
     cur    the rows of the current renderable (labels; 0 = a blank row),
     shape  height of the region that the next refresh will erase (-1 = nothing drawn yet),
     last   the rows of the most recently drawn frame,
     committed  rows that are on the screen for good, in order (printed lines; a frame left
                behind by a non-transient stop),
     hooks / redirected / the screen (Screen.tla).
   One operator per public call; each returns the new state and appends to the screen the
   terminal operations the design prescribes:  Erase(shape) o printed lines o frame.            *)
EXTENDS Screen

NewLive(mode, transient, overflow, H) ==
    [started |-> FALSE, mode |-> mode, transient |-> transient, overflow |-> overflow, H |-> H,
     cur |-> << 0 >>, shape |-> 0 - 1, last |-> <<>>, committed |-> <<>>, hooks |-> 0, redirected |-> FALSE,
     broken |-> FALSE, scr |-> InitScreen, raised |-> FALSE]

MaxN(a, b) == IF a > b THEN a ELSE b
\* the rows a refresh draws
Frame(s) ==
    IF s.mode = "max" THEN s.cur \o [i \in 1..(MaxN(s.shape, Len(s.cur)) - Len(s.cur)) |-> 0]
    ELSE IF Len(s.cur) > s.H /\ s.overflow = "crop" THEN SubSeq(s.cur, 1, s.H)
    ELSE IF Len(s.cur) > s.H /\ s.overflow = "ellipsis" THEN SubSeq(s.cur, 1, s.H - 1) \o <<Ellipsis>>
    ELSE s.cur

Emit(s, ops) == [s EXCEPT !.scr = ApplyAll(@, ops)]

\* a print / log / redirected write of `ids` (possibly none = a bare refresh) while the hook is on
Draw(s, ids) ==
    \* the render raises: nothing is written (Progress calls its columns once per visible task)
    IF s.broken /\ (s.mode = "last" \/ s.cur # <<>>) THEN [s EXCEPT !.raised = TRUE]
    ELSE LET f == Frame(s)
             ops == (IF s.shape < 0 THEN <<>> ELSE Erase(s.shape)) \o LinesNl(ids) \o FrameOps(f)
         IN [Emit(s, ops) EXCEPT !.shape = Len(f), !.last = f, !.committed = @ \o ids]

PrintLines(s, ids) ==
    IF s.hooks > 0 THEN Draw(s, ids)
    ELSE [Emit(s, LinesNl(ids)) EXCEPT !.committed = @ \o ids]

\* Progress builds its table (and so calls the columns) on every refresh, hooked or not
Renders(s) == s.hooks > 0 \/ (s.mode = "max" /\ s.broken /\ s.cur # <<>>)
Update(s, rows, refresh) ==
    LET s1 == [s EXCEPT !.cur = rows] IN
    IF refresh /\ Renders(s) THEN Draw(s1, <<>>) ELSE s1
Refresh(s) == IF Renders(s) THEN Draw(s, <<>>) ELSE s

Start(s, refreshAtStart) ==
    IF s.started THEN s
    \* a start begins a fresh region: nothing of an earlier session (e.g. one whose stop failed in its last refresh) is erased
    ELSE LET s1 == [Emit(s, <<<<"hide", 0>>>>) EXCEPT !.started = TRUE, !.hooks = @ + 1, !.redirected = TRUE, !.shape = 0 - 1]
         IN IF ~refreshAtStart THEN s1
            ELSE LET s2 == Draw(s1, <<>>) IN
                 \* a failing first refresh must undo the start (progress.py)
                 IF s2.raised THEN [Emit(s2, <<<<"show", 0>>>>) EXCEPT !.started = FALSE, !.hooks = @ - 1, !.redirected = FALSE]
                 ELSE s2

Stop(s) ==
    IF ~s.started THEN s
    ELSE LET s0 == [s EXCEPT !.started = FALSE, !.overflow = IF s.mode = "last" THEN "visible" ELSE @]
             s1 == Draw(s0, <<>>)
             \* "visible" serves the last frame only: the display keeps the vertical_overflow it was given for a later start()
             restored(x) == [Emit(x, <<<<"show", 0>>>>) EXCEPT !.hooks = @ - 1, !.redirected = FALSE, !.overflow = s.overflow]
         IN IF s1.raised THEN restored(s1)
            ELSE LET s2 == restored(Emit(s1, <<<<"nl", 0>>>>))
                 \* the region is given up: a later start begins a fresh one (shape 0)
                 IN IF s.transient THEN [Emit(s2, Restore(s2.shape)) EXCEPT !.last = <<>>, !.shape = 0 - 1]
                    ELSE [s2 EXCEPT !.committed = @ \o s2.last, !.last = <<>>, !.shape = 0 - 1]

\* ---- property part -----------------------------------------------------------------------
Row(id) == IF id = 0 THEN <<>> ELSE <<id>>
ExpectedRows(s) == Trim([i \in 1..Len(s.committed) |-> Row(s.committed[i])] \o [i \in 1..Len(s.last) |-> Row(s.last[i])])
\* judged on the rows that show something: blank rows (an empty frame row, the line a transient
\* display of height 0 leaves behind) are not "lines" in the sense of the statement
NonEmpty(rows) == SelectSeq(rows, LAMBDA r : r # <<>>)
ScreenOK(s)  == NonEmpty(s.scr.rows) = NonEmpty(ExpectedRows(s))
NoBad(s)     == s.scr.bad = "none"
Restored(s)  == ~s.started => (s.scr.vis /\ s.hooks = 0 /\ ~s.redirected)
=============================================================================
