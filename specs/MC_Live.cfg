CONSTANTS
  Mode = "last"
  Transient = FALSE
  Overflow = "ellipsis"
  Height = 2
  MCDepth = 6
  GenDepth = 0
  AllowRestart = FALSE
SPECIFICATION Spec
VIEW View
CONSTRAINT DepthBound
INVARIANT ScreenInv
INVARIANT NoBadInv
INVARIANT RestoredInv
CHECK_DEADLOCK FALSE
