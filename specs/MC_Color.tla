--------------------------- MODULE MC_Color ---------------------------
(* M1 for C18: the transcription of Color.downgrade (Color!RefDowngradeSet) satisfies the
   acceptance relation DownOK, is idempotent, and the relation is not trivially true - checked
   exhaustively on a lattice of sources x all four target systems.  Shows that the property
   part is satisfiable by the design (non-vacuity) and that the design is right on the lattice.

   Palettes come from the tree under test: the driver writes rich/_palettes.py as JSON and
   passes the path in TRACE_FILE; MC_Color.cfg binds StdPalette <- JStd etc.

   One state = (source colour, target system, stage, current result).  Actions are named after
   the path of the algorithm they take, so that -coverage 1 proves each path was exercised.     *)
EXTENDS Color, Json, IOUtils

Data   == JsonDeserialize(IOEnv.TRACE_FILE)
JStd   == Data.std
JWin   == Data.win
JEight == Data.eight

VARIABLES src,     \* source colour
          sys,     \* target system
          stage,   \* "src" -> "once" -> "twice"
          res,     \* current colour (source, then result of first, then of second conversion)
          op       \* path taken by the last conversion (RefBranch)
vars == <<src, sys, stage, res, op>>

\* 17 values per channel (step 16, plus 255), the whole grey axis, every (max,min) pair whose
\* saturation is exactly 1/10 in two channel arrangements, grey-step rounding ties, +-1 around every entry of the two
\* 16-colour palettes, all indexed colours as the constructors type them, the 16 legacy-Windows colours and the
\* 8-bit typed colours below 16 (reachable by building the Color tuple directly, or as earlier results), default.
Lattice == {16 * i : i \in 0..15} \cup {255}
TieColours == UNION { { Rgb(11 * j, 9 * j, 9 * j), Rgb(9 * j, 10 * j, 11 * j),
                        Rgb(255 - 9 * j, 255 - 11 * j, 255 - 9 * j), Rgb(255 - 11 * j, 255 - 10 * j, 255 - 9 * j) }
                      : j \in 1..12 }
\* low-saturation colours whose grey step round(l*25) is a rounding tie (M + m in {51,153,255,357,459})
RoundTieColours == UNION { { Rgb(m + 1, m, m), Rgb(m, m + 1, m), Rgb(m - 2, m + 1, m + 3) } : m \in {25, 76, 127, 178, 229} }
Clip(x) == IF x < 0 THEN 0 ELSE IF x > 255 THEN 255 ELSE x
Around(pal) == UNION { { Rgb(Clip(pal[k][1] + d[1]), Clip(pal[k][2] + d[2]), Clip(pal[k][3] + d[3]))
                         : d \in {-1, 0, 1} \X {-1, 0, 1} \X {-1, 0, 1} } : k \in 1..Len(pal) }
Sources == {Default}
           \cup { Std(n) : n \in 0..15 } \cup { Eight(n) : n \in 16..255 }
           \cup { Win(n) : n \in 0..15 } \cup { Eight(n) : n \in 0..15 }      \* Color tuples built directly / earlier results
           \cup { Rgb(r, g, b) : r \in Lattice, g \in Lattice, b \in Lattice }
           \cup { Rgb(v, v, v) : v \in Byte }
           \cup TieColours \cup RoundTieColours \cup Around(StdPalette) \cup Around(WinPalette)

Init == src \in Sources /\ sys \in Systems /\ stage = "src" /\ res = src /\ op = "none"

\* one conversion by the transcription; the caller fixes which path of the algorithm it is
Convert(branch) ==
    /\ res' \in RefDowngradeSet(res, sys)
    /\ stage' = (IF stage = "src" THEN "once" ELSE "twice")
    /\ op' = branch
    /\ UNCHANGED <<src, sys>>
Ready(branch) == stage \in {"src", "once"} /\ RefBranch(res, sys) = branch

Keep     == /\ Ready("keep")      /\ Convert("keep")
Grey     == /\ Ready("grey")      /\ Convert("grey")
Cube     == /\ Ready("cube")      /\ Convert("cube")
Tie      == /\ Ready("tie")       /\ Convert("tie")
MatchStd == /\ Ready("match-std") /\ Convert("match-std")
MatchWin == /\ Ready("match-win") /\ Convert("match-win")
WinIndex == /\ Ready("win-index") /\ Convert("win-index")

Next == Keep \/ Grey \/ Cube \/ Tie \/ MatchStd \/ MatchWin \/ WinIndex
Spec == Init /\ [][Next]_vars

\* ---- what TLC checks ----------------------------------------------------------------------
PalettesSane == /\ Len(StdPalette) = 16 /\ Len(WinPalette) = 16 /\ Len(EightPalette) = 256
                /\ \A pal \in {StdPalette, WinPalette, EightPalette} :
                      \A k \in 1..Len(pal) : Len(pal[k]) = 3 /\ \A i \in 1..3 : pal[k][i] \in Byte
ASSUME PalettesSane

SourcesWellFormed == WellFormed(src)
\* the design satisfies the relation (first conversion of an in-scope source)
DesignSatisfiesRelation == stage = "once" => DownOK(src, sys, res)
\* the predicate form used by the slice judge accepts what the scan produces (and, being satisfiable by
\* at most one index, nothing else)
PredicateFormAgrees == stage = "once" => /\ RefAccepts(src, sys, res)
                                         /\ res.kind \in {"standard", "windows"} =>
                                               ~RefAccepts(src, sys, [res EXCEPT !.n = (res.n + 1) % 16])
\* ... and every result is a fixed point: the second conversion takes the "keep" path
SecondIsKeep == stage = "twice" => op = "keep"
IdempotentP == [][stage = "once" => IdempotentOK(res, res')]_vars
\* the relation is not trivially true: where a 16-colour search is required some index is refused,
\* and for every non-default source a result of the wrong class is refused
RelationIsTight ==
    stage = "once" =>
      /\ (NeedsConversion(src, sys) /\ sys \in {"standard", "windows"})
            => \E k \in 0..15 : ~DownOK(src, sys, Std(k))
      /\ (src.kind = "rgb" /\ sys # "truecolor") => ~DownOK(src, sys, src)
      /\ (sys \in {"standard", "windows"}) => ~DownOK(src, sys, Eight(res.n + 16))
      /\ (sys = "eight" /\ IsGrey(src)) => ~DownOK(src, sys, Eight(17))
      /\ src.kind # "default" => ~DownOK(src, sys, Default)
\* SGR parameters: one code for the 16 system colours and default, 3 for 8-bit, 5 for RGB; foreground
\* and background never collide; distinct results give distinct parameters (except standard/windows,
\* which share them by design)
SgrShape ==
    LET f == SgrCodes(res, TRUE)
        b == SgrCodes(res, FALSE)
    IN /\ Len(f) = Len(b) /\ f # b
       /\ Len(f) = (IF res.kind = "eight" THEN 3 ELSE IF res.kind = "rgb" THEN 5 ELSE 1)
       /\ f[1] \in (30..39) \cup (90..97) /\ b[1] \in (40..49) \cup (100..107)
       /\ b[1] = f[1] + 10
       /\ \A p \in 1..5 : SgrCodeAt(res, TRUE, p) = (IF p <= Len(f) THEN f[p] ELSE Absent)
SgrInjective ==
    \A n \in 0..15 : (res.kind \in {"standard", "windows"} /\ res.n # n) => SgrCodes(res, TRUE) # SgrCodes(Std(n), TRUE)
=============================================================================
