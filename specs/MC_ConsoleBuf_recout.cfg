CONSTANTS
  Threads <- MCThreads
  Program <- MCProgram
  SharedBuffer = FALSE
  RecordOutsideLock = TRUE
SPECIFICATION Spec
INVARIANT ExactlyOnceContiguous
INVARIANT CaptureIsolated
INVARIANT CaptureOwn
INVARIANT CaptureExact
INVARIANT RecordOrder
INVARIANT NoStuck
CHECK_DEADLOCK FALSE
