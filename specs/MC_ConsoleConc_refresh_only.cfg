CONSTANTS
  Threads <- MCThreads
  Program <- MCProgramR
  AtomicPrint = FALSE
SPECIFICATION Spec
INVARIANT NoBadInv
INVARIANT ScreenInv
INVARIANT NoStuck
CHECK_DEADLOCK FALSE
