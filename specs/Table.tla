------------------------------- MODULE Table -------------------------------
(* C07 - "Tables are rectangles that show every cell in its own column".

   Everything here is PROPERTY PART: predicates over a table *recipe* (the options the caller asked
   for), the available width W and a *projected render* (what rich.table.Table really produced, read
   off lexically by drivers/c07.py).  The implementation-shaped part of C07 is Ratio.tla (the width
   arithmetic); how the code arrives at its column widths is deliberately not modelled - any width
   vector that yields a rectangle with every cell in its own column is accepted.

   Recipe t (JSON record; only these fields are read):
     nc, nr            number of columns / rows
     box, edge         a box is drawn / its outer edge is drawn (show_edge)
     sh, sf, sl        show_header / show_footer / show_lines;   lead : leading
     pl, pr            horizontal cell padding (left, right);    pe : pad_edge;   cp : collapse_padding
     ex                expand;   w, minw : Table.width / Table.min_width (0 = None)
     cols[j]           [ov : "fold"|"crop"|"ellipsis"|"ignore", ratio (-1 = None; 0 is a ratio: a flexible column that asks
                       for no share), w, minw, maxw (0 = None), nw : no_wrap]
     grid              the SHOWN cell rows, top to bottom: [rid, cells]; rid 0 = header (only if sh),
                       1..nr = rows in insertion order, nr+1 = footer (only if sf); cells[j] is a cell
                       descriptor:  [k |-> "txt", wide, wl]      text; wide: a double-width character
                                                                 occurs; wl: cells of its widest line
                                    [k |-> "panel", pad, c]      Panel(c) with pad = left+right padding
                                    [k |-> "table", t]           a nested table (recipe t)

   Projected render: lines[i] = [k, w, runs]
     k     "body" | "title" | "caption"   (title / caption lines are NOT body lines: the statement
           speaks of the table body; they are only looked at for a DRIFT note)
     w     cell width of the line (rich.cells.cell_len of the tree under test)
     runs  <<kind, col, row, start, len>> partitioning the line left to right, in cells:
           kind 0  border    (box character / blank carrying the border tag)
                1  column    (blank or decoration attributed to column col: padding, ellipsis,
                              frame of a nested renderable)
                2  content   (characters of cell (row, col) - read off the characters themselves:
                              every cell is written in an alphabet of its own)
                3  filler    (blank that cannot be attributed)
                4  stray     (anything else - never legitimate inside a body line)
   cells[n] = [r, c, ord, src, out, cov, cnw]: src = the non-whitespace code points of cell (r, c) as given to
           the table, out = the code points of that cell's alphabet found in the render, read line by
           line, left to right; ord = FALSE for nested tables (reading order is not cell order);
           cov / cnw = the overflow ("" = none) / no_wrap = True a Text cell carries ITSELF: rich.text.Text lets
           them win over the column's options, so such a cell is cut by its own request, not by the table.

   STRUCTURAL MINIMUM (the quantifier: "available widths at or above the structural minimum"):
     TableMin(t) = Edges + Dividers + SUM_j (PadL(j) + PadR(j) + ColMin(j))
       Edges    = 2 if box and edge, else 0;      Dividers = nc - 1 if box, else 0
       PadL(j)  = 0 if not pad_edge and j = 1; max(0, pl - pr) if collapse_padding and j > 1; else pl
       PadR(j)  = 0 if not pad_edge and j = nc; else pr
       ColMin(j) = the largest of: 1; CellMin of every shown cell of the column; for a no_wrap column
                   also the widest line of every shown cell; the column's width and min_width options
       CellMin  = 1 for text (2 if it contains a double-width character); 2 + pad + CellMin(child)
                   for a panel; TableMin for a nested table.
     This is the same rule as Layout.tla's TableStruct (C01), extended conservatively (larger) by the
     width / min_width / no_wrap terms, which C01 leaves out of scope altogether.
   InScope(t, W) additionally requires: 1..6 columns; ratio None or >= 0; a no_wrap column holds text only (a nested renderable that may not shrink has no structural width); a column width / max_width that is not smaller than the column's content minimum and
     min_width <= max_width (otherwise the options ask for the impossible); Table.width, if given,
     between TableMin and W.  Everything else is "outside": no demand, no alarm.                  *)
EXTENDS Integers, Sequences, FiniteSets

TMax(a, b) == IF a > b THEN a ELSE b
TMin(a, b) == IF a < b THEN a ELSE b
RECURSIVE TSum(_)
TSum(s) == IF s = <<>> THEN 0 ELSE Head(s) + TSum(Tail(s))
RECURSIVE TSeqMax(_)
TSeqMax(s) == IF s = <<>> THEN 0 ELSE TMax(Head(s), TSeqMax(Tail(s)))
SetMin(S) == CHOOSE x \in S : \A y \in S : x <= y
SetMax(S) == CHOOSE x \in S : \A y \in S : x >= y

KBorder == 0
KColumn == 1
KContent == 2
KFiller == 3
KStray == 4

\* ---- structural minimum ---------------------------------------------------------------------
Edges(t)    == IF t.box /\ t.edge THEN 2 ELSE 0
Dividers(t) == IF t.box /\ t.nc > 0 THEN t.nc - 1 ELSE 0
PadL(t, j)  == IF ~t.pe /\ j = 1 THEN 0
               ELSE IF t.cp /\ j > 1 THEN TMax(0, t.pl - t.pr)
               ELSE t.pl
PadR(t, j)  == IF ~t.pe /\ j = t.nc THEN 0 ELSE t.pr

RECURSIVE CellMin(_), TableMin(_), ContentMin(_, _)
CellMin(x) == CASE x.k = "txt"   -> IF x.wide THEN 2 ELSE 1
                [] x.k = "panel" -> 2 + x.pad + CellMin(x.c)
                [] x.k = "table" -> TableMin(x.t)
CellNeed(x, nw) == IF nw /\ x.k = "txt" THEN TMax(CellMin(x), x.wl) ELSE CellMin(x)
\* what the shown cells of column j need, whatever the column options say
ContentMin(t, j) == TMax(1, TSeqMax([g \in DOMAIN t.grid |-> CellNeed(t.grid[g].cells[j], t.cols[j].nw)]))
ColMin(t, j) == TMax(ContentMin(t, j), TMax(t.cols[j].w, t.cols[j].minw))
TableMin(t) == Edges(t) + Dividers(t) + TSum([j \in 1..t.nc |-> PadL(t, j) + PadR(t, j) + ColMin(t, j)])

ColCapOK(t, j) == LET c == t.cols[j] IN
    /\ c.w = 0 \/ c.w >= ContentMin(t, j)
    /\ c.maxw = 0 \/ (c.maxw >= ContentMin(t, j) /\ c.maxw >= c.minw)
    /\ c.ratio >= -1
    /\ c.nw => \A g \in DOMAIN t.grid : t.grid[g].cells[j].k = "txt"      \* a nested renderable that may not shrink: no structural rule
RECURSIVE NestedOK(_)
NestedOK(x) == CASE x.k = "txt" -> TRUE
                 [] x.k = "panel" -> NestedOK(x.c)
                 [] x.k = "table" -> /\ x.t.nc \in 1..6
                                     /\ \A j \in 1..x.t.nc : ColCapOK(x.t, j)
                                     /\ \A g \in DOMAIN x.t.grid : \A j \in 1..x.t.nc : NestedOK(x.t.grid[g].cells[j])
InScope(t, W) ==
    /\ t.nc \in 1..6
    /\ \A j \in 1..t.nc : ColCapOK(t, j)
    /\ \A g \in DOMAIN t.grid : \A j \in 1..t.nc : NestedOK(t.grid[g].cells[j])
    /\ W >= TableMin(t)
    /\ t.w = 0 \/ (t.w >= TableMin(t) /\ t.w <= W)

\* ---- reading the projected render ------------------------------------------------------------
\* (operators ending in ...Of take the sets BL / RL / bp computed once by the caller: TLC does not
\*  memoise operator applications)
Kind(run) == run[1]
Col(run)  == run[2]
Row(run)  == run[3]
Start(run) == run[4]
Len_(run) == run[5]

BodyLines(L) == {i \in DOMAIN L : L[i].k = "body"}
HasKind(ln, kinds) == \E r \in DOMAIN ln.runs : Kind(ln.runs[r]) \in kinds
\* a row line shows (part of) a row of cells; every other body line is a separator / edge / leading line
IsRowLine(ln) == HasKind(ln, {KColumn, KContent, KFiller})
RowLines(L) == {i \in BodyLines(L) : IsRowLine(L[i])}
BorderPos(ln) == UNION { Start(ln.runs[r]) .. (Start(ln.runs[r]) + Len_(ln.runs[r]) - 1) :
                         r \in {q \in DOMAIN ln.runs : Kind(ln.runs[q]) = KBorder} }
BorderMap(L, RL) == [i \in RL |-> BorderPos(L[i])]
RowIds(ln) == { Row(ln.runs[r]) : r \in {q \in DOMAIN ln.runs : Kind(ln.runs[q]) = KContent} }
FirstIn(S) == IF S = {} THEN 0 ELSE SetMin(S)

\* sp[c] = <<lo, hi>> (hi exclusive): hull of every run that belongs to column c on the row lines RL
\* (content or attributed blanks of positive width); <<0, 0>> when nothing of the column is visible
InCol(run, c) == Kind(run) \in {KColumn, KContent} /\ Col(run) = c /\ Len_(run) > 0
Spans(t, L, RL) ==
    [c \in 1..t.nc |->
        LET los == UNION { {Start(L[i].runs[r]) : r \in {q \in DOMAIN L[i].runs : InCol(L[i].runs[q], c)}} : i \in RL }
            his == UNION { {Start(L[i].runs[r]) + Len_(L[i].runs[r]) : r \in {q \in DOMAIN L[i].runs : InCol(L[i].runs[q], c)}} : i \in RL }
        IN IF los = {} THEN <<0, 0>> ELSE <<SetMin(los), SetMax(his)>>]

\* ---- Rect: every body line has the same cell width = borders + column widths ------------------
\* (a) no stray characters, (b) equal widths, (c) on row lines the border cells are exactly the
\* edges and dividers the options ask for, at the same offsets on every row line (so the line is
\* Edges + Dividers + the nc column gaps), (d) with an edge the outermost cells are border cells.
WidthOfIn(L, BL) == IF BL = {} THEN 0 ELSE L[SetMin(BL)].w
WidthOf(L) == WidthOfIn(L, BodyLines(L))
RefOf(bp, RL) == IF RL = {} THEN {} ELSE bp[SetMin(RL)]
RectWhyOf(t, L, BL, RL, bp) ==
    LET stray == {i \in BL : HasKind(L[i], {KStray})}
        w0 == WidthOfIn(L, BL)
        unequal == {i \in BL : L[i].w # w0}
        count == {i \in RL : Cardinality(bp[i]) # Edges(t) + Dividers(t)}
        ref == RefOf(bp, RL)
        misaligned == {i \in RL : bp[i] # ref}
        noedge == {i \in RL : Edges(t) = 2 /\ ~({0, L[i].w - 1} \subseteq bp[i])}
    IN IF stray # {} THEN <<"rect:stray-char", FirstIn(stray)>>
       ELSE IF unequal # {} THEN <<"rect:width-differs", FirstIn(unequal)>>
       ELSE IF count # {} THEN <<"rect:border-count", FirstIn(count)>>
       ELSE IF misaligned # {} THEN <<"rect:borders-not-aligned", FirstIn(misaligned)>>
       ELSE IF noedge # {} THEN <<"rect:edge-not-outermost", FirstIn(noedge)>>
       ELSE <<"ok", 0>>
RectWhy(t, L) == RectWhyOf(t, L, BodyLines(L), RowLines(L), BorderMap(L, RowLines(L)))
Rect(t, L) == RectWhy(t, L)[1] = "ok"

\* ---- ExpandExact ---------------------------------------------------------------------------
NoWidthCap(t) == \A j \in 1..t.nc : t.cols[j].w = 0 /\ t.cols[j].maxw = 0
ExpandAsked(t) == t.ex /\ t.w = 0          \* Table.width is a different request, see WidthOptionDrift
ExpandExact(t, W, L) == (ExpandAsked(t) /\ NoWidthCap(t) /\ BodyLines(L) # {}) => WidthOf(L) = W
ExpandWhy(t, W, L) == IF ExpandExact(t, W, L) THEN <<"ok", 0>>
                      ELSE <<IF WidthOf(L) < W THEN "expand:narrower" ELSE "expand:wider", WidthOf(L)>>

\* ---- CellsInColumn, part 1 (all columns): one interval per column, disjoint, ordered ----------
\* The span of a column is the hull of everything attributable to it.  Spans must be pairwise
\* disjoint and ordered left to right, no border cell of a row line may fall inside a span, and
\* with a box the span of column c lies in the c-th gap between the borders.
ShownCols(t, sp) == {c \in 1..t.nc : sp[c][2] > sp[c][1]}
SpansWhyOf(t, sp, ref) ==
    LET shown == ShownCols(t, sp)
        overlaps == {c \in shown : \E d \in shown : c < d /\ sp[c][2] > sp[d][1]}
        inside == {c \in shown : \E p \in ref : sp[c][1] <= p /\ p < sp[c][2]}
        wrong == {c \in shown : t.box /\ Cardinality({p \in ref : p < sp[c][1]}) # (c - 1) + (IF t.edge THEN 1 ELSE 0)}
    IN IF overlaps # {} THEN <<"col:spans-overlap", FirstIn(overlaps)>>
       ELSE IF inside # {} THEN <<"col:border-inside-span", FirstIn(inside)>>
       ELSE IF wrong # {} THEN <<"col:wrong-gap", FirstIn(wrong)>>
       ELSE <<"ok", 0>>
SpansWhy(t, L) == SpansWhyOf(t, Spans(t, L, RowLines(L)), RefOf(BorderMap(L, RowLines(L)), RowLines(L)))

\* ---- RowOrder ------------------------------------------------------------------------------
\* each line shows characters of at most one row; row ids never decrease down the lines (header 0,
\* rows 1..nr in insertion order, footer nr+1); rows that are not to be shown do not appear.
RowsWhyOf(t, L, RL) ==
    LET ids == [i \in RL |-> RowIds(L[i])]
        two == {i \in RL : Cardinality(ids[i]) > 1}
        idd == {i \in RL : ids[i] # {}}
        id == [i \in idd |-> SetMin(ids[i])]
        disorder == {i \in idd : \E h \in idd : h < i /\ id[h] > id[i]}
        hidden == {i \in idd : (id[i] = 0 /\ ~t.sh) \/ (id[i] = t.nr + 1 /\ ~t.sf) \/ (id[i] > t.nr + 1)}
    IN IF two # {} THEN <<"rows:two-rows-on-a-line", FirstIn(two)>>
       ELSE IF disorder # {} THEN <<"rows:out-of-order", FirstIn(disorder)>>
       ELSE IF hidden # {} THEN <<"rows:hidden-row-shown", FirstIn(hidden)>>
       ELSE <<"ok", 0>>
RowsWhy(t, L) == RowsWhyOf(t, L, RowLines(L))
RowOrder(t, L) == RowsWhy(t, L)[1] = "ok"

\* ---- CellsInColumn, part 2 (fold columns): every character, in order ---------------------------
Count(s, x) == Cardinality({i \in DOMAIN s : s[i] = x})
SameBag(a, b) == Len(a) = Len(b) /\ \A i \in DOMAIN a : Count(a, a[i]) = Count(b, a[i])
\* the column folds and wraps, and the cell does not itself ask for anything else
Demanded(t, cell) == /\ t.cols[cell.c].ov = "fold" /\ ~t.cols[cell.c].nw
                     /\ cell.cov \in {"", "fold"} /\ ~cell.cnw
CellOK(cell) == IF cell.ord THEN cell.out = cell.src ELSE SameBag(cell.out, cell.src)
\* room[c] = the cells the render gives column c (with a box: the c-th gap between the borders of a row
\* line; without: the hull of what is attributable to it).  A column is STARVED when that is less than its
\* padding plus the content minimum of its cells although the table as a whole had W >= TableMin: the
\* width solver took the cells from the wrong column.  The demand is the same (characters missing); the
\* name of the clause separates this family (solver not minimum-aware) from any other loss of characters.
\* "The wrong column" is part of the name: the body is as wide as it may be (w0 >= lim: the available width, or
\* Table.width) or another column holds more than its own need.  A column squeezed in a table that is narrower than
\* it may be while no other column has a cell to spare is a different matter (the table did not use the width it was
\* given) and gets a name of its own.
\* The SHAPE of that family, as far as it can be read off the render (room = the cells each column was given).  The solver
\* squeezes a column in two ways only: (1) _collapse_widths levels the widest columns down to a common width - a column that
\* lost cells there is as wide as the widest of its peers (peers: columns that may shrink and that nothing re-widens
\* afterwards - no width, no min_width, not no_wrap; ratio_reduce rounds, the expand step spreads a remainder: two cells of
\* tolerance); (2) a ratio column of an expanding table gets its share, but never less than one cell plus its padding.  A
\* column of text cells that is narrower than a peer AND below that floor was not squeezed by either: whatever lost its
\* characters, it is not this family, and the clause says so.  (A column that holds a nested renderable is measured by
\* that renderable - its width after the re-measure is the renderable's business; it keeps the family's name.)
Need(t, c) == PadL(t, c) + PadR(t, c) + ContentMin(t, c)
Expanding(t) == t.ex \/ t.w # 0
TxtOnly(t, c) == \A g \in DOMAIN t.grid : t.grid[g].cells[c].k = "txt"
Peer(t, d) == t.cols[d].w = 0 /\ t.cols[d].minw = 0 /\ ~t.cols[d].nw
AtWaterLevel(t, room, c) == \A d \in 1..t.nc : (d # c /\ Peer(t, d)) => room[d] <= room[c] + 2
RatioFloor(t, room, c) == Expanding(t) /\ t.cols[c].ratio >= 0 /\ room[c] >= PadL(t, c) + PadR(t, c) + 1
\* exact: room was measured between the borders of a box; without a box it is only the hull of what can be attributed to
\* the column (a cell squeezed to nothing leaves blanks nobody can attribute) - too coarse to compare columns: family name
SqueezedBySolver(t, room, c, exact) == ~exact \/ ~TxtOnly(t, c) \/ AtWaterLevel(t, room, c) \/ RatioFloor(t, room, c)
CellsWhyOf(t, cells, room, w0, lim, exact) ==
    LET bad == {n \in DOMAIN cells : Demanded(t, cells[n]) /\ ~CellOK(cells[n])} IN
    IF bad = {} THEN <<"ok", 0>>
    ELSE LET n == SetMin(bad)
             cell == cells[n]
             spare == \E d \in 1..t.nc : room[d] > Need(t, d)
         IN <<IF Len(cell.out) < Len(cell.src)
                 THEN (IF room[cell.c] < Need(t, cell.c)
                          THEN (IF ~(w0 >= lim \/ spare) THEN "cell:missing-table-narrower-than-available"
                                ELSE IF SqueezedBySolver(t, room, cell.c, exact) THEN "cell:missing-in-starved-column"
                                ELSE IF Expanding(t) /\ t.cols[cell.c].ratio >= 0 THEN "cell:missing-in-ratio-column-below-its-floor"
                                ELSE "cell:missing-in-column-narrower-than-its-peers")
                       ELSE IF ~cell.ord THEN "cell:missing-in-nested-table"      \* the inner table's own solver
                       ELSE "cell:characters-missing")
              ELSE IF Len(cell.out) > Len(cell.src) THEN "cell:characters-repeated"
              ELSE "cell:characters-out-of-order", n>>
NoRoomInfo(t) == [c \in 1..t.nc |-> Need(t, c)]
CellsWhy(t, cells) == CellsWhyOf(t, cells, NoRoomInfo(t), 0, 0, FALSE)
\* sorted border offsets -> gap widths
RoomOf(t, L, sp, ref, w0) ==
    IF t.box /\ Cardinality(ref) = Edges(t) + Dividers(t)
    THEN [c \in 1..t.nc |->
            LET k == (c - 1) + (IF t.edge THEN 1 ELSE 0)                      \* borders left of column c
                left == IF k = 0 THEN -1 ELSE CHOOSE p \in ref : Cardinality({q \in ref : q < p}) = k - 1
                right == IF k = Cardinality(ref) THEN w0 ELSE CHOOSE p \in ref : Cardinality({q \in ref : q < p}) = k
            IN right - left - 1]
    ELSE [c \in 1..t.nc |-> sp[c][2] - sp[c][1]]
CellsInColumn(t, L, cells) == SpansWhy(t, L)[1] = "ok" /\ CellsWhy(t, cells)[1] = "ok"

\* ---- the acceptance relation -------------------------------------------------------------------
\* <<clause, index>>: "ok", "outside", or the first failing clause with a line / column / cell index
TableWhy(t, W, exc, L, cells) ==
    IF ~InScope(t, W) THEN <<"outside", 0>>
    ELSE IF exc # "none" THEN <<"raised", 0>>
    ELSE LET BL == BodyLines(L)
             RL == {i \in BL : IsRowLine(L[i])}
             bp == BorderMap(L, RL)
             rect == RectWhyOf(t, L, BL, RL, bp)
             expand == ExpandWhy(t, W, L)
             rows == RowsWhyOf(t, L, RL)
             sp == Spans(t, L, RL)
             spans == SpansWhyOf(t, sp, RefOf(bp, RL))
         IN IF rect[1] # "ok" THEN rect
            ELSE IF expand[1] # "ok" THEN expand
            ELSE IF rows[1] # "ok" THEN rows
            ELSE IF spans[1] # "ok" THEN spans
            ELSE CellsWhyOf(t, cells, RoomOf(t, L, sp, RefOf(bp, RL), WidthOfIn(L, BL)), WidthOfIn(L, BL),
                            IF t.w # 0 THEN t.w ELSE W, t.box /\ Cardinality(RefOf(bp, RL)) = Edges(t) + Dividers(t))
TableOK(t, W, exc, L, cells) == TableWhy(t, W, exc, L, cells)[1] \in {"ok", "outside"}

\* ---- where the statement is silent: DRIFT notes only -----------------------------------------
\* Table.width = n: the body is n wide;  a title / caption line is not wider than the body;
\* title lines come before, caption lines after the body.
WidthOptionDrift(t, W, L) == t.w # 0 /\ BodyLines(L) # {} /\ NoWidthCap(t) /\ WidthOf(L) # t.w
AnnotationDrift(L) == \E i \in DOMAIN L : /\ L[i].k # "body" /\ BodyLines(L) # {}
                                          /\ \/ L[i].w > WidthOf(L)
                                             \/ L[i].k = "title" /\ i > SetMin(BodyLines(L))
                                             \/ L[i].k = "caption" /\ i < SetMax(BodyLines(L))
\* (box tables) the characters of a cell keep clear of the padding the options ask for: with the borders of
\* the row lines at ref, content of column c starts at least PadL cells after the border to its left and ends
\* at least PadR cells before the border to its right.  The statement only speaks of the column's span.
PaddingDrift(t, L) ==
    LET RL == RowLines(L)
        ref == RefOf(BorderMap(L, RL), RL)
        ok == t.box /\ Cardinality(ref) = Edges(t) + Dividers(t) /\ RL # {}
        w0 == WidthOf(L)
        LeftB(c) == LET k == (c - 1) + (IF t.edge THEN 1 ELSE 0)
                    IN IF k = 0 THEN -1 ELSE CHOOSE p \in ref : Cardinality({q \in ref : q < p}) = k - 1
        RightB(c) == LET k == (c - 1) + (IF t.edge THEN 1 ELSE 0)
                     IN IF k = Cardinality(ref) THEN w0 ELSE CHOOSE p \in ref : Cardinality({q \in ref : q < p}) = k
    IN ok /\ \E i \in RL : \E r \in DOMAIN L[i].runs :
            LET run == L[i].runs[r] IN
            /\ Kind(run) = KContent /\ Len_(run) > 0 /\ Col(run) \in 1..t.nc
            /\ \/ Start(run) < LeftB(Col(run)) + 1 + PadL(t, Col(run))
               \/ Start(run) + Len_(run) > RightB(Col(run)) - PadR(t, Col(run))
DriftWhy(t, W, L) == IF WidthOptionDrift(t, W, L) THEN "width-option-not-exact"
                     ELSE IF AnnotationDrift(L) THEN "title-or-caption-misplaced-or-wider"
                     ELSE IF PaddingDrift(t, L) THEN "content-inside-the-padding"
                     ELSE "none"
=============================================================================
