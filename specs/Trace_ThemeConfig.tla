-------------------------- MODULE Trace_ThemeConfig --------------------------
(* C20, last clause: a theme's config text reads back as a theme with equal styles.  A record
   holds, per style name, the projection of the style before and after the round trip
   Theme -> .config -> Theme.from_file: 13 tri-state attributes, colours, link.                *)
EXTENDS Naturals, Sequences, TLC, Json, IOUtils
Recs == JsonDeserialize(IOEnv.TRACE_FILE)
VARIABLE tid
R == Recs[tid]
SameStyle(a, b) == a.attrs = b.attrs /\ a.fg = b.fg /\ a.bg = b.bg /\ a.link = b.link
Verdict ==
    IF R.exc # "none" THEN "config-raises-" \o R.exc
    ELSE IF R.namesAfter # R.names THEN "config-names-differ"
    ELSE IF \E i \in DOMAIN R.before : ~SameStyle(R.before[i], R.after[i]) THEN "config-style-differs"
    ELSE "ok"
Init == tid \in 1..Len(Recs)
Next == FALSE /\ UNCHANGED tid        \* one state per record: the verdict is printed once
Report == PrintT(<<"VERDICT", tid, Verdict>>)
=============================================================================
