-------------------------- MODULE Trace_ThemeConfig --------------------------
(* C20, last clause: a theme's config text reads back as a theme with equal styles.  A record
   holds, per style name of the theme, the projection of the style before and after the round trip
   Theme -> .config -> Theme.from_file / Theme.read: 13 tri-state attributes, colours, link;
   names / namesAfter are the style names before and after, extra the names of DEFAULT_STYLES when
   the text was read with inherit on (the reader then adds them, by its documentation).           *)
EXTENDS Naturals, Sequences, TLC, Json, IOUtils
Recs == JsonDeserialize(IOEnv.TRACE_FILE)
VARIABLE tid
R == Recs[tid]
SetOf(sq) == {sq[i] : i \in DOMAIN sq}
SameStyle(a, b) == a.attrs = b.attrs /\ a.fg = b.fg /\ a.bg = b.bg /\ a.link = b.link
Verdict ==
    IF R.exc # "none" THEN "config-raises-" \o R.exc
    ELSE IF SetOf(R.namesAfter) # SetOf(R.names) \cup SetOf(R.extra) THEN "config-names-differ"
    ELSE IF \E i \in DOMAIN R.before : ~SameStyle(R.before[i], R.after[i]) THEN "config-style-differs"
    ELSE "ok"
Init == tid \in 1..Len(Recs)
Next == FALSE /\ UNCHANGED tid        \* one state per record: the verdict is printed once
Report == PrintT(<<"VERDICT", tid, Verdict>>)
=============================================================================
