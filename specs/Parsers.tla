------------------------------- MODULE Parsers -------------------------------
(* C14 - no input makes the pipeline fail with an undocumented error.

   Text is a sequence of code points.  An input is either a sequence of TOKENS (ids into Tok, the
   syntax-significant fragments of the statement's quantifier; Flat() concatenates them) or an
   arbitrary string (then nothing is predicted, only the property part applies).

   PROPERTY PART            Allowed(entry): the documented outcome set of an entry point
                            ("ok" or the name of the documented exception class; an exception that
                            is an instance of a sub-class of the documented class counts as it).
                            Trees of built-in renderables: rendering / measuring / printing at any
                            width >= 1 has outcome "ok".
   IMPLEMENTATION-SHAPED    Predicted(entry, s): the grammar of each parser, transcribed from the
                            design of rich/color.py (RE_COLOR + parse), rich/style.py (parse, the
                            fold over words; __str__ for normalize), rich/console.py (get_style),
                            rich/markup.py (tag lexer = Markup!Lex, closing-tag matching through
                            Style.normalize).  Where 9.10.0 lets an internal error escape
                            (int() on a bad rgb component) the grammar states the DESIGN
                            (the documented error); disagreement inside Allowed is only drift.

   Data taken as given (read from the tree under test): ColorNames (keys of ANSI_COLOR_NAMES),
   ThemeNames (style names of the console's theme).                                             *)
EXTENDS Naturals, Integers, Sequences, FiniteSets, TLC

CONSTANTS ColorNames,     \* set of code-point sequences
          ThemeNames      \* set of code-point sequences

MK == INSTANCE Markup     \* the tag lexer of C04 (Lex), namespaced

\* ---------------------------------------------------------------------------------------------
\* token table
Tok == <<
    <<114,103,98,40>>,              \*  1  rgb(
    <<44>>,                         \*  2  ,
    <<41>>,                         \*  3  )
    <<49>>,                         \*  4  1
    <<50,53>>,                      \*  5  25
    <<54>>,                         \*  6  6
    <<1635>>,                       \*  7  ARABIC-INDIC DIGIT THREE  (category Nd: \d and int() accept it)
    <<178>>,                        \*  8  SUPERSCRIPT TWO           (category No: str.isdigit() accepts it, \d and int() do not)
    <<35>>,                         \*  9  #
    <<97,98,99>>,                   \* 10  abc   (three hex digits)
    <<102>>,                        \* 11  f     (one hex digit that is no style word)
    <<99,111,108,111,114,40>>,      \* 12  color(
    <<114,101,100>>,                \* 13  red   (a colour name; "red1" is one, too)
    <<100,101,102,97,117,108,116>>, \* 14  default
    <<111,110>>,                    \* 15  on
    <<110,111,116>>,                \* 16  not
    <<108,105,110,107>>,            \* 17  link
    <<98,111,108,100>>,             \* 18  bold
    <<98>>,                         \* 19  b     (alias of bold, and a hex digit)
    <<110,111,110,101>>,            \* 20  none
    <<91>>,                         \* 21  [
    <<93>>,                         \* 22  ]
    <<47>>,                         \* 23  /
    <<92>>,                         \* 24  backslash
    <<61>>,                         \* 25  =
    <<27,91>>,                      \* 26  ESC[
    <<59>>,                         \* 27  ;
    <<109>>,                        \* 28  m
    <<32>>,                         \* 29  space
    <<10>>,                         \* 30  newline
    <<120>>,                        \* 31  x     (no word of any grammar)
    <<51,56>>,                      \* 32  38
    <<27,93,56,59>>,                \* 33  ESC]8;
    <<27,92>>,                      \* 34  ESC backslash (string terminator)
    <<53>>,                         \* 35  5
    <<50>>,                         \* 36  2
    <<45>>,                         \* 37  -     (a sign: no parser accepts it, int() would)
    <<46>>,                         \* 38  .
    <<58>>,                         \* 39  :     (emoji code delimiter; SGR sub-parameter separator)
    <<27>>,                         \* 40  ESC alone
    <<52,56>>,                      \* 41  48    (SGR background introducer)
    <<7>>,                          \* 42  BEL   (the other OSC terminator)
    <<48>>,                         \* 43  0
    <<65>>,                         \* 44  A     (upper case: a CSI final byte that is not m; an upper-case hex digit)
    <<115,109,105,108,101>>         \* 45  smile (an emoji name)
>>
NTok == Len(Tok)
\* the empty fragment of the quantifier is the empty token sequence

RECURSIVE Flat(_)
Flat(ids) == IF ids = <<>> THEN <<>> ELSE Tok[Head(ids)] \o Flat(Tail(ids))

Entries == {"color", "style", "get", "getd", "markup", "printm", "decode", "text", "print"}

\* alphabets of syntax-significant fragments per entry point
Alphabet(e) ==
    CASE e = "color"  -> {1, 2, 3, 4, 5, 6, 7, 8, 9, 10, 11, 12, 13, 14, 29, 30, 37}
      [] e \in {"style", "get", "getd"} -> {15, 16, 17, 18, 19, 20, 13, 31, 1, 2, 3, 4, 29, 30, 9, 10}
      [] e \in {"markup", "printm"} -> {21, 22, 23, 24, 25, 18, 19, 13, 31, 17, 29, 30, 1, 2, 3, 39, 45}
      [] e = "decode" -> {26, 27, 28, 4, 36, 35, 32, 7, 8, 31, 29, 30, 33, 34, 39, 40, 41, 42, 43, 44}
      [] e \in {"text", "print"} -> 1..NTok

\* contexts <<prefix, suffix>> (token sequences) put around an enumerated sequence so that bounded
\* enumeration reaches inside the deeper syntactic positions; context 1 is the empty one
Contexts(e) ==
    CASE e = "color"  -> << << <<>>, <<>> >>, << <<1>>, <<3>> >>, << <<1, 4, 2, 4, 2>>, <<3>> >> >>
      [] e = "style"  -> << << <<>>, <<>> >>, << <<18, 29>>, <<>> >>, << <<>>, <<29, 18>> >> >>
      [] e = "markup" -> << << <<>>, <<>> >>, << <<21, 18, 22>>, <<>> >>, << <<21>>, <<22>> >>,
                            << <<21, 19, 29, 13, 22, 31>>, <<>> >> >>
      [] e = "decode" -> << << <<>>, <<>> >>, << <<26>>, <<28>> >>, << <<26, 32, 27>>, <<28>> >> >>
      [] OTHER        -> << << <<>>, <<>> >> >>

InContext(e, c, mid) == Contexts(e)[c][1] \o mid \o Contexts(e)[c][2]

\* ---------------------------------------------------------------------------------------------
\* PROPERTY PART
Allowed(e) ==
    CASE e = "color"               -> {"ok", "ColorParseError"}
      [] e = "style"               -> {"ok", "StyleSyntaxError"}
      [] e \in {"get", "getd"}     -> {"ok", "MissingStyle"}
      [] e \in {"markup", "printm"} -> {"ok", "MarkupError"}
      [] e \in {"decode", "text", "print"} -> {"ok"}
      [] OTHER                     -> {"ok"}

Range(f) == {f[i] : i \in DOMAIN f}

\* an observation: out = "ok" or the exception's class name; isa = the documented classes it is an instance of
Effective(e, out, isa) ==
    IF out = "ok" THEN "ok"
    ELSE IF \E d \in Allowed(e) \ {"ok"} : d \in Range(isa)
         THEN CHOOSE d \in Allowed(e) \ {"ok"} : d \in Range(isa)
         ELSE out
OutcomeAllowed(e, out, isa) == Effective(e, out, isa) \in Allowed(e)

\* trees: every width of at least one cell; ops render / measure / print
TreeOutcomeOK(W, out) == W >= 1 => out = "ok"

\* ---------------------------------------------------------------------------------------------
\* characters
WS          == {9, 10, 11, 12, 13, 28, 29, 30, 31, 32, 133, 160}    \* what str.strip/split and \s treat as blank (subset used)
AsciiDigit  == 48..57
NdDigit     == AsciiDigit \cup (1632..1641)      \* \d of a str pattern (decimal digits; the scripts of the alphabet)
Hex         == AsciiDigit \cup (97..102)
DigitVal(c) == IF c \in AsciiDigit THEN c - 48 ELSE c - 1632
Min2(a, b)  == IF a <= b THEN a ELSE b

Lower(s) == [i \in 1..Len(s) |-> IF s[i] \in 65..90 THEN s[i] + 32 ELSE s[i]]

RECURSIVE LStrip(_)
LStrip(s) == IF s = <<>> THEN s ELSE IF Head(s) \in WS THEN LStrip(Tail(s)) ELSE s
RECURSIVE RStrip(_)
RStrip(s) == IF s = <<>> THEN s ELSE IF s[Len(s)] \in WS THEN RStrip(SubSeq(s, 1, Len(s) - 1)) ELSE s
Strip(s) == RStrip(LStrip(s))

StartsWith(s, p) == Len(s) >= Len(p) /\ SubSeq(s, 1, Len(p)) = p

\* str.split(sep): keeps empty pieces
RECURSIVE SplitFrom(_, _, _, _)
SplitFrom(s, i, cur, seps) ==
    IF i > Len(s) THEN <<cur>>
    ELSE IF s[i] \in seps THEN <<cur>> \o SplitFrom(s, i + 1, <<>>, seps)
    ELSE SplitFrom(s, i + 1, Append(cur, s[i]), seps)
SplitOn(s, c) == SplitFrom(s, 1, <<>>, {c})
\* str.split(): blank-separated words, no empty ones
Words(s) == SelectSeq(SplitFrom(s, 1, <<>>, WS), LAMBDA w : w # <<>>)

\* value of a digit string, saturating (TLC integers are 32 bit; only the comparison with 255 matters)
RECURSIVE ValFrom(_, _, _)
ValFrom(ds, i, acc) == IF i > Len(ds) THEN acc ELSE ValFrom(ds, i + 1, Min2(1000, acc * 10 + DigitVal(ds[i])))
Val(ds) == ValFrom(ds, 1, 0)

S_default == <<100,101,102,97,117,108,116>>
S_color   == <<99,111,108,111,114,40>>       \* color(
S_rgb     == <<114,103,98,40>>               \* rgb(
S_none    == <<110,111,110,101>>
S_on      == <<111,110>>
S_not     == <<110,111,116>>
S_link    == <<108,105,110,107>>

\* ---------------------------------------------------------------------------------------------
\* Color.parse  (rich/color.py: lower().strip(); "default"; a name; RE_COLOR; range checks)
\* what int() accepts among the strings RE_COLOR lets through ([\d\s,]+ split at commas)
IntLiteral(comp) == LET t == Strip(comp) IN t # <<>> /\ \A i \in 1..Len(t) : t[i] \in NdDigit

ColorClass(s) ==
    LET c == Strip(Lower(s)) IN
    IF c = S_default \/ c \in ColorNames THEN "ok"
    ELSE IF Len(c) = 7 /\ c[1] = 35 /\ \A i \in 2..7 : c[i] \in Hex THEN "ok"              \* #rrggbb
    ELSE IF StartsWith(c, S_color) /\ c[Len(c)] = 41 THEN                                     \* color(n)
         LET inner == SubSeq(c, 7, Len(c) - 1) IN
         IF Len(inner) \in 1..3 /\ (\A i \in 1..Len(inner) : inner[i] \in AsciiDigit) /\ Val(inner) <= 255
         THEN "ok" ELSE "ColorParseError"
    ELSE IF StartsWith(c, S_rgb) /\ c[Len(c)] = 41 THEN                                       \* rgb(r,g,b)
         LET inner == SubSeq(c, 5, Len(c) - 1) IN
         IF inner = <<>> \/ \E i \in 1..Len(inner) : inner[i] \notin (NdDigit \cup WS \cup {44})
         THEN "ColorParseError"
         ELSE LET comps == SplitOn(inner, 44) IN
              IF Len(comps) # 3 THEN "ColorParseError"
              ELSE IF \E k \in 1..3 : ~IntLiteral(comps[k]) THEN "ColorParseError"   \* design; 9.10.0: int() raises ValueError
              ELSE IF \A k \in 1..3 : Val(Strip(comps[k])) <= 255 THEN "ok" ELSE "ColorParseError"
    ELSE "ColorParseError"

\* ---------------------------------------------------------------------------------------------
\* Style.parse  (rich/style.py): a fold over the blank-separated words
AttrName == <<
    <<98,111,108,100>>, <<100,105,109>>, <<105,116,97,108,105,99>>, <<117,110,100,101,114,108,105,110,101>>,
    <<98,108,105,110,107>>, <<98,108,105,110,107,50>>, <<114,101,118,101,114,115,101>>, <<99,111,110,99,101,97,108>>,
    <<115,116,114,105,107,101>>, <<117,110,100,101,114,108,105,110,101,50>>, <<102,114,97,109,101>>,
    <<101,110,99,105,114,99,108,101>>, <<111,118,101,114,108,105,110,101>> >>     \* in the order str() lists them
NAttr == Len(AttrName)
AttrAlias == <<     \* word -> attribute number
    << <<100,105,109>>, 2 >>, << <<100>>, 2 >>, << <<98,111,108,100>>, 1 >>, << <<98>>, 1 >>,
    << <<105,116,97,108,105,99>>, 3 >>, << <<105>>, 3 >>, << <<117,110,100,101,114,108,105,110,101>>, 4 >>, << <<117>>, 4 >>,
    << <<98,108,105,110,107>>, 5 >>, << <<98,108,105,110,107,50>>, 6 >>, << <<114,101,118,101,114,115,101>>, 7 >>, << <<114>>, 7 >>,
    << <<99,111,110,99,101,97,108>>, 8 >>, << <<99>>, 8 >>, << <<115,116,114,105,107,101>>, 9 >>, << <<115>>, 9 >>,
    << <<117,110,100,101,114,108,105,110,101,50>>, 10 >>, << <<117,117>>, 10 >>, << <<102,114,97,109,101>>, 11 >>,
    << <<101,110,99,105,114,99,108,101>>, 12 >>, << <<111,118,101,114,108,105,110,101>>, 13 >>, << <<111>>, 13 >> >>
AttrIdx(w) == LET S == {k \in 1..Len(AttrAlias) : AttrAlias[k][1] = w}
              IN IF S = {} THEN 0 ELSE AttrAlias[CHOOSE k \in S : TRUE][2]

NullSt == [attrs |-> [a \in 1..NAttr |-> 0], fg |-> <<>>, bg |-> <<>>, link |-> <<>>]   \* attrs: 0 unset, 1 set, 2 "not"
BadStyle == [ok |-> FALSE, st |-> NullSt]

RECURSIVE FoldWords(_, _, _)
FoldWords(ws, i, st) ==
    IF i > Len(ws) THEN [ok |-> TRUE, st |-> st]
    ELSE LET w == Lower(ws[i])
             more == i < Len(ws) IN
      IF w = S_on THEN
           IF ~more THEN BadStyle                                     \* "on" at the end
           ELSE IF ColorClass(ws[i + 1]) # "ok" THEN BadStyle
           ELSE FoldWords(ws, i + 2, [st EXCEPT !.bg = Strip(Lower(ws[i + 1]))])
      ELSE IF w = S_not THEN
           IF ~more THEN BadStyle
           ELSE IF AttrIdx(ws[i + 1]) = 0 THEN BadStyle               \* (the word after "not" is not lower-cased)
           ELSE FoldWords(ws, i + 2, [st EXCEPT !.attrs[AttrIdx(ws[i + 1])] = 2])
      ELSE IF w = S_link THEN
           IF ~more THEN BadStyle
           ELSE FoldWords(ws, i + 2, [st EXCEPT !.link = ws[i + 1]])
      ELSE IF AttrIdx(w) # 0 THEN FoldWords(ws, i + 1, [st EXCEPT !.attrs[AttrIdx(w)] = 1])
      ELSE IF ColorClass(w) = "ok" THEN FoldWords(ws, i + 1, [st EXCEPT !.fg = w])
      ELSE BadStyle

StyleParse(s) ==
    IF s = <<>> THEN [ok |-> TRUE, st |-> NullSt]
    ELSE IF Strip(s) = S_none THEN [ok |-> TRUE, st |-> NullSt]
    ELSE FoldWords(Words(s), 1, NullSt)
StyleClass(s) == IF StyleParse(s).ok THEN "ok" ELSE "StyleSyntaxError"

\* str(style): the normal form used to match closing tags
RECURSIVE AttrWordsFrom(_, _)
AttrWordsFrom(st, a) ==
    IF a > NAttr THEN <<>>
    ELSE (IF st.attrs[a] = 1 THEN <<AttrName[a]>> ELSE IF st.attrs[a] = 2 THEN <<S_not, AttrName[a]>> ELSE <<>>)
         \o AttrWordsFrom(st, a + 1)
RECURSIVE Join(_)
Join(ws) == IF ws = <<>> THEN <<>> ELSE IF Len(ws) = 1 THEN ws[1] ELSE ws[1] \o <<32>> \o Join(Tail(ws))
StyleStr(st) ==
    LET ws == AttrWordsFrom(st, 1)
              \o (IF st.fg # <<>> THEN <<st.fg>> ELSE <<>>)
              \o (IF st.bg # <<>> THEN <<S_on, st.bg>> ELSE <<>>)
              \o (IF st.link # <<>> THEN <<S_link, st.link>> ELSE <<>>)
    IN IF ws = <<>> THEN S_none ELSE Join(ws)
\* Style.normalize
Normalize(s) == LET r == StyleParse(s) IN IF r.ok THEN StyleStr(r.st) ELSE Strip(Lower(s))

\* Console.get_style(name [, default=a valid definition])
GetStyleClass(s, hasGoodDefault) ==
    IF s \in ThemeNames THEN "ok"
    ELSE IF StyleParse(s).ok THEN "ok"
    ELSE IF hasGoodDefault THEN "ok" ELSE "MissingStyle"

\* ---------------------------------------------------------------------------------------------
\* markup render: tags as Markup!Lex finds them; MarkupError exactly when a closing tag finds nothing to close
RECURSIVE UpTo(_, _, _)
UpTo(s, i, c) == IF i > Len(s) THEN s ELSE IF s[i] = c THEN SubSeq(s, 1, i - 1) ELSE UpTo(s, i + 1, c)
TagName(t) == UpTo(t, 1, 61)                   \* text.partition("=")[0]

LastIdx(stack, key) == LET S == {i \in 1..Len(stack) : stack[i] = key}
                       IN IF S = {} THEN 0 ELSE CHOOSE i \in S : \A j \in S : j <= i
RemoveAt(seq, i) == SubSeq(seq, 1, i - 1) \o SubSeq(seq, i + 1, Len(seq))

RECURSIVE TagFold(_, _, _)
TagFold(items, i, stack) ==
    IF i > Len(items) THEN "ok"
    ELSE IF items[i].k # "tag" THEN TagFold(items, i + 1, stack)
    ELSE LET name == TagName(items[i].t) IN
      IF name # <<>> /\ name[1] = 47 THEN                               \* closing tag
           LET sn == Strip(Tail(name)) IN
           IF sn = <<>> THEN                                             \* [/]
                IF stack = <<>> THEN "MarkupError" ELSE TagFold(items, i + 1, SubSeq(stack, 1, Len(stack) - 1))
           ELSE LET j == LastIdx(stack, Normalize(sn)) IN
                IF j = 0 THEN "MarkupError" ELSE TagFold(items, i + 1, RemoveAt(stack, j))
      ELSE TagFold(items, i + 1, Append(stack, Normalize(name)))
MarkupClass(s) == TagFold(MK!Lex(s), 1, <<>>)

\* ---------------------------------------------------------------------------------------------
Predicted(e, s) ==
    CASE e = "color"  -> ColorClass(s)
      [] e = "style"  -> StyleClass(s)
      [] e = "get"    -> GetStyleClass(s, FALSE)
      [] e = "getd"   -> GetStyleClass(s, TRUE)
      [] e \in {"markup", "printm"} -> MarkupClass(s)
      [] OTHER        -> "ok"                     \* decode, text, print: any string is accepted
=============================================================================
