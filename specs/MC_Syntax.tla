------------------------------ MODULE MC_Syntax ------------------------------
(* M1: exhaustive model of the pipeline of rich/syntax.py over every source of at most MaxLen
   characters from Alphabet, every option combination below and EVERY lexer, a lexer being an
   arbitrary partition of the pre-processed text into tokens.  One action per stage:

       Expand      code.expandtabs(tab_size)                                  (syntax.py:487)
       LexKnown    Pygments pre-processing (stripnl / ensurenl) + some token partition
       LexUnknown  ClassNotFound: the code is appended verbatim               (syntax.py:376)
       AssembleRanged / AssembleWhole
                   ranged or whole-text assembly of the tokens (syntax.py:378-416) followed by
                   remove_suffix, split, slice, numbering (syntax.py:489-529) = Syntax!ImplRowsPre

   The invariants are the property part of Syntax.tla (SynVerdict) applied to the rows the
   model produces.  Design switches (CONSTANTS): StripNl, GuardSkip, SuffixFirst - see
   Syntax!ImplRows.  With (FALSE, TRUE, FALSE) every invariant holds (the property is
   satisfiable by a pipeline of this shape); switching any one to the value the code has
   today makes TLC exhibit the corresponding defect.                                          *)
EXTENDS Syntax

CONSTANTS MaxLen, MaxCuts, Alphabet, Tabs, Starts, StripNl, GuardSkip, SuffixFirst

\* none; inside; straddling the start / the end; empty (last < first); beyond; before
Ranges == {<<>>, <<1, 1>>, <<2, 3>>, <<0, 2>>, <<2, 9>>, <<3, 2>>, <<8, 9>>, <<0, 0>>}

VARIABLES stage, inp, code, cuts, pre, out
vars == <<stage, inp, code, cuts, pre, out>>

Sources == UNION {[1..n -> Alphabet] : n \in 0..MaxLen}
\* line numbers off is only combined with "no range" (the statement is silent otherwise)
Options == {o \in [tab : Tabs, start : Starts, range : Ranges, numbers : BOOLEAN, known : BOOLEAN] :
               ~o.numbers => (o.range = <<>> /\ o.start = MinS(Starts))}

Init == /\ stage = "input"
        /\ inp \in {[src |-> s, o |-> o] : s \in Sources, o \in Options}
        /\ code = <<>> /\ cuts = {} /\ pre = <<>> /\ out = [ok |-> TRUE, rows |-> <<>>]

Expand == /\ stage = "input"
          /\ code' = ExpandAll(inp.src, inp.o.tab)
          /\ stage' = "expanded"
          /\ UNCHANGED <<inp, cuts, pre, out>>

LexKnown == /\ stage = "expanded" /\ inp.o.known
            /\ pre' = PreLex(code, StripNl)
            /\ stage' = "lexed"
            /\ UNCHANGED <<inp, code, cuts, out>>

LexUnknown == /\ stage = "expanded" /\ ~inp.o.known
              /\ pre' = code
              /\ stage' = "lexed"
              /\ UNCHANGED <<inp, code, cuts, out>>

\* the lexer: any partition of the pre-processed text into at most MaxCuts + 1 tokens
Partitions == IF inp.o.known
              THEN {c \in SUBSET (1..(Len(pre) - 1)) : Cardinality(c) <= MaxCuts}
              ELSE {{}}
\* Assemble + Render are one functional composition in Syntax!ImplRows; the model takes them in
\* one step from the chosen partition (two named disjuncts for coverage: ranged / whole)
Result(c) == ImplRowsPre(pre, inp.o.start, inp.o.range, inp.o.numbers, inp.o.known, c, GuardSkip, SuffixFirst)
AssembleRanged == /\ stage = "lexed" /\ inp.o.range # <<>>
                  /\ \E c \in Partitions : cuts' = c /\ out' = Result(c)
                  /\ stage' = "done"
                  /\ UNCHANGED <<inp, code, pre>>
AssembleWhole == /\ stage = "lexed" /\ inp.o.range = <<>>
                 /\ \E c \in Partitions : cuts' = c /\ out' = Result(c)
                 /\ stage' = "done"
                 /\ UNCHANGED <<inp, code, pre>>

Next == Expand \/ LexKnown \/ LexUnknown \/ AssembleRanged \/ AssembleWhole
Spec == Init /\ [][Next]_vars

\* ---- the property part applied to the model's output -------------------------------------
AsRecord == [src |-> inp.src, tab |-> inp.o.tab, start |-> inp.o.start, numbers |-> inp.o.numbers,
             range |-> inp.o.range, mode |-> "exact", guides |-> FALSE,
             exc |-> IF out.ok THEN "none" ELSE "RuntimeError", gutter_ok |-> TRUE, rows |-> out.rows]
V == IF stage = "done" THEN SynVerdict(AsRecord) ELSE "ok"

NoCrash      == V # "crash"
CountRight   == V # "row-count-differs"
NumbersRight == V # "number-wrong"
TextRight    == V # "text-differs"
AllOk        == V = "ok"

\* the lexer is free: the pre-processed text is what the tokens spell (sanity of the model)
TokensSpellText == stage = "lexed" /\ inp.o.known =>
                       \A c \in Partitions : Concat(TokensOf(pre, c)) = pre /\ Concat(LineTokens(pre, c)) = pre
\* the partition chosen is not part of the state identity: a design whose output does not
\* depend on the lexer collapses to one "done" state per input
View == <<stage, inp, code, pre, out>>
\* Expected (trailing blank lines dropped) is one of the accepted renders: non-vacuity of "aside"
ExpectedAccepted ==
    stage = "input" =>
      SynVerdict([src |-> inp.src, tab |-> inp.o.tab, start |-> inp.o.start, numbers |-> TRUE,
                  range |-> inp.o.range, mode |-> "exact", guides |-> FALSE, exc |-> "none", gutter_ok |-> TRUE,
                  rows |-> LET e == Expected(inp.src, inp.o.tab, inp.o.start, inp.o.range)
                           IN [k \in 1..Len(e) |-> [hasn |-> TRUE, n |-> e[k][1], m |-> FALSE, t |-> e[k][2]]]]) = "ok"
=============================================================================
