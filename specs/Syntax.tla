------------------------------- MODULE Syntax -------------------------------
(* C17 - Syntax and tracebacks show the source line for line under the right numbers.

   Text is a sequence of code points.  A projected *row* of a render is
       [hasn |-> BOOLEAN, n |-> Int, m |-> BOOLEAN, t |-> Seq(code point)]
   hasn: the gutter of the row carries a number n (continuation rows of a wrapped line and rows
   of a render without line numbers carry none); m: the row carries the failing-line /
   highlight pointer; t: the code part of the row with right padding removed.

   Property part ................ Lines / Clip / Expected, SameText / PrefixText / WrapMatch,
                                  SynVerdict, TbVerdict  (what the statement demands)
   Implementation-shaped part ... PreLex .. ImplRows     (what rich/syntax.py does today:
                                  Pygments pre-processing, token stream, ranged assembly,
                                  remove_suffix, Text.split, slicing, numbering)             *)
EXTENDS Integers, Sequences, FiniteSets, TLC

NL    == 10
TAB   == 9
SP    == 32
GUIDE == 9474        \* U+2502, the indent-guide character

MaxI(a, b) == IF a >= b THEN a ELSE b
MinI(a, b) == IF a <= b THEN a ELSE b
MaxS(S) == CHOOSE x \in S : \A y \in S : y <= x
MinS(S) == CHOOSE x \in S : \A y \in S : x <= y
Spaces(n) == [i \in 1..MaxI(n, 0) |-> SP]
PadTo(s, n) == IF Len(s) >= n THEN s ELSE s \o Spaces(n - Len(s))
RStrip(s) == LET idx == {i \in 1..Len(s) : s[i] # SP}
             IN IF idx = {} THEN <<>> ELSE SubSeq(s, 1, MaxS(idx))
IsBlank(s) == \A i \in 1..Len(s) : s[i] = SP

\* =================================== property part ==========================================
\* ---- the lines of a source --------------------------------------------------------------
\* SplitOn(s, sep): s split on the code point sep (always at least one piece; "a\n" gives
\* <<"a", "">>).  Divide and conquer so that files of thousands of characters do not recurse
\* deeply (TLC evaluates RECURSIVE operators on the Java stack).
RECURSIVE SplitR(_, _, _, _)
SplitR(s, sep, lo, hi) ==
    IF lo > hi THEN << <<>> >>
    ELSE IF lo = hi THEN (IF s[lo] = sep THEN << <<>>, <<>> >> ELSE << <<s[lo]>> >>)
    ELSE LET mid == (lo + hi) \div 2
             L == SplitR(s, sep, lo, mid)
             R == SplitR(s, sep, mid + 1, hi)
         IN SubSeq(L, 1, Len(L) - 1) \o << L[Len(L)] \o R[1] >> \o SubSeq(R, 2, Len(R))
SplitOn(s, sep) == SplitR(s, sep, 1, Len(s))
Pieces(s) == SplitOn(s, NL)

\* Python's str.expandtabs column rule: the column is the number of characters since the last
\* newline; a tab becomes 1..tab spaces up to the next multiple of tab (tab <= 0: removed).
\* (recursion over the tab-separated segments of one line)
RECURSIVE ExpandFrom(_, _, _, _)
ExpandFrom(segs, i, tab, acc) ==
    IF i > Len(segs) THEN acc
    ELSE ExpandFrom(segs, i + 1, tab,
                    acc \o Spaces(IF tab > 0 THEN tab - (Len(acc) % tab) ELSE 0) \o segs[i])
ExpandTabs(line, tab) ==
    IF \A i \in 1..Len(line) : line[i] # TAB THEN line
    ELSE LET segs == SplitOn(line, TAB) IN ExpandFrom(segs, 2, tab, segs[1])

\* every piece, tabs expanded
AllLines(src, tab) == LET p == Pieces(src) IN [i \in 1..Len(p) |-> ExpandTabs(p[i], tab)]
\* number of lines up to the last non-blank one ("blank lines at the very end aside")
CoreCount(lines) == LET nb == {i \in 1..Len(lines) : ~IsBlank(lines[i])}
                    IN IF nb = {} THEN 0 ELSE MaxS(nb)
\* the source lines of the statement
Lines(src, tab) == LET a == AllLines(src, tab) IN SubSeq(a, 1, CoreCount(a))

\* ---- ranges ------------------------------------------------------------------------------
\* range = <<>> (none) or <<first, last>> (1-based source line indices, inclusive)
Clip(range, n) == IF range = <<>> THEN [lo |-> 1, hi |-> n]
                  ELSE [lo |-> MaxI(range[1], 1), hi |-> MinI(range[2], n)]
ClipCount(range, n) == LET c == Clip(range, n) IN MaxI(0, c.hi - c.lo + 1)

\* rows expected when n lines are taken to exist: <<number, text>>
ExpectedN(lines, start, range, n) ==
    LET c == Clip(range, n)
    IN [k \in 1..ClipCount(range, n) |-> << start + c.lo + k - 2, lines[c.lo + k - 1] >>]
Expected(src, tab, start, range) ==
    LET a == AllLines(src, tab) IN ExpectedN(a, start, range, CoreCount(a))
\* "blank lines at the very end aside": every count of lines between the last non-blank line
\* and the last piece is acceptable as "the lines that exist"
ExistCounts(lines) == CoreCount(lines)..Len(lines)

\* ---- comparing a rendered row with a source line -------------------------------------------
\* Right padding is removed by the projection and the render pads rows, so texts are compared
\* modulo trailing spaces.  With indent guides the guide character may stand where the line
\* (padded with spaces) has only spaces up to and including that column.
LeadSp(l, j) == \A k \in 1..j : l[k] = SP
CharOK(rc, l, j, guides) == rc = l[j] \/ (guides /\ rc = GUIDE /\ LeadSp(l, j))

SameText(row, line, guides) ==
    LET n == MaxI(Len(row), Len(line))
        r == PadTo(row, n)
        l == PadTo(line, n)
    IN \A j \in 1..n : CharOK(r[j], l, j, guides)

\* cropped rows (word_wrap off, width smaller than the line): the row is a prefix of the line
PrefixText(row, line, guides) ==
    LET r == RStrip(row)
        l == PadTo(line, Len(r))
    IN \A j \in 1..Len(r) : CharOK(r[j], l, j, guides)

\* wrapped rows: the rows grouped under one number concatenate to the line; at each row
\* boundary a run of spaces of the line may have been cut off (it was right padding of the row)
\* (word wrapping breaks at white space in Python's sense - str.isspace / regex \s - not only at U+0020)
IsWS(c) == c \in {SP, 28, 29, 30, 31, 133, 160, 5760, 8232, 8233, 8239, 8287, 12288} \/ (c >= 8192 /\ c <= 8202)
SpaceRun(l, p) == LET ns == {q \in p..Len(l) : ~IsWS(l[q])}
                  IN IF ns = {} THEN MaxI(0, Len(l) - p + 1) ELSE MinS(ns) - p
RECURSIVE WrapFrom(_, _, _, _, _)
WrapFrom(ts, i, line, pos, guides) ==
    IF i > Len(ts) THEN \A k \in pos..Len(line) : IsWS(line[k])
    ELSE LET r == RStrip(ts[i])
             e == pos + Len(r) - 1
             l == PadTo(line, e)
         IN /\ \A j \in 1..Len(r) : CharOK(r[j], l, pos + j - 1, guides)
            /\ \E k \in 0..SpaceRun(l, e + 1) : WrapFrom(ts, i + 1, line, e + 1 + k, guides)
WrapMatch(ts, line, guides) == Len(ts) >= 1 /\ WrapFrom(ts, 1, line, 1, guides)

\* mode "exact": one row, equal; "prefix": one row, cropped; "wrap": several rows
TextOK(mode, guides, ts, line) ==
    CASE mode = "exact"  -> Len(ts) = 1 /\ SameText(ts[1], line, guides)
      [] mode = "prefix" -> Len(ts) = 1 /\ PrefixText(ts[1], line, guides)
      [] OTHER           -> WrapMatch(ts, line, guides)

\* rows without numbers under word wrap: some grouping of consecutive rows matches lines 1..n
RECURSIVE MatchFrom(_, _, _, _, _)
MatchFrom(lines, n, rows, i, j) ==
    IF i > n THEN j > Len(rows)
    ELSE \E k \in 1..(Len(rows) - j + 1) :
            /\ k <= Len(lines[i]) + 1
            /\ WrapMatch([q \in 1..k |-> rows[j + q - 1].t], lines[i], FALSE)
            /\ MatchFrom(lines, n, rows, i + 1, j + k)

\* ---- grouping rows under their number ----------------------------------------------------
\* group = [n, m, ts]: a numbered row and the continuation rows below it
RECURSIVE GroupFrom(_, _, _)
GroupFrom(rows, i, acc) ==
    IF i > Len(rows) THEN acc
    ELSE IF rows[i].hasn
         THEN GroupFrom(rows, i + 1, Append(acc, [n |-> rows[i].n, m |-> rows[i].m, ts |-> <<rows[i].t>>]))
         ELSE IF acc = <<>> THEN GroupFrom(rows, i + 1, acc)
         ELSE GroupFrom(rows, i + 1,
                        [acc EXCEPT ![Len(acc)].ts = Append(@, rows[i].t),
                                    ![Len(acc)].m = @ \/ rows[i].m])
Groups(rows) == GroupFrom(rows, 1, <<>>)

\* ---- acceptance of a Syntax render ---------------------------------------------------------
\* r = [src, tab, start, numbers, range, mode, guides, exc, gutter_ok, rows]
\* The result names the first failing clause ("ok" if none).
NumberedVerdict(r, all) ==
    LET G == Groups(r.rows)
        lo == Clip(r.range, 0).lo
    IN IF r.rows # <<>> /\ ~r.rows[1].hasn THEN "first-row-without-number"
       ELSE IF r.mode # "wrap" /\ Len(G) # Len(r.rows) THEN "row-without-number"
       ELSE IF ~\E n \in ExistCounts(all) : Len(G) = ClipCount(r.range, n) THEN "row-count-differs"
       ELSE IF \E k \in 1..Len(G) : G[k].n # r.start + lo + k - 2 THEN "number-wrong"
       ELSE IF \E k \in 1..Len(G) : ~TextOK(r.mode, r.guides, G[k].ts, all[lo + k - 1]) THEN "text-differs"
       ELSE "ok"

\* A line range without line numbers: the statement speaks of ranges only "with line numbers shown", so WHICH lines
\* appear is left open - but what appears must still be source lines, in order, unchanged: the rows are some
\* contiguous run of the lines (possibly none)
ContiguousRun(r, all) ==
    r.rows = <<>> \/ \E off \in 0..(Len(all) - Len(r.rows)) :
                        \A k \in 1..Len(r.rows) : TextOK(r.mode, FALSE, <<r.rows[k].t>>, all[off + k])
PlainVerdict(r, all) ==
    IF r.range # <<>> THEN (IF r.mode = "wrap" \/ ContiguousRun(r, all) THEN "ok" ELSE "rows-are-not-a-run-of-source-lines")
    ELSE IF r.mode = "wrap"
         THEN (IF \E n \in ExistCounts(all) : MatchFrom(all, n, r.rows, 1, 1) THEN "ok"
               ELSE "wrapped-rows-are-not-the-lines")
    ELSE IF Len(r.rows) \notin ExistCounts(all) THEN "row-count-differs"
    ELSE IF \E k \in 1..Len(r.rows) : ~TextOK(r.mode, FALSE, <<r.rows[k].t>>, all[k]) THEN "text-differs"
    ELSE "ok"

SynVerdict(r) ==
    LET all == AllLines(r.src, r.tab)
    IN IF r.exc # "none" THEN "crash"
       ELSE IF ~r.gutter_ok THEN "gutter-malformed"
       ELSE IF r.numbers THEN NumberedVerdict(r, all)
       ELSE PlainVerdict(r, all)

\* ---- acceptance of one traceback frame -----------------------------------------------------
\* r = [src (the file), tab, lineno, mode, guides, exc, found, gutter_ok, rows]
\* exactly one row is marked as the failing line and it is <<lineno, FileLines[lineno]>>; every
\* other numbered row shows the file line of its number (first sentence of the statement applied
\* to the Syntax the traceback builds).
TbVerdict(r) ==
    LET all == AllLines(r.src, r.tab)
        G == Groups(r.rows)
        marked == {k \in 1..Len(G) : G[k].m}
    IN IF r.exc # "none" THEN "crash"
       ELSE IF ~r.found THEN "frame-code-not-rendered"
       ELSE IF ~r.gutter_ok THEN "gutter-malformed"
       ELSE IF r.lineno \notin 1..Len(all) THEN "ok"      \* no such source line: statement silent
       ELSE IF marked = {} THEN "no-marked-row"
       ELSE IF Cardinality(marked) > 1 THEN "several-marked-rows"
       ELSE LET k == CHOOSE x \in marked : TRUE
            IN IF G[k].n # r.lineno THEN "marked-row-wrong-number"
               ELSE IF ~TextOK(r.mode, r.guides, G[k].ts, all[r.lineno]) THEN "marked-row-wrong-text"
               ELSE IF \E j \in 1..Len(G) : G[j].n \notin 1..Len(all) THEN "numbered-row-beyond-file"
               ELSE IF \E j \in 1..Len(G) : ~TextOK(r.mode, r.guides, G[j].ts, all[G[j].n])
                    THEN "numbered-row-wrong-text"
               ELSE "ok"

\* ============================ implementation-shaped part ====================================
\* rich/syntax.py: __rich_console__ 486-489 (expandtabs, highlight, remove_suffix), highlight
\* 374-416 (lexer, ranged assembly), 502-504 (split, slice), 529 (numbering).
RECURSIVE ConcatAll(_, _, _)
ConcatAll(toks, i, acc) == IF i > Len(toks) THEN acc ELSE ConcatAll(toks, i + 1, acc \o toks[i])
Concat(toks) == ConcatAll(toks, 1, <<>>)

RECURSIVE JoinNL(_, _, _)
JoinNL(ls, i, acc) == IF i > Len(ls) THEN acc
                      ELSE JoinNL(ls, i + 1, (IF i = 1 THEN acc ELSE Append(acc, NL)) \o ls[i])
\* code.expandtabs(tab_size) on the whole string
ExpandAll(src, tab) == JoinNL(AllLines(src, tab), 1, <<>>)

\* Pygments Lexer.get_tokens pre-processing: stripnl strips leading and trailing newlines,
\* ensurenl appends one if the text does not end with one
StripNLs(t) == LET idx == {i \in 1..Len(t) : t[i] # NL}
               IN IF idx = {} THEN <<>> ELSE SubSeq(t, MinS(idx), MaxS(idx))
PreLex(t, stripnl) == LET a == IF stripnl THEN StripNLs(t) ELSE t
                      IN IF a = <<>> \/ a[Len(a)] # NL THEN Append(a, NL) ELSE a

\* a lexer = any partition of the text into non-empty tokens: cuts \subseteq 1..Len(t)-1
\* (divide and conquer: [done |-> closed tokens, open |-> characters after the last cut])
RECURSIVE TokR(_, _, _, _)
TokR(t, cuts, lo, hi) ==
    IF lo > hi THEN [done |-> <<>>, open |-> <<>>]
    ELSE IF lo = hi THEN (IF lo \in cuts THEN [done |-> << <<t[lo]>> >>, open |-> <<>>]
                          ELSE [done |-> <<>>, open |-> <<t[lo]>>])
    ELSE LET mid == (lo + hi) \div 2
             L == TokR(t, cuts, lo, mid)
             R == TokR(t, cuts, mid + 1, hi)
         IN IF L.open = <<>> THEN [done |-> L.done \o R.done, open |-> R.open]
            ELSE IF R.done = <<>> THEN [done |-> L.done, open |-> L.open \o R.open]
            ELSE [done |-> L.done \o << L.open \o R.done[1] >> \o SubSeq(R.done, 2, Len(R.done)), open |-> R.open]
\* (plain recursion over the characters - faster for the short texts of the exhaustive model)
RECURSIVE TokFrom(_, _, _, _, _)
TokFrom(t, cuts, i, cur, acc) ==
    IF i > Len(t) THEN (IF cur = <<>> THEN acc ELSE Append(acc, cur))
    ELSE IF i \in cuts THEN TokFrom(t, cuts, i + 1, <<>>, Append(acc, Append(cur, t[i])))
    ELSE TokFrom(t, cuts, i + 1, Append(cur, t[i]), acc)
TokensOf(t, cuts) == IF Len(t) <= 48 THEN TokFrom(t, cuts, 1, <<>>, <<>>)
                     ELSE LET r == TokR(t, cuts, 1, Len(t))
                          IN r.done \o (IF r.open = <<>> THEN <<>> ELSE << r.open >>)
\* line_tokenize (383-388): every token is cut after each newline
NLCuts(t) == {i \in 1..Len(t) - 1 : t[i] = NL}
LineTokens(t, cuts) == TokensOf(t, cuts \cup NLCuts(t))
EndsNL(tok) == tok # <<>> /\ tok[Len(tok)] = NL

\* tokens_to_spans (390-408): skip tokens until line a-1 (next() on an exhausted iterator
\* raises inside the generator unless guarded), then copy tokens until line b is complete
RECURSIVE SkipPhase(_, _, _, _)
SkipPhase(lt, idx, lineNo, target) ==
    IF lineNo >= target THEN [idx |-> idx, lineNo |-> lineNo, crash |-> FALSE]
    ELSE IF idx > Len(lt) THEN [idx |-> idx, lineNo |-> lineNo, crash |-> TRUE]
    ELSE SkipPhase(lt, idx + 1, lineNo + (IF EndsNL(lt[idx]) THEN 1 ELSE 0), target)
RECURSIVE GenPhase(_, _, _, _)
GenPhase(lt, idx, lineNo, b) ==
    IF idx > Len(lt) THEN Len(lt)
    ELSE IF EndsNL(lt[idx]) /\ lineNo + 1 >= b THEN idx
    ELSE GenPhase(lt, idx + 1, lineNo + (IF EndsNL(lt[idx]) THEN 1 ELSE 0), b)
RangedText(t, cuts, range, guardSkip) ==
    LET lt == LineTokens(t, cuts)
        sk == SkipPhase(lt, 1, 0, range[1] - 1)
    IN IF sk.crash /\ ~guardSkip THEN [ok |-> FALSE, text |-> <<>>]
       ELSE [ok |-> TRUE, text |-> Concat(SubSeq(lt, 1, GenPhase(lt, sk.idx, sk.lineNo, range[2])))]

RemoveSuffixNL(t) == IF t # <<>> /\ t[Len(t)] = NL THEN SubSeq(t, 1, Len(t) - 1) ELSE t
\* Text.split("\n") (text.py:857): pieces; a final empty piece is dropped
TextSplit(t) == LET p == Pieces(t)
                IN IF t # <<>> /\ t[Len(t)] = NL THEN SubSeq(p, 1, Len(p) - 1) ELSE p
\* Python slice seq[lo:hi] for lo >= 0
PySlice(s, lo, hi) == LET h == IF hi < 0 THEN MaxI(0, Len(s) + hi) ELSE MinI(hi, Len(s))
                      IN IF lo >= h THEN <<>> ELSE SubSeq(s, lo + 1, h)

\* design switches: stripnl (lexer created with Pygments' default), guardSkip (skip loop stops
\* at the end of the tokens), suffixFirst (remove_suffix("\n") before the split of the numbered
\* path, which makes a selection that ends in a blank line lose it)
\* pre = the text handed to the token stream (PreLex of the expanded code for a known lexer,
\* the expanded code itself for an unknown lexer name)
ImplRowsPre(pre, start, range, numbers, known, cuts, guardSkip, suffixFirst) ==
    LET hl == IF known /\ range # <<>> THEN RangedText(pre, cuts, range, guardSkip)
              ELSE [ok |-> TRUE, text |-> IF known THEN Concat(TokensOf(pre, cuts)) ELSE pre]
        text == IF numbers /\ ~suffixFirst THEN hl.text ELSE RemoveSuffixNL(hl.text)
        offset == IF range = <<>> THEN 0 ELSE MaxI(0, range[1] - 1)
        split == TextSplit(text)
        sel == IF range = <<>> THEN split ELSE PySlice(split, offset, range[2])
        plain == Pieces(text)       \* Text.wrap splits with allow_blank=True
    IN IF ~hl.ok THEN [ok |-> FALSE, rows |-> <<>>]
       ELSE [ok |-> TRUE,
             rows |-> IF numbers
                      THEN [k \in 1..Len(sel) |-> [hasn |-> TRUE, n |-> start + offset + k - 1, m |-> FALSE, t |-> sel[k]]]
                      ELSE [k \in 1..Len(plain) |-> [hasn |-> FALSE, n |-> 0, m |-> FALSE, t |-> plain[k]]]]
ImplRows(src, tab, start, range, numbers, known, cuts, stripnl, guardSkip, suffixFirst) ==
    LET code == ExpandAll(src, tab)
    IN ImplRowsPre(IF known THEN PreLex(code, stripnl) ELSE code,
                   start, range, numbers, known, cuts, guardSkip, suffixFirst)

\* does the model predict the observed rows (modulo right padding)?  conformance -> DRIFT only
ImplAgrees(r, known, stripnl, guardSkip, suffixFirst) ==
    LET cuts == {}
        p == ImplRows(r.src, r.tab, r.start, r.range, r.numbers, known, cuts, stripnl, guardSkip, suffixFirst)
    IN IF ~p.ok THEN r.exc # "none"
       ELSE /\ r.exc = "none"
            /\ Len(p.rows) = Len(r.rows)
            /\ \A k \in 1..Len(p.rows) :
                  /\ p.rows[k].hasn = r.rows[k].hasn
                  /\ (p.rows[k].hasn => p.rows[k].n = r.rows[k].n)
                  /\ RStrip(p.rows[k].t) = RStrip(r.rows[k].t)
=============================================================================
