CONSTANTS
  Repaired = TRUE
  Without = {}
SPECIFICATION Spec
CONSTRAINT Report
CHECK_DEADLOCK FALSE
