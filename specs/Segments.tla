------------------------------ MODULE Segments ------------------------------
(* SHARED module (C13; used by C01/C07/C08 ...): lines of styled segments and the line-shaping
   helpers of rich/segment.py.

   A segment is [cells: string (Cells.tla), style: style id (0 = None), control: BOOLEAN];
   a line is a sequence of segments; "lines" a sequence of lines.  The newline is the character
   with id 10.  A control segment occupies 0 cells and its text is opaque (never split).

   Property part: ...Why(input, output) return "ok" or the name of the first failing clause of
   the acceptance relation; ...OK == ...Why = "ok".  They speak about the *flat* view of a line
   (one entry per character: character, style of its segment, control flag) - segmentation is
   not part of the property:
     - exact length      : the result has exactly the requested cell length
     - unchanged         : characters and their styles are those of the input, in order
                           (all of them when padding, a prefix when cropping)
     - padding           : what is appended are spaces carrying the requested style
     - newline placement : one output line per newline-terminated stretch
   Where the statement of C13 is silent the relations allow every behaviour: the style of the
   filler space that replaces a double-width character cut in half (requested style or the
   style of the cut character), whether a trailing empty stretch yields a line, the style of a
   re-attached newline, the number of lines set_shape returns when the requested height is
   smaller than the input, control flags (they only enter through the cell length), and for
   simplify everything except the character/style stream.

   Implementation-shaped part: RefAdjust, RefSplitLines, RefSplitCrop, RefSetShape, RefSimplify
   transcribe segment.py 9.10.0 (with the padding style kept as requested, i.e. the intended
   design of split_and_crop_lines).                                                          *)
EXTENDS Cells

Seg(cells, style, control) == [cells |-> cells, style |-> style, control |-> control]
IsNLChar(c) == c.id = 10
HasNL(cells) == \E i \in DOMAIN cells : IsNLChar(cells[i])

SegLen(g) == IF g.control THEN 0 ELSE CellLen(g.cells)
RECURSIVE LineLenTo(_, _)
LineLenTo(line, k) == IF k = 0 THEN 0 ELSE SegLen(line[k]) + LineLenTo(line, k - 1)
LineLen(line) == LineLenTo(line, Len(line))

\* ---- flat view -----------------------------------------------------------------------------
FlatSeg(g) == [i \in 1..Len(g.cells) |-> [c |-> g.cells[i], style |-> g.style, control |-> g.control]]
RECURSIVE Flat(_)
Flat(line) == IF line = <<>> THEN <<>> ELSE FlatSeg(Head(line)) \o Flat(Tail(line))

RECURSIVE FlatLenTo(_, _)
FlatLenTo(fl, k) == IF k = 0 THEN 0
                    ELSE (IF fl[k].control THEN 0 ELSE fl[k].c.w) + FlatLenTo(fl, k - 1)
FlatLen(fl) == FlatLenTo(fl, Len(fl))

\* characters with their styles (what the statement says stays unchanged)
CS(fl) == [i \in 1..Len(fl) |-> [c |-> fl[i].c, style |-> fl[i].style]]
IsBreak(e) == IsNLChar(e.c) /\ ~e.control
IsPad(e, style) == e.c = Space /\ ~e.control /\ e.style = style

\* stretches between non-control newlines: always Len >= 1, the last one is the unterminated rest
RECURSIVE PartsFrom(_, _, _)
PartsFrom(fl, i, acc) ==
    IF i > Len(fl) THEN acc
    ELSE IF IsBreak(fl[i]) THEN PartsFrom(fl, i + 1, Append(acc, <<>>))
    ELSE PartsFrom(fl, i + 1, [acc EXCEPT ![Len(acc)] = Append(@, fl[i])])
Parts(fl) == PartsFrom(fl, 1, << <<>> >>)

\* ---- property part -------------------------------------------------------------------------
\* adjust_line_length(line, n, style=ps, pad) on flat views (line without newlines)
FlatAdjustWhy(fl, n, ps, pad, fr) ==
    LET L == FlatLen(fl) IN
    IF L <= n
    THEN LET want == IF pad THEN n ELSE L IN
         IF FlatLen(fr) # want THEN "cell-length-differs"
         ELSE IF Len(fr) < Len(fl) \/ CS(SubSeq(fr, 1, Len(fl))) # CS(fl)
              THEN "characters-or-styles-changed"
         ELSE IF \E i \in (Len(fl) + 1)..Len(fr) : fr[i].c # Space \/ fr[i].control
              THEN "padding-not-spaces"
         ELSE IF \E i \in (Len(fl) + 1)..Len(fr) : fr[i].style # ps THEN "pad-style-differs"
         ELSE "ok"
    ELSE IF FlatLen(fr) # n THEN "cell-length-differs"
         ELSE IF \E k \in 0..Min2(Len(fl), Len(fr)) :
                    /\ CS(SubSeq(fr, 1, k)) = CS(SubSeq(fl, 1, k))
                    /\ \A i \in (k + 1)..Len(fr) :
                          \/ IsPad(fr[i], ps)
                          \/ k < Len(fl) /\ IsPad(fr[i], fl[k + 1].style)
              THEN "ok"
         ELSE "cropped-not-prefix-plus-fill"

AdjustWhy(line, n, ps, pad, r) == FlatAdjustWhy(Flat(line), n, ps, pad, Flat(r))
AdjustOK(line, n, ps, pad, r) == AdjustWhy(line, n, ps, pad, r) = "ok"

LineCountOK(parts, k) ==
    LET m == Len(parts) - 1 IN k = m + 1 \/ (k = m /\ parts[m + 1] = <<>>)

\* split_lines(segs) -> lines
SplitLinesWhy(segs, lines) ==
    LET parts == Parts(Flat(segs)) IN
    IF ~LineCountOK(parts, Len(lines)) THEN "line-count-differs"
    ELSE LET Why(j) == IF CS(Flat(lines[j])) = CS(parts[j]) THEN "ok"
                       ELSE "characters-or-styles-changed"
         IN FirstBad(Len(lines), Why)
SplitLinesOK(segs, lines) == SplitLinesWhy(segs, lines) = "ok"

\* split_and_crop_lines(segs, n, style=ps, pad, include_new_lines=nl) -> lines
SplitCropWhy(segs, n, ps, pad, nl, lines) ==
    LET parts == Parts(Flat(segs))
        m == Len(parts) - 1
        Why(j) ==
            LET fr == Flat(lines[j])
                hasNL == nl /\ j <= m
                body == IF hasNL /\ fr # <<>> THEN SubSeq(fr, 1, Len(fr) - 1) ELSE fr
            IN IF hasNL /\ (fr = <<>> \/ ~IsBreak(fr[Len(fr)])) THEN "newline-missing"
               ELSE IF \E i \in 1..Len(body) : IsBreak(body[i]) THEN "unexpected-newline"
               ELSE FlatAdjustWhy(parts[j], n, ps, pad, body)
    IN IF ~LineCountOK(parts, Len(lines)) THEN "line-count-differs"
       ELSE FirstBad(Len(lines), Why)
SplitCropOK(segs, n, ps, pad, nl, lines) == SplitCropWhy(segs, n, ps, pad, nl, lines) = "ok"

\* set_shape(lines, w, height=h (h < 0: None), style=ps) -> lines
SetShapeWhy(lines, w, h, ps, r) ==
    LET hh == IF h < 0 THEN Len(lines) ELSE h
        Why(i) == IF i <= Len(lines) THEN FlatAdjustWhy(Flat(lines[i]), w, ps, TRUE, Flat(r[i]))
                  ELSE FlatAdjustWhy(<<>>, w, ps, TRUE, Flat(r[i]))
    IN IF Len(r) < Min2(Len(lines), hh) THEN "lines-lost"
       ELSE FirstBad(Len(r), Why)
SetShapeOK(lines, w, h, ps, r) == SetShapeWhy(lines, w, h, ps, r) = "ok"

\* get_line_length(line) for every line / get_shape(lines) = (w, h)
MaxLineLen(lines) ==
    IF lines = <<>> THEN 0
    ELSE LET S == {LineLen(lines[i]) : i \in 1..Len(lines)} IN CHOOSE m \in S : \A x \in S : x <= m
MeasureWhy(lines, lens, w, h) ==
    IF Len(lens) # Len(lines) \/ \E i \in 1..Len(lines) : lens[i] # LineLen(lines[i]) THEN "line-length-differs"
    ELSE IF w # MaxLineLen(lines) \/ h # Len(lines) THEN "shape-differs"
    ELSE "ok"

\* simplify(segs) -> segs
SimplifyWhy(segs, r) ==
    IF CS(Flat(r)) = CS(Flat(segs)) THEN "ok" ELSE "characters-or-styles-changed"
SimplifyOK(segs, r) == SimplifyWhy(segs, r) = "ok"

\* ---- implementation-shaped part: transcription of rich/segment.py ----------------------------
\* adjust_line_length (segment.py:204-243)
RECURSIVE CropLoop(_, _, _, _, _)
CropLoop(line, i, acc, n, out) ==
    IF i > Len(line) THEN out
    ELSE LET g == line[i]  gl == SegLen(line[i]) IN
         IF acc + gl < n \/ g.control THEN CropLoop(line, i + 1, acc + gl, n, Append(out, g))
         ELSE Append(out, Seg(RefSetCellSize(g.cells, n - acc), g.style, FALSE))
RefAdjust(line, n, ps, pad) ==
    LET L == LineLen(line) IN
    IF L < n THEN (IF pad THEN Append(line, Seg(Spaces(n - L), ps, FALSE)) ELSE line)
    ELSE IF L > n THEN CropLoop(line, 1, 0, n, <<>>)
    ELSE line

\* the shared loop of split_lines (129-155) and split_and_crop_lines (157-202);
\* mode = [crop |-> FALSE] or [crop |-> TRUE, n, ps, pad, nl]
NLSeg == Seg(<<Char(0, 10)>>, 0, FALSE)
Finish(mode, line, terminated) ==
    IF ~mode.crop THEN line
    ELSE LET a == RefAdjust(line, mode.n, mode.ps, mode.pad)
         IN IF terminated /\ mode.nl THEN Append(a, NLSeg) ELSE a
FirstNL(cells) == IF HasNL(cells)
                  THEN CHOOSE i \in DOMAIN cells : IsNLChar(cells[i]) /\ \A j \in 1..(i - 1) : ~IsNLChar(cells[j])
                  ELSE 0
RECURSIVE SplitText(_, _, _, _, _)
SplitText(mode, text, style, line, out) ==
    IF text = <<>> THEN [line |-> line, out |-> out]
    ELSE LET k == FirstNL(text) IN
         IF k = 0 THEN [line |-> Append(line, Seg(text, style, FALSE)), out |-> out]
         ELSE LET before == SubSeq(text, 1, k - 1)
                  l2 == IF before # <<>> THEN Append(line, Seg(before, style, FALSE)) ELSE line
              IN SplitText(mode, SubSeq(text, k + 1, Len(text)), style, <<>>,
                           Append(out, Finish(mode, l2, TRUE)))
RECURSIVE SplitLoop(_, _, _, _, _)
SplitLoop(mode, segs, i, line, out) ==
    IF i > Len(segs) THEN (IF line # <<>> THEN Append(out, Finish(mode, line, FALSE)) ELSE out)
    ELSE LET g == segs[i] IN
         IF HasNL(g.cells) /\ ~g.control
         THEN LET st == SplitText(mode, g.cells, g.style, line, out)
              IN SplitLoop(mode, segs, i + 1, st.line, st.out)
         ELSE SplitLoop(mode, segs, i + 1, Append(line, g), out)
RefSplitLines(segs) == SplitLoop([crop |-> FALSE], segs, 1, <<>>, <<>>)
RefSplitCrop(segs, n, ps, pad, nl) ==
    SplitLoop([crop |-> TRUE, n |-> n, ps |-> ps, pad |-> pad, nl |-> nl], segs, 1, <<>>, <<>>)

\* set_shape (271-302): zip_longest(lines, range(height)) - never fewer lines than the input
RefSetShape(lines, w, h, ps) ==
    LET hh == IF h < 0 THEN Len(lines) ELSE h
        k == IF hh > Len(lines) THEN hh ELSE Len(lines)
    IN [i \in 1..k |-> IF i <= Len(lines) THEN RefAdjust(lines[i], w, ps, TRUE)
                       ELSE <<Seg(Spaces(w), ps, FALSE)>>]

\* simplify: merge a segment into its predecessor when the styles are equal and NEITHER is a
\* control segment (rich 9.10.0 only tested the second one; repaired in /repo, see C15)
RECURSIVE SimplifyLoop(_, _, _, _)
SimplifyLoop(segs, i, last, out) ==
    IF i > Len(segs) THEN Append(out, last)
    ELSE IF last.style = segs[i].style /\ ~segs[i].control /\ ~last.control
         THEN SimplifyLoop(segs, i + 1, Seg(last.cells \o segs[i].cells, last.style, FALSE), out)
         ELSE SimplifyLoop(segs, i + 1, segs[i], Append(out, last))
RefSimplify(segs) == IF segs = <<>> THEN <<>> ELSE SimplifyLoop(segs, 2, segs[1], <<>>)
=============================================================================
