---------------------------- MODULE ConsoleConc ----------------------------
(* C11 - console output under concurrency (rich/console.py, live.py).

   Fine-grain model of threads that print and refresh one live display on one console.  A
   print is split where the code can be pre-empted:
     Hook    process_renderables: under the live lock, reads the region height (shape) and
             builds the erase sequence                                   (live.py:266-275)
     Render  the frame is rendered, under the live lock, and becomes the new shape
                                                                          (live.py:47-82)
     Write   _check_buffer: under the console lock the thread's buffer - erase, lines, frame -
             reaches the file in one write                              (console.py:1357-1381)
   A refresh (Live.refresh / the refresh thread / update(refresh=True)) performs the same three
   steps but holds the live lock from before Hook until after Write.
   AtomicPrint = TRUE is the intended design (a print also holds the live lock from Hook to
   Write); FALSE is the code as it is.                                                       *)
EXTENDS Screen, FiniteSets

CONSTANTS Threads,       \* thread ids
          Program,       \* Program[t]: sequence of ops  [k |-> "print", id, n] | [k |-> "update", v, h] | [k |-> "refresh"]
          AtomicPrint

VARIABLES pc, ip, liveLock, conLock, shape, cur, erase, frame, file, scr, printed, last
vars == <<pc, ip, liveLock, conLock, shape, cur, erase, frame, file, scr, printed, last>>

PLabel(k, i) == 1000000 + k * 10 + i
FLabel(v, i) == 2000000 + v * 10 + i
FrameRows(f) == [i \in 1..f.h |-> FLabel(f.v, i)]
Op(t) == Program[t][ip[t]]
HasOp(t) == ip[t] <= Len(Program[t])
HoldsLive(t) == liveLock = t
FreeOrMine(t) == liveLock = 0 \/ liveLock = t

Init == /\ pc = [t \in Threads |-> "idle"] /\ ip = [t \in Threads |-> 1]
        /\ liveLock = 0 /\ conLock = 0 /\ shape = 0 - 1 /\ cur = [v |-> 0, h |-> 1]
        /\ erase = [t \in Threads |-> 0 - 1] /\ frame = [t \in Threads |-> [v |-> 0, h |-> 1]]
        /\ file = <<>> /\ scr = InitScreen /\ printed = <<>> /\ last = <<>>

\* begin the next call of the program
Begin(t) == /\ pc[t] = "idle" /\ HasOp(t)
            /\ IF Op(t).k = "print" /\ ~AtomicPrint
               THEN pc' = [pc EXCEPT ![t] = "hook"] /\ UNCHANGED liveLock
               ELSE /\ liveLock = 0 /\ liveLock' = t        \* refresh / update / atomic print take the live lock
                    /\ pc' = [pc EXCEPT ![t] = IF Op(t).k = "update" THEN "set" ELSE "hook"]
            /\ UNCHANGED <<ip, conLock, shape, cur, erase, frame, file, scr, printed, last>>
SetRenderable(t) == /\ pc[t] = "set" /\ HoldsLive(t) /\ cur' = [v |-> Op(t).v, h |-> Op(t).h]
                    /\ pc' = [pc EXCEPT ![t] = "hook"]
                    /\ UNCHANGED <<ip, liveLock, conLock, shape, erase, frame, file, scr, printed, last>>
Hook(t) == /\ pc[t] = "hook" /\ FreeOrMine(t)
           /\ erase' = [erase EXCEPT ![t] = shape]
           /\ pc' = [pc EXCEPT ![t] = "render"]
           /\ UNCHANGED <<ip, liveLock, conLock, shape, cur, frame, file, scr, printed, last>>
Render(t) == /\ pc[t] = "render" /\ FreeOrMine(t)
             /\ frame' = [frame EXCEPT ![t] = cur] /\ shape' = cur.h
             /\ pc' = [pc EXCEPT ![t] = "write"]
             /\ UNCHANGED <<ip, liveLock, conLock, cur, erase, file, scr, printed, last>>
Write(t) == /\ pc[t] = "write" /\ conLock = 0
            /\ LET ids == IF Op(t).k = "print" THEN [i \in 1..Op(t).n |-> PLabel(Op(t).id, i)] ELSE <<>>
                   ops == (IF erase[t] < 0 THEN <<>> ELSE Erase(erase[t])) \o LinesNl(ids) \o FrameOps(FrameRows(frame[t]))
               IN /\ file' = Append(file, [t |-> t, ops |-> ops])
                  /\ scr' = ApplyAll(scr, ops)
                  /\ printed' = printed \o ids
                  /\ last' = FrameRows(frame[t])
            /\ pc' = [pc EXCEPT ![t] = "done"]
            /\ UNCHANGED <<ip, liveLock, conLock, shape, cur, erase, frame>>
End(t) == /\ pc[t] = "done"
          /\ liveLock' = IF liveLock = t THEN 0 ELSE liveLock
          /\ pc' = [pc EXCEPT ![t] = "idle"] /\ ip' = [ip EXCEPT ![t] = @ + 1]
          /\ UNCHANGED <<conLock, shape, cur, erase, frame, file, scr, printed, last>>

Next == \E t \in Threads : Begin(t) \/ SetRenderable(t) \/ Hook(t) \/ Render(t) \/ Write(t) \/ End(t)
Spec == Init /\ [][Next]_vars

Quiescent == \A t \in Threads : pc[t] = "idle"
NonEmptyRows(rows) == SelectSeq(rows, LAMBDA r : r # <<>>)
NoBadInv == scr.bad = "none"
ScreenInv == Quiescent => NonEmptyRows(scr.rows) = [i \in 1..Len(printed) |-> <<printed[i]>>] \o [i \in 1..Len(last) |-> <<last[i]>>]
Done == \A t \in Threads : ~HasOp(t) /\ pc[t] = "idle"
NoStuck == Done \/ ENABLED Next          \* no deadlock: some thread can always move until all are done
=============================================================================
