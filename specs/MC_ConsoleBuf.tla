---------------------------- MODULE MC_ConsoleBuf ----------------------------
EXTENDS ConsoleBuf
MCThreads == {1, 2}
MCProgram == [t \in MCThreads |->
    IF t = 1 THEN << [k |-> "print", id |-> 1], [k |-> "capture", id |-> 2] >>
    ELSE << [k |-> "capture", id |-> 1], [k |-> "print", id |-> 2] >>]
=============================================================================
