CONSTANTS
  AttrSeq <- MCAttrSeq
  NCol = 2
  NLink = 2
  NSeed = 6
  GenDepth = 3
  HashDesign = "derived"
INIT LawInit
NEXT LawNext
INVARIANT AssocAll
INVARIANT IdentityAll
INVARIANT RightBiasAll
INVARIANT CombineAll
INVARIANT DesignAddAll
INVARIANT RoundTripAll
INVARIANT ColorsSpelled
INVARIANT UnaryAll
CHECK_DEADLOCK FALSE
