--------------------------- MODULE MC_Pretty ---------------------------
(* M1: the layout algorithm of rich/pretty.py (Node.render: a work-list of _Line objects, each
   expanded when it does not fit) as a state machine over *all* abstract values of a bounded
   domain x widths x indent sizes x expand_all x max_length.  When the loop is done (Finish) the
   emitted lines are judged by the property part of Pretty.tla and the result is kept in `res`:
   InvEvalOK (the lines evaluate back to the value: EvalOK / CycleMarker / Abbrev), InvOneLine
   (repr() on one line when that fits), InvLayout (ExpandedLayout), InvRenderRec (the loop equals
   the recursive-function form Render used by the trace judge).
   Rule = "coded": the closing-line separator exactly as in 9.10.0  -> TLC finds the lost 1-tuple comma.
   Rule = "fixed": closing line inherits the separator of the expanded line -> all invariants hold.
   M2: with CONSTRAINT Emit the same module prints every value of the domain as JSON for replay. *)
EXTENDS Pretty, Json

CONSTANTS Kinds2,    \* container kinds whose items are atoms
          Kinds3,    \* container kinds whose items come from level 2
          N2, N3,    \* max number of items at those levels (<= 3)
          FullRest,  \* TRUE: every item of a level-3 container ranges over level 2;
                     \* FALSE: one item does, the others are atoms
          Widths, Indents, MLs, Rule

VARIABLES val, o, lines, ln, done, res
vars == <<val, o, lines, ln, done, res>>

\* atom table of the model: two leaves (cell widths 1 and 2), three keys, a factory name, a typecode, counts
A == << [t |-> "int", w |-> 1, n |-> 1,  cp |-> <<>>],
        [t |-> "int", w |-> 2, n |-> 22, cp |-> <<>>],
        [t |-> "int", w |-> 1, n |-> 5,  cp |-> <<>>],
        [t |-> "int", w |-> 1, n |-> 6,  cp |-> <<>>],
        [t |-> "int", w |-> 2, n |-> 77, cp |-> <<>>],
        [t |-> "str", w |-> 5, n |-> -1, cp |-> <<105, 110, 116>>],
        [t |-> "str", w |-> 3, n |-> -1, cp |-> <<105>>],
        [t |-> "int", w |-> 1, n |-> 2,  cp |-> <<>>],
        [t |-> "int", w |-> 1, n |-> 3,  cp |-> <<>>] >>
Leaves == {AtomV(1), AtomV(2)}

SeqsUpTo(S, n) == {<<>>} \cup (IF n >= 1 THEN {<<x>> : x \in S} ELSE {})
                         \cup (IF n >= 2 THEN {<<x, y>> : x \in S, y \in S} ELSE {})
                         \cup (IF n >= 3 THEN {<<x, y, z>> : x \in S, y \in S, z \in S} ELSE {})
RECURSIVE Pairs(_, _)
Pairs(cs, i) == IF i > Len(cs) THEN <<>> ELSE << Mk("pair", 0, <<AtomV(2 + i), cs[i]>>) >> \o Pairs(cs, i + 1)
MkC(k, cs) == Mk(k, CASE k = "defaultdict" -> 6 [] k = "array" -> 7 [] OTHER -> 0,
                 IF k \in DictKinds THEN Pairs(cs, 1) ELSE cs)
RECURSIVE Hashable(_)
Hashable(v) == v.k = "atom" \/ (v.k \in {"tuple", "frozenset"} /\ \A i \in 1..Len(v.c) : Hashable(v.c[i]))
Distinct(cs) == \A i \in 1..Len(cs) : \A j \in 1..Len(cs) : i # j => cs[i] # cs[j]
ChildOK(k, cs) == CASE k \in SetKinds -> Distinct(cs) /\ \A i \in 1..Len(cs) : Hashable(cs[i])
                    [] k \in {"array", "counter"} -> \A i \in 1..Len(cs) : cs[i].k = "atom"
                    [] OTHER -> TRUE
Level2 == Leaves \cup UNION {{MkC(k, cs) : cs \in {s \in SeqsUpTo(Leaves, N2) : ChildOK(k, s)}} : k \in Kinds2}
\* the other items of a level-3 container; one of them may be a reference to an enclosing container
Rest == (IF FullRest THEN Level2 ELSE Leaves) \cup {Mk("cycle", 0, <<>>)}
Seqs3 == {<<>>} \cup {<<x>> : x \in Level2}
         \cup (IF N3 >= 2 THEN {<<x, y>> : x \in Level2, y \in Rest} \cup {<<y, x>> : x \in Level2, y \in Rest} ELSE {})
         \cup (IF N3 >= 3 THEN {<<x, y, z>> : x \in Level2, y \in Rest, z \in Rest}
                               \cup {<<y, x, z>> : x \in Level2, y \in Rest, z \in Rest}
                               \cup {<<y, z, x>> : x \in Level2, y \in Rest, z \in Rest} ELSE {})
Level3 == Level2 \cup UNION {{MkC(k, cs) : cs \in {s \in Seqs3 : ChildOK(k, s)}} : k \in Kinds3}
Domain == Level3

\* cfg files cannot write -1: max_length = None is written 1000 in MLs
Opts == [w : Widths, ind : Indents, xa : BOOLEAN, ml : {IF m = 1000 THEN -1 ELSE m : m \in MLs}, ms : {-1}]
NoOpts == [w |-> 0, ind |-> 0, xa |-> FALSE, ml |-> -1, ms |-> -1]
NoRes == [eval |-> "", one |-> TRUE, lay |-> "", rec |-> TRUE]

\* one initial state per value; Start chooses the options (so that TLC's workers share the load)
Init == /\ val \in Domain /\ o = NoOpts /\ lines = <<>> /\ ln = 0 /\ done = FALSE /\ res = NoRes

Start == /\ ln = 0 /\ \E oo \in Opts : o' = oo /\ lines' = << RootLine(A, val, oo) >>
         /\ ln' = 1 /\ UNCHANGED <<val, done, res>>

\* Node.render: `while line_no < len(lines)` - expand the line if it may and must be, then move on
MustExpand == Expandable(lines[ln]) /\ (o.xa \/ ~LineFits(A, lines[ln], o))
ExpandLn == /\ ~done /\ ln >= 1 /\ ln <= Len(lines) /\ MustExpand
            /\ lines' = SubSeq(lines, 1, ln - 1) \o ExpandLine(A, lines[ln], Rule) \o SubSeq(lines, ln + 1, Len(lines))
            /\ ln' = ln + 1 /\ UNCHANGED <<val, o, done, res>>
KeepLn == /\ ~done /\ ln >= 1 /\ ln <= Len(lines) /\ ~MustExpand
          /\ ln' = ln + 1 /\ UNCHANGED <<val, o, lines, done, res>>
\* the loop ends: the output is judged once (by the property part of Pretty.tla) and the result kept
Finish == /\ ~done /\ ln > Len(lines) /\ done' = TRUE
          /\ LET out == OutLines(A, lines, o)
                 t == Flat(out)
                 ev == Eval(A, t)
             IN res' = [eval |-> IF ~ev.ok THEN "EvalOK not-evaluable" ELSE Diff(A, ev.v, val, o.ml >= 0, FALSE),
                        one |-> OneLineApplies(A, val, o) => OneLineHolds(A, val, out),
                        lay |-> IF ev.ok THEN Lay(t, out, ev.v, 0, o) ELSE "",
                        rec |-> out = Render(A, val, o, Rule)]
          /\ UNCHANGED <<val, o, lines, ln>>

Next == Start \/ ExpandLn \/ KeepLn \/ Finish
Spec == Init /\ [][Next]_vars

\* ---- properties of the finished output ----------------------------------------------------------
InvEvalOK == res.eval = "" \/ ~PrintT(<<"CEX", res.eval, ToJson([cex |-> val]), o>>)   \* EvalOK, CycleMarker, Abbrev
InvOneLine == res.one
InvLayout == res.lay = "" \/ ~PrintT(<<"CEX", res.lay, ToJson([cex |-> val]), o>>)
InvRenderRec == res.rec          \* the work-list loop equals the recursive function Render

\* ---- M2 ------------------------------------------------------------------------------------------
Emit == PrintT(ToJson([beh |-> val])) /\ FALSE
=============================================================================
