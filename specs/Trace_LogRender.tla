--------------------------- MODULE Trace_LogRender ---------------------------
(* M3: histories of Console.log / Console.print on a real console with a caller-supplied clock.  The driver tokenises
   every output row lexically: the time text at its start (as an id) or a blank cell, and whether the row starts a log
   call (its message label).  TLC judges the property part on the observed rows and - DRIFT only - compares them with
   the rows LogRender.tla's design produces for the same calls.                                                   *)
EXTENDS LogRender, Json, IOUtils, TLC
Recs == JsonDeserialize(IOEnv.TRACE_FILE)
VARIABLES tid
R == Recs[tid]
Init == tid \in 1..Len(Recs)
Next == FALSE /\ UNCHANGED tid
Spec == Init /\ [][Next]_tid
RECURSIVE Play(_, _)
Play(s, ops) == IF ops = <<>> THEN s ELSE Play(IF Head(ops).k = "log" THEN Log(s, Head(ops).t, Head(ops).h) ELSE PrintRows(s, Head(ops).h), Tail(ops))
Model == Play(Init0, R.ops)
ObsRows == [i \in 1..Len(R.rows) |-> Row(R.rows[i].t, R.rows[i].own, R.rows[i].first)]
Verdict == IF R.exc # "none" THEN "raises-" \o R.exc
           ELSE IF \E i \in 1..Len(R.rows) : R.rows[i].t < 0 THEN "unknown-time-text"
           ELSE IF Len(SelectSeq(ObsRows, LAMBDA r : r.first)) # Len(SelectSeq(R.ops, LAMBDA o : o.k = "log")) THEN "log-row-count-differs"
           ELSE LogVerdict(ObsRows)
Report == /\ PrintT(<<"VERDICT", tid, Verdict>>)
          /\ ((Verdict = "ok" /\ Model.rows # ObsRows) => PrintT(<<"DRIFT", tid, "rows differ from LogRender.tla design">>))
=============================================================================
