CONSTANTS
  MaxOps = 5
  MaxNest = 3
  MaxStack = 2
  Opt = "min"
SPECIFICATION Spec
VIEW View
INVARIANT MinWPositive
INVARIANT TableLaw
INVARIANT BudgetLaw
INVARIANT CollapseLaw
PROPERTY StepLawP
PROPERTY ScopeLawP
CHECK_DEADLOCK FALSE
