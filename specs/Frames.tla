------------------------------- MODULE Frames -------------------------------
(* C08 - framing renderables draw exact rectangles around intact content.

   Vocabulary.  A *cell string* is a sequence of integers  code = code point * 4 + cell width
   (width 0..2, taken from rich.cells of the tree under test by the driver); SPC is the ASCII
   space.  A *render* is a sequence of lines (cell strings).  A record r describes ONE real
   render of one framing renderable with r.W cells available:

     r.out   the lines the frame produced
     r.ch    the lines its child produced when rendered ALONE with the very ConsoleOptions the
             frame handed down (observed by the driver, not computed), r.cw = their max_width,
             r.ncw = number of distinct widths the child was rendered at during the frame's render
     r.m     structural minimum of the frame (Layout!MinW, C01); below it nothing is demanded

   Property part (acceptance relations, each as  XxxWhy(r) = "ok" | name of the first failing
   clause; XxxOK(r) == XxxWhy(r) = "ok"):
     PanelOK PaddingOK AlignOK ConstrainOK StyledOK RuleOK BarOK ColumnsOK TreeOK
   Implementation-shaped part (never a violation; the Trace module reports it as "drift:..."):
     XxxDrift(r) - rounding of a centred title, tree guide shapes, label budget, expanding
     columns, Bar exact without colour - and RefRender, the design arithmetic of panel.py /
     padding.py / align.py on abstract children, which MC_Frames shows to satisfy the relations
     and whose classic wrong variants it shows to be rejected.                                 *)
EXTENDS Integers, Sequences, FiniteSets, TLC

Min(a, b) == IF a < b THEN a ELSE b
Max(a, b) == IF a > b THEN a ELSE b

\* ---- cells ---------------------------------------------------------------------------------
Cell(cp, w) == cp * 4 + w
Wd(c) == c % 4
Cp(c) == c \div 4
SPC == 129            \* U+0020, width 1
ELL == 32921          \* U+2026 (ellipsis), width 1

RECURSIVE SumW(_, _)
SumW(s, k) == IF k = 0 THEN 0 ELSE Wd(s[k]) + SumW(s, k - 1)
CL(s) == SumW(s, Len(s))                               \* cell length
Rep(c, n) == IF n <= 0 THEN <<>> ELSE [i \in 1..n |-> c]
Sp(n) == Rep(SPC, n)
PadTo(s, n) == s \o Sp(n - CL(s))                      \* s followed by the blanks that equalise it to n cells
AllSp(s) == \A i \in DOMAIN s : s[i] = SPC
IsAscii(s) == \A i \in DOMAIN s : Cp(s[i]) < 128

RECURSIVE MaxCL(_, _)
MaxCL(ls, k) == IF k = 0 THEN 0 ELSE Max(CL(ls[k]), MaxCL(ls, k - 1))
BlockW(ls) == MaxCL(ls, Len(ls))                       \* width of the enclosing rectangle of some lines

FirstIdx(S) == CHOOSE j \in S : \A k \in S : j <= k
Tag(name, k) == name \o " line=" \o ToString(k)
Ragged(out) == {k \in DOMAIN out : CL(out[k]) # CL(out[1])}

\* CSS-style padding: 1, 2 or 4 integers -> top, right, bottom, left
Unpack(p) == IF Len(p) = 1 THEN [t |-> p[1], r |-> p[1], b |-> p[1], l |-> p[1]]
             ELSE IF Len(p) = 2 THEN [t |-> p[1], r |-> p[2], b |-> p[1], l |-> p[2]]
             ELSE [t |-> p[1], r |-> p[2], b |-> p[3], l |-> p[4]]

\* the width a renderable with a `width` option (0 = None) is given when W cells are available
Limit(W, wopt) == IF wopt > 0 THEN Min(wopt, W) ELSE W

\* ---- what is outside the statement (never judged) --------------------------------------------
\* below the structural minimum; the child overflows the width it was handed (C01's subject: a
\* frame that crops an overflowing child is not what C08 speaks about); the child was rendered
\* at several different widths by the frame (no single "own rendered lines").
ChildOverflows(r) == \E k \in DOMAIN r.ch : CL(r.ch[k]) > r.cw
SkipChild(r) ==
    IF r.W < r.m THEN "skip:below-min"
    ELSE IF r.ncw = 0 THEN "child-not-rendered"
    ELSE IF r.ncw > 1 THEN "skip:child-rendered-at-several-widths"
    ELSE IF ChildOverflows(r) THEN "skip:child-overflows"
    ELSE "ok"

\* rows of the padded child block: pt blank rows, the child's rows, pb blank rows; each
\* pl blanks + child line equalised to cw + pr blanks
BlockRow(p, ch, cw, k) ==
    IF k <= p.t \/ k > p.t + Len(ch) THEN Sp(cw + p.l + p.r)
    ELSE Sp(p.l) \o PadTo(ch[k - p.t], cw) \o Sp(p.r)
IsPadRow(p, ch, k) == k <= p.t \/ k > p.t + Len(ch)

\* ---- Padding -------------------------------------------------------------------------------
\* r.pad (1/2/4 integers), r.ex
PaddingWhy(r) ==
    LET p == Unpack(r.pad)
        out == r.out
        n == Len(out)
        iw == r.cw + p.l + p.r
        bad == {k \in 1..n : out[k] # BlockRow(p, r.ch, r.cw, k)}
    IN IF n # p.t + Len(r.ch) + p.b THEN "line-count"
       ELSE IF n = 0 THEN "ok"
       ELSE IF Ragged(out) # {} THEN Tag("ragged", FirstIdx(Ragged(out)))
       ELSE IF CL(out[1]) > r.W THEN "exceeds-W"
       ELSE IF r.ex /\ CL(out[1]) # r.W THEN "not-full-width"
       ELSE IF CL(out[1]) # iw THEN "frame-cells-differ"
       ELSE IF bad # {} THEN Tag(IF IsPadRow(p, r.ch, FirstIdx(bad)) THEN "pad-row-differs" ELSE "child-row-differs", FirstIdx(bad))
       ELSE "ok"

\* ---- Panel ---------------------------------------------------------------------------------
\* r.pad, r.ex, r.wopt, r.title (cells, <<>> = none), r.ta, r.asc, r.boxes: candidate boxes, each
\* <<top_left, top, top_right, mid_left, mid_right, bottom_left, bottom, bottom_right>>: the box
\* asked for, then the documented substitutes (legacy windows table, ASCII when ascii-only)
LeftFills(ta, ex) == CASE ta = "left" -> {0} [] ta = "right" -> {ex} [] OTHER -> {ex \div 2, ex - ex \div 2}
\* X = the n cells between "corner + one border cell" on both sides: the title with one blank on
\* each side placed by title_align when it fits; otherwise some prefix of it (a cut double-width
\* character may leave one blank; a title Text that asks for overflow="ellipsis" ends in an
\* ellipsis, and what its trailing blanks gave up is filled with blanks or border cells) - the
\* statement only wants the rectangle to stay exact
TitleRowOK(X, title, n, t, ta) ==
    LET padded == <<SPC>> \o title \o <<SPC>>
        ex == n - CL(padded)
    IN IF ex >= 0 THEN \E a \in LeftFills(ta, ex) : X = Rep(t, a) \o padded \o Rep(t, ex - a)
       ELSE /\ CL(X) = n
            /\ \E k \in 0..Min(Len(padded), Len(X)) :
                  /\ SubSeq(X, 1, k) = SubSeq(padded, 1, k)
                  /\ \A i \in (k + 1)..Len(X) : X[i] \in {SPC, t, ELL}
                  /\ Cardinality({i \in (k + 1)..Len(X) : X[i] = ELL}) <= 1
TopRowOK(top, B, Wp, title, ta) ==
    IF title = <<>> \/ Wp < 4 THEN top = <<B[1]>> \o Rep(B[2], Wp - 2) \o <<B[3]>>
    ELSE /\ Len(top) >= 4
         /\ top[1] = B[1] /\ top[2] = B[2] /\ top[Len(top) - 1] = B[2] /\ top[Len(top)] = B[3]
         /\ TitleRowOK(SubSeq(top, 3, Len(top) - 2), title, Wp - 4, B[2], ta)

PanelBoxWhy(r, B) ==
    LET p == Unpack(r.pad)
        out == r.out
        n == Len(out)
        Wp == CL(out[1])
        badmid == {k \in 1..(n - 2) : out[k + 1] # <<B[4]>> \o BlockRow(p, r.ch, r.cw, k) \o <<B[5]>>}
    IN IF ~TopRowOK(out[1], B, Wp, r.title, r.ta) THEN "top-border-differs"
       ELSE IF out[n] # <<B[6]>> \o Rep(B[7], Wp - 2) \o <<B[8]>> THEN "bottom-border-differs"
       ELSE IF badmid # {} THEN Tag(IF IsPadRow(p, r.ch, FirstIdx(badmid)) THEN "pad-row-differs" ELSE "child-row-differs", FirstIdx(badmid) + 1)
       ELSE IF r.asc /\ ~IsAscii(B) THEN "border-not-ascii"
       ELSE "ok"

PanelWhy(r) ==
    LET p == Unpack(r.pad)
        out == r.out
        n == Len(out)
        Wp == CL(out[1])
        lim == Limit(r.W, r.wopt)
        good == {b \in DOMAIN r.boxes : PanelBoxWhy(r, r.boxes[b]) = "ok"}
        looks == {b \in DOMAIN r.boxes : out[1][1] = r.boxes[b][1]}
    IN IF n # 2 + p.t + Len(r.ch) + p.b THEN "line-count"
       ELSE IF Ragged(out) # {} THEN Tag("ragged", FirstIdx(Ragged(out)))
       ELSE IF Wp > r.W THEN "exceeds-W"
       ELSE IF Wp > lim THEN "exceeds-width-option"
       ELSE IF r.ex /\ Wp # lim THEN "not-full-width"
       ELSE IF Wp # r.cw + p.l + p.r + 2 THEN "frame-cells-differ"
       ELSE IF good # {} THEN "ok"
       ELSE PanelBoxWhy(r, r.boxes[IF looks = {} THEN 1 ELSE FirstIdx(looks)])

\* implementation-shaped: a centred title has the odd cell on the right (Text.align: excess // 2)
PanelDrift(r) ==
    LET top == r.out[1]
        n == CL(top) - 4
        padded == <<SPC>> \o r.title \o <<SPC>>
        ex == n - CL(padded)
    IN IF r.title # <<>> /\ r.ta = "center" /\ ex >= 0
          /\ \A b \in DOMAIN r.boxes : SubSeq(top, 3, Len(top) - 2) # Rep(r.boxes[b][2], ex \div 2) \o padded \o Rep(r.boxes[b][2], ex - ex \div 2)
       THEN "drift:title-centre-rounding"
       \* r.want (when logged): index in r.boxes of the box that box.py's substitution table prescribes for this
       \* console (legacy windows x safe_box, then ASCII when ascii-only); another admissible box is only DRIFT
       ELSE IF "want" \in DOMAIN r /\ PanelBoxWhy(r, r.boxes[r.want]) # "ok" THEN "drift:box-substitution"
       ELSE "ok"

\* optional style clause (only sent when the frame has no style of its own): the style ids of
\* the child's cells are unchanged.  r.outs / r.chs are aligned with r.out / r.ch; off = index
\* of the first child cell in a framed child row minus one.
StyleRowsWhy(r, firstRow, off) ==
    LET bad == {k \in DOMAIN r.ch : SubSeq(r.outs[firstRow + k - 1], off + 1, off + Len(r.ch[k])) # r.chs[k]}
    IN IF bad = {} THEN "ok" ELSE Tag("child-style-differs", FirstIdx(bad))

\* ---- Align ---------------------------------------------------------------------------------
\* r.al, r.padr (pad the right), r.wopt
AlignLeft(al, excess) == CASE al = "left" -> 0 [] al = "center" -> excess \div 2 [] OTHER -> excess
AlignRow(r, bw, k, a) == Sp(a) \o PadTo(r.ch[k], bw) \o (IF r.padr THEN Sp(r.W - bw - a) ELSE <<>>)
AlignWhy(r) ==
    LET out == r.out
        bw == BlockW(r.ch)
        excess == r.W - bw
        left == AlignLeft(r.al, excess)
        bad == {k \in DOMAIN out : out[k] # AlignRow(r, bw, k, left)}
    IN IF Len(out) # Len(r.ch) THEN "line-count"
       ELSE IF r.cw > Limit(r.W, r.wopt) THEN "child-wider-than-width-option"
       ELSE IF bad = {} THEN "ok"
       ELSE IF Ragged(out) # {} THEN Tag("ragged", FirstIdx(Ragged(out)))
       ELSE IF r.padr /\ CL(out[1]) # r.W THEN "not-full-width"
       ELSE IF \E a \in 0..excess : \A k \in DOMAIN out : out[k] = AlignRow(r, bw, k, a) THEN "offset-differs"
       ELSE Tag("child-row-differs", FirstIdx(bad))

\* ---- Constrain, Styled ----------------------------------------------------------------------
SameRowsWhy(r) ==
    LET bad == {k \in DOMAIN r.out : r.out[k] # r.ch[k]}
    IN IF Len(r.out) # Len(r.ch) THEN "line-count"
       ELSE IF bad # {} THEN Tag("child-row-differs", FirstIdx(bad))
       ELSE "ok"
ConstrainWhy(r) == IF r.cw # Limit(r.W, r.wopt) THEN "inner-width-differs" ELSE SameRowsWhy(r)
StyledWhy(r) == IF r.cw # r.W THEN "inner-width-differs" ELSE SameRowsWhy(r)

\* ---- Rule ----------------------------------------------------------------------------------
\* r.title, r.chars (cells), r.al, r.asc.  A fill is the characters repeated (cut anywhere between
\* characters), followed by a blank only where the next character is double-width and one cell is
\* left.  Under ascii-only a non-ASCII `characters` is replaced by one repeated ASCII character.
FillOK(run, pat) ==
    \E m \in 0..Len(run) :
        /\ \A j \in 1..m : run[j] = pat[((j - 1) % Len(pat)) + 1]
        /\ \A j \in (m + 1)..Len(run) : run[j] = SPC
        /\ Len(run) - m <= Max(0, Wd(pat[(m % Len(pat)) + 1]) - 1)
FillSubOK(run) == run = <<>> \/ (/\ \A j \in DOMAIN run : run[j] = run[1]
                                /\ Cp(run[1]) < 128 /\ Wd(run[1]) = 1 /\ run[1] # SPC)
RuleFill(r, run) == IF r.asc /\ ~IsAscii(r.chars) THEN FillSubOK(run) ELSE FillOK(run, r.chars)

\* how the title may appear when avail cells are left for it: itself when it fits, otherwise a
\* prefix ending in an ellipsis
Titles(title, avail) ==
    IF CL(title) <= avail THEN {title}
    ELSE {t \in {SubSeq(title, 1, k) \o tail : k \in 0..Len(title), tail \in {<<ELL>>, <<SPC, ELL>>}} : CL(t) <= avail}
Occurs(line, T) == \E i \in 1..(Len(line) - Len(T) + 1) : SubSeq(line, i, i + Len(T) - 1) = T
Balanced(l, rr) == l - rr \in -1..1
RuleTitled(r, line, T, needBalance, exact) ==
    LET n == Len(line)
        tl == Len(T)
    IN CASE r.al = "left" -> /\ n >= tl + 1 /\ SubSeq(line, 1, tl) = T /\ line[tl + 1] = SPC
                             /\ RuleFill(r, SubSeq(line, tl + 2, n))
         [] r.al = "right" -> /\ n >= tl + 1 /\ SubSeq(line, n - tl + 1, n) = T /\ line[n - tl] = SPC
                              /\ RuleFill(r, SubSeq(line, 1, n - tl - 1))
         [] OTHER -> \E i \in 2..(n - tl) :
                        /\ SubSeq(line, i, i + tl - 1) = T
                        /\ line[i - 1] = SPC /\ line[i + tl] = SPC
                        /\ RuleFill(r, SubSeq(line, 1, i - 2))
                        /\ RuleFill(r, SubSeq(line, i + tl + 1, n))
                        /\ (needBalance => Balanced(CL(SubSeq(line, 1, i - 1)), CL(SubSeq(line, i + tl, n))))
                        /\ (exact => CL(SubSeq(line, 1, i - 1)) = (r.W - CL(T)) \div 2)
RuleAvail(r) == IF r.al = "center" THEN r.W - 4 ELSE r.W - 2
\* r.rj (when logged): the ConsoleOptions handed to the rule ask for justify = "center" / "right".  The finished line
\* (a text) is then re-justified like any text: blanks at its end - the half cell left by a double-width character, a
\* blank that belongs to `characters` or to the title - move to its start.  The statement speaks of the width only:
\* for such a line the order of fill and blanks is not judged (the width and the presence of the title are).
RECURSIVE RStrip(_)
RStrip(s) == IF s # <<>> /\ s[Len(s)] = SPC THEN RStrip(SubSeq(s, 1, Len(s) - 1)) ELSE s      \* (the blanks that end a title move with the others)
RuleShifted(r) == /\ "rj" \in DOMAIN r /\ r.rj /\ r.out[1] # <<>>
                  /\ (r.out[1][1] = SPC \/ r.out[1][Len(r.out[1])] = SPC)
RuleWhy(r) ==
    LET line == r.out[1]
        Ts == Titles(r.title, RuleAvail(r))
    IN IF r.W < r.m THEN "skip:below-min"
       ELSE IF Len(r.out) # 1 THEN "line-count"
       ELSE IF CL(line) # r.W THEN "width-differs"
       ELSE IF RuleShifted(r) THEN (IF r.title = <<>> \/ \E T \in Ts : Occurs(line, RStrip(T)) THEN "ok" ELSE "title-missing")
       ELSE IF r.title = <<>> THEN (IF RuleFill(r, line) THEN "ok" ELSE "fill-differs")
       ELSE IF ~\E T \in Ts : Occurs(line, T) THEN "title-missing"
       ELSE IF ~\E T \in Ts : RuleTitled(r, line, T, FALSE, FALSE) THEN "fill-differs"
       ELSE IF ~\E T \in Ts : RuleTitled(r, line, T, TRUE, FALSE) THEN "title-off-centre"
       ELSE "ok"
RuleDrift(r) ==
    IF RuleShifted(r) THEN "ok"
    ELSE IF r.title # <<>> /\ r.al = "center" /\ ~\E T \in Titles(r.title, RuleAvail(r)) : RuleTitled(r, r.out[1], T, TRUE, TRUE)
    THEN "drift:title-centre-rounding" ELSE "ok"

\* ---- Bar, ProgressBar ------------------------------------------------------------------------
\* r.wopt, r.color (colour available on the console), r.solid (rich.bar.Bar)
BarLine(r) == IF r.out = <<>> THEN <<>> ELSE r.out[1]        \* a bar with nothing to draw (no colour, nothing completed) is an empty line
BarWhy(r) ==
    IF r.W < r.m THEN "skip:below-min"
    ELSE IF Len(r.out) > 1 THEN "line-count"
    ELSE IF CL(BarLine(r)) > r.W THEN "exceeds-W"
    ELSE IF CL(BarLine(r)) > Limit(r.W, r.wopt) THEN "exceeds-width-option"
    ELSE IF r.color /\ CL(BarLine(r)) # Limit(r.W, r.wopt) THEN "not-filled"
    ELSE "ok"
BarDrift(r) == IF r.solid /\ CL(BarLine(r)) # Limit(r.W, r.wopt) THEN "drift:solid-bar-not-filled" ELSE "ok"

\* ---- Columns ---------------------------------------------------------------------------------
\* Every item has its own identifying character.  r.items[i] = [seen (the item was rendered), n (identifying
\* characters in the item's OWN render: the item rendered alone with the ConsoleOptions the columns handed to
\* it - a word that is too long for its column is legitimately elided there), dy (line of that render on which
\* the first of them stands)]; r.runs = maximal runs of identifying characters found in the render of the
\* Columns: [id, y (line), x (first cell, 0-based), n (characters), w (cells)]; r.cf, r.rtl; r.lw = line widths.
\* When the own render of some item shows none of its characters (n = 0: elided to "...") the items cannot all be
\* located and only the exactly-once clauses are judged.
RECURSIVE CntTo(_, _, _)
CntTo(runs, i, k) == IF k = 0 THEN 0 ELSE (IF runs[k].id = i THEN runs[k].n ELSE 0) + CntTo(runs, i, k - 1)
ColumnsWhy(r) ==
    LET N == Len(r.items)
        runs == r.runs
        Of(i) == {j \in DOMAIN runs : runs[j].id = i}
        Cnt(i) == CntTo(runs, i, Len(runs))
        Y(i) == LET S == {runs[j].y : j \in Of(i)} IN (CHOOSE y \in S : \A z \in S : y <= z) - r.items[i].dy
        X0(i) == LET S == {runs[j].x : j \in Of(i)} IN CHOOSE x \in S : \A z \in S : x <= z
        X1(i) == LET S == {runs[j].x + runs[j].w : j \in Of(i)} IN CHOOSE x \in S : \A z \in S : x >= z
        LeftOf(a, b) == X1(a) <= X0(b)
        Before(a, b) == IF r.rtl THEN LeftOf(b, a) ELSE LeftOf(a, b)      \* a stands in an earlier column (reading direction)
        missing == {i \in 1..N : ~r.items[i].seen \/ (Cnt(i) = 0 /\ r.items[i].n > 0)}
        miscount == {i \in 1..N : Cnt(i) # r.items[i].n}
        Vis == {i \in 1..N : r.items[i].n > 0}
        \* row-first: the first row holds items 1..nc; item i stands in row (i-1) div nc, column (i-1) mod nc (so the
        \* blanks that complete the last row come last in the reading direction)
        nc == Cardinality({i \in 1..N : Y(i) = Y(1)})
        Row(i) == (i - 1) \div nc
        Col(i) == (i - 1) % nc
        \* column-first: a new column starts where the line does not advance; items fill a column top to bottom,
        \* the j-th item of every column stands on the line of the j-th item of the first column
        Starts == {i \in 1..N : i = 1 \/ Y(i) <= Y(i - 1)}
        CStart(i) == LET S == {q \in Starts : q <= i} IN CHOOSE q \in S : \A z \in S : z <= q
        ColNo(i) == Cardinality({q \in Starts : q <= i})
        Pos(i) == i - CStart(i) + 1
        FirstLen == Cardinality({i \in 1..N : ColNo(i) = 1})
        rowbad == IF r.cf THEN {i \in 1..N : Pos(i) > FirstLen \/ Y(i) # Y(Pos(i))}
                  ELSE {x \in 1..N : \E z \in 1..N : (Row(x) = Row(z) /\ Y(x) # Y(z)) \/ (Row(x) < Row(z) /\ Y(x) >= Y(z))}
        colbad == IF r.cf THEN {x \in 1..N : \E z \in 1..N : ColNo(x) < ColNo(z) /\ ~Before(x, z)}
                  ELSE {x \in 1..N : \E z \in 1..N : Col(x) < Col(z) /\ ~Before(x, z)}
    IN IF r.W < r.m THEN "skip:below-min"
       ELSE IF missing # {} THEN "item-missing id=" \o ToString(FirstIdx(missing))
       ELSE IF miscount # {} THEN (IF Cnt(FirstIdx(miscount)) > r.items[FirstIdx(miscount)].n THEN "item-repeated id=" ELSE "item-cut id=") \o ToString(FirstIdx(miscount))
       ELSE IF Vis # 1..N \/ N = 0 THEN "ok"          \* an item elided to nothing cannot be located
       ELSE IF rowbad # {} THEN "row-order-differs id=" \o ToString(FirstIdx(rowbad))
       ELSE IF colbad # {} THEN "column-order-differs id=" \o ToString(FirstIdx(colbad))
       ELSE "ok"
ColumnsDrift(r) == IF r.ex /\ \E k \in DOMAIN r.lw : r.lw[k] # r.W THEN "drift:expand-not-full-width" ELSE "ok"

\* ---- Tree ------------------------------------------------------------------------------------
\* r.nodes = every node in depth-first pre-order: [d (depth), exp (expanded), seen (its label was
\* rendered), cw (width handed to the label), lines (the label rendered alone with those options)];
\* r.asc, r.out.  A node is displayed iff every proper ancestor is expanded.
GSpace == 0
GCont == 1
GFork == 2
GEnd == 3
\* first cell of a 4-cell guide -> its kind (tree.py: ASCII_GUIDES, TREE_GUIDES)
GuideKind(c) == CASE Cp(c) = 32 -> GSpace
                  [] Cp(c) \in {124, 9474, 9475, 9553} -> GCont
                  [] Cp(c) \in {43, 9500, 9507, 9568} -> GFork
                  [] Cp(c) \in {96, 9492, 9495, 9562} -> GEnd
                  [] OTHER -> 9
GuideCps == {32, 124, 43, 96, 45, 9474, 9475, 9553, 9500, 9507, 9568, 9492, 9495, 9562, 9472, 9473, 9552}
TreeHidden(nodes, j) == \E i \in 1..(j - 1) : /\ ~nodes[i].exp /\ nodes[i].d < nodes[j].d
                                              /\ \A q \in (i + 1)..j : nodes[q].d > nodes[i].d
RECURSIVE LinesBefore(_, _, _)
LinesBefore(nodes, vis, j) == IF j = 1 THEN 0 ELSE (IF (j - 1) \in vis THEN Len(nodes[j - 1].lines) ELSE 0) + LinesBefore(nodes, vis, j - 1)
FirstPair(S) == CHOOSE p \in S : \A q \in S : p[1] < q[1] \/ (p[1] = q[1] /\ p[2] <= q[2])
TreeWhy(r) ==
    LET nodes == r.nodes
        N == Len(nodes)
        vis == {j \in 1..N : ~TreeHidden(nodes, j)}
        total == LinesBefore(nodes, vis, N + 1)
        notseen == {j \in vis : ~nodes[j].seen}
        ghost == {j \in (1..N) \ vis : nodes[j].seen}
        overfl == \E j \in vis : \E k \in DOMAIN nodes[j].lines : CL(nodes[j].lines[k]) > nodes[j].cw
        Line(j, k) == r.out[LinesBefore(nodes, vis, j) + k]
        pairs == UNION {{<<j, k>> : k \in DOMAIN nodes[j].lines} : j \in vis}
        PrefixOK(line, d) == /\ Len(line) >= 4 * d
                             /\ \A i \in 1..(4 * d) : Wd(line[i]) = 1 /\ Cp(line[i]) \in GuideCps
        LabelOK(line, d, lab) == /\ Len(line) >= 4 * d + Len(lab)
                                 /\ SubSeq(line, 4 * d + 1, 4 * d + Len(lab)) = lab
                                 /\ \A i \in (4 * d + Len(lab) + 1)..Len(line) : line[i] = SPC
        badp == {pr \in pairs : ~PrefixOK(Line(pr[1], pr[2]), nodes[pr[1]].d)}
        badl == {pr \in pairs : ~LabelOK(Line(pr[1], pr[2]), nodes[pr[1]].d, nodes[pr[1]].lines[pr[2]])}
    IN IF r.W < r.m THEN "skip:below-min"
       ELSE IF notseen # {} THEN "node-not-shown id=" \o ToString(FirstIdx(notseen))
       ELSE IF ghost # {} THEN "hidden-node-shown id=" \o ToString(FirstIdx(ghost))
       ELSE IF overfl THEN "skip:child-overflows"
       ELSE IF total # Len(r.out) THEN "line-count"
       ELSE IF badp # {} THEN "guide-prefix-differs id=" \o ToString(FirstPair(badp)[1]) \o " l=" \o ToString(FirstPair(badp)[2])
       ELSE IF badl # {} THEN "label-differs id=" \o ToString(FirstPair(badl)[1]) \o " l=" \o ToString(FirstPair(badl)[2])
       ELSE "ok"

\* implementation-shaped: the label of a node at depth d is handed W - 4 d cells; guides draw the
\* usual tree picture (fork / end at the node's own level on its first line, continue / blank
\* for every ancestor level and on continuation lines); ASCII guides under ascii-only
TreeDrift(r) ==
    LET nodes == r.nodes
        N == Len(nodes)
        vis == {j \in 1..N : ~TreeHidden(nodes, j)}
        IsLast(j) == LET later == {q \in (j + 1)..N : nodes[q].d <= nodes[j].d}
                     IN later = {} \/ nodes[FirstIdx(later)].d < nodes[j].d
        Anc(j, lev) == LET S == {i \in 1..j : nodes[i].d = lev} IN CHOOSE i \in S : \A q \in S : q <= i
        Line(j, k) == r.out[LinesBefore(nodes, vis, j) + k]
        Want(j, k, lev) == IF lev = nodes[j].d /\ k = 1 THEN (IF IsLast(j) THEN GEnd ELSE GFork)
                           ELSE IF IsLast(Anc(j, lev)) THEN GSpace ELSE GCont
        badg == {j \in vis : \E k \in DOMAIN nodes[j].lines : \E lev \in 1..nodes[j].d :
                                GuideKind(Line(j, k)[4 * (lev - 1) + 1]) # Want(j, k, lev)}
        badb == {j \in vis : nodes[j].cw # r.W - 4 * nodes[j].d}
        nonascii == r.asc /\ \E j \in vis : \E k \in DOMAIN nodes[j].lines : ~IsAscii(SubSeq(Line(j, k), 1, 4 * nodes[j].d))
    IN IF badb # {} THEN "drift:label-budget id=" \o ToString(FirstIdx(badb))
       ELSE IF badg # {} THEN "drift:guide-shape id=" \o ToString(FirstIdx(badg))
       ELSE IF nonascii THEN "drift:guides-not-ascii"
       ELSE "ok"

\* ---- acceptance relations ----------------------------------------------------------------------
PanelOK(r) == PanelWhy(r) = "ok"
PaddingOK(r) == PaddingWhy(r) = "ok"
AlignOK(r) == AlignWhy(r) = "ok"
ConstrainOK(r) == ConstrainWhy(r) = "ok"
StyledOK(r) == StyledWhy(r) = "ok"
RuleOK(r) == RuleWhy(r) = "ok"
BarOK(r) == BarWhy(r) = "ok"
ColumnsOK(r) == ColumnsWhy(r) = "ok"
TreeOK(r) == TreeWhy(r) = "ok"

\* =============================================================================================
\* Implementation-shaped part: the design arithmetic of panel.py / padding.py / align.py on
\* abstract renderables (MC_Frames; Trace_Frames compares it with the real render as DRIFT).
\*   leaf   [k |-> "leaf", ls |-> lines]             rendered unchanged (the model's domain keeps
\*                                                   every leaf at least as wide as its widest line)
\*   panel  [k, c, pad, ex, title]   padding [k, c, pad, ex]   align [k, c, al, padr]
\* B = box (8 cells).  flaw \in {"none", "inner-1", "centre-up", "swap-lr"} selects a classic
\* wrong design for the TOP frame only (non-vacuity: the relations must reject it).
RECURSIVE RefMeasure(_, _), RefRender(_, _, _, _), RefFits(_, _, _)
RefTitleW(t) == IF t.title = <<>> THEN 0 ELSE CL(t.title) + 2
\* Measurement.maximum with `avail` cells (panel.py / padding.py / align.py __rich_measure__)
RefMeasure(t, avail) ==
    CASE t.k = "leaf" -> Min(BlockW(t.ls), avail)
      [] t.k = "panel" -> LET p == Unpack(t.pad)
                              in == avail - p.l - p.r - 2
                          IN Max(RefMeasure(t.c, in), Min(RefTitleW(t), in)) + p.l + p.r + 2
      [] t.k = "padding" -> LET p == Unpack(t.pad) IN Min(RefMeasure(t.c, avail - p.l - p.r) + p.l + p.r, avail)
      [] OTHER -> RefMeasure(t.c, avail)
\* width the frame itself occupies and the width it hands to its child
RefOuter(t, W) ==
    CASE t.k = "panel" ->
            LET p == Unpack(t.pad)
                cwid == IF t.ex THEN W - 2 ELSE Min(RefMeasure(t.c, W - 2 - p.l - p.r) + p.l + p.r, W - 2)
                cwid2 == IF t.title = <<>> THEN cwid ELSE Min(W - 2, Max(cwid, CL(t.title) + 4))
            IN cwid2 + 2
      [] t.k = "padding" -> LET p == Unpack(t.pad) IN IF t.ex THEN W ELSE Min(RefMeasure(t.c, W) + p.l + p.r, W)
      [] OTHER -> W
RefInner(t, W, top) ==
    CASE t.k = "panel" -> LET p == Unpack(t.pad) IN RefOuter(t, W) - 2 - p.l - p.r
      [] t.k = "padding" -> LET p == Unpack(t.pad) IN RefOuter(t, W) - p.l - p.r
      [] OTHER -> Min(RefMeasure(t.c, top), W)          \* align: measured against the console width `top`
RefTitleRow(t, B, Wp) ==
    LET padded == <<SPC>> \o t.title \o <<SPC>>
        ex == Wp - 4 - CL(padded)
    IN <<B[1], B[2]>> \o Rep(B[2], ex \div 2) \o padded \o Rep(B[2], ex - ex \div 2) \o <<B[2], B[3]>>
RefRender(t, W, B, env) ==      \* env = [top |-> console width, flaw |-> ..]; the flaw applies at this level only
    IF t.k = "leaf" THEN t.ls
    ELSE LET flaw == env.flaw
             sub == [env EXCEPT !.flaw = "none"]
             cw0 == RefInner(t, W, env.top)
             cw == IF flaw = "inner-1" THEN cw0 - 1 ELSE cw0
             ch == RefRender(t.c, cw, B, sub)
         IN CASE t.k = "panel" ->
                    LET p0 == Unpack(t.pad)
                        p == IF flaw = "swap-lr" THEN [p0 EXCEPT !.l = p0.r, !.r = p0.l] ELSE p0
                        Wp == RefOuter(t, W)
                        rows == [k \in 1..(p.t + Len(ch) + p.b) |-> <<B[4]>> \o BlockRow(p, ch, cw0, k) \o <<B[5]>>]
                        top == IF t.title = <<>> THEN <<B[1]>> \o Rep(B[2], Wp - 2) \o <<B[3]>> ELSE RefTitleRow(t, B, Wp)
                    IN <<top>> \o rows \o << <<B[6]>> \o Rep(B[7], Wp - 2) \o <<B[8]>> >>
              [] t.k = "padding" ->
                    LET p0 == Unpack(t.pad)
                        p == IF flaw = "swap-lr" THEN [p0 EXCEPT !.l = p0.r, !.r = p0.l] ELSE p0
                    IN [k \in 1..(p.t + Len(ch) + p.b) |-> BlockRow(p, ch, cw0, k)]
              [] OTHER ->
                    LET bw == BlockW(ch)
                        excess == W - bw
                        left == IF flaw = "centre-up" /\ t.al = "center" THEN excess - excess \div 2 ELSE AlignLeft(t.al, excess)
                    IN [k \in DOMAIN ch |-> Sp(left) \o PadTo(ch[k], bw) \o (IF t.padr THEN Sp(excess - left) ELSE <<>>)]
\* the model's domain: every leaf is handed at least its widest line, every inner width is >= 1
RefFits(t, W, top) ==
    IF t.k = "leaf" THEN W >= Max(1, BlockW(t.ls))
    ELSE /\ W >= 1
         /\ (t.k = "panel" /\ t.title # <<>> => RefOuter(t, W) >= CL(t.title) + 6)
         /\ RefFits(t.c, RefInner(t, W, top), top)
\* the record the driver would log for the top frame of t
RefRecord(t, W, B, flaw) ==
    LET env == [top |-> W, flaw |-> flaw]
        cw0 == RefInner(t, W, W)
        cw == IF flaw = "inner-1" THEN cw0 - 1 ELSE cw0
        base == [kind |-> t.k, W |-> W, m |-> 1, ncw |-> 1, cw |-> cw, out |-> RefRender(t, W, B, env),
                 ch |-> RefRender(t.c, cw, B, [top |-> W, flaw |-> "none"])]
    IN CASE t.k = "panel" -> base @@ [pad |-> t.pad, ex |-> t.ex, wopt |-> 0, title |-> t.title, ta |-> "center", asc |-> FALSE, boxes |-> <<B>>]
         [] t.k = "padding" -> base @@ [pad |-> t.pad, ex |-> t.ex]
         [] OTHER -> base @@ [al |-> t.al, padr |-> t.padr, wopt |-> 0]
FrameWhy(r) ==
    CASE r.kind = "panel" -> PanelWhy(r)
      [] r.kind = "padding" -> PaddingWhy(r)
      [] r.kind = "align" -> AlignWhy(r)
      [] r.kind = "constrain" -> ConstrainWhy(r)
      [] OTHER -> StyledWhy(r)
=============================================================================
