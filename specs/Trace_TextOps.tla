--------------------------- MODULE Trace_TextOps ---------------------------
(* M3: histories of editing calls executed on a real rich.text.Text; after every call the
   driver logs what the object shows (len(), plain as code points, per-character effective
   style from Text.render) and TLC compares with the model step by step.  A history is cut at
   its first rejected step. *)
EXTENDS TextOps, Json, IOUtils

Traces == JsonDeserialize(IOEnv.TRACE_FILE)

VARIABLES tid, l, t, sib, verdict
vars == <<tid, l, t, sib, verdict>>
Tr == Traces[tid]

Init == /\ tid \in 1..Len(Traces)
        /\ l = 1
        /\ t = [chars |-> <<>>, base |-> 0]
        /\ sib = [chars |-> <<>>, base |-> 0]      \* the object the current text was derived from (still alive)
        /\ verdict = "ok"

RECURSIVE FirstBadPiece(_, _, _)
FirstBadPiece(ps, obs, i) ==
    IF i > Len(ps) THEN "ok"
    ELSE LET v == CompareText(ps[i], obs[i]) IN
         IF v # "ok" THEN "piece-" \o v ELSE FirstBadPiece(ps, obs, i + 1)

Judge(e, r) ==
    IF e.exc # r.err THEN (IF r.err = "none" THEN "raises-" \o e.exc ELSE "error-differs")
    ELSE IF r.err # "none" THEN "ok"
    ELSE IF e.k \in Pieces THEN
         (IF Len(e.pieces) # Len(r.pieces) THEN "piece-count-differs"
          ELSE FirstBadPiece(r.pieces, e.pieces, 1))
    ELSE IF e.k \in StyleOnly /\ Codes(r.cur.chars) # [i \in DOMAIN e.obs.chars |-> e.obs.chars[i][1]]
         THEN "style-only-op-changed-characters"
    ELSE IF e.k = "rstrip_end" /\ CompareText(r.cur, e.obs) # "ok" /\ CompareText(RstripEndChars(t, e.n), e.obs) = "ok" THEN "ok"
    ELSE CompareText(r.cur, e.obs)

Step == /\ l <= Len(Tr) /\ verdict = "ok"
        /\ LET e == Tr[l]
               r == IF e.k = "swap" THEN Res(sib) ELSE Apply(t, sib, e)
               v == Judge(e, r)
           IN /\ verdict' = IF v = "ok" THEN "ok" ELSE "step " \o ToString(l) \o " " \o e.k \o ": " \o v
              /\ t' = IF v = "ok" /\ r.err = "none"
                      THEN (IF e.k = "rstrip_end" /\ CompareText(r.cur, e.obs) # "ok" THEN Adopt(RstripEndChars(t, e.n), e.obs) ELSE Adopt(r.cur, e.obs))
                      ELSE t
              /\ sib' = IF v # "ok" THEN sib ELSE IF e.k = "swap" THEN t ELSE IF r.err = "none" /\ Derives(e, r) THEN t ELSE sib
        /\ l' = l + 1 /\ UNCHANGED tid

Spec == Init /\ [][Step]_vars
AtEnd == l = Len(Tr) + 1 \/ verdict # "ok"
Report == AtEnd => PrintT(<<"VERDICT", tid, verdict>>)
=============================================================================
