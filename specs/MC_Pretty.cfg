\* M1, quick-tier constants (the driver writes the cfg of each tier itself); MLs: 1000 stands for max_length=None
CONSTANTS
  Kinds2 = {"list", "tuple", "dict", "set", "deque"}
  Kinds3 = {"list", "tuple", "dict"}
  N2 = 2
  N3 = 2
  FullRest = FALSE
  Widths = {3, 8, 40}
  Indents = {1, 4}
  MLs = {1000}
  Rule = "fixed"
SPECIFICATION Spec
INVARIANT InvEvalOK
INVARIANT InvOneLine
INVARIANT InvLayout
INVARIANT InvRenderRec
CHECK_DEADLOCK FALSE
