\* the closing-line separator exactly as in 9.10.0: InvEvalOK is EXPECTED to be violated (lost 1-tuple comma)
CONSTANTS
  Kinds2 = {"list", "tuple", "dict", "set", "deque"}
  Kinds3 = {"list", "tuple", "dict"}
  N2 = 2
  N3 = 2
  FullRest = FALSE
  Widths = {3, 8, 40}
  Indents = {1, 4}
  MLs = {1000}
  Rule = "coded"
SPECIFICATION Spec
INVARIANT InvEvalOK
INVARIANT InvOneLine
INVARIANT InvLayout
INVARIANT InvRenderRec
CHECK_DEADLOCK FALSE
