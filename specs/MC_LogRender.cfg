CONSTANT MaxOps = 5
CONSTANT GenDepth = 0
SPECIFICATION Spec
VIEW View
INVARIANT Readable
INVARIANT NeverRepeated
INVARIANT LastIsLastLogged
CONSTRAINT Emit
CHECK_DEADLOCK FALSE
