CONSTANTS
  StdPalette <- JStd
  WinPalette <- JWin
  EightPalette <- JEight
SPECIFICATION Spec
CONSTRAINT Report
CHECK_DEADLOCK FALSE
