--------------------------- MODULE Trace_FileProxy ---------------------------
(* M3: histories of write(chunk) / flush() on a real FileProxy bound to a real truecolor console.
   For every call the driver logs the chunk and what the console wrote, both tokenised lexically
   into events; TLC interprets both with Sgr.tla and compares line by line.                   *)
EXTENDS FileProxy, Json, IOUtils, TLC

Traces == JsonDeserialize(IOEnv.TRACE_FILE)
VARIABLES tid, l, s, odec, verdict
vars == <<tid, l, s, odec, verdict>>
Tr == Traces[tid]

Init == tid \in 1..Len(Traces) /\ l = 1 /\ s = Init0 /\ odec = DecInit /\ verdict = "ok"

Step == /\ l <= Len(Tr.events) /\ verdict = "ok"
        /\ LET e == Tr.events[l]
               m == IF e.k = "write" THEN Write(s, e.p, e.chunk) ELSE Flush(s, e.p)
               o == Decode([odec EXCEPT !.lines = <<>>], e.out)       \* what the console showed for this call
               exp == SubSeq(m.out, Len(s.out) + 1, Len(m.out))
               v == IF e.exc # "none" THEN "raises-" \o e.exc
                    ELSE IF o.line # <<>> THEN "output-without-newline"
                    ELSE IF Len(o.lines) < Len(exp) THEN "line-lost"
                    ELSE IF Len(o.lines) > Len(exp) /\ ~Tr.narrow THEN "line-duplicated-or-early"
                    ELSE IF Tr.narrow THEN          \* lines longer than the console are wrapped: blanks aside, still everything, in order, styled
                         (IF Chars(Ink(o.lines)) # Chars(Ink(exp)) THEN "characters-differ" ELSE IF Ink(o.lines) # Ink(exp) THEN "styling-differs" ELSE "ok")
                    ELSE IF ~SameChars(o.lines, exp) THEN "characters-differ"
                    ELSE IF ~SameLines(o.lines, exp) THEN "styling-differs"
                    ELSE "ok"
           IN /\ s' = m /\ odec' = o
              /\ verdict' = IF v = "ok" THEN "ok" ELSE "step " \o ToString(l) \o " " \o e.k \o ": " \o v
        /\ l' = l + 1 /\ UNCHANGED tid
Spec == Init /\ [][Step]_vars
AtEnd == l = Len(Tr.events) + 1 \/ verdict # "ok"
Report == AtEnd => PrintT(<<"VERDICT", tid, verdict>>)
=============================================================================
