--------------------------- MODULE Trace_Markup ---------------------------
(* M3: records produced from the real rich.markup.render(markup, emoji=False) / rich.markup.escape.
   One record = one pure-function observation; TLC computes the expected result from Markup.tla and
   prints one verdict per record naming the failing clause.  Styles travel as one int: Code(<<fg,bg,bold,link,other>>).

   Every record: base (id of the base style handed over as style=, 0 = none), emoji (1 = called with
               emoji=True), emo (emoji names over the input's characters; [] when emoji = 0).
   kind "doc": toks (token document over the fixed tag vocabulary; text tokens with e = 1 were
               written through the real escape()), cp (the markup string that was rendered),
               observation plain / sty / err.       Expected = Run(toks)   [property part]
   kind "str": cp (raw string), tags (style-language table for the tag texts occurring in cp:
               c = tag text, key = canonical name, sty = style), observation plain / sty / err of
               render(cp); esc = escape(cp), observation eplain / esty / eerr of render(esc).
               Expected = Run(Lex(cp)) [property part on documented inputs, drift on Odd ones];
               EscapeOK(cp, observation, base)  [property part, every string].
   Verdicts:  "ok" | "ok drift:<what>" | "skip:<why>" | "<failing clause> ..." | "drift:<clause> ..."  *)
EXTENDS Markup, Json, IOUtils

Recs == JsonDeserialize(IOEnv.TRACE_FILE)

VARIABLE tid
vars == <<tid>>

\* ---- comparing an observation with the machine's result -----------------------------------
\* at the first character whose style differs say which field and how it is wrong:
\*   missing     the expected value is set by an open tag, nothing was observed  (base-missing: by the base style)
\*   leak        the observed value is not contributed by any tag open at this character (nor by the base style)
\*   precedence  the observed value comes from an open tag opened EARLIER than the one that
\*               must win (same-start: both opened at the same text offset; base-wins: it comes from the base style)
\* an observed style code of -1 means "not observable at this character" (line ends of printed output)
OpenB(e, base) == LET o == [x \in 1..Len(e.open) |-> [seq |-> e.open[x].seq, sty |-> e.open[x].sty, start |-> e.open[x].start]]
                  IN IF base = NullSty THEN o ELSE << [seq |-> 0, sty |-> base, start |-> 0] >> \o o
StyleDiff(e, base, gotc) ==
    LET got == Decode(gotc)
        exp == Combine(base, e.sty)
        open == OpenB(e, base)
        f == Min({g \in Fields : exp[g] # got[g]})
        w == LastSetter(open, f)
        S == {i \in 1..Len(open) : open[i].sty[f] = got[f]}
    IN IF got[f] = 9 THEN "style-differs:foreign field=" \o FieldName[f]
       ELSE IF got[f] = 0 THEN (IF w # 0 /\ open[w].seq = 0 THEN "style-differs:base-missing field=" ELSE "style-differs:missing field=") \o FieldName[f]
       ELSE IF S = {} THEN "style-differs:leak field=" \o FieldName[f]
       ELSE "style-differs:precedence "
            \o (IF open[Max(S)].seq = 0 THEN "base-wins"
                ELSE IF w # 0 /\ open[Max(S)].start = open[w].start THEN "same-start" ELSE "other-start")
            \o " field=" \o FieldName[f]

Compare(m, r, err, plain, sty) ==
    LET base == BaseSty(r.base) IN
    IF m.err # err THEN "error-differs expected=" \o m.err \o " got=" \o err
    ELSE IF m.err # "none" THEN "ok"
    ELSE IF r.emoji = 1 /\ HasEmoji(Plain(m), r.emo) THEN "skip:emoji-code-in-text"
    ELSE IF Plain(m) # plain THEN "plain-differs"
    ELSE IF Len(sty) # Len(m.out) THEN "style-length-differs"
    ELSE LET bad == {p \in 1..Len(m.out) : sty[p] # 0 - 1 /\ Code(Combine(base, m.out[p].sty)) # sty[p]}
         IN IF bad = {} THEN "ok" ELSE StyleDiff(m.out[Min(bad)], base, sty[Min(bad)])

\* ---- kind "doc" ---------------------------------------------------------------------------
EscLeavesOK(toks) == \A i \in 1..Len(toks) : (toks[i].k = "text" /\ toks[i].e = 1) => SideOK(toks[i].s)
\* text written into the markup as it is (e = 0) must be complete markup that is nothing but text: no '[' in it,
\* and it does not end in a backslash (which would escape whatever follows)
RawLeavesOK(toks) == \A i \in 1..Len(toks) : (toks[i].k = "text" /\ toks[i].e = 0) =>
                        /\ \A x \in 1..Len(toks[i].s) : toks[i].s[x] # LB
                        /\ (toks[i].s = <<>> \/ toks[i].s[Len(toks[i].s)] # BS)
\* what the spec's lexer makes of the string that was actually rendered (drift information only)
RECURSIVE FlatFrom(_, _)
FlatFrom(toks, i) ==
    IF i > Len(toks) THEN <<>>
    ELSE (IF toks[i].k = "text" THEN Chars(toks[i].s) ELSE << [k |-> "tag"] >>) \o FlatFrom(toks, i + 1)
Shape(items) == [x \in 1..Len(items) |-> IF items[x].k = "chr" THEN items[x].c ELSE 0 - 1]
DocVerdict(r) ==
    IF ~EscLeavesOK(r.toks) THEN "skip:side-condition"
    ELSE IF ~RawLeavesOK(r.toks) THEN "skip:raw-text-is-not-plain-text"
    ELSE LET v == Compare(Run(ResolveAll(r.toks)), r, r.err, r.plain, r.sty)
         IN IF v # "ok" THEN v
            ELSE IF Shape(Lex(r.cp)) # Shape(FlatFrom(r.toks, 1)) THEN "ok drift:lexer-differs" ELSE "ok"

\* ---- kind "str" ---------------------------------------------------------------------------
Lookup(tags, t) == LET S == {i \in 1..Len(tags) : tags[i].c = t} IN IF S = {} THEN 0 ELSE Min(S)
ItemTok(it, tags) ==
    IF it.k = "chr" THEN it
    ELSE LET e == tags[Lookup(tags, it.t)]
         IN IF it.t[1] = SLASH
            THEN (IF e.key = <<>> THEN [k |-> "pop"] ELSE [k |-> "close", key |-> e.key])
            ELSE [k |-> "open", key |-> e.key, sty |-> Decode(e.sty)]
RawVerdict(r) ==
    LET items == Lex(r.cp)
    IN IF \E x \in 1..Len(items) : items[x].k = "tag" /\ Lookup(r.tags, items[x].t) = 0
       THEN "machinery:tag-table-incomplete"
       ELSE LET toks == [x \in 1..Len(items) |-> ItemTok(items[x], r.tags)]
                v == Compare(Run(toks), r, r.err, r.plain, r.sty)
            IN IF v = "ok" \/ v = "skip:emoji-code-in-text" THEN v
               ELSE IF Odd(r.cp) THEN "drift:" \o v \o " input=odd" ELSE v \o " input=documented"

EscShape(s) == LET j == NextTag(s, 1)
               IN IF j = 0 THEN "no-tag" ELSE IF \E x \in 2..Len(s) : s[x] = LB /\ s[x - 1] = BS /\ TagEnd(s, x) # 0
                  THEN "backslash-before-tag" ELSE "tag"
EscVerdict(r) ==
    LET o == [err |-> r.eerr, plain |-> r.eplain, sty |-> r.esty]
    IN IF r.eerr = "none" /\ r.emoji = 1 /\ HasEmoji(r.cp, r.emo) THEN "skip:emoji-code-in-text"
       ELSE IF EscapeOK(r.cp, o, BaseSty(r.base))
       THEN (IF r.esc # Escape(r.cp) THEN "ok drift:escape-output-differs" ELSE "ok")
       ELSE (IF r.eerr # "none" THEN "escape:error got=" \o r.eerr
             ELSE IF r.eplain # r.cp THEN "escape:plain-differs"
             ELSE "escape:styled") \o " input=" \o EscShape(r.cp)

Verdict(r) ==
    IF r.kind = "doc" THEN DocVerdict(r)
    ELSE LET a == RawVerdict(r)
             b == EscVerdict(r)
         IN IF a = "ok" /\ b = "ok" THEN "ok" ELSE a \o " | " \o b

Init == tid \in 1..Len(Recs)
Next == tid = 0 /\ UNCHANGED vars       \* never enabled: one state per record, the verdict is printed from Init
Spec == Init /\ [][Next]_vars
Report == PrintT(<<"VERDICT", tid, Verdict(Recs[tid])>>)
=============================================================================
