CONSTANTS
  Threads = {1, 2}
  ClockInsideLock = TRUE
  OpsPerThread = 2
  MaxNow = 3
SPECIFICATION Spec
INVARIANT SpeedNonNeg
INVARIANT Accounting
INVARIANT NoLostUpdate
INVARIANT MutualExclusion
CHECK_DEADLOCK FALSE
