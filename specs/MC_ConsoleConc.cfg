CONSTANTS
  Threads <- MCThreads
  Program <- MCProgram
  AtomicPrint = TRUE
SPECIFICATION Spec
INVARIANT NoBadInv
INVARIANT ScreenInv
INVARIANT NoStuck
CHECK_DEADLOCK FALSE
