SPECIFICATION Spec
CONSTRAINT Report
CHECK_DEADLOCK FALSE
