----------------------------- MODULE Trace_Live -----------------------------
(* M3: histories executed on real Live / Progress / Status objects writing to a terminal console.
   Every write() to the console's file is tokenised into terminal operations; TLC plays them on
   Screen.tla (the terminal is in TLA+) and compares the result, call by call, with the screen
   Live.tla says the user must see.  Faults: a renderable that raises from its k-th render on,
   an exception raised in the body of the with-block.                                          *)
EXTENDS Live, Json, IOUtils

Traces == JsonDeserialize(IOEnv.TRACE_FILE)
VARIABLES tid, l, s, rscr, tasks, faulted, verdict
vars == <<tid, l, s, rscr, tasks, faulted, verdict>>
Tr == Traces[tid]

Init == /\ tid \in 1..Len(Traces) /\ l = 1
        /\ s = [NewLive(Traces[tid].mode, Traces[tid].transient, Traces[tid].overflow, Traces[tid].H) EXCEPT !.cur = Traces[tid].cur0]
        /\ rscr = [InitScreen EXCEPT !.tw = Traces[tid].W] /\ tasks = <<>> /\ faulted = FALSE /\ verdict = "ok"

\* Progress: the frame is the list of visible tasks (one row each); an empty table is one blank row
Visible(ts) == SelectSeq(ts, LAMBDA t : t.visible)
TaskRows(ts) == [i \in 1..Len(Visible(ts)) |-> Visible(ts)[i].label]     \* no visible task: a frame of height 0
SetTask(ts, id, f(_)) == [i \in 1..Len(ts) |-> IF ts[i].id = id THEN f(ts[i]) ELSE ts[i]]
TasksAfter(e) ==
    CASE e.k = "add"    -> Append(tasks, [id |-> e.id, label |-> e.label, visible |-> TRUE])
      [] e.k = "hide"   -> SetTask(tasks, e.id, LAMBDA t : [t EXCEPT !.visible = FALSE])
      [] e.k = "show"   -> SetTask(tasks, e.id, LAMBDA t : [t EXCEPT !.visible = TRUE])
      [] e.k = "remove" -> SelectSeq(tasks, LAMBDA t : t.id # e.id)
      [] e.k = "relabel" -> SetTask(tasks, e.id, LAMBDA t : [t EXCEPT !.label = e.label])   \* update(description=): shown at the next refresh
      [] OTHER          -> tasks

WithBroken(x, e) == [x EXCEPT !.broken = e.broken]

Model(e) ==
    LET sb == WithBroken([s EXCEPT !.raised = FALSE], e)
        \* Progress rebuilds its table from the tasks whenever it refreshes; a print in between
        \* re-draws the table of the last refresh
        s0 == IF Tr.mode = "max" /\ Tr.cls = "progress" /\ e.k \in {"start", "stop", "exit", "refresh", "add"}
              THEN [sb EXCEPT !.cur = TaskRows(TasksAfter(e))] ELSE sb
    IN
    CASE e.k = "start"   -> Start(s0, Tr.mode = "max")
      [] e.k \in {"print", "log", "stdout"} -> PrintLines(s0, e.ids)
      [] e.k = "update"  -> Update(s0, e.rows, e.refresh)
      [] e.k = "refresh" -> Refresh(s0)
      [] e.k = "add"     -> Refresh(s0)        \* add_task refreshes
      [] e.k \in {"hide", "show", "remove", "advance", "relabel"} -> s0
      [] e.k \in {"stop", "exit"} -> Stop(s0)
      [] OTHER -> s0

RECURSIVE Flatten(_)
Flatten(rows) == IF rows = <<>> THEN <<>> ELSE Head(rows) \o Flatten(Tail(rows))
Remnant(real, exp) == \E i \in DOMAIN Flatten(real) : IsFrame(Flatten(real)[i]) /\ \A j \in DOMAIN Flatten(exp) : Flatten(exp)[j] # Flatten(real)[i]
Lost(real, exp) == \E j \in DOMAIN Flatten(exp) : IsPrinted(Flatten(exp)[j]) /\ \A i \in DOMAIN Flatten(real) : Flatten(real)[i] # Flatten(exp)[j]

Judge(e, m, r, f) ==
    IF r.bad # "none" THEN r.bad
    ELSE IF e.exc # "none" /\ ~m.raised THEN "raises-" \o e.exc
    ELSE IF e.k = "exit" /\ e.bodyexc /\ ~e.propagated THEN "exception-swallowed"
    ELSE IF ~m.started /\ e.k \in {"stop", "exit", "start"} /\ ~r.vis THEN "cursor-left-hidden"
    ELSE IF ~m.started /\ e.k \in {"stop", "exit", "start"} /\ e.hooks # 0 THEN "render-hook-left"
    ELSE IF ~m.started /\ e.k \in {"stop", "exit", "start"} /\ ~e.restored THEN "stdio-left-redirected"
    ELSE IF f \/ m.raised \/ e.exc # "none" THEN "ok"          \* after a fault only restoration is required
    ELSE IF NonEmpty(r.rows) = NonEmpty(ExpectedRows(m)) THEN "ok"
    ELSE IF Remnant(Trim(r.rows), ExpectedRows(m)) THEN "remnant-of-earlier-frame"
    ELSE IF Lost(Trim(r.rows), ExpectedRows(m)) THEN "printed-line-missing"
    ELSE "screen-differs"

Step == /\ l <= Len(Tr.events) /\ verdict = "ok"
        /\ LET e == Tr.events[l]
               m == Model(e)
               r == ApplyAll(rscr, e.term)
               f == faulted \/ e.exc # "none" \/ m.raised
               v == Judge(e, m, r, faulted)
           IN /\ s' = m /\ rscr' = r /\ tasks' = TasksAfter(e) /\ faulted' = f
              /\ verdict' = IF v = "ok" THEN "ok" ELSE "step " \o ToString(l) \o " " \o e.k \o ": " \o v
              /\ (v = "ok" /\ ~f /\ (r.cy # m.scr.cy \/ r.rows # m.scr.rows)) =>
                     PrintT(<<"DRIFT", tid, "step " \o ToString(l) \o " " \o e.k \o ": emitted-ops-differ-from-design">>)
        /\ l' = l + 1 /\ UNCHANGED tid

Spec == Init /\ [][Step]_vars
AtEnd == l = Len(Tr.events) + 1 \/ verdict # "ok"
Report == AtEnd => PrintT(<<"VERDICT", tid, verdict>>)
=============================================================================
