CONSTANTS
  MaxSlots = 3
  MaxRatio = 3
  MaxBound = 6
  TotalLo = 0
  TotalHi = 14
  ValueOffset = 3
  Fns = {"dist", "distn", "red", "redv", "col"}
SPECIFICATION Spec
INVARIANT Aligned
INVARIANT DesignOK
INVARIANT RealAgrees
INVARIANT RealOK
CHECK_DEADLOCK FALSE
