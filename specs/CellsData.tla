----------------------------- MODULE CellsData -----------------------------
(* Input side shared by the C13 trace modules.  The batch file is
     { "table": [[lo,hi,w],...],   CELL_WIDTHS read from rich/_cell_widths.py of the tree under test
       "alpha": [cp,...],          every code point that occurs in a string of this batch
       "recs":  [...] }            the records to judge
   Strings arrive as code point sequences; their characters get their widths HERE, from the
   table by linear scan (never from the code under test).                                   *)
EXTENDS Cells, Json, IOUtils, TLC

Data     == JsonDeserialize(IOEnv.TRACE_FILE)
Recs     == Data.recs
Table    == Data.table
AlphaSet == {Data.alpha[i] : i \in DOMAIN Data.alpha}
WMap     == [cp \in AlphaSet |-> CharW(cp, Table)]
Str(cps) == [i \in 1..Len(cps) |-> Char(WMap[cps[i]], cps[i])]
Strs(l)  == [j \in 1..Len(l) |-> Str(l[j])]
=============================================================================
