----------------------------- MODULE Trace_Wrap -----------------------------
(* M3: every record is one call of the real Text.wrap (drivers/c02.py):
     str  [[code, width] ...]   the text          base  style id of the Text (0 = none)
     spans [[start, end, style id] ...] in stylize() order
     width, justify, overflow, no_wrap, tab       the arguments of wrap()
     exc   "none" or the class of the exception wrap() raised
     lines [[rexc, chars [[code, width, [style ids present], colour id] ...]] ...]
           what each returned line shows through Text.render (rexc: render raised)
   The effective style of every input character is computed HERE from base and spans with the
   reference semantics of TextOps.tla (base beneath all spans, later spans win); observed
   characters carry no ids - Wrap!Identify matches them to input characters.
   Verdict: "ok" | the failing clause of WrapOK ("a: ..", "b: ..", "c: ..", "d: ..") |
            "raises <Exc>" | "drift: .." when WrapOK holds but the output differs from RefWrap. *)
EXTENDS Wrap, Json, IOUtils

T == INSTANCE TextOps

Recs == JsonDeserialize(IOEnv.TRACE_FILE)

VARIABLE tid
vars == <<tid>>

SetOf(x) == {x[i] : i \in DOMAIN x}

InputOf(r) ==
    LET e == T!Eff(T!Lit([str |-> r.str, base |-> r.base, spans |-> r.spans]))
    IN [chars    |-> [i \in DOMAIN e |-> Ch(e[i].c, e[i].w, i, <<e[i].set, e[i].top>>)],
        width    |-> r.width, justify |-> r.justify, overflow |-> r.overflow,
        no_wrap  |-> r.no_wrap, tab |-> r.tab]

RawOf(r) ==
    [l \in DOMAIN r.lines |->
        [k \in DOMAIN r.lines[l].chars |->
            LET o == r.lines[l].chars[k] IN Ch(o[1], o[2], 0, <<SetOf(o[3]), o[4]>>)]]

Verdict(r) ==
    IF r.exc # "none" THEN "raises " \o r.exc
    ELSE IF \E l \in DOMAIN r.lines : r.lines[l].rexc # "none" THEN "c: line cannot be rendered"
    ELSE LET I   == InputOf(r)
             raw == RawOf(r)
             why == WrapWhy(I, Identify(I, raw))
         IN IF why # "ok" THEN why ELSE DriftWhy(I, raw)

\* one state per record and no successor: the verdict is evaluated (and printed) exactly once
Init == tid \in 1..Len(Recs)
Next == FALSE /\ UNCHANGED tid
Spec == Init /\ [][Next]_vars
Report == PrintT(<<"VERDICT", tid, Verdict(Recs[tid])>>)
=============================================================================
