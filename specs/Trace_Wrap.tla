----------------------------- MODULE Trace_Wrap -----------------------------
(* M3: every record is one call of the real Text.wrap (drivers/c02.py):
     str  [[code, width] ...]   the text          base / lbase  style id / link id of the Text's base style (0 = none)
     spans [[start, end, style id, link id] ...] in order of precedence (stylize() order); a span's style sets
           attribute + colour "style id" (0: neither) and hyperlink "link id" (0: none) - two independent channels,
           in each the base lies beneath all spans and later spans win
     width, justify, overflow, no_wrap, tab       the EFFECTIVE options of the call (argument, else the Text's own
           attribute, else the default); ovarg = the overflow argument as passed ("none" = None);
           how = how the driver delivered text, styles and options (not read here)
     exc   "none" or the class of the exception wrap() raised
     lines [[rexc, chars [[code, width, [style ids present], colour id, link id] ...]] ...]
           what each returned line shows through Text.render (rexc: render raised)
   The effective style of every input character is computed HERE from base and spans with the
   reference semantics of TextOps.tla (base beneath all spans, later spans win); observed
   characters carry no ids - Wrap!Identify matches them to input characters.
   Verdict: "ok" | the failing clause of WrapOK ("a: ..", "b: ..", "c: ..", "d: ..") |
            "raises <Exc>" | "drift: .." when WrapOK holds but the output differs from RefWrap. *)
EXTENDS Wrap, Json, IOUtils

T == INSTANCE TextOps

Recs == JsonDeserialize(IOEnv.TRACE_FILE)

VARIABLE tid
vars == <<tid>>

SetOf(x) == {x[i] : i \in DOMAIN x}

InputOf(r) ==
    LET Chan(f) == [i \in DOMAIN r.spans |-> <<r.spans[i][1], r.spans[i][2], r.spans[i][f]>>]
        e  == T!Eff(T!Lit([str |-> r.str, base |-> r.base, spans |-> Chan(3)]))
        el == T!Eff(T!Lit([str |-> r.str, base |-> r.lbase, spans |-> Chan(4)]))
    IN [chars    |-> [i \in DOMAIN e |-> Ch(e[i].c, e[i].w, i, <<e[i].set, e[i].top, el[i].top>>)],
        width    |-> r.width, justify |-> r.justify, overflow |-> r.overflow,
        no_wrap  |-> r.no_wrap, tab |-> r.tab, ovarg |-> r.ovarg]

RawOf(r) ==
    [l \in DOMAIN r.lines |->
        [k \in DOMAIN r.lines[l].chars |->
            LET o == r.lines[l].chars[k] IN Ch(o[1], o[2], 0, <<SetOf(o[3]), o[4], o[5]>>)]]

Verdict(r) ==
    IF r.exc # "none" THEN "raises " \o r.exc
    ELSE IF \E l \in DOMAIN r.lines : r.lines[l].rexc # "none" THEN "c: line cannot be rendered"
    ELSE LET I   == InputOf(r)
             raw == RawOf(r)
             why == WrapWhy(I, Identify(I, raw))
         IN IF why # "ok" THEN why ELSE DriftWhy(I, raw)

\* one state per record and no successor: the verdict is evaluated (and printed) exactly once
Init == tid \in 1..Len(Recs)
Next == FALSE /\ UNCHANGED tid
Spec == Init /\ [][Next]_vars
Report == PrintT(<<"VERDICT", tid, Verdict(Recs[tid])>>)
=============================================================================
