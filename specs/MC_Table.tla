------------------------------ MODULE MC_Table ------------------------------
(* M1 / M2 for Table.tla.  A state is a table recipe under construction: Configure (the table options),
   AddColumn (column options), AddRow (end_section flag) - the builder history of rich.table.Table.

   Mode "check" (M1, exhaustive): in every state with at least one column an IDEAL render of the recipe
   (every column as wide as its structural minimum, the slack of an expanding table given to the last
   column, separators where the options ask for them) is accepted by Table!TableWhy at W = TableMin and
   at W = TableMin + 3  (IdealAccepted: the relation is satisfiable by the design - it is not
   always-alarming), and the classic defects applied to that render are rejected with the clause that
   names them (CorruptionsRejected: the relation is not trivially true).  MinLaw: TableMin is at least
   borders + one cell per column and the recipe is in scope at its own minimum.

   Mode "emit" (M2): a Finish action closes the recipe and Emit prints it as JSON; with -simulate every
   behaviour is one random builder history over the FULL option sets - including AddColumn AFTER AddRow (a late
   column: rich.table.Table.add_column() fills it with blank cells for the rows that exist; births[j] = the number
   of rows that existed when column j was added, the driver leaves those cells out of the recipe's rows).  drivers/c07.py completes the
   recipe with self-identifying cell contents and builds a real rich.table.Table from it.          *)
EXTENDS Table, TLC, Json

CONSTANTS MaxCols, MaxRows, Mode

VARIABLES t, ends, bx, phase, births
vars == <<t, ends, bx, phase, births>>

Full == Mode = "emit"
Boxes == IF Full THEN {"none", "ASCII", "SIMPLE", "HEAVY_HEAD", "HORIZONTALS", "MINIMAL", "DOUBLE_EDGE"} ELSE {"none", "ASCII"}
Leads == IF Full THEN 0..3 ELSE {0, 2}
Pads  == IF Full THEN 0..3 ELSE {0, 1}
ColOpts == IF Full THEN [ov : {"fold", "crop", "ellipsis", "ignore"}, ratio : {-1, 0, 1, 2}, maxw : {0, 4, 9}]
           ELSE {[ov |-> "fold", ratio |-> -1, maxw |-> 0], [ov |-> "ellipsis", ratio |-> -1, maxw |-> 4]}

\* column 2 holds double-width characters
CellAt(rid, j) == [k |-> "txt", wide |-> (j = 2), wl |-> 3]
GridOf(nc, nr, sh, sf) ==
    LET ids == (IF sh THEN <<0>> ELSE <<>>) \o [i \in 1..nr |-> i] \o (IF sf THEN <<nr + 1>> ELSE <<>>)
    IN [g \in DOMAIN ids |-> [rid |-> ids[g], cells |-> [j \in 1..nc |-> CellAt(ids[g], j)]]]
Regrid(r) == [r EXCEPT !.grid = GridOf(r.nc, r.nr, r.sh, r.sf)]

Init == /\ t = [nc |-> 0] /\ ends = <<>> /\ bx = "none" /\ phase = "new" /\ births = <<>>

On == TRUE
Configure == \E b \in Boxes, edge, sh, sf, sl, pe, cp, ex \in BOOLEAN, lead \in Leads, px \in Pads :
    /\ On /\ phase = "new"
    /\ t' = [nc |-> 0, nr |-> 0, box |-> b # "none", edge |-> edge, sh |-> sh, sf |-> sf, sl |-> sl, lead |-> lead,
             pl |-> px, pr |-> px, pe |-> pe, cp |-> cp, ex |-> ex, w |-> 0, minw |-> 0, cols |-> <<>>, grid |-> <<>>]
    /\ bx' = b /\ phase' = "cols" /\ UNCHANGED <<ends, births>>
\* (M1 keeps to columns before rows: its ideal render fills every cell; late columns are M2's business)
AddColumn == \E o \in ColOpts :
    /\ On /\ (phase = "cols" \/ (Full /\ phase = "rows")) /\ t.nc < MaxCols
    /\ t' = Regrid([t EXCEPT !.nc = @ + 1,
                             !.cols = Append(@, [ov |-> o.ov, ratio |-> o.ratio, w |-> 0, minw |-> 0, maxw |-> o.maxw, nw |-> FALSE])])
    /\ births' = Append(births, t.nr)
    /\ UNCHANGED <<ends, bx, phase>>
AddRow == \E e \in BOOLEAN :
    /\ On /\ phase \in {"cols", "rows"} /\ t.nc >= 1 /\ t.nr < MaxRows
    /\ t' = Regrid([t EXCEPT !.nr = @ + 1])
    /\ ends' = Append(ends, e) /\ phase' = "rows" /\ UNCHANGED <<bx, births>>
Finish == /\ On /\ Full /\ phase \in {"cols", "rows"} /\ t.nc >= 1 /\ phase' = "done" /\ UNCHANGED <<t, ends, bx, births>>
Next == Configure \/ AddColumn \/ AddRow \/ Finish
Spec == Init /\ [][Next]_vars

\* ---- the ideal render -------------------------------------------------------------------------
Complete == phase \in {"cols", "rows"} /\ t.nc >= 1
BodyW(r, W) == IF r.ex THEN W ELSE TableMin(r)
\* content width of column j: its minimum; the last column takes the slack of an expanding table
CW(r, W) == [j \in 1..r.nc |-> ColMin(r, j) + (IF j = r.nc THEN BodyW(r, W) - TableMin(r) ELSE 0)]

RECURSIVE RowRuns(_, _, _, _, _, _)
RowRuns(r, cw, rid, j, x, acc) ==
    IF j > r.nc THEN [x |-> x, runs |-> acc]
    ELSE LET pl == PadL(r, j)
             pr == PadR(r, j)
             cl == CellMin(CellAt(rid, j))
             a1 == IF pl > 0 THEN Append(acc, <<KColumn, j, 0, x, pl>>) ELSE acc
             a2 == Append(a1, <<KContent, j, rid, x + pl, cl>>)
             rest == cw[j] - cl + pr
             a3 == IF rest > 0 THEN Append(a2, <<KColumn, j, 0, x + pl + cl, rest>>) ELSE a2
             x3 == x + pl + cw[j] + pr
             div == r.box /\ j < r.nc
         IN RowRuns(r, cw, rid, j + 1, IF div THEN x3 + 1 ELSE x3, IF div THEN Append(a3, <<KBorder, 0, 0, x3, 1>>) ELSE a3)
RowLine(r, cw, rid, total) ==
    LET e == Edges(r) = 2
        body == RowRuns(r, cw, rid, 1, IF e THEN 1 ELSE 0, IF e THEN << <<KBorder, 0, 0, 0, 1>> >> ELSE <<>>)
    IN [k |-> "body", w |-> total, runs |-> IF e THEN Append(body.runs, <<KBorder, 0, 0, body.x, 1>>) ELSE body.runs]
SepLine(total) == [k |-> "body", w |-> total, runs |-> << <<KBorder, 0, 0, 0, total>> >>]
Rep(x, n) == [i \in 1..n |-> x]

\* the lines below grid row g (separators / leading), as the options ask for them
After(r, e, g, total) ==
    LET rid == r.grid[g].rid
        last == g = Len(r.grid)
        nextFooter == ~last /\ r.grid[g + 1].rid = r.nr + 1
        between == r.sl \/ r.lead > 0 \/ (rid \in 1..r.nr /\ e[rid])
    IN IF ~r.box \/ last THEN <<>>
       ELSE IF rid = 0 THEN <<SepLine(total)>>
       ELSE IF nextFooter THEN <<SepLine(total)>>
       ELSE IF between THEN (IF r.lead > 0 THEN Rep(SepLine(total), r.lead) ELSE <<SepLine(total)>>)
       ELSE <<>>
RECURSIVE Body(_, _, _, _, _)
Body(r, e, cw, g, total) ==
    IF g > Len(r.grid) THEN <<>>
    ELSE <<RowLine(r, cw, r.grid[g].rid, total)>> \o After(r, e, g, total) \o Body(r, e, cw, g + 1, total)
Ideal(r, e, W) ==
    LET total == BodyW(r, W)
        cw == CW(r, W)
        cap == IF Edges(r) = 2 THEN <<SepLine(total)>> ELSE <<>>
    IN cap \o Body(r, e, cw, 1, total) \o cap
Code(rid, j) == 1000 + 10 * rid + j
IdealCells(r) == LET n == Len(r.grid) * r.nc IN
    [q \in 1..n |-> LET g == ((q - 1) \div r.nc) + 1
                        j == ((q - 1) % r.nc) + 1
                    IN [r |-> r.grid[g].rid, c |-> j, ord |-> TRUE, src |-> <<Code(r.grid[g].rid, j)>>, out |-> <<Code(r.grid[g].rid, j)>>,
                        cov |-> "", cnw |-> FALSE]]

Accepts(r, W, L, cells) == TableWhy(r, W, "none", L, cells)[1] = "ok"
Clause(r, W, L, cells) == TableWhy(r, W, "none", L, cells)[1]

IdealAccepted == (Mode = "check" /\ Complete) =>
    \A W \in {TableMin(t), TableMin(t) + 3} : Accepts(t, W, Ideal(t, ends, W), IdealCells(t))

\* ---- classic defects ----------------------------------------------------------------------------
RowLineIdx(L) == {i \in DOMAIN L : IsRowLine(L[i])}
DropLastRun(ln) == [ln EXCEPT !.runs = SubSeq(@, 1, Len(@) - 1), !.w = @ - Len_(ln.runs[Len(ln.runs)])]
Reverse(s) == [i \in DOMAIN s |-> s[Len(s) + 1 - i]]
Corrupt ==
    LET W == TableMin(t) + 3
        L == Ideal(t, ends, W)
        cells == IdealCells(t)
        rl == RowLineIdx(L)
        first == IF rl = {} THEN 0 ELSE SetMin(rl)
        seps == {i \in DOMAIN L : ~IsRowLine(L[i])}
        \* (a) a row line loses its right edge / last divider cell
        a == first # 0 /\ t.box /\ (t.edge \/ t.nc >= 2) =>
                LET ln == L[first]
                    k == CHOOSE q \in DOMAIN ln.runs : Kind(ln.runs[q]) = KBorder /\ \A p \in DOMAIN ln.runs : Kind(ln.runs[p]) = KBorder => p <= q
                    cut == [ln EXCEPT !.runs = [p \in 1..(Len(ln.runs) - 1) |->
                                                   IF p < k THEN ln.runs[p]
                                                   ELSE [ln.runs[p + 1] EXCEPT ![4] = @ - 1]],
                                      !.w = @ - 1]
                IN Clause(t, W, [L EXCEPT ![first] = cut], cells) \in {"rect:width-differs", "rect:border-count"}
        \* (b) a separator line one cell short; (g) a leading line printed n-fold on one line
        b == seps # {} => LET i == SetMin(seps) IN
                /\ Clause(t, W, [L EXCEPT ![i] = [k |-> "body", w |-> L[i].w - 1, runs |-> << <<KBorder, 0, 0, 0, L[i].w - 1>> >>]], cells) = "rect:width-differs"
                /\ Clause(t, W, [L EXCEPT ![i] = [k |-> "body", w |-> 2 * L[i].w, runs |-> << <<KBorder, 0, 0, 0, 2 * L[i].w>> >>]], cells) = "rect:width-differs"
        \* (c) rows upside down
        c == Cardinality(rl) >= 2 => Clause(t, W, Reverse(L), cells) = "rows:out-of-order"
        \* (d) the content of column 1 is attributed to column 2's cells (a cell in the wrong column)
        d == (Cardinality(rl) >= 2 /\ t.nc >= 2) =>
                LET ln == L[first]
                    sw == [ln EXCEPT !.runs = [p \in DOMAIN ln.runs |->
                                IF Kind(ln.runs[p]) = KContent /\ Col(ln.runs[p]) = 1 THEN [ln.runs[p] EXCEPT ![2] = 2] ELSE ln.runs[p]]]
                IN Clause(t, W, [L EXCEPT ![first] = sw], cells) \in {"col:spans-overlap", "col:border-inside-span", "col:wrong-gap"}
        \* (e) an expanding table that stays at its minimum
        e == (t.ex /\ NoWidthCap(t) /\ L # <<>>) => Clause(t, W, Ideal([t EXCEPT !.ex = FALSE], ends, W), cells) = "expand:narrower"
        \* (f) a character of a fold cell is lost; (h) two rows share a line
        f == (cells # <<>> /\ t.cols[cells[1].c].ov = "fold") =>
                Clause(t, W, L, [cells EXCEPT ![1].out = <<>>]) = "cell:characters-missing"     \* (the ideal render starves no column)
        h == Cardinality(rl) >= 2 =>
                LET i == SetMin(rl)
                    j == SetMin(rl \ {i})
                    merged == [L[i] EXCEPT !.runs = [p \in DOMAIN L[i].runs |->
                                  IF Kind(L[i].runs[p]) = KContent /\ Col(L[i].runs[p]) = 1 THEN [L[i].runs[p] EXCEPT ![3] = L[j].runs[p][3]] ELSE L[i].runs[p]]]
                IN t.nc >= 2 => Clause(t, W, [L EXCEPT ![i] = merged], cells) = "rows:two-rows-on-a-line"
    IN IF ~a THEN "a" ELSE IF ~b THEN "b" ELSE IF ~c THEN "c" ELSE IF ~d THEN "d" ELSE IF ~e THEN "e" ELSE IF ~f THEN "f" ELSE IF ~h THEN "h" ELSE "ok"
CorruptionsRejected == (Mode = "check" /\ Complete) => (Corrupt = "ok" \/ (PrintT(<<"corruption accepted", Corrupt>>) /\ FALSE))

MinLaw == (Mode = "check" /\ Complete) =>
    /\ TableMin(t) >= Edges(t) + Dividers(t) + t.nc
    /\ InScope(t, TableMin(t)) /\ ~InScope(t, TableMin(t) - 1)

\* ---- M2 ------------------------------------------------------------------------------------------
Bit(b) == IF b THEN 1 ELSE 0
Emit == phase = "done" =>
    PrintT(ToJson([beh |-> [nc |-> t.nc, nr |-> t.nr, box |-> bx, edge |-> t.edge, sh |-> t.sh, sf |-> t.sf, sl |-> t.sl, lead |-> t.lead,
                            px |-> t.pl, pe |-> t.pe, cp |-> t.cp, ex |-> t.ex,
                            cols |-> [j \in 1..t.nc |-> [ov |-> t.cols[j].ov, ratio |-> t.cols[j].ratio, maxw |-> t.cols[j].maxw,
                                                          at |-> births[j]]],
                            ends |-> [i \in DOMAIN ends |-> Bit(ends[i])]]]))
=============================================================================
