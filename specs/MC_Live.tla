------------------------------ MODULE MC_Live ------------------------------
(* M1: every history of start / print / update / refresh / stop (and a renderable that starts
   raising) up to MCDepth calls, frames of 1..3 rows incl. blank ones and frames taller than the
   console, for each of Live (mode "last") and Progress (mode "max"), transient or not, each
   vertical_overflow; M2: histories emitted for replay on the real classes.                      *)
EXTENDS Live, Json

CONSTANTS Mode, Transient, Overflow, Height, MCDepth, GenDepth, AllowRestart
VARIABLES s, hist, op, np, nf
vars == <<s, hist, op, np, nf>>

On == TRUE
Log == hist' = Append(hist, op')
PLabel(k, i) == 1000000 + k * 10 + i
FLabel(k, i) == 2000000 + k * 10 + i

Init == s = NewLive(Mode, Transient, Overflow, Height) /\ hist = <<>> /\ op = [k |-> "init"] /\ np = 0 /\ nf = 0

StartA == /\ On /\ ~s.started /\ (AllowRestart \/ s.shape < 0) /\ ~s.raised
          /\ s' = Start(s, Mode = "max") /\ op' = [k |-> "start"] /\ Log /\ UNCHANGED <<np, nf>>
PrintA == \E n \in {1, 2} : /\ ~s.raised /\ np < 3
          /\ s' = PrintLines(s, [i \in 1..n |-> PLabel(np + 1, i)])
          /\ np' = np + 1 /\ op' = [k |-> "print", id |-> np + 1, n |-> n] /\ Log /\ UNCHANGED nf
UpdateA == \E h \in {1, 2, 3}, blank \in BOOLEAN, r \in BOOLEAN : /\ ~s.raised /\ nf < 3
          /\ s' = Update(s, [i \in 1..h |-> IF blank /\ i = h THEN 0 ELSE FLabel(nf + 1, i)], r)
          /\ nf' = nf + 1 /\ op' = [k |-> "update", id |-> nf + 1, h |-> h, blank |-> blank, refresh |-> r] /\ Log /\ UNCHANGED np
RefreshA == /\ On /\ ~s.raised /\ s' = Refresh(s) /\ op' = [k |-> "refresh"] /\ Log /\ UNCHANGED <<np, nf>>
BreakA == /\ On /\ ~s.broken /\ ~s.raised /\ s' = [s EXCEPT !.broken = TRUE] /\ op' = [k |-> "break"] /\ Log /\ UNCHANGED <<np, nf>>
\* stop: an explicit call, or the exit of the with-block after an exception
StopA == /\ On /\ s.started /\ s' = [Stop(s) EXCEPT !.raised = FALSE] /\ op' = [k |-> "stop"] /\ Log /\ UNCHANGED <<np, nf>>

Next == StartA \/ PrintA \/ UpdateA \/ RefreshA \/ BreakA \/ StopA
Spec == Init /\ [][Next]_vars

Quiescent == ~s.raised /\ ~s.broken
ScreenInv == Quiescent => ScreenOK(s)
NoBadInv == NoBad(s)
RestoredInv == Restored(s)
\* after a raising render nothing was written: the screen still shows the last good frame
View == <<s, op, np, nf>>
DepthBound == Len(hist) <= MCDepth
Emit2 == /\ Len(hist) <= GenDepth
         /\ (Len(hist) = GenDepth => PrintT(ToJson([beh |-> hist])))
=============================================================================
