--------------------------- MODULE MC_Markup ---------------------------
(* M1: exhaustive exploration of
     - mode "doc": every token document (Open / Close(name) / [/] / one character / end of input)
       of at most MaxToks tokens: the stack machine agrees with the rule of the statement written
       without a stack (DeclAgrees), the span design agrees (SpanDesign), MarkupError exactly when
       a close has nothing to close (ErrExact);
     - mode "str": every string over Alpha up to MaxStr: lexing escape(s) gives back s as plain
       characters, stand-alone and embedded between complete markup (non-vacuity of EscapeOK).
   M2: with Modes = {"doc"} and CONSTRAINT Emit the module prints every token document of
       GenDepth tokens (and every shorter one that ends in MarkupError) as JSON.              *)
EXTENDS Markup, Json

CONSTANTS OpenIds,    \* tag ids that may be opened
          CloseKeys,  \* names that may be closed explicitly
          MaxToks, Alpha, MaxStr, Modes, GenDepth

VARIABLES mode, m, hist, str, done
vars == <<mode, m, hist, str, done>>

X == 120
TextTok == [k |-> "text", s |-> <<X>>]

Init == /\ mode \in Modes /\ m = InitM /\ hist = <<>> /\ str = <<>> /\ done = FALSE

CanStep == mode = "doc" /\ ~done /\ m.err = "none" /\ Len(hist) < MaxToks
Feed(t) == /\ m' = StepTok(m, Resolve(t)) /\ hist' = Append(hist, t) /\ UNCHANGED <<mode, str, done>>

Open == \E id \in OpenIds : CanStep /\ Feed([k |-> "open", id |-> id])
CloseTop == \E key \in CloseKeys :
              /\ CanStep /\ MatchIdx(m.stack, key) # 0 /\ MatchIdx(m.stack, key) = Len(m.stack)
              /\ Feed([k |-> "close", key |-> key])
CloseOverlap == \E key \in CloseKeys :       \* the closed tag is not the innermost one
              /\ CanStep /\ MatchIdx(m.stack, key) # 0 /\ MatchIdx(m.stack, key) < Len(m.stack)
              /\ Feed([k |-> "close", key |-> key])
CloseNothing == \E key \in CloseKeys :
              /\ CanStep /\ MatchIdx(m.stack, key) = 0 /\ Feed([k |-> "close", key |-> key])
PopTop == CanStep /\ m.stack # <<>> /\ Feed([k |-> "pop"])
PopEmpty == CanStep /\ m.stack = <<>> /\ Feed([k |-> "pop"])
Chr == CanStep /\ Feed(TextTok)
End == /\ mode = "doc" /\ ~done /\ m.err = "none"
       /\ m' = DoEnd(m) /\ done' = TRUE /\ UNCHANGED <<mode, hist, str>>
Extend == \E c \in Alpha : /\ mode = "str" /\ Len(str) < MaxStr
                           /\ str' = Append(str, c) /\ UNCHANGED <<mode, m, hist, done>>

Next == Open \/ CloseTop \/ CloseOverlap \/ CloseNothing \/ PopTop \/ PopEmpty \/ Chr \/ End \/ Extend
Spec == Init /\ [][Next]_vars

\* ---- the statement's rule, without a stack ---------------------------------------------------
IsClose(t) == t.k \in {"close", "pop"}
H == ResolveAll(hist)
RECURSIVE ClosedBy(_, _)
ClosedBy(h, i) ==         \* index of the open token that close token i closes; 0 = nothing to close
    LET earlier == {ClosedBy(h, i2) : i2 \in {x \in 1..(i - 1) : IsClose(h[x])}}
        cand == {j \in 1..(i - 1) : /\ h[j].k = "open" /\ j \notin earlier
                                    /\ (h[i].k = "pop" \/ h[j].key = h[i].key)}
    IN IF cand = {} THEN 0 ELSE Max(cand)
OpenAt(h, p) ==           \* open tokens still open just before token p, as machine-like entries
    LET closed == {ClosedBy(h, i) : i \in {x \in 1..(p - 1) : IsClose(h[x])}}
        S == {j \in 1..(p - 1) : h[j].k = "open" /\ j \notin closed}
    IN S
RECURSIVE SetToSeq(_)
SetToSeq(S) == IF S = {} THEN <<>> ELSE LET x == Min(S) IN <<x>> \o SetToSeq(S \ {x})
DeclStyle(h, p) == LET idx == SetToSeq(OpenAt(h, p))
                   IN EffDecl([x \in 1..Len(idx) |-> [seq |-> idx[x], sty |-> h[idx[x]].sty]])
TextIdx(h) == SetToSeq({p \in 1..Len(h) : h[p].k = "text"})
DeclErr(h) == \E i \in 1..Len(h) : IsClose(h[i]) /\ ClosedBy(h, i) = 0

\* ---- invariants -------------------------------------------------------------------------------
TypeOK == /\ m.err \in {"none", "MarkupError"}
          /\ \A p \in 1..Len(m.out) : \A f \in Fields : m.out[p].sty[f] \in 0..2
StackOrd == StackOrdered(m)
EffIsLaterWins == Eff(m.stack) = EffDecl(m.stack)
ErrExact == (m.err = "MarkupError") <=> DeclErr(H)
DeclAgrees == LET ti == TextIdx(H)
              IN /\ Len(ti) = Len(m.out) + (IF m.err # "none" /\ hist # <<>> /\ hist[Len(hist)].k = "text" THEN 1 ELSE 0)
                 /\ \A x \in 1..Len(m.out) : m.out[x].sty = DeclStyle(H, ti[x])
SpanDesign == SpanDesignOK(m)
AllClosedAtEnd == done => (m.stack = <<>> /\ Len(m.spans) = m.n)
\* unclosed tags run to the end: the last character carries every tag still open
RunsToEnd == (~done /\ m.out # <<>> /\ hist # <<>> /\ hist[Len(hist)].k = "text") => m.out[Len(m.out)].open = m.stack

\* a base style behaves like a tag opened before everything else and never closed
BaseIsEarliest == \A b \in BaseIds \ {0} :
    Combine(BaseSty(b), Eff(m.stack)) =
        EffDecl(<< [seq |-> 0, sty |-> BaseSty(b)] >> \o [x \in 1..Len(m.stack) |-> [seq |-> m.stack[x].seq, sty |-> m.stack[x].sty]])

Prefixes == { <<>>, <<LB, 98, RB>>, <<LB, 98, RB, X, LB, SLASH, 98, RB>>, <<X>>, <<X, BS, BS, LB, 98, RB>> }
Suffixes == { <<>>, <<LB, SLASH, RB>>, <<LB, 98, RB, X>>, <<RB>>, <<X, LB, SLASH, 98, RB>>, <<BS, LB, 98, RB>> }
EscStandalone == mode = "str" => EscStandaloneLex(str)
EscEmbedded == mode = "str" => \A P \in Prefixes, Q \in Suffixes : EscEmbeddedLex(P, str, Q)
\* escape only ever adds backslashes: dropping them again is at most the input
EscOnlyAddsBackslashes == mode = "str" => Len(Escape(str)) >= Len(str)

\* ---- M2 -------------------------------------------------------------------------------------
Emit == /\ Len(hist) <= GenDepth /\ ~done
        /\ ((Len(hist) = GenDepth \/ m.err # "none") => PrintT(ToJson([beh |-> hist])))
=============================================================================
