-------------------------- MODULE MC_ConsoleConc --------------------------
EXTENDS ConsoleConc
MCThreads == {1, 2}
\* one thread prints two lines, the other changes the frame height and refreshes
MCProgram == [t \in MCThreads |->
    IF t = 1 THEN << [k |-> "print", id |-> 1, n |-> 2], [k |-> "print", id |-> 2, n |-> 1] >>
    ELSE << [k |-> "update", v |-> 1, h |-> 3], [k |-> "refresh"], [k |-> "update", v |-> 2, h |-> 1] >>]
\* three threads: two printers and one that shrinks the frame
MCThreads3 == {1, 2, 3}
MCProgram3 == [t \in MCThreads3 |->
    IF t = 1 THEN << [k |-> "print", id |-> 1, n |-> 1] >>
    ELSE IF t = 2 THEN << [k |-> "print", id |-> 2, n |-> 2], [k |-> "refresh"] >>
    ELSE << [k |-> "update", v |-> 1, h |-> 2], [k |-> "update", v |-> 2, h |-> 1] >>]
\* only refreshes and updates (every call holds the live lock from hook to write): must hold even in the faithful design
MCProgramR == [t \in MCThreads |->
    IF t = 1 THEN << [k |-> "update", v |-> 1, h |-> 3], [k |-> "refresh"] >>
    ELSE << [k |-> "refresh"], [k |-> "update", v |-> 2, h |-> 1], [k |-> "refresh"] >>]
=============================================================================
