-------------------------- MODULE MC_ConsoleConc --------------------------
EXTENDS ConsoleConc
MCThreads == {1, 2}
\* one thread prints two lines, the other changes the frame height and refreshes
MCProgram == [t \in MCThreads |->
    IF t = 1 THEN << [k |-> "print", id |-> 1, n |-> 2], [k |-> "print", id |-> 2, n |-> 1] >>
    ELSE << [k |-> "update", v |-> 1, h |-> 3], [k |-> "refresh"], [k |-> "update", v |-> 2, h |-> 1] >>]
=============================================================================
