---------------------------- MODULE Trace_Frames ----------------------------
(* M3 judge for C08.  One record = one real render of one framing renderable (see Frames.tla for
   the fields).  Verdict:
     "ok"                      the acceptance relation of the record's kind holds
     "skip:<why>"              outside the statement (below the structural minimum, the child
                               itself overflows the width it was handed, ...) - not judged
     "drift:<what>"            the relation holds, the implementation-shaped part differs
     "raises <Exception>"      the render raised
     anything else             the name of the first failing clause (and the line / item / node) *)
EXTENDS Frames, Json, IOUtils

Recs == JsonDeserialize(IOEnv.TRACE_FILE)

VARIABLE tid
R == Recs[tid]

Child == {"panel", "padding", "align", "constrain", "styled"}

Why(r) ==
    IF r.exc # "" THEN "raises " \o r.exc
    ELSE IF r.kind \in Child THEN
        LET s == SkipChild(r)
            w == FrameWhy(r)
            st == IF r.sty /\ r.kind \in {"panel", "padding"}
                  THEN LET p == Unpack(r.pad) IN
                       IF r.kind = "panel" THEN StyleRowsWhy(r, 2 + p.t, 1 + p.l) ELSE StyleRowsWhy(r, 1 + p.t, p.l)
                  ELSE IF r.sty /\ r.kind \in {"constrain", "styled"} THEN StyleRowsWhy(r, 1, 0)
                  ELSE "ok"
        IN IF s # "ok" THEN s ELSE IF w # "ok" THEN w ELSE st
    ELSE CASE r.kind = "rule" -> RuleWhy(r)
           [] r.kind = "bar" -> BarWhy(r)
           [] r.kind = "columns" -> ColumnsWhy(r)
           [] OTHER -> TreeWhy(r)

\* implementation-shaped part, only consulted when the relation holds
Drift(r) ==
    CASE r.kind = "panel" -> (IF PanelDrift(r) # "ok" THEN PanelDrift(r)
                              ELSE IF "model" \in DOMAIN r /\ r.out # RefRender(r.model, r.W, r.boxes[1], [top |-> r.top, flaw |-> "none"])
                                   THEN "drift:model-render-differs" ELSE "ok")
      [] r.kind \in {"padding", "align"} ->
                             (IF "model" \in DOMAIN r /\ r.out # RefRender(r.model, r.W, r.box, [top |-> r.top, flaw |-> "none"])
                              THEN "drift:model-render-differs" ELSE "ok")
      [] r.kind = "rule" -> RuleDrift(r)
      [] r.kind = "bar" -> BarDrift(r)
      [] r.kind = "columns" -> ColumnsDrift(r)
      [] r.kind = "tree" -> TreeDrift(r)
      [] OTHER -> "ok"

Verdict == LET w == Why(R) IN IF w = "ok" THEN Drift(R) ELSE w

Init == tid \in 1..Len(Recs)
Next == UNCHANGED tid
Report == PrintT(<<"VERDICT", tid, Verdict>>)
=============================================================================
