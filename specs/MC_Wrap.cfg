\* M1 (quick bounds; drivers/c02.py generates the other configurations from this one)
CONSTANTS
  MaxLen = 4
  MaxWidth = 6
  Design = "real"
  TabSizes = {2, 4}
  Extra = FALSE
SPECIFICATION Spec
INVARIANT InvM1
CHECK_DEADLOCK FALSE
