--------------------------- MODULE ThemeStack ---------------------------
(* C20 - named styles resolve through a theme stack.

   Implementation-shaped part: one action per public call of rich.console.Console
   (push_theme / pop_theme / use_theme enter+exit) and get_style.
   Property part: Lookup is the *declarative* resolution rule of the statement (top-most entry
   that defines the name, walking down only through inheriting pushes, else parse the name);
   the code instead collapses dictionaries at push time - conformance shows the two agree.   *)
EXTENDS Naturals, Sequences, FiniteSets, TLC

CONSTANTS Names,        \* names a theme may define (custom names and one default-style name)
          DefaultNames, \* subset of Names defined by Rich's DEFAULT_STYLES
          Sids          \* style ids a theme may bind a name to

\* result of a lookup: a style id, "D" (the DEFAULT_STYLES entry), "P" (parsed as a definition)
DefaultSid == "D"
Parsed     == "P"

\* A theme as the user builds it: Theme(styles, inherit=ti).  Its own dictionary contains the
\* DEFAULT_STYLES when ti (theme.py:19).
ThemeMap(th) == [n \in (DOMAIN th.styles) \cup (IF th.ti THEN DefaultNames ELSE {}) |->
                    IF n \in DOMAIN th.styles THEN th.styles[n] ELSE DefaultSid]

\* stack entry: [map, inherit]; entry 1 is the base theme
RECURSIVE LookupFrom(_, _, _)
LookupFrom(stack, k, n) ==
    IF k = 0 THEN Parsed
    ELSE IF n \in DOMAIN stack[k].map THEN stack[k].map[n]
    ELSE IF stack[k].inherit THEN LookupFrom(stack, k - 1, n)
    ELSE Parsed

Lookup(stack, n) == LookupFrom(stack, Len(stack), n)
Table(stack) == [n \in Names |-> Lookup(stack, n)]

\* ---- functional transition relation (shared by MC and Trace modules) ----------------------
InitState(baseTheme) ==
    [stack |-> << [map |-> ThemeMap(baseTheme), inherit |-> FALSE] >>,
     blocks |-> <<>>,       \* stack depths at which use_theme blocks were entered
     saved |-> <<>>,        \* lookup table before each push (history variable)
     err |-> "none"]

DoPush(s, th, inh) ==
    [s EXCEPT !.stack = Append(@, [map |-> ThemeMap(th), inherit |-> inh]),
              !.saved = Append(@, Table(s.stack)),
              !.err = "none"]

Floor(s) == IF s.blocks = <<>> THEN 1 ELSE s.blocks[Len(s.blocks)] + 1

CanPop(s) == Len(s.stack) > Floor(s)
DoPop(s) ==
    [s EXCEPT !.stack = SubSeq(@, 1, Len(@) - 1),
              !.saved = SubSeq(@, 1, Len(@) - 1),
              !.err = "none"]
\* pop on the base theme: documented error, nothing changes
DoPopBase(s) == [s EXCEPT !.err = "ThemeStackError"]

DoUseEnter(s, th, inh) ==
    [DoPush(s, th, inh) EXCEPT !.blocks = Append(s.blocks, Len(s.stack))]
CanUseExit(s) == s.blocks # <<>> /\ Len(s.stack) = s.blocks[Len(s.blocks)] + 1
DoUseExit(s) ==
    [DoPop(s) EXCEPT !.blocks = SubSeq(s.blocks, 1, Len(s.blocks) - 1)]

\* ---- property part -----------------------------------------------------------------------
\* after a pop every lookup equals what it was before the matching push
PopRestores(s, s2) == Table(s2.stack) = s.saved[Len(s.saved)]
BaseNeverPopped(s) == Len(s.stack) >= 1
=============================================================================
