------------------------------- MODULE MC_Sgr -------------------------------
(* M1 for C03: the encoder design of rich.style / rich.color (which SGR parameters a style is
   turned into, style.py:276-316, color.py:443-468; every segment is closed with SGR 0 and its
   hyperlink with an empty OSC 8) composed with the independent terminal automaton Sgr.tla gives
   back exactly the pen the style means, for every pen of the domain, and leaves nothing behind. *)
EXTENDS Sgr, TLC
VARIABLES pen, prev
vars == <<pen, prev>>

AttrCode(a) == IF a <= 9 THEN a ELSE IF a = 10 THEN 21 ELSE a + 40     \* _style_map
ColourCodes(c, fore) ==
    CASE c.k = "def" -> << IF fore THEN 39 ELSE 49 >>
      [] c.k = "std" -> << (IF c.a < 8 THEN (IF fore THEN 30 ELSE 40) ELSE (IF fore THEN 82 ELSE 92)) + c.a >>
      [] c.k = "idx" -> << IF fore THEN 38 ELSE 48, 5, c.a >>
      [] OTHER       -> << IF fore THEN 38 ELSE 48, 2, c.a, c.b, c.c >>
RECURSIVE AttrCodes(_, _)
AttrCodes(attrs, a) == IF a > 13 THEN <<>> ELSE (IF a \in attrs THEN <<AttrCode(a)>> ELSE <<>>) \o AttrCodes(attrs, a + 1)
\* "unset" colours emit nothing
Encode(p, fgset, bgset) == AttrCodes(p.attrs, 1) \o (IF fgset THEN ColourCodes(p.fg, TRUE) ELSE <<>>) \o (IF bgset THEN ColourCodes(p.bg, FALSE) ELSE <<>>)

Colours == {Def, Std(0), Std(7), Std(8), Std(15), Idx(16), Idx(255), Rgb(0, 0, 0), Rgb(1, 128, 255)}
AttrSets == {S \in SUBSET (1..13) : Cardinality(S) <= 2} \cup {1..13}
Pens == [attrs : AttrSets, fg : Colours, bg : Colours, link : {0}]

Init == pen \in Pens /\ prev = NullPen
Next == UNCHANGED vars        \* every pen is an initial state; the invariants are evaluated on each
Spec == Init /\ [][Next]_vars

\* a segment: ESC[ codes m text ESC[0m  - starting from whatever the previous segment left (= null)
AfterOpen(p) == IF Encode(p, TRUE, TRUE) = <<>> THEN NullPen ELSE Sgr(NullPen, Encode(p, TRUE, TRUE))
RoundTrip == AfterOpen(pen) = pen
UnsetColoursStayDefault == Sgr(NullPen, Encode(pen, FALSE, FALSE)).fg = Def /\ Sgr(NullPen, Encode(pen, FALSE, FALSE)).bg = Def
NoLeak == Sgr(AfterOpen(pen), <<0>>) = NullPen
=============================================================================
