---------------------------- MODULE MC_Progress ----------------------------
(* M1: every sequential history of add / advance / update / reset / start / stop / remove / tick
   over two task ids (bounded depth), checking the accounting, finish and speed clauses of C12 on
   the model; M2: histories emitted as JSON for replay on a real Progress. *)
EXTENDS Progress, Json

CONSTANTS GenDepth, MCDepth
VARIABLES tasks, now, op, hist, prev
vars == <<tasks, now, op, hist, prev>>

Ids == {1, 2}
Absent == [absent |-> TRUE]
Exists(i) == tasks[i] # Absent
Amounts == {0, 1, 3, 0 - 2}          \* scaled by 2: 0, 0.5, 1.5, -1
Totals  == {0, 3, 0 - 2}
Opt(S) == {None} \cup {Some(x) : x \in S}

On == TRUE
Log == hist' = Append(hist, op') /\ prev' = tasks
Set(i, t) == tasks' = [tasks EXCEPT ![i] = t]

Init == tasks = [i \in Ids |-> Absent] /\ now = 0 /\ op = [k |-> "init"] /\ hist = <<>> /\ prev = tasks

AddTask == \E i \in Ids, tot \in Totals, c \in {0, 4}, st \in BOOLEAN :
    /\ ~Exists(i) /\ (i = 1 \/ Exists(1))
    /\ Set(i, NewTask(tot, c, st, now)) /\ UNCHANGED now
    /\ op' = [k |-> "add", id |-> i, total |-> tot, completed |-> c, start |-> st] /\ Log
AdvanceA == \E i \in Ids, a \in Amounts :
    /\ Exists(i) /\ Set(i, Advance(tasks[i], a, now)) /\ UNCHANGED now
    /\ op' = [k |-> "advance", id |-> i, a |-> a] /\ Log
UpdateA == \E i \in Ids, tot \in Opt({3}), c \in Opt({0, 4}), a \in Opt({1, 0 - 2}) :
    /\ Exists(i) /\ (tot.has \/ c.has \/ a.has)
    /\ Set(i, Update(tasks[i], tot, c, a, now)) /\ UNCHANGED now
    /\ op' = [k |-> "update", id |-> i, total |-> tot, completed |-> c, advance |-> a] /\ Log
ResetA == \E i \in Ids, st \in BOOLEAN, tot \in Opt({3}), c \in {0, 4} :
    /\ Exists(i) /\ Set(i, Reset(tasks[i], st, tot, c, now)) /\ UNCHANGED now
    /\ op' = [k |-> "reset", id |-> i, start |-> st, total |-> tot, completed |-> c] /\ Log
StartA == \E i \in Ids : /\ Exists(i) /\ Set(i, StartTask(tasks[i], now)) /\ UNCHANGED now
                         /\ op' = [k |-> "start", id |-> i] /\ Log
StopA == \E i \in Ids : /\ Exists(i) /\ Set(i, StopTask(tasks[i], now)) /\ UNCHANGED now
                        /\ op' = [k |-> "stop", id |-> i] /\ Log
RemoveA == \E i \in Ids : /\ Exists(i) /\ i = 2 /\ Set(i, Absent) /\ UNCHANGED now
                          /\ op' = [k |-> "remove", id |-> i] /\ Log
Tick == \E d \in {1, 40} : /\ On /\ now' = now + d /\ UNCHANGED tasks
                           /\ op' = [k |-> "tick", d |-> d] /\ Log

Next == AddTask \/ AdvanceA \/ UpdateA \/ ResetA \/ StartA \/ StopA \/ RemoveA \/ Tick
Spec == Init /\ [][Next]_vars

\* ---- the clauses of C12 on the model --------------------------------------------------------
Accounting == \A i \in Ids : Exists(i) => tasks[i].c = tasks[i].lastSet + tasks[i].sumAdv
SpeedNonNeg == \A i \in Ids : (Exists(i) /\ tasks[i].nonneg) =>
                  /\ SamplesSorted(tasks[i])
                  /\ (HasSpeed(tasks[i]) => SpeedNum(tasks[i]) >= 0 /\ SpeedDen(tasks[i]) > 0)
Touched(i) == op.k \in {"advance", "update"} /\ op.id = i
FinishedWhenDone == \A i \in Ids : (Exists(i) /\ Touched(i) /\ tasks[i].start.has /\ tasks[i].c >= tasks[i].tot)
                       => Finished(tasks[i])
FinFixed == \A i \in Ids :
    (Exists(i) /\ prev[i] # Absent /\ Finished(prev[i])
       /\ ~(op.k = "reset" /\ op.id = i) /\ ~(op.k = "update" /\ op.id = i /\ op.total.has) /\ ~(op.k \in {"remove", "add"} /\ op.id = i))
    => tasks[i].fin = prev[i].fin
RemainingNonNeg == \A i \in Ids :
    (Exists(i) /\ op.k = "advance" /\ op.id = i /\ tasks[i].nonneg /\ tasks[i].start.has /\ ~tasks[i].stop.has)
    => (Finished(tasks[i]) \/ ~HasSpeed(tasks[i]) \/ SpeedNum(tasks[i]) = 0 \/ tasks[i].tot - tasks[i].c >= 0)

View == <<tasks, now, op, prev>>
DepthBound == Len(hist) <= MCDepth
Emit == /\ Len(hist) <= GenDepth
        /\ (Len(hist) = GenDepth => PrintT(ToJson([beh |-> hist])))
=============================================================================
