------------------------------ MODULE MC_Ratio ------------------------------
(* M1 for Ratio.tla.  A state is one call instance (function, total, slots), built slot by slot;
   every state with at least one slot is judged:

     Design...   the transcription satisfies the promised properties (non-vacuity of the
                 relations + check of the design, exhaustive on the grid);
     RealAgrees  the REAL function (rich._ratio / Table._collapse_widths of the tree under test, called
                 by drivers/c07.py for every instance of the same grid and passed in as JSON) returned
                 what the transcription returns - a difference is DRIFT;
     Real...     the promised properties hold of the REAL result - a failure is a VIOLATION.

   One implementation test per model state: the driver enumerates the grid in mixed-radix order,
   IndexFrom() recomputes the position from the state, Aligned checks a checksum carried by every
   entry so that an enumeration mismatch is a machinery failure and never a verdict.
   Without TRACE_FILE in the environment only the design part is checked.

   fn    "dist"   ratio_distribute(total, ratios, minimums = b)
         "distn"  ratio_distribute(total, ratios)                          (slots have b = 0)
         "red"    ratio_reduce(total, ratios, maximums = b, values = b)    (the table's last resort)
         "redv"   ratio_reduce(total, ratios, maximums = b, values = b + ValueOffset)
         "col"    Table._collapse_widths(widths = b, wrapable = (r = 1), max_width = total)      *)
EXTENDS Ratio, TLC, Json, IOUtils

CONSTANTS MaxSlots, MaxRatio, MaxBound, TotalLo, TotalHi, ValueOffset, Fns

VARIABLES fn, total, slots, v
vars == <<fn, total, slots, v>>

HasReal == "TRACE_FILE" \in DOMAIN IOEnv
Real == IF HasReal THEN JsonDeserialize(IOEnv.TRACE_FILE) ELSE [none |-> 0]

\* ---- the instance (f, t, sl) stands for ----------------------------------------------------
Radix(f) == CASE f = "distn" -> MaxRatio + 1
              [] f = "col"   -> 2 * (MaxBound + 1)
              [] OTHER       -> (MaxRatio + 1) * (MaxBound + 1)
Code(f, s) == IF f = "distn" THEN s.r ELSE s.r * (MaxBound + 1) + s.b
RECURSIVE IndexFrom(_, _, _, _)
IndexFrom(f, sl, i, acc) == IF i > Len(sl) THEN acc ELSE IndexFrom(f, sl, i + 1, acc * Radix(f) + Code(f, sl[i]))
RECURSIVE WSum(_, _)
WSum(sl, i) == IF i = 0 THEN 0 ELSE i * (7 * sl[i].r + sl[i].b + 1) + WSum(sl, i - 1)

\* An entry of the real results is one integer (JSON stays small): digit i (base 64) = out[i] + 32,
\* digit 0 for "the call raised", digit 63 for "result not encodable"; above the n digits: checksum % 61.
Pow64(n) == CASE n = 0 -> 1 [] n = 1 -> 64 [] n = 2 -> 4096 [] n = 3 -> 262144 [] n = 4 -> 16777216
Unpack(e, n) == [i \in 1..n |-> ((e \div Pow64(i - 1)) % 64) - 32]

\* the verdict record of one instance: every field is "ok" or the name of the failing clause.
\*   mach    enumeration of the driver and of the model are aligned (checksum)
\*   design  the transcription satisfies the promised properties, and the relations reject the
\*           classic wrong designs (floor instead of ceil, collapse one short, uncapped reduce)
\*   agree   real result = transcription                      (else DRIFT)
\*   real    promised properties hold of the real result      (else VIOLATION)
Judge(f, t, sl) ==
    LET n     == Len(sl)
        rs    == [i \in 1..n |-> sl[i].r]
        bs    == [i \in 1..n |-> sl[i].b]
        vals  == [i \in 1..n |-> sl[i].b + (IF f = "redv" THEN ValueOffset ELSE 0)]
        wrap  == [i \in 1..n |-> sl[i].r = 1]
        mins  == IF f = "distn" THEN <<>> ELSE bs
        isD   == f \in {"dist", "distn"}
        isR   == f \in {"red", "redv"}
        e     == Real[f][t - TotalLo + 1][n][IndexFrom(f, sl, 1, 0) + 1]       \* packed entry, see Unpack
        out   == Unpack(e, n)
        raised == e % 64 = 0
        garbled == \E i \in 1..n : out[i] = 31                                  \* the driver could not encode the result
        md    == RatioDistribute(t, rs, mins)
        mr    == RatioReduce(t, rs, bs, vals)
        mc    == CollapseWidths(bs, wrap, t)
        eff   == EffRatios(rs, mins)
        floorD == [i \in 1..n |-> Max2(MinOf(mins, i), Floor(eff[i] * t, SumSeq(eff)))]
        design ==
            IF isD THEN
                IF ~md.ok THEN "ok"
                ELSE IF DistWhy(t, rs, mins, md.v) # "ok" THEN DistWhy(t, rs, mins, md.v)
                ELSE IF f = "distn" /\ SumSeq(floorD) # t /\ DistWhy(t, rs, mins, floorD) = "ok" THEN "accepts-floor-design"
                ELSE "ok"
            ELSE IF isR THEN
                IF ReduceWhy(t, rs, bs, vals, mr) # "ok" THEN ReduceWhy(t, rs, bs, vals, mr)
                ELSE IF \E i \in 1..n : mr[i] < 0 THEN "below-zero"
                ELSE IF rs[1] > 0 /\ bs[1] > 0 /\ ReduceWhy(t, rs, bs, vals, [mr EXCEPT ![1] = vals[1] - bs[1] - 1]) = "ok"
                     THEN "accepts-uncapped-design"
                ELSE "ok"
            ELSE
                IF CollapseWhy(bs, wrap, t, mc) # "ok" THEN CollapseWhy(bs, wrap, t, mc)
                ELSE IF ~CollapseTerminates(bs, wrap, t) THEN "loop-does-not-terminate"
                ELSE IF Achievable(bs, wrap, t) /\ SumSeq(bs) > t
                        /\ \E i \in 1..n : wrap[i] /\ CollapseWhy(bs, wrap, t, [mc EXCEPT ![i] = @ + 1]) = "ok"
                     THEN "accepts-short-collapse"
                ELSE "ok"
        agree ==
            IF isD THEN (IF md.ok THEN (IF ~raised /\ out = md.v THEN "ok" ELSE "differs") ELSE IF raised THEN "ok" ELSE "differs")
            ELSE IF isR THEN (IF ~raised /\ out = mr THEN "ok" ELSE "differs")
            ELSE (IF ~raised /\ out = mc THEN "ok" ELSE "differs")
        real ==
            IF isD THEN (IF SumSeq(eff) <= 0 THEN "ok"            \* outside the promise: the caller's error (assert)
                         ELSE IF raised THEN "raised" ELSE DistWhy(t, rs, mins, out))
            ELSE IF raised THEN "raised"
            ELSE IF isR THEN ReduceWhy(t, rs, bs, vals, out)
            ELSE CollapseWhy(bs, wrap, t, out)
    IN [mach   |-> IF HasReal /\ e \div Pow64(n) # (t + WSum(sl, n)) % 61 THEN "misaligned" ELSE "ok",
        design |-> design,
        agree  |-> IF ~HasReal THEN "ok" ELSE IF garbled THEN "differs" ELSE agree,
        real   |-> IF ~HasReal THEN "ok" ELSE IF garbled THEN "result-not-a-list-of-n-small-ints" ELSE real]

Blank == [mach |-> "ok", design |-> "ok", agree |-> "ok", real |-> "ok"]
Init == fn \in Fns /\ total \in TotalLo..TotalHi /\ slots = <<>> /\ v = Blank

On == TRUE
Grow(r, b) == /\ Len(slots) < MaxSlots
              /\ slots' = Append(slots, [r |-> r, b |-> b])
              /\ v' = Judge(fn, total, slots')
              /\ UNCHANGED <<fn, total>>
AddDistSlot   == \E r \in 0..MaxRatio, b \in 0..MaxBound : On /\ fn = "dist" /\ Grow(r, b)
AddDistNSlot  == \E r \in 0..MaxRatio : On /\ fn = "distn" /\ Grow(r, 0)
AddReduceSlot == \E r \in 0..MaxRatio, b \in 0..MaxBound : On /\ fn \in {"red", "redv"} /\ Grow(r, b)
AddColumn     == \E r \in 0..1, b \in 0..MaxBound : On /\ fn = "col" /\ Grow(r, b)
Next == AddDistSlot \/ AddDistNSlot \/ AddReduceSlot \/ AddColumn
Spec == Init /\ [][Next]_vars

Aligned    == v.mach = "ok"
DesignOK   == v.design = "ok"
RealAgrees == v.agree = "ok"
RealOK     == v.real = "ok"
=============================================================================
