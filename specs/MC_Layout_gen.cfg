CONSTANTS
  MaxOps = 8
  MaxNest = 3
  MaxStack = 2
  Opt = "full"
SPECIFICATION Spec
CONSTRAINT Emit
CHECK_DEADLOCK FALSE
