\* M2: print every abstract value of the domain (options are irrelevant)
CONSTANTS
  Kinds2 = {"list", "tuple", "dict", "set", "frozenset", "deque", "counter", "defaultdict", "array"}
  Kinds3 = {"list", "tuple", "dict", "set", "frozenset", "deque", "defaultdict"}
  N2 = 2
  N3 = 2
  FullRest = FALSE
  Widths = {1}
  Indents = {1}
  MLs = {1000}
  Rule = "fixed"
SPECIFICATION Spec
CONSTRAINT Emit
CHECK_DEADLOCK FALSE
