CONSTANTS
  MaxNest = 2
  GenDepth = 2
SPECIFICATION Spec
CONSTRAINT Emit
CHECK_DEADLOCK FALSE
