CONSTANTS
  AttrSeq <- MCAttrSeq
  NCol = 3
  NLink = 2
  NSeed = 6
  GenDepth = 3
  HashDesign = "derived"
SPECIFICATION RouteSpecAll
VIEW View
INVARIANT TypeOK
INVARIANT Refines
INVARIANT NullFlagSound
INVARIANT MasksSound
INVARIANT RouteRoundTrip
INVARIANT HashConsistent
INVARIANT HashExact
CHECK_DEADLOCK FALSE
