\* fixed design: satisfies every invariant.  The driver also runs the three "as the code is
\* today" variants (StripNl = TRUE / GuardSkip = FALSE / SuffixFirst = TRUE) and expects TLC to
\* exhibit the defect in each.
CONSTANTS
  MaxLen = 5
  MaxCuts = 2
  Alphabet = {120, 32, 9, 10}
  Tabs = {2}
  Starts = {3}
  StripNl = FALSE
  GuardSkip = TRUE
  SuffixFirst = FALSE
SPECIFICATION Spec
VIEW View
INVARIANT AllOk
INVARIANT TokensSpellText
INVARIANT ExpectedAccepted
CHECK_DEADLOCK FALSE
