---------------------------- MODULE MC_LogRender ----------------------------
(* M1: every history of <= MaxOps log / print calls with times from 1..3 (not monotone: the clock is the caller's)
   and messages of 1..2 rows: the design keeps every log row's time readable and never repeats a time on
   successive log calls.  M2: histories printed for replay.                                                   *)
EXTENDS LogRender, TLC, Json
CONSTANTS MaxOps, GenDepth
VARIABLES s, hist
vars == <<s, hist>>
Init == s = Init0 /\ hist = <<>>
LogA == \E t \in 1..3, h \in 1..2 : s' = Log(s, t, h) /\ hist' = Append(hist, [k |-> "log", t |-> t, h |-> h])
PrintA == \E h \in 1..2 : s' = PrintRows(s, h) /\ hist' = Append(hist, [k |-> "print", t |-> 0, h |-> h])
Next == Len(hist) < MaxOps /\ (LogA \/ PrintA)
Spec == Init /\ [][Next]_vars
Readable == TimesReadable(s.rows)
NeverRepeated == NoRepeat(s.rows)
LastIsLastLogged == s.last = (LET p == PrevFirst(s.rows, Len(s.rows)) IN IF p = 0 THEN 0 ELSE s.rows[p].own)
View == s
Emit == (GenDepth > 0 /\ Len(hist) = GenDepth) => PrintT(ToJson([beh |-> hist]))
=============================================================================
