CONSTANTS
  CropClamp = TRUE
  StartClamp = TRUE
  CtorLen = TRUE
  CropUpper = FALSE
  MCDepth = 3
SPECIFICATION Spec
INVARIANT Refines
INVARIANT SpansInside
CHECK_DEADLOCK FALSE
