------------------------------ MODULE MC_Prompt ------------------------------
(* M1: the ask loop against every stream of up to MaxLines responses over a small alphabet, for every kind x
   choices x default configuration: the loop design satisfies the property part (PromptVerdict = "ok" for the
   run the design produces), never returns a value outside the choices, shows one error per rejection.
   M2: Emit prints (cfg, lines) instances for replay on the real classes.                                  *)
EXTENDS Prompt, TLC, Json, FiniteSets

CONSTANTS MaxLines, GenDepth
Alphabet == {32, 49, 50, 45, 121, 110, 89, 97}
NL == 10
Words == { <<>> } \cup { <<a>> : a \in Alphabet } \cup { <<a, b>> : a \in {32, 49, 45, 121, 89}, b \in {49, 50, 32, 110} }
LinesOf == { w \o <<NL>> : w \in Words }
Cfgs == { [kind |-> k, haschoices |-> hc, choices |-> ch, hasdefault |-> d, show_default |-> TRUE, show_choices |-> TRUE, default_typed |-> TRUE] :
            k \in {"str", "int", "confirm"}, hc \in BOOLEAN, ch \in { << <<49>>, <<97>> >>, << <<49, 50>>, <<45, 49>> >> }, d \in BOOLEAN }
        \ { c \in [kind : {"confirm"}, haschoices : {TRUE}, choices : { << <<49>>, <<97>> >>, << <<49, 50>>, <<45, 49>> >> }, hasdefault : BOOLEAN, show_default : {TRUE}, show_choices : {TRUE}, default_typed : {TRUE}] : TRUE }

VARIABLES cfg, lines, st
vars == <<cfg, lines, st>>
Init == cfg \in Cfgs /\ lines = <<>> /\ st = St0
\* the environment types a response, the loop consumes it
Respond == /\ ~st.done /\ Len(lines) < MaxLines
           /\ \E ln \in LinesOf : lines' = Append(lines, ln) /\ st' = Attempt(cfg, st, ln)
           /\ UNCHANGED cfg
EndOfInput == /\ ~st.done /\ Len(lines) < MaxLines /\ cfg.hasdefault
              /\ st' = Attempt(cfg, st, <<>>) /\ UNCHANGED <<cfg, lines>>
Next == Respond \/ EndOfInput
Spec == Init /\ [][Next]_vars

Obs == [shown |-> st.shown, res |-> st.res, returned |-> st.done]
DesignOK == st.done => PromptVerdict(cfg, lines, Obs, st.i) = "ok"
NeverOutsideChoices == (st.done /\ cfg.haschoices /\ cfg.kind = "str" /\ st.res.t = "str") => InSeq(st.res.s, cfg.choices)
OneErrorPerRejection == CountOf(st.shown, "prompt") = st.i /\ CountOf(st.shown, "validate") + CountOf(st.shown, "choice") = st.i - (IF st.done THEN 1 ELSE 0)
RunAgrees == st = Run(cfg, lines, St0, st.i)              \* the recursive form used by the trace judge is the same machine
ResultTyped == st.done => st.res.t \in (CASE cfg.kind = "int" -> {"int", "default"} [] cfg.kind = "confirm" -> {"bool", "default"} [] OTHER -> {"str", "default"})
Emit == (st.done /\ Len(lines) <= GenDepth /\ GenDepth > 0) => PrintT(ToJson([beh |-> [cfg |-> cfg, lines |-> lines]]))
=============================================================================
