--------------------------- MODULE Trace_Segments ---------------------------
(* M3 judge for records produced by the real rich.segment.Segment line-shaping helpers.
   A segment arrives as {t: code points, st: style id (0 = None), c: is_control}.
   kinds: adjust    [line, n, ps, pad, err, r]        adjust_line_length
          splitcrop [segs, n, ps, pad, nl, err, rl]   split_and_crop_lines
          shape     [lines, n, h, ps, err, rl]        set_shape (h = -1: height None)
          split     [segs, err, rl]                   split_lines
          simplify  [segs, err, r]                    simplify
          measure   [lines, err, lens, w, h]          get_line_length of every line, get_shape
   Verdict: "ok", "<failing property clause>", or "drift ..." when only the transcription of
   segment.py disagrees.                                                                    *)
EXTENDS Segments, CellsData

VARIABLE tid
vars == <<tid>>

SegOf(j)   == Seg(Str(j.t), j.st, j.c)
LineOf(l)  == [i \in 1..Len(l) |-> SegOf(l[i])]
LinesOf(l) == [i \in 1..Len(l) |-> LineOf(l[i])]

PropWhy(r) ==
    CASE r.k = "adjust"    -> AdjustWhy(LineOf(r.line), r.n, r.ps, r.pad, LineOf(r.r))
      [] r.k = "splitcrop" -> SplitCropWhy(LineOf(r.segs), r.n, r.ps, r.pad, r.nl, LinesOf(r.rl))
      [] r.k = "shape"     -> SetShapeWhy(LinesOf(r.lines), r.n, r.h, r.ps, LinesOf(r.rl))
      [] r.k = "split"     -> SplitLinesWhy(LineOf(r.segs), LinesOf(r.rl))
      [] r.k = "simplify"  -> SimplifyWhy(LineOf(r.segs), LineOf(r.r))
      [] r.k = "measure"   -> MeasureWhy(LinesOf(r.lines), r.lens, r.w, r.h)
      [] OTHER -> "unknown-record-kind"

AgreesWithRef(r) ==
    CASE r.k = "adjust"    -> LineOf(r.r) = RefAdjust(LineOf(r.line), r.n, r.ps, r.pad)
      [] r.k = "splitcrop" -> LinesOf(r.rl) = RefSplitCrop(LineOf(r.segs), r.n, r.ps, r.pad, r.nl)
      [] r.k = "shape"     -> LinesOf(r.rl) = RefSetShape(LinesOf(r.lines), r.n, r.h, r.ps)
      [] r.k = "split"     -> LinesOf(r.rl) = RefSplitLines(LineOf(r.segs))
      [] r.k = "simplify"  -> LineOf(r.r) = RefSimplify(LineOf(r.segs))
      [] OTHER -> TRUE

Verdict(r) == IF r.err # "" THEN "raised"
              ELSE LET w == PropWhy(r) IN
                   IF w # "ok" THEN w
                   ELSE IF ~AgreesWithRef(r) THEN "drift " \o r.k \o ": differs-from-transcription"
                   ELSE "ok"

Init == tid \in 1..Len(Recs)
Next == UNCHANGED vars
Spec == Init /\ [][Next]_vars
Report == PrintT(<<"VERDICT", tid, Verdict(Recs[tid])>>)
=============================================================================
