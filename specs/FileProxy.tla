----------------------------- MODULE FileProxy -----------------------------
(* C19 (second half) - rich.file_proxy.FileProxy: stdout / stderr redirected through a console.

   The proxy's meaning is given by what a terminal would have shown had the program written to
   it directly: the written chunks, concatenated, are interpreted by Sgr.tla; every complete
   line must come out of the console exactly once, in order, complete, with the same pen per
   character; a flush emits the pending partial line.                                          *)
EXTENDS Sgr

\* state: dec (decoder over everything consumed so far: pen, pending line), out (emitted lines)
Init0 == [dec |-> DecInit, out |-> <<>>, raw |-> 0]

\* write(chunk): chunk is a sequence of events; raw counts pending events (the code's buffer is
\* non-empty iff something - even only an escape sequence - is pending)
RECURSIVE WriteEvs(_, _)
WriteEvs(s, es) ==
    IF es = <<>> THEN s
    ELSE LET e == Head(es)
             d == DecStep(s.dec, e)
         IN IF e[1] = "nl"
            THEN WriteEvs([dec |-> [d EXCEPT !.lines = <<>>], out |-> Append(s.out, s.dec.line), raw |-> 0], Tail(es))
            ELSE WriteEvs([s EXCEPT !.dec = d, !.raw = @ + 1], Tail(es))
Write(s, es) == WriteEvs(s, es)
Flush(s) == IF s.raw = 0 THEN s
            ELSE [dec |-> [s.dec EXCEPT !.line = <<>>], out |-> Append(s.out, s.dec.line), raw |-> 0]

\* property part: the lines the console shows (decoded from ITS output by the same automaton)
\* are the lines the model emitted - characters and pens
SameLines(shown, expected) ==
    /\ Len(shown) = Len(expected)
    /\ \A i \in DOMAIN shown : shown[i] = expected[i]
Chars(line) == [i \in DOMAIN line |-> line[i][1]]
SameChars(shown, expected) ==
    /\ Len(shown) = Len(expected)
    /\ \A i \in DOMAIN shown : Chars(shown[i]) = Chars(expected[i])
=============================================================================
