----------------------------- MODULE FileProxy -----------------------------
(* C19 (second half) - rich.file_proxy.FileProxy: stdout / stderr redirected through a console.

   The proxy's meaning is given by what a terminal would have shown had the program written to
   it directly: the written chunks, concatenated, are interpreted by Sgr.tla; every complete
   line must come out of the console exactly once, in order, complete, with the same pen per
   character; a flush emits the pending partial line.                                          *)
EXTENDS Sgr

\* state: px[p] = [dec (decoder over everything proxy p consumed so far: pen, pending line), raw (pending
\* events)] for each proxy (stdout = 1, stderr = 2: each has its own decoder and buffer), out (emitted lines)
Proxy0 == [dec |-> DecInit, raw |-> 0]
Init0 == [px |-> <<Proxy0, Proxy0>>, out |-> <<>>]

\* write(chunk) on proxy p: chunk is a sequence of events; raw counts pending events (the code's buffer
\* is non-empty iff something - even only an escape sequence - is pending)
RECURSIVE WriteEvs(_, _, _)
WriteEvs(s, p, es) ==
    IF es = <<>> THEN s
    ELSE LET e == Head(es)
             q == s.px[p]
             d == DecStep(q.dec, e)
         IN IF e[1] = "nl"
            THEN WriteEvs([px |-> [s.px EXCEPT ![p] = [dec |-> [d EXCEPT !.lines = <<>>], raw |-> 0]],
                           out |-> Append(s.out, q.dec.line)], p, Tail(es))
            ELSE WriteEvs([s EXCEPT !.px[p] = [dec |-> d, raw |-> q.raw + 1]], p, Tail(es))
Write(s, p, es) == WriteEvs(s, p, es)
Flush(s, p) == IF s.px[p].raw = 0 THEN s
               ELSE [px |-> [s.px EXCEPT ![p] = [dec |-> [s.px[p].dec EXCEPT !.line = <<>>], raw |-> 0]],
                     out |-> Append(s.out, s.px[p].dec.line)]

\* property part: the lines the console shows (decoded from ITS output by the same automaton)
\* are the lines the model emitted - characters and pens
SameLines(shown, expected) ==
    /\ Len(shown) = Len(expected)
    /\ \A i \in DOMAIN shown : shown[i] = expected[i]
Chars(line) == [i \in DOMAIN line |-> line[i][1]]
\* the cells of a list of lines that show something (not a blank), in order - what survives re-wrapping
RECURSIVE Cat(_)
Cat(ls) == IF ls = <<>> THEN <<>> ELSE Head(ls) \o Cat(Tail(ls))
NotBlank(cell) == cell[1] # 32
Ink(ls) == SelectSeq(Cat(ls), NotBlank)
SameChars(shown, expected) ==
    /\ Len(shown) = Len(expected)
    /\ \A i \in DOMAIN shown : Chars(shown[i]) = Chars(expected[i])
=============================================================================
