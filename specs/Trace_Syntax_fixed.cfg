\* the same judge; DRIFT comparison against the repaired pipeline design (stripnl=False, guarded
\* skip loop, remove_suffix only in the un-numbered path).  Selected with C17_TRACE_CFG.
CONSTANTS
  ImplStripNl = FALSE
  ImplGuardSkip = TRUE
  ImplSuffixFirst = FALSE
SPECIFICATION Spec
CONSTRAINT Report
CHECK_DEADLOCK FALSE
