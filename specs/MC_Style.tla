------------------------------ MODULE MC_Style ------------------------------
(* M1 for C06, two configurations of the same module:
   * MC_Style.cfg        (INIT LawInit / NEXT LawNext) - the algebra laws for ALL triples of the small
     domain: one state per pair (a, b), the invariants quantify over every c.
   * MC_Style_routes.cfg (SPECIFICATION RouteSpec) - the "construction routes" machine: every way of
     building up to GenDepth styles with the public constructors; invariants: the bit-mask design
     refines the abstract operators, string round trip, and (HashDesign = "derived") equal styles
     carry equal hash keys.  With HashDesign = "stored" (the 9.10.0 transcription) TLC refutes
     HashConsistent - that run is informational.
   M2: with CONSTRAINT Emit and no VIEW every route is printed as JSON for replay on the real code;
       RouteSpecAll with CONSTRAINT EmitFull under -simulate gives long routes over every public route kind. *)
EXTENDS Style, Json

CONSTANTS NCol,        \* how many of the colours below are in the domain (besides Unset)
          NLink,       \* links 1..NLink (besides NoLink)
          NSeed,       \* how many seed styles the leaf constructors may use
          GenDepth,    \* number of construction steps
          HashDesign   \* "stored" | "derived"

MCAttrSeq == <<"a1", "a2">>      \* AttrSeq <- MCAttrSeq in the configurations

CDefault == <<0, -1, -1, -1, -1, 0, 0>>       \* "default"
CRed     == <<1, 1, -1, -1, -1, 1, 1>>        \* "red"
CHex     == <<3, -1, 1, 2, 3, 3, 0>>          \* "#010203"
ColSeq   == <<CRed, CHex, CDefault>>
Colors   == {ColSeq[i] : i \in 1..NCol}
Links    == 1..NLink
Styles   == StyleSet(Colors, Links)

A1 == AttrSeq[1]
A2 == AttrSeq[2]
S(v1, v2, f, b, l) == [attrs |-> [x \in Attr |-> IF x = A1 THEN v1 ELSE IF x = A2 THEN v2 ELSE "U"],
                       fg |-> f, bg |-> b, link |-> l]
SeedSeq == << S("T", "U", Unset, Unset, NoLink),
              S("U", "T", Unset, Unset, NoLink),
              S("U", "U", CRed, Unset, NoLink),
              S("T", "U", CRed, Unset, NoLink),
              S("T", "U", Unset, Unset, 1),
              Null,
              S("T", "T", Unset, Unset, NoLink),
              S("F", "U", Unset, CHex, 2),
              S("U", "F", CHex, CRed, NoLink),
              S("U", "U", Unset, Unset, 2) >>
Seeds == {SeedSeq[i] : i \in 1..NSeed}

VARIABLES a, pool, hist, op
vars == <<a, pool, hist, op>>

\* ---- laws: exhaustive over all triples -----------------------------------------------------
(* One state per pair (a, b): the initial state picks nothing, PickA chooses a, PickB chooses b (kept in
   pool[1]); the invariants quantify over every c.  The successors of different states are computed
   by different TLC workers, which is what makes |Styles|^3 evaluations affordable.               *)
LawInit == a = Null /\ pool = <<>> /\ hist = <<>> /\ op = [k |-> "law0"]
PickA   == op.k = "law0" /\ a' \in Styles /\ op' = [k |-> "law1"] /\ UNCHANGED <<pool, hist>>
PickB   == op.k = "law1" /\ \E b \in Styles : pool' = <<b>> /\ op' = [k |-> "law2"] /\ UNCHANGED <<a, hist>>
LawNext == PickA \/ PickB
HasA == op.k = "law1"
HasB == op.k = "law2"

AssocAll     == HasB => LET b  == pool[1]
                            ab == Add(a, b)          \* hoisted: Assoc(a, b, c) for every c
                        IN \A c \in Styles : Add(ab, c) = Add(a, Add(b, c))
IdentityAll  == HasA => IdentityOf(a)
\* right bias stated per field, independently of Add's definition
RightBiasAll == HasB =>
                  LET b == pool[1]
                      r == Add(a, b) IN
                  /\ \A x \in Attr : /\ b.attrs[x] # "U" => r.attrs[x] = b.attrs[x]
                                     /\ b.attrs[x] = "U" => r.attrs[x] = a.attrs[x]
                  /\ (b.fg # Unset => r.fg = b.fg) /\ (b.fg = Unset => r.fg = a.fg)
                  /\ (b.bg # Unset => r.bg = b.bg) /\ (b.bg = Unset => r.bg = a.bg)
                  /\ (b.link # NoLink => r.link = b.link) /\ (b.link = NoLink => r.link = a.link)
                  /\ RightBiasOK(a, b, r)
                  /\ r \in Styles
CombineAll   == HasB => /\ \A c \in Seeds \cup {Null} : Combine(<<a, pool[1], c>>) = Add(Add(a, pool[1]), c)
                        /\ Combine(<<a, pool[1]>>) = Add(a, pool[1])
                        /\ Combine(<<a>>) = a
\* the bit-mask design of __add__ (with its null short cuts) is right-biased Add
DesignAddAll == HasB => /\ Abs(IAdd(HashDesign, IInit(a), IInit(pool[1]))) = Add(a, pool[1])
                        /\ Abs(IInit(a)) = a
RoundTripAll == HasA => /\ RoundTrips(a)
                        /\ Plain(Str(a))
                        /\ \A i \in 1..Len(Str(a)) : Str(a)[i].t = "color" => WordColor(Str(a)[i].c).ok
ColorsSpelled == \A c \in Colors : SpelledColor(c)
UnaryAll     == HasA => /\ WithoutColor(WithoutColor(a)) = WithoutColor(a)
                        /\ Add(WithoutColor(a), FromColor(a.fg, a.bg)) = a
                        /\ \A l \in Links \cup {NoLink} : /\ UpdateLink(a, l).link = l
                                                            /\ UpdateLink(UpdateLink(a, l), a.link) = a

\* ---- construction routes -------------------------------------------------------------------
Entry(impl, abs) == [impl |-> impl, abs |-> abs]
Room == Len(pool) < GenDepth
Push(e, o) == pool' = Append(pool, e) /\ op' = o /\ hist' = Append(hist, o) /\ UNCHANGED a
N == Len(pool)

RouteInit == a = Null /\ pool = <<>> /\ hist = <<>> /\ op = [k |-> "init"]

FromKwargs == \E s \in Seeds : Room /\ Push(Entry(IInit(s), s), [k |-> "kwargs", st |-> s])
\* Style.parse(definition of s): builds Style(**keywords); "none" gives the shared null style
ParseDef   == \E s \in Seeds : Room /\ Push(Entry(IInit(Parse(Str(s)).st), Parse(Str(s)).st), [k |-> "parse", st |-> s])
NormParse  == \E s \in Seeds : Room /\ Push(Entry(IInit(Parse(Str(Parse(Str(s)).st)).st), Parse(Str(Parse(Str(s)).st)).st),
                                    [k |-> "normparse", st |-> s])
FromColorOp == \E f \in {Unset, CRed}, b \in {Unset, CHex} :
                  Room /\ Push(Entry(IFromColor(HashDesign, f, b), FromColor(f, b)), [k |-> "fromcolor", fg |-> f, bg |-> b])
AddOp      == \E i, j \in 1..N :
                  Room /\ Push(Entry(IAdd(HashDesign, pool[i].impl, pool[j].impl), Add(pool[i].abs, pool[j].abs)),
                       [k |-> "add", i |-> i, j |-> j])
Impls(seq) == [i \in 1..Len(seq) |-> seq[i].impl]
Abss(seq)  == [i \in 1..Len(seq) |-> seq[i].abs]
Rev(seq)   == [i \in 1..Len(seq) |-> seq[Len(seq) + 1 - i]]
ChainOp    == /\ N >= 2 /\ Room
              /\ Push(Entry(ICombine(HashDesign, Impls(pool)), Combine(Abss(pool))), [k |-> "chain", ix |-> [i \in 1..N |-> i]])
CombineOp  == /\ N >= 2 /\ Room
              /\ Push(Entry(ICombine(HashDesign, Impls(Rev(pool))), Combine(Abss(Rev(pool)))),
                      [k |-> "combine", ix |-> [i \in 1..N |-> N + 1 - i]])
CopyOp     == \E i \in 1..N : Room /\ Push(Entry(ICopy(pool[i].impl), Copy(pool[i].abs)), [k |-> "copy", i |-> i])
UpdateLinkOp == \E i \in 1..N, l \in Links \cup {NoLink} :
                  Room /\ Push(Entry(IUpdateLink(HashDesign, pool[i].impl, l), UpdateLink(pool[i].abs, l)),
                       [k |-> "ulink", i |-> i, l |-> l])
WithoutColorOp == \E i \in 1..N :
                  Room /\ Push(Entry(IWithoutColor(HashDesign, pool[i].impl), WithoutColor(pool[i].abs)), [k |-> "wc", i |-> i])
\* str(pool[i]) caches the definition inside the object; the value is unchanged (the entry is aliased)
StrOp      == \E i \in 1..N : Room /\ Push(pool[i], [k |-> "str", i |-> i])

\* ---- further public routes (audit 2).  They are kept out of RouteNext so that the exhaustive M2 enumeration
\* stays the size it was; RouteNextAll (M1 design refinement, M2 -simulate of long routes) has them all.
\* Style.null(): the shared null style
NullOp     == Room /\ Push(Entry(INull, Null), [k |-> "null"])
\* hash(pool[i]) caches the hash inside the object BEFORE later derivations; the value is unchanged (aliased)
HashOp     == \E i \in 1..N : Room /\ Push(pool[i], [k |-> "hash", i |-> i])
\* pool[i] + None  and  Style.pick_first(None, pool[i], pool[j])  return the operand itself
AddNoneOp  == \E i \in 1..N : Room /\ Push(pool[i], [k |-> "addnone", i |-> i])
PickFirstOp == \E i, j \in 1..N : Room /\ Push(pool[i], [k |-> "pick", i |-> i, j |-> j])
BgStyleOp  == \E i \in 1..N : Room /\ Push(Entry(IBackgroundStyle(pool[i].impl), BackgroundStyle(pool[i].abs)), [k |-> "bgstyle", i |-> i])
\* combine / chain of a single style, and of many (the whole pool twice over)
Twice      == [i \in 1..(2 * N) |-> ((i - 1) % N) + 1]
IxShapes   == {<<i>> : i \in 1..N} \cup (IF N >= 1 THEN {Twice} ELSE {})
PoolAt(ix) == [n \in 1..Len(ix) |-> pool[ix[n]]]
ChainIxOp  == \E ix \in IxShapes : Room /\ Push(Entry(ICombine(HashDesign, Impls(PoolAt(ix))), Combine(Abss(PoolAt(ix)))),
                                                 [k |-> "chain", ix |-> ix])
CombineIxOp == \E ix \in IxShapes : Room /\ Push(Entry(ICombine(HashDesign, Impls(PoolAt(ix))), Combine(Abss(PoolAt(ix)))),
                                                  [k |-> "combine", ix |-> ix])

RouteNext == FromKwargs \/ ParseDef \/ NormParse \/ FromColorOp \/ AddOp \/ ChainOp \/ CombineOp
             \/ CopyOp \/ UpdateLinkOp \/ WithoutColorOp \/ StrOp
RouteSpec == RouteInit /\ [][RouteNext]_vars
RouteNextAll == RouteNext \/ NullOp \/ HashOp \/ AddNoneOp \/ PickFirstOp \/ BgStyleOp \/ ChainIxOp \/ CombineIxOp
RouteSpecAll == RouteInit /\ [][RouteNextAll]_vars

TypeOK         == \A i \in 1..N : pool[i].abs \in Styles
Refines        == \A i \in 1..N : Abs(pool[i].impl) = pool[i].abs
NullFlagSound  == \A i \in 1..N : pool[i].impl.null => pool[i].abs = Null
MasksSound     == \A i \in 1..N : pool[i].impl.val \subseteq pool[i].impl.set
RouteRoundTrip == \A i \in 1..N : RoundTrips(pool[i].abs)
HashConsistent == \A i, j \in 1..N : pool[i].abs = pool[j].abs => pool[i].impl.hk = pool[j].impl.hk
\* with the key derived from the fields the converse holds too (the key determines the style)
HashExact      == HashDesign = "derived" =>
                    \A i, j \in 1..N : pool[i].impl.hk = pool[j].impl.hk => pool[i].abs = pool[j].abs

View == pool
Emit == Len(hist) >= 1 => PrintT(ToJson([beh |-> hist, val |-> pool[N].abs]))
EmitFull == Len(hist) = GenDepth => PrintT(ToJson([beh |-> hist, val |-> pool[N].abs]))      \* -simulate: whole routes only
=============================================================================
