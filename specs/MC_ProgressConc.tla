-------------------------- MODULE MC_ProgressConc --------------------------
(* M1, fine grain: two or three threads call advance() on one task.  advance() is split at
   the points where the code can be pre-empted: the clock read, the lock acquisition, the
   read-modify-write with the sample append, the release.  ClockInsideLock = TRUE is the code
   as it is now (clock read under the lock); FALSE is the pinned 9.10.0 order (progress.py:879
   read the clock before taking the lock), kept as a check that TLC does find the race.      *)
EXTENDS Progress

CONSTANTS Threads, ClockInsideLock, OpsPerThread, MaxNow
VARIABLES task, now, lock, pc, loc, left
vars == <<task, now, lock, pc, loc, left>>

Init == /\ task = NewTask(100, 0, TRUE, 0) /\ now = 0 /\ lock = 0
        /\ pc = [t \in Threads |-> "idle"] /\ loc = [t \in Threads |-> 0]
        /\ left = [t \in Threads |-> OpsPerThread]

Call(t) == /\ pc[t] = "idle" /\ left[t] > 0
           /\ pc' = [pc EXCEPT ![t] = IF ClockInsideLock THEN "wantLock" ELSE "readClock"]
           /\ left' = [left EXCEPT ![t] = @ - 1] /\ UNCHANGED <<task, now, lock, loc>>
ReadClock(t) == /\ pc[t] = "readClock"
                /\ loc' = [loc EXCEPT ![t] = now]
                /\ pc' = [pc EXCEPT ![t] = IF ClockInsideLock THEN "body" ELSE "wantLock"]
                /\ UNCHANGED <<task, now, lock, left>>
Acquire(t) == /\ pc[t] = "wantLock" /\ lock = 0 /\ lock' = t
              /\ pc' = [pc EXCEPT ![t] = IF ClockInsideLock THEN "readClock" ELSE "body"]
              /\ UNCHANGED <<task, now, loc, left>>
Body(t) == /\ pc[t] = "body" /\ lock = t
           /\ task' = Advance(task, 2, loc[t])
           /\ pc' = [pc EXCEPT ![t] = "release"] /\ UNCHANGED <<now, lock, loc, left>>
Release(t) == /\ pc[t] = "release" /\ lock' = 0 /\ pc' = [pc EXCEPT ![t] = "idle"]
              /\ UNCHANGED <<task, now, loc, left>>
Tick == /\ now < MaxNow /\ now' = now + 1 /\ UNCHANGED <<task, lock, pc, loc, left>>

Next == Tick \/ \E t \in Threads : Call(t) \/ ReadClock(t) \/ Acquire(t) \/ Body(t) \/ Release(t)
Spec == Init /\ [][Next]_vars

SpeedNonNeg == SamplesSorted(task) /\ (HasSpeed(task) => SpeedNum(task) >= 0 /\ SpeedDen(task) > 0)
Accounting == task.c = task.lastSet + task.sumAdv
NoLostUpdate == (\A t \in Threads : pc[t] = "idle" /\ left[t] = 0) => task.c = 2 * OpsPerThread * Cardinality(Threads)
MutualExclusion == Cardinality({t \in Threads : pc[t] \in {"body", "release"}}) <= 1
=============================================================================
