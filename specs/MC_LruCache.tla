---------------------------- MODULE MC_LruCache ----------------------------
(* M1: every cache state reachable by Measure calls over all strings of <= MaxStr characters
   over one character per width class; M2 (MC_LruCache_gen cfg_text from the driver): every
   history of GenDepth calls over GenStrings, replayed on a real LRUCache by drivers/c13.py.  *)
EXTENDS LruCache, Json, TLC

CONSTANTS Capacity, Threshold, MaxStr, GenDepth
VARIABLES c, hist
vars == <<c, hist>>

Alphabet == {Char(0, 768), Char(1, 97), Char(2, 19968)}
RECURSIVE StringsOfLen(_)
StringsOfLen(n) == IF n = 0 THEN {<<>>}
                   ELSE {Append(t, ch) : t \in StringsOfLen(n - 1), ch \in Alphabet}
Strings == UNION {StringsOfLen(n) : n \in 0..MaxStr}
\* M2 universe: same length/different width, same width/different length, width 0 (a stored 0
\* must still count as a hit), the empty string
GenStrings == {<<>>, <<Char(0, 768)>>, <<Char(1, 97)>>, <<Char(2, 19968)>>, <<Char(1, 97), Char(1, 97)>>,
               <<Char(0, 768), Char(2, 19968)>>}
Universe == IF GenDepth > 0 THEN GenStrings ELSE Strings
Ids(s) == [i \in 1..Len(s) |-> s[i].id]

Init == c = EmptyCache(Capacity, Threshold) /\ hist = <<>>
Step(s) == c' = DoMeasure(c, s) /\ hist' = IF GenDepth > 0 THEN Append(hist, Ids(s)) ELSE hist
Hit          == \E s \in Universe : IsHit(c, s) /\ Step(s)
MissInsert   == \E s \in Universe : IsInsert(c, s) /\ Step(s)
MissEvict    == \E s \in Universe : IsEvict(c, s) /\ Step(s)
MissUncached == \E s \in Universe : IsUncached(c, s) /\ Step(s)
Next == Hit \/ MissInsert \/ MissEvict \/ MissUncached
Spec == Init /\ [][Next]_vars

Sound      == CacheSound(c)
Exact      == ResultExact(c)
IsBounded  == Bounded(c)
\* history independence stated directly: in every reachable cache state every string measures
\* to the same (history-free) value
AnyMeasureExact == \A s \in Universe : DoMeasure(c, s).ret = CellLen(s)
\* a hit does not change the stored map
HitKeepsMap == [][c'.how = "hit" => (c'.val = c.val /\ c'.order = c.order)]_vars

Emit == /\ Len(hist) <= GenDepth
        /\ (Len(hist) = GenDepth => PrintT(ToJson([beh |-> hist])))
=============================================================================
