---------------------------- MODULE MC_Segments ----------------------------
(* M1 for Segments.tla: every list of <= MaxSegs segments (cells of <= MaxCells characters over
   {width 0, 1, 2, space, newline}, style 1 or None, control or not, at most MaxChars
   characters in total) is built segment by segment; in every state the transcribed design must
   satisfy every relation for all lengths 0..MaxN x pad x requested style x newline option -
   non-vacuity of the relations and a check of the design.                                   *)
EXTENDS Segments, TLC

CONSTANTS MaxSegs, MaxCells, MaxChars, MaxN
VARIABLE segs
vars == <<segs>>

Styles == 0..1
PadStyles == {0, 1}
RECURSIVE Total(_)
Total(gs) == IF gs = <<>> THEN 0 ELSE Len(Head(gs).cells) + Total(Tail(gs))

\* character choices: k = 0..2 a fresh character of that width, 3 the space, 4 the newline
Mk(k, id) == IF k = 3 THEN Space ELSE IF k = 4 THEN Char(0, 10) ELSE Char(k, id)
CellChoices(base) ==
    UNION {{[i \in 1..n |-> Mk(f[i], base + i)] : f \in [1..n -> 0..4]} : n \in 0..MaxCells}

Init == segs = <<>>
AddSegment == \E cells \in CellChoices(100 + Total(segs)), st \in Styles, ctl \in BOOLEAN :
    /\ Len(segs) < MaxSegs
    /\ Total(segs) + Len(cells) <= MaxChars
    /\ segs' = Append(segs, Seg(cells, st, ctl))
Next == AddSegment
Spec == Init /\ [][Next]_vars

Lines == RefSplitLines(segs)

SplitLinesHolds == SplitLinesOK(segs, Lines)
AdjustHolds == \A j \in 1..Len(Lines), n \in 0..MaxN, ps \in PadStyles, pad \in BOOLEAN :
    AdjustOK(Lines[j], n, ps, pad, RefAdjust(Lines[j], n, ps, pad))
SplitCropHolds == \A n \in 0..MaxN, ps \in PadStyles, pad \in BOOLEAN, nl \in BOOLEAN :
    SplitCropOK(segs, n, ps, pad, nl, RefSplitCrop(segs, n, ps, pad, nl))
SetShapeHolds == \A w \in 0..MaxN, h \in -1..3, ps \in PadStyles :
    SetShapeOK(Lines, w, h, ps, RefSetShape(Lines, w, h, ps))
SimplifyHolds == SimplifyOK(segs, RefSimplify(segs))

\* wrong designs must be rejected -------------------------------------------------------------
\* the padding takes the style of the last segment instead of the requested one
RejectsWrongPadStyle == \A j \in 1..Len(Lines), ps \in PadStyles :
    LET line == Lines[j]
        n == LineLen(line) + 1
        wrong == IF line = <<>> THEN 2 ELSE line[Len(line)].style
    IN wrong # ps => ~AdjustOK(line, n, ps, TRUE, Append(line, Seg(Spaces(1), wrong, FALSE)))
\* cropping with <= instead of < drops the segment that ends exactly... / one cell short or long
RejectsOffByOne == \A j \in 1..Len(Lines), n \in 0..MaxN, ps \in PadStyles :
    /\ ~AdjustOK(Lines[j], n + 1, ps, TRUE, RefAdjust(Lines[j], n, ps, TRUE))
    /\ ~AdjustOK(Lines[j], n, ps, TRUE, RefAdjust(Lines[j], n + 1, ps, TRUE))
\* dropping a character while padding
RejectsLostChar == \A j \in 1..Len(Lines), ps \in PadStyles :
    LET line == Lines[j]  fl == Flat(Lines[j]) IN
    (Len(line) = 1 /\ ~line[1].control /\ Len(fl) >= 1 /\ fl[1].c # Space) =>
        ~AdjustOK(line, LineLen(line) + 2, ps, TRUE,
                  <<Seg(Tail(line[1].cells), line[1].style, FALSE), Seg(Spaces(2 + fl[1].c.w), ps, FALSE)>>)
=============================================================================
