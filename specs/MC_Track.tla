------------------------------ MODULE MC_Track ------------------------------
(* C12, last clause - Progress.track() with auto refresh: the consumer loop and the _TrackThread
   (progress.py:52-84, 702-715) at the grain of their shared-variable accesses.

     main:    for each element: Yield; Inc (track_thread.completed += 1);  then done.set(); join
     thread:  while not done.wait(period): c = completed; if c # last: advance(c - last); last = c
              finally update(completed = self.completed)

   Invariant: when both have finished, every element was yielded exactly once, in order, and the
   task's completed count equals the number of elements - under every interleaving, wherever the
   period timer fires.  FinalUpdate = FALSE (the last update dropped) must be refuted.          *)
EXTENDS Naturals, Sequences, TLC
CONSTANTS N, FinalUpdate, MaxTicks
VARIABLES pcM, pcT, i, yielded, comp, last, c, task, done, ticks
vars == <<pcM, pcT, i, yielded, comp, last, c, task, done, ticks>>

Init == /\ pcM = "loop" /\ pcT = "wait" /\ i = 0 /\ yielded = <<>> /\ comp = 0 /\ last = 0 /\ c = 0
        /\ task = 0 /\ done = FALSE /\ ticks = 0

Yield == /\ pcM = "loop" /\ i < N /\ yielded' = Append(yielded, i + 1) /\ pcM' = "inc"
         /\ UNCHANGED <<pcT, i, comp, last, c, task, done, ticks>>
Inc == /\ pcM = "inc" /\ comp' = comp + 1 /\ i' = i + 1 /\ pcM' = "loop"
       /\ UNCHANGED <<pcT, yielded, last, c, task, done, ticks>>
SetDone == /\ pcM = "loop" /\ i = N /\ done' = TRUE /\ pcM' = "join"
           /\ UNCHANGED <<pcT, i, yielded, comp, last, c, task, ticks>>
Join == /\ pcM = "join" /\ pcT = "finished" /\ pcM' = "finished"
        /\ UNCHANGED <<pcT, i, yielded, comp, last, c, task, done, ticks>>

\* the timed wait: returns True once done is set, otherwise the period may elapse
WaitDone == /\ pcT = "wait" /\ done /\ pcT' = "final"
            /\ UNCHANGED <<pcM, i, yielded, comp, last, c, task, done, ticks>>
WaitTimeout == /\ pcT = "wait" /\ ~done /\ ticks < MaxTicks /\ ticks' = ticks + 1 /\ pcT' = "read"
               /\ UNCHANGED <<pcM, i, yielded, comp, last, c, task, done>>
Read == /\ pcT = "read" /\ c' = comp /\ pcT' = IF comp # last THEN "advance" ELSE "wait"
        /\ UNCHANGED <<pcM, i, yielded, comp, last, task, done, ticks>>
Advance == /\ pcT = "advance" /\ task' = task + (c - last) /\ last' = c /\ pcT' = "wait"
           /\ UNCHANGED <<pcM, i, yielded, comp, c, done, ticks>>
Final == /\ pcT = "final" /\ task' = (IF FinalUpdate THEN comp ELSE task) /\ pcT' = "finished"
         /\ UNCHANGED <<pcM, i, yielded, comp, last, c, done, ticks>>

Next == Yield \/ Inc \/ SetDone \/ Join \/ WaitDone \/ WaitTimeout \/ Read \/ Advance \/ Final
Spec == Init /\ [][Next]_vars

Finished == pcM = "finished"
EachOnceInOrder == Finished => yielded = [k \in 1..N |-> k]
CompletedIsCount == Finished => task = N
NeverAhead == task <= comp /\ comp <= N
NoStuck == Finished \/ ENABLED Next
=============================================================================
