CONSTANTS
  ColorNames <- MCColorNames
  ThemeNames <- MCThemeNames
  LColor = 3
  LStyle = 3
  LGet = 2
  LGetd = 2
  LMarkup = 3
  LPrintm = 3
  LDecode = 3
  LText = 1
  LPrint = 1
  CtxCut = 0
  EmitOn = FALSE
SPECIFICATION Spec
INVARIANT TypeOK
INVARIANT PredictedAllowed
INVARIANT Layering
INVARIANT NoBracketNoError
CONSTRAINT Emit
CHECK_DEADLOCK FALSE
