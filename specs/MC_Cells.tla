------------------------------ MODULE MC_Cells ------------------------------
(* M1 for Cells.tla: every string over {width 0, width 1, width 2, the space} up to MaxLen is
   built character by character; in every state the design (RefSetCellSize / RefChop) must
   satisfy the relations for all n in 0..MaxN and all chop widths 2..MaxW x start columns -
   non-vacuity of the relations and a check of the design.  The Rejects... invariants show that
   the relations do reject the classic wrong designs (so they are not trivially true).        *)
EXTENDS Cells, TLC

CONSTANTS MaxLen, MaxN, MaxW
VARIABLE s
vars == <<s>>

Init == s = <<>>
\* ids are position-derived, so a character is only ever equal to itself (strict prefix test)
AppendChar  == \E w \in Widths : Len(s) < MaxLen /\ s' = Append(s, Char(w, 100 + Len(s)))
AppendSpace == Len(s) < MaxLen /\ s' = Append(s, Space)
Next == AppendChar \/ AppendSpace
Spec == Init /\ [][Next]_vars

SetCellSizeHolds == \A n \in 0..MaxN : SetCellSizeOK(s, n, RefSetCellSize(s, n))
ChopHolds == \A w \in 2..MaxW : \A pos \in 0..w : ChopOK(s, w, pos, RefChop(s, w, pos))
WhyAgrees == /\ \A n \in 0..MaxN : SetCellSizeWhy(s, n, RefSetCellSize(s, n)) = "ok"
             /\ \A w \in 2..MaxW : \A pos \in 0..w : ChopWhy(s, w, pos, RefChop(s, w, pos)) = "ok"

\* wrong designs must be rejected -------------------------------------------------------------
\* (a) forgetting the space when a double-width character is cut in half
NoSpaceSetCellSize(t, n) ==
    LET cl == CellLen(t) IN
    IF cl <= n THEN RefSetCellSize(t, n) ELSE SubSeq(t, 1, PopLoop(t, Len(t), cl - n).k)
RejectsLostSpace == \A n \in 0..MaxN :
    NoSpaceSetCellSize(s, n) # RefSetCellSize(s, n) => ~SetCellSizeOK(s, n, NoSpaceSetCellSize(s, n))
\* (b) one cell too many / result not a prefix
RejectsTooLong == \A n \in 0..MaxN : ~SetCellSizeOK(s, n, RefSetCellSize(s, n) \o <<Space>>)
RejectsNotPrefix == \A n \in 1..MaxN :
    (Len(s) >= 1 /\ s[1] # Space /\ s[1].w = 1) => ~SetCellSizeOK(s, n, <<Char(1, 99)>> \o Spaces(n - 1))
\* (c) chop: merging the first two pieces overflows the first line; dropping a piece loses text
RejectsMergedPieces == \A w \in 2..MaxW : \A pos \in 0..w :
    LET p == RefChop(s, w, pos) IN
    Len(p) >= 2 => /\ ~ChopOK(s, w, pos, <<p[1] \o p[2]>> \o SubSeq(p, 3, Len(p)))
                   /\ (p[2] # <<>> => ~ChopOK(s, w, pos, <<p[1]>> \o SubSeq(p, 3, Len(p))))
=============================================================================
