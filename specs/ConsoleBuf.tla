----------------------------- MODULE ConsoleBuf -----------------------------
(* C11, first half - the print / capture / record path of rich.console.Console under
   concurrency, at the grain of its critical sections (console.py):

     Enter      _enter_buffer: the thread's buffer_index += 1                       (567-569)
     Render     the call's segments are appended to the thread's buffer            (1213-1238)
     Exit       _exit_buffer: buffer_index -= 1, then _check_buffer                 (571-574)
     Acquire    _check_buffer takes the console lock when buffer_index = 0          (1357-1359)
     Record     _render_buffer extends the record (under the record lock)           (1387-1390)
     Write      the rendered text reaches the file in one write                    (1366-1377)
     Release    the console lock is released
     BeginCap   begin_capture: Enter, remember the buffer position
     EndCap     end_capture: render (and record) the captured part, cut it off, Exit

   A chunk is <<thread, call>>; a print call produces two chunks so that contiguity means
   something.  Design switches re-create classic mistakes, each of which TLC must refute:
     SharedBuffer        one buffer for all threads instead of thread-local storage
     RecordOutsideLock   the record is extended before the console lock is taken              *)
EXTENDS Naturals, Sequences, FiniteSets, TLC

CONSTANTS Threads, Program, SharedBuffer, RecordOutsideLock
\* Program[t]: sequence of [k |-> "print" | "capture", id]

VARIABLES pc, ip, buf, depth, mark, lock, rec, file, cap, pending
vars == <<pc, ip, buf, depth, mark, lock, rec, file, cap, pending>>

Op(t) == Program[t][ip[t]]
HasOp(t) == ip[t] <= Len(Program[t])
B(t) == IF SharedBuffer THEN 0 ELSE t          \* which buffer a thread uses
Chunks(t, id) == << <<t, id, 1>>, <<t, id, 2>> >>

Init == /\ pc = [t \in Threads |-> "idle"] /\ ip = [t \in Threads |-> 1]
        /\ buf = [b \in Threads \cup {0} |-> <<>>] /\ depth = [t \in Threads |-> 0]
        /\ mark = [t \in Threads |-> 0] /\ lock = 0 /\ rec = <<>> /\ file = <<>>
        /\ cap = [t \in Threads |-> <<>>] /\ pending = [t \in Threads |-> <<>>]

Begin(t) == /\ pc[t] = "idle" /\ HasOp(t)
            /\ IF Op(t).k = "capture"
               THEN /\ depth' = [depth EXCEPT ![t] = @ + 1] /\ mark' = [mark EXCEPT ![t] = Len(buf[B(t)])]
                    /\ pc' = [pc EXCEPT ![t] = "enter"]
               ELSE /\ pc' = [pc EXCEPT ![t] = "enter"] /\ UNCHANGED <<depth, mark>>
            /\ UNCHANGED <<ip, buf, lock, rec, file, cap, pending>>
Enter(t) == /\ pc[t] = "enter" /\ depth' = [depth EXCEPT ![t] = @ + 1]
            /\ pc' = [pc EXCEPT ![t] = "render"] /\ UNCHANGED <<ip, buf, mark, lock, rec, file, cap, pending>>
Render(t) == /\ pc[t] = "render" /\ buf' = [buf EXCEPT ![B(t)] = @ \o Chunks(t, Op(t).id)]
             /\ pc' = [pc EXCEPT ![t] = "exit"] /\ UNCHANGED <<ip, depth, mark, lock, rec, file, cap, pending>>
\* leaving the print: at depth 0 the buffer goes to the file, inside a capture it stays
Exit(t) == /\ pc[t] = "exit" /\ depth' = [depth EXCEPT ![t] = @ - 1]
           /\ pc' = [pc EXCEPT ![t] = IF depth[t] - 1 = 0 THEN (IF RecordOutsideLock THEN "record" ELSE "acquire")
                                      ELSE IF Op(t).k = "capture" THEN "endcap" ELSE "done"]
           /\ UNCHANGED <<ip, buf, mark, lock, rec, file, cap, pending>>
Acquire(t) == /\ pc[t] = "acquire" /\ lock = 0 /\ lock' = t
              /\ pc' = [pc EXCEPT ![t] = IF RecordOutsideLock THEN "write" ELSE "record"]
              /\ UNCHANGED <<ip, buf, depth, mark, rec, file, cap, pending>>
\* _render_buffer(self._buffer[:]) ; del self._buffer[:]
Record(t) == /\ pc[t] = "record" /\ (RecordOutsideLock \/ lock = t)
             /\ rec' = rec \o buf[B(t)] /\ pending' = [pending EXCEPT ![t] = buf[B(t)]]
             /\ buf' = [buf EXCEPT ![B(t)] = <<>>]
             /\ pc' = [pc EXCEPT ![t] = IF RecordOutsideLock THEN "acquire" ELSE "write"]
             /\ UNCHANGED <<ip, depth, mark, lock, file, cap>>
Write(t) == /\ pc[t] = "write" /\ lock = t
            /\ file' = IF pending[t] = <<>> THEN file ELSE Append(file, pending[t])
            /\ pending' = [pending EXCEPT ![t] = <<>>] /\ lock' = 0
            /\ pc' = [pc EXCEPT ![t] = "done"] /\ UNCHANGED <<ip, buf, depth, mark, rec, cap>>
\* end_capture: the part of the buffer after the mark is rendered (recorded) and cut off, then _exit_buffer
EndCap(t) == /\ pc[t] = "endcap"
             /\ LET b == buf[B(t)]
                    m == IF mark[t] <= Len(b) THEN mark[t] ELSE Len(b)
                    part == SubSeq(b, m + 1, Len(b))
                IN /\ cap' = [cap EXCEPT ![t] = part] /\ rec' = rec \o part
                   /\ buf' = [buf EXCEPT ![B(t)] = SubSeq(b, 1, m)]
             /\ depth' = [depth EXCEPT ![t] = @ - 1]
             /\ pc' = [pc EXCEPT ![t] = IF RecordOutsideLock THEN "record" ELSE "acquire"]
             /\ UNCHANGED <<ip, mark, lock, file, pending>>
End(t) == /\ pc[t] = "done" /\ pc' = [pc EXCEPT ![t] = "idle"] /\ ip' = [ip EXCEPT ![t] = @ + 1]
          /\ UNCHANGED <<buf, depth, mark, lock, rec, file, cap, pending>>

Next == \E t \in Threads : Begin(t) \/ Enter(t) \/ Render(t) \/ Exit(t) \/ Acquire(t) \/ Record(t) \/ Write(t) \/ EndCap(t) \/ End(t)
Spec == Init /\ [][Next]_vars

\* ---- the clauses of C11 ---------------------------------------------------------------------
Done == \A t \in Threads : ~HasOp(t) /\ pc[t] = "idle"
RECURSIVE Cat(_)
Cat(ss) == IF ss = <<>> THEN <<>> ELSE Head(ss) \o Cat(Tail(ss))
FileChunks == Cat(file)
Count(seq, x) == Cardinality({i \in DOMAIN seq : seq[i] = x})
\* every print reaches the file exactly once, its two chunks adjacent in one write
ExactlyOnceContiguous == Done => \A t \in Threads : \A j \in DOMAIN Program[t] :
    Program[t][j].k = "print" =>
        \E w \in DOMAIN file : \E k \in 1..(Len(file[w]) - 1) :
            /\ file[w][k] = <<t, Program[t][j].id, 1>> /\ file[w][k + 1] = <<t, Program[t][j].id, 2>>
            /\ Count(FileChunks, <<t, Program[t][j].id, 1>>) = 1 /\ Count(FileChunks, <<t, Program[t][j].id, 2>>) = 1
\* a capture returns exactly its own output and none of it reaches the file
CaptureIsolated == Done => \A t \in Threads : \A j \in DOMAIN Program[t] :
    Program[t][j].k = "capture" =>
        /\ Count(FileChunks, <<t, Program[t][j].id, 1>>) = 0 /\ Count(FileChunks, <<t, Program[t][j].id, 2>>) = 0
CaptureOwn == \A t \in Threads : \A i \in DOMAIN cap[t] : cap[t][i][1] = t
\* right after end_capture the capture holds exactly what the block printed
CaptureExact == \A t \in Threads : (HasOp(t) /\ Op(t).k = "capture" /\ pc[t] \in {"acquire", "record", "write", "done"})
                    => cap[t] = Chunks(t, Op(t).id)
\* the record, restricted to what reached the file, has the file's order
RecordOrder == Done => SelectSeq(rec, LAMBDA x : Count(FileChunks, x) > 0) = FileChunks
NoStuck == Done \/ ENABLED Next
=============================================================================
