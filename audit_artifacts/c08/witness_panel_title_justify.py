# Panel whose title is a Text with its own `justify`: the top border is wider than the panel (not a rectangle).
# run: PYTHONPATH=/repo /venv/bin/python witness_panel_title_justify.py
from rich.console import Console
from rich.panel import Panel
from rich.text import Text
console = Console(width=30, color_system=None)
with console.capture() as cap:
    console.print(Panel("x", title=Text("t", justify="left"), expand=False))
lines = cap.get().splitlines()
print("\n".join(repr(l) for l in lines))
print([len(l) for l in lines])          # 9.10.0: [30, 7, 7] - the title row (console.width + 4 cells, cut by print to 30) is wider than the 7-cell panel
assert len({len(l) for l in lines}) == 1, "Panel is not a rectangle"
