# Rule whose title is a Text: rendering it once at a narrow width truncates the caller's Text for good.
# run: PYTHONPATH=/repo /venv/bin/python witness_rule_text_title_mutated.py
from rich.console import Console
from rich.rule import Rule
from rich.text import Text
title = Text("a long title indeed")
rule = Rule(title)
narrow, wide = Console(width=12, color_system=None), Console(width=40, color_system=None)
with narrow.capture() as cap:
    narrow.print(rule)
print(repr(cap.get()))
with wide.capture() as cap:
    wide.print(rule)
print(repr(cap.get()))                   # 9.10.0: '─────────────── a long … ────────────────' although 40 cells are available
print(repr(title.plain))                 # 9.10.0: 'a long …'
assert title.plain == "a long title indeed", "Rule modified the Text it was given"
