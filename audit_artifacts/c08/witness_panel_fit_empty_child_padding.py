# A non-expanding Panel around an empty renderable loses its vertical padding when it has no horizontal padding.
# run: PYTHONPATH=/repo /venv/bin/python witness_panel_fit_empty_child_padding.py
from rich.console import Console
from rich.panel import Panel
console = Console(width=20, color_system=None)
def lines(p):
    with console.capture() as cap:
        console.print(p)
    return cap.get().splitlines()
a = lines(Panel.fit("", padding=(1, 1)))      # 4 rows: border, 2 blank padding rows (+ the empty child line), border
b = lines(Panel.fit("", padding=(1, 0)))      # 9.10.0: only the 2 border rows - the 2 padding rows are gone
print(a, b, sep="\n")
assert len(b) >= 4, "the requested top/bottom padding rows are missing"
