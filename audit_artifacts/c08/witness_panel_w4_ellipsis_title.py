# A 4-cell-wide Panel has no room for a title; a title Text with overflow="ellipsis" still gets 1 cell: the top row is 5 wide.
# run: PYTHONPATH=/repo /venv/bin/python witness_panel_w4_ellipsis_title.py
from rich.console import Console
from rich.panel import Panel
from rich.text import Text
t = Text("Title"); t.truncate(0, overflow="ellipsis"); print(repr(t.plain))      # 9.10.0: '…' (1 cell for max_width 0)
console = Console(width=4, color_system=None)
segs = list(console.render(Panel("aaa", title=Text("Title", overflow="ellipsis"), padding=0)))
rows = "".join(s.text for s in segs).splitlines()
print(rows, [len(r) for r in rows])          # 9.10.0: ['╭─…─╮', '│aa│', '│a │', '╰──╯'] [5, 4, 4, 4]
assert len({len(r) for r in rows}) == 1, "Panel is not a rectangle"
