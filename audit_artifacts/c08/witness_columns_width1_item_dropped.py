# Columns with a `width` option: the column count is computed as max_width // (width + max(left, right) padding), but the grid
# table also pads the first column on the left, so the columns do not fit, the table collapses some of them to 0 cells and
# the items in those columns are not shown at all.
# run: PYTHONPATH=/repo /venv/bin/python witness_columns_width1_item_dropped.py
from rich.console import Console
from rich.columns import Columns
console = Console(width=120, color_system=None)
items = [chr(0x41 + i) for i in range(40)]           # 40 one-letter items: 'A', 'B', ...
with console.capture() as cap:
    console.print(Columns(items, padding=(0, 2), width=1))
out = cap.get()
print(repr(out))
missing = [x for x in items if x not in out]
print("missing:", missing)          # 9.10.0: two of the forty items
assert not missing
