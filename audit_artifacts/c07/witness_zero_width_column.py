# PYTHONPATH=/repo /venv/bin/python /tmp/audit-1/c07/witness_zero_width_column.py
# A column whose only cell is a lone combining character (zero cells wide, but not whitespace) measures as 0 + padding,
# gets no content cell however wide the console is, and the character is dropped from the output (overflow="fold").
import io
from rich.console import Console
from rich.table import Table

table = Table(show_header=False)
table.add_column(overflow="fold")
table.add_column(overflow="fold")
table.add_row("ab", "̇")
console = Console(width=40, file=io.StringIO(), color_system=None, legacy_windows=False)
out = "".join(seg.text for seg in console.render(table))
print(out)
assert "̇" in out, "the combining character of cell 2 was not printed"
