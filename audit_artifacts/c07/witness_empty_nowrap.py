# PYTHONPATH=/repo /venv/bin/python /tmp/audit-1/c07/witness_empty_nowrap.py
# An expanding table that shows no row at all (no rows, header hidden) and has a no_wrap column renders one cell wider
# than the console: a column without cells measures as (1, max_width), the no_wrap column may not shrink, the other
# column is collapsed to 0 and the re-measure turns that 0 into 1 (`_range.maximum or 1`).
# 9 = 3 borders + 2 x (2 padding + 1) is enough room for this table.
import io
from rich.console import Console
from rich.table import Table

table = Table(expand=True, show_header=False)
table.add_column()
table.add_column(no_wrap=True)
console = Console(width=9, file=io.StringIO(), color_system=None, legacy_windows=False)
lines = "".join(seg.text for seg in console.render(table)).splitlines()     # (console.print would crop the overhang away)
print("\n".join(lines))
print("console width 9, line widths:", sorted({len(l) for l in lines}))
assert all(len(l) == 9 for l in lines), "table is wider than the console"
