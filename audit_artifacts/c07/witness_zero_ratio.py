# PYTHONPATH=/repo /venv/bin/python /tmp/audit-1/c07/witness_zero_ratio.py
# An expanding table whose LAST flexible column has ratio=0 renders wider than the console although there is room
# for every column (3 borders+1, 3 x (2 padding + 1 cell) = 13): ratio_distribute hands the zero-ratio column the
# (clamped) remainder 0 instead of its minimum, _collapse_widths fits the other columns into the width, and the
# re-measure turns the 0 into 1 (`_range.maximum or 1`) without shrinking anything else.
import io
from rich.console import Console
from rich.table import Table

table = Table(expand=True)
table.add_column(ratio=1)
table.add_column()
table.add_column(ratio=0)
table.add_row("a", "bcd ef", "")
console = Console(width=13, file=io.StringIO(), color_system=None, legacy_windows=False)
lines = "".join(seg.text for seg in console.render(table)).splitlines()     # (console.print would crop the overhang away)
print("\n".join(lines))
print("console width 13, line widths:", sorted({len(l) for l in lines}))
assert all(len(l) == 13 for l in lines), "table body is wider than the console"
