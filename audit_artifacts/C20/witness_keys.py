import io
from rich.theme import Theme
for name in ["a:b", "a=b", "#102030", ";x", " lead", "trail ", "[x]", "my style", "default", "DEFAULT", ""]:
    theme = Theme({name: "bold red", "zz": "blue"}, inherit=False)
    try:
        back = Theme.from_file(io.StringIO(theme.config), inherit=False)
        print(repr(name), "->", {k: str(v) for k, v in back.styles.items()}, back.styles == theme.styles)
    except Exception as e:
        print(repr(name), "raises", type(e).__name__, e)
