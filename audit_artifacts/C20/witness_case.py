# A theme with an upper-case letter in a style name reads back under a different (lower-cased) name.
import io
from rich.theme import Theme

theme = Theme({"Warning": "bold red"}, inherit=False)
back = Theme.from_file(io.StringIO(theme.config), inherit=False)
print(sorted(theme.styles), "->", sorted(back.styles))
assert back.styles == theme.styles
