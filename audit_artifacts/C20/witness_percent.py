# A theme whose style has a link containing '%' (any percent-encoded URL) cannot be read back from its own config text.
import io
from rich.style import Style
from rich.theme import Theme

theme = Theme({"docs": Style(bold=True, link="file:///tmp/R%20ich")}, inherit=False)
text = theme.config
print(text)
back = Theme.from_file(io.StringIO(text), inherit=False)   # configparser.InterpolationSyntaxError
assert back.styles == theme.styles, (back.styles, theme.styles)
print("round trip ok")
