# Style accepts Color.parse's tolerant rgb() spelling, but str() of that style is not a definition Style.parse accepts
from rich.style import Style
s = Style(color="rgb(1, 2, 3)")          # accepted: Color.parse allows blanks between the components
print(repr(str(s)))                        # 'rgb(1, 2, 3)'
try:
    print(Style.parse(str(s)) == s)        # expected True
except Exception as e:
    print("parse(str(s)) raised", type(e).__name__, e)
print(repr(Style.normalize(str(s))))      # not a parseable definition either
