# a style with an empty link prints as "none" and is false, but is not equal to the null style (nor hashes like it)
from rich.style import Style
s = Style(link="")
print(repr(str(s)), bool(s), Style.parse(str(s)) == s, s == Style(), hash(s) == hash(Style()))
t = Style(bold=True, link="x").update_link("")
print(repr(str(t)), Style.parse(str(t)) == t)        # 'bold' False
