import sys, random, json
sys.path.insert(0, "/verif")
from engine import harness, tlc
harness.use_rich_tree()
from drivers import c05
E = c05.env()
rng = random.Random(int(sys.argv[1]) if len(sys.argv) > 1 else 1)
N = int(sys.argv[2]) if len(sys.argv) > 2 else 300
hists = [c05.random_history(E, rng, rng.randint(2, 12)) for _ in range(N)]
recs = [c05.execute(E, h) for h in hists]
verdicts, st = tlc.judge("Trace_TextOps", recs)
from collections import Counter
c = Counter()
for h, r, v in zip(hists, recs, verdicts):
    if v != "ok":
        parts = v.split(" ")
        step = int(parts[1]) if parts[0] == "step" else 0
        key = v.split(" ", 2)[-1]
        c[key] += 1
        if c[key] <= 2:
            print(v)
            print("  ops:", json.dumps(h[:step], ensure_ascii=False))
            print("  obs:", json.dumps(r[step-1], ensure_ascii=False)[:600] if step else None)
print(c, st.get("wall"))
kinds = Counter(o["k"] for h in hists for o in h)
print(kinds)
