import sys, resource, signal
sys.path.insert(0, sys.argv[1] if len(sys.argv) > 1 else "/repo")
resource.setrlimit(resource.RLIMIT_AS, (1<<30, 1<<30))
signal.alarm(5)
from rich.text import Text
t = Text("ab")
t.stylize("bold", 0, 1)
try:
    t.append_text(t)          # an ordinary string: s += s  ->  "abab"
    print("plain", repr(t.plain), "len", len(t), "spans", t.spans)
except BaseException as e:
    print("raised", type(e).__name__)
