# Text.split loses characters when the separator overlaps itself at the end of the text:
# it decides "the text ends with a separator" by text.endswith(separator) instead of looking at the last match.
import sys
sys.path.insert(0, sys.argv[1] if len(sys.argv) > 1 else "/repo")
from rich.text import Text
s, sep = "a   ", "  "                      # "a" + three blanks, split on two blanks
print("str :", s.split(sep))                                  # ['a', ' ']
print("Text:", [t.plain for t in Text(s).split(sep)])         # ['a']        <- the last blank is gone
print("Text, include_separator:", [t.plain for t in Text(s).split(sep, include_separator=True)])   # ['a  ']  <- ' ' is gone
