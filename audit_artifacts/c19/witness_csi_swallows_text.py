# rich 9.10.0: output redirected through FileProxy (Live / Progress) loses text that follows a CSI sequence other than SGR.
# re_ansi's SGR alternative is  ESC [ (.*?) m : after e.g. ESC[2K (erase line, as progress libraries write) it runs on to the
# next letter "m" in the TEXT and swallows everything before it.
import io
from rich.ansi import AnsiDecoder
from rich.console import Console
from rich.file_proxy import FileProxy
print(repr(AnsiDecoder().decode_line("\x1b[2Khello m world").plain))          # ' world'   (expected 'hello m world')
console = Console(file=io.StringIO(), force_terminal=True, color_system="truecolor", width=80, _environ={})
proxy = FileProxy(console, io.StringIO())
proxy.write("\x1b[2Kdownloading more items\n")
print(repr(console.file.getvalue()))                                            # 'ore items\n'
assert "downloading" in console.file.getvalue(), "text after ESC[2K was lost"
