# rich 9.10.0: SGR 24 ("not underlined") and 25 ("not blinking") switch off BOTH kinds on a terminal (ECMA-48: 24 = neither
# singly nor doubly underlined, 25 = steady); rich.ansi maps them to "not underline" / "not blink" only, so text written
# after ESC[21m...ESC[24m (or ESC[6m...ESC[25m) through a redirected stdout stays double-underlined (rapidly blinking).
# (Same family, not patched here: an empty parameter means 0, so ESC[1;m ends in a reset and ESC[;1m starts with one -
#  the decoder skips empty parameters.)
from rich.ansi import AnsiDecoder
t = AnsiDecoder().decode_line("\x1b[21mA\x1b[24mB")
print(t.spans)
assert not any(s.style.underline2 for s in t.spans if s.start >= 1), t.spans
