# rich 9.10.0: AnsiDecoder treats SGR 0 as "forget everything", including the OSC 8 hyperlink - which is not an SGR
# attribute: on a terminal the text after ESC[0m is still part of the link until OSC 8 ;; closes it.
from rich.ansi import AnsiDecoder
t = AnsiDecoder().decode_line("\x1b]8;;https://example.org\x1b\\\x1b[1mbold\x1b[0m plain\x1b]8;;\x1b\\ after")
for span in t.spans:
    print(repr(t.plain[span.start:span.end]), span.style, span.style.link)
from rich.console import Console
c = Console()
got = [(ch, (t.get_style_at_offset(c, i).link)) for i, ch in enumerate(t.plain)]
assert all(l == "https://example.org" for ch, l in got[:10]), got   # "bold plain" is all inside the hyperlink
