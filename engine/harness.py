"""Shared check harness: context (tier, seed, tree under test), verdict channels
(VIOLATION / KNOWN-FINDING / DRIFT), replay files, evidence writer."""
import hashlib
import json
import os
import random
import re
import sys
import time

VERIF = os.path.dirname(os.path.dirname(os.path.abspath(__file__)))
EVID = os.path.join(VERIF, "evidence")
REPLAYS = os.path.join(VERIF, "replays")
FINDINGS = os.path.join(VERIF, "known_findings.json")


def rich_src():
    return os.environ.get("RICH_SRC", "/repo")


def use_rich_tree():
    """Make `import rich` resolve to the tree under test (default /repo's working tree)."""
    src = rich_src()
    if sys.path[0] != src:
        sys.path.insert(0, src)
    os.environ.setdefault("RICH_VERIF", "1")
    import rich  # noqa
    got = os.path.dirname(os.path.dirname(os.path.abspath(rich.__file__)))
    if os.path.realpath(got) != os.path.realpath(src):
        raise RuntimeError("rich imported from %s, expected %s" % (got, src))
    if os.environ.get("VERIF_NO_WATCHDOG") != "1":
        from engine import watch
        watch.install_global(os.path.join(os.path.realpath(got), "rich"))


class Check:
    def __init__(self, pid, level="model_checking"):
        self.pid = pid
        self.tier = os.environ.get("VERIF_TIER", "quick")
        self.seed = int(os.environ.get("VERIF_SEED", "0"))
        self.rng = random.Random(self.seed * 7919 + sum(map(ord, pid)))
        self.level = level
        self.t0 = time.time()
        self.evaluations = 0
        self.distinct = set()
        self.samples = []
        self.states = 0
        self.transitions = 0
        self.traces = 0
        self.violations = []      # (signature, detail, replay payload)
        self.known_hits = {}
        self.drift = []
        self.cmds = []
        self.notes = {}
        self.assumptions = []
        self.trusted = []
        self.rule = ""
        self.exhaustive = False
        self.parts = {}
        self._findings = [f for f in _load_findings() if f["property"] == pid]
        self.replay_only = None
        from engine import watch
        watch._G["on_limit"] = self._no_termination

    def _no_termination(self, where, msg):
        """engine/watch.py: calls into Rich keep not coming back.  The run ends here with what was judged so far."""
        import traceback
        stack = "".join(traceback.format_stack(limit=14))
        self.reject("no-termination rich/%s" % where.split(":")[0] + " in " + where.split(" in ")[-1], msg, dict(stack=stack))
        self.notes["ended_by_watchdog"] = msg
        rc = self.finish()
        sys.stdout.flush()
        os._exit(rc)

    @property
    def thorough(self):
        return self.tier == "thorough"

    def pick(self, quick, thorough):
        return thorough if self.thorough else quick

    # ---- accounting -----------------------------------------------------------------------
    def add_tlc(self, res_or_stats, label=None):
        if isinstance(res_or_stats, dict):
            for what, (n, first) in sorted(res_or_stats.get("drift", {}).items()):
                self.drift_note("%s: %s in %d record(s) (implementation differs from the implementation-shaped part of the model; "
                                "the property part holds), first record #%d" % (label or "trace", what, n, first))
            self.states += res_or_stats.get("states", 0)
            self.transitions += res_or_stats.get("transitions", 0)
            for c in res_or_stats.get("cmds", []):
                if c not in self.cmds and len(self.cmds) < 12:
                    self.cmds.append(c)
        else:
            self.states += res_or_stats.distinct
            self.transitions += res_or_stats.generated
            c = "tlc " + res_or_stats.cmd
            if c not in self.cmds and len(self.cmds) < 12:
                self.cmds.append(c)
        if label:
            self.parts[label] = self.parts.get(label, 0) + (
                res_or_stats.get("states", 0) if isinstance(res_or_stats, dict) else res_or_stats.distinct)

    def mark(self, label):
        """timing breakdown for the evidence file"""
        now = time.time()
        last = getattr(self, "_last_mark", self.t0)
        self.notes.setdefault("timing_s", {})[label] = round(now - last, 1)
        self._last_mark = now

    def case(self, key, nontrivial=True):
        self.evaluations += 1
        if nontrivial:
            self.distinct.add(key if isinstance(key, (str, int)) else _digest(key))

    def sample(self, s, cap=6):
        if len(self.samples) < cap:
            self.samples.append(s)

    # ---- verdict channels -----------------------------------------------------------------
    def reject(self, signature, detail, payload):
        """A real execution was rejected by the property part of a spec."""
        for f in self._findings:
            if f.get("status") == "open" and re.search(f["signature"], signature):
                hit = self.known_hits.setdefault(f["id"], dict(f=f, n=0, ex=signature))
                hit["n"] += 1
                return "known"
        self.violations.append((signature, detail, payload))
        return "violation"

    def drift_note(self, what):
        if len(self.drift) < 20:
            self.drift.append(what)

    # ---- finish ---------------------------------------------------------------------------
    def finish(self):
        wall = time.time() - self.t0
        os.makedirs(EVID, exist_ok=True)
        os.makedirs(REPLAYS, exist_ok=True)
        for fid, hit in sorted(self.known_hits.items()):
            print("KNOWN-FINDING: property=%s %s [%s; %d rejected case(s) match, e.g. %s]" % (
                self.pid, hit["f"]["what"], fid, hit["n"], hit["ex"]))
        for d in self.drift:
            print("DRIFT property=%s %s" % (self.pid, d))
        seen = set()
        nviol = 0
        for sig, detail, payload in self.violations:
            if sig in seen:
                continue
            seen.add(sig)
            nviol += 1
            if nviol > 25:
                continue
            h = hashlib.sha1(json.dumps(payload, sort_keys=True, default=str).encode()).hexdigest()[:10]
            path = os.path.join(REPLAYS, "%s-%s.json" % (self.pid, h))
            with open(path, "w") as f:
                json.dump(dict(property=self.pid, signature=sig, detail=detail, case=payload), f, indent=1, default=str)
            print("VIOLATION property=%s replay=%s" % (self.pid, path))
            print("  signature: %s" % sig)
            print("  detail: %s" % (detail if len(str(detail)) < 600 else str(detail)[:600] + "…"))
        cov = dict(
            states=self.states, transitions=self.transitions,
            traces_validated_against_impl=self.traces,
            evaluations=self.evaluations, distinct_nontrivial=len(self.distinct),
            rule=self.rule, samples=self.samples or ["(none)"], exhaustive=self.exhaustive,
            checker_cmd="; ".join(self.cmds), trusted_base=self.trusted,
            known_findings_hit=sorted(self.known_hits), drift=self.drift, parts=self.parts,
        )
        cov.update(self.notes)
        ev = dict(property_id=self.pid, tier=self.tier, seed=self.seed, level=self.level,
                  coverage=cov, assumptions=self.assumptions, wall_s=round(wall, 2),
                  violations=nviol)
        if self.replay_only is None:
            # evidence describes runs against /repo; a run against a scratch tree (RICH_SRC) must not overwrite it
            target = os.path.join(EVID, self.pid + ".json")
            if self.pid.startswith("X"):        # spec growth beyond the listed properties: not claimed in MANIFEST.json
                os.makedirs(EVID + "_extra", exist_ok=True)
                target = os.path.join(EVID + "_extra", self.pid + ".json")
            if os.path.realpath(rich_src()) != "/repo":
                os.makedirs(os.path.join(VERIF, ".work"), exist_ok=True)
                target = os.path.join(VERIF, ".work", "evidence-scratch-%s-%d.json" % (self.pid, os.getpid()))
            with open(target, "w") as f:
                json.dump(ev, f, indent=1, default=str)
        print("%s %s: tier=%s seed=%d states=%d transitions=%d traces=%d evaluations=%d distinct=%d known=%d violations=%d wall=%.1fs" % (
            self.pid, "FAIL" if nviol else "ok", self.tier, self.seed, self.states, self.transitions,
            self.traces, self.evaluations, len(self.distinct), len(self.known_hits), nviol, wall))
        return 1 if nviol else 0


def _digest(o):
    return hashlib.sha1(json.dumps(o, sort_keys=True, default=str).encode()).hexdigest()[:16]


def _load_findings():
    if not os.path.exists(FINDINGS):
        return []
    with open(FINDINGS) as f:
        return json.load(f).get("findings", [])


def load_replay(path):
    with open(path) as f:
        return json.load(f)


def cps(s):
    """text -> code point list (TLC never sees strings)."""
    return [ord(c) for c in s]
