"""Lexical projection of a terminal byte stream into the operations of Screen.tla (trusted,
purely lexical): CR, LF, EL2, CUU n, cursor show/hide, BEL, SGR / OSC-8 (dropped here), labelled
text runs, blanks; any other escape sequence is an explicit 'unk' operation that no spec accepts."""
import re
import unicodedata

_TOK = re.compile(r"\x1b\[(\?25[lh]|[0-9;]*[A-Za-z])|\x1b\]8;[^\x1b\x07]*(?:\x1b\\|\x07)|\x1b.|\r|\n|\x07|[^\x1b\r\n\x07]+", re.S)
_LABEL = re.compile(r"([PF])(\d+)\.(\d)")


def label_id(kind, k, i):
    return (1000000 if kind == "P" else 2000000) + int(k) * 10 + int(i)


def cells(t):
    """cell count of a run of text on a terminal (East Asian wide / fullwidth = 2, combining / format = 0)"""
    n = 0
    for ch in t:
        if unicodedata.combining(ch) or unicodedata.category(ch) in ("Mn", "Me", "Cf"):
            continue
        n += 2 if unicodedata.east_asian_width(ch) in ("W", "F") else 1
    return n


def lex(s):
    ops = []
    for m in _TOK.finditer(s):
        t = m.group(0)
        if t == "\r":
            ops.append(["cr", 0])
        elif t == "\n":
            ops.append(["nl", 0])
        elif t == "\x07":
            ops.append(["bel", 0])
        elif t.startswith("\x1b["):
            body = m.group(1)
            if body == "?25l":
                ops.append(["hide", 0])
            elif body == "?25h":
                ops.append(["show", 0])
            elif body == "2K":
                ops.append(["el2", 0])
            elif body.endswith("A") and (body[:-1].isdigit() or body == "A"):
                ops.append(["cuu", int(body[:-1] or 1)])
            elif body.endswith("m"):
                pass                      # styling is judged by C03
            else:
                ops.append(["unk", 0])
        elif t.startswith("\x1b]8;"):
            pass
        elif t.startswith("\x1b"):
            ops.append(["unk", 0])
        else:
            labels = _LABEL.findall(t)
            w = cells(t)                  # the run's cells ride on its first operation (terminal auto-wrap, Screen.tla)
            if labels:
                for n, (kind, k, i) in enumerate(labels):
                    ops.append(["t", label_id(kind, k, i), w if n == 0 else 0])
            elif t.strip() == "...":
                ops.append(["t", 3, w])
            elif t.strip() == "":
                ops.append(["sp", 0, w])
            else:
                ops.append(["sp", 0, w])  # unlabelled visible text (spinner frames, times, paths)
    return ops
