"""Lexical projection of console output into the token vocabulary of specs/Record.tla (trusted,
purely lexical - no knowledge of Rich):

  lex(s, urls, labeller)  ANSI stream -> [{k, v, l}]
      k="t"   v = code points of a maximal run of text (newline included), l = chunk id per character
      k="sgr" v = parameters of ESC [ ... m   (empty parameter = 0)
      k="osc" v = [id of the URL of an OSC-8 hyperlink in `urls` (99 = unknown), 0 = close]; the id= parameter is dropped
      k="ctl" v = code points of a C0 control other than newline / DEL / any other escape sequence
  html_project(html, rules)  -> (chars, rule ids, link ids): the text inside <pre> with tags removed
      and entities decoded by html.parser (convert_charrefs), per character the id of the CSS rule
      in force (inline style= or class= resolved through the <style> sheet) and of the href.
"""
import re
from html.parser import HTMLParser

_TOK = re.compile(
    r"\x1b\[([0-9;]*)m"                                   # SGR
    r"|\x1b\]8;([^;\x1b\x07]*);([^\x1b\x07]*)(?:\x1b\\|\x07)"   # OSC 8
    r"|\x1b\[[0-9;?]*[A-Za-z]"                            # other CSI
    r"|\x1b\][^\x1b\x07]*(?:\x1b\\|\x07)"                 # other OSC
    r"|\x1b.?"                                            # stray escape
    r"|[\x00-\x09\x0b-\x1a\x1c-\x1f\x7f]"                 # C0 control other than newline
    r"|[^\x00-\x09\x0b-\x1f\x7f]+", re.S)                 # text


def make_labeller(texts):
    """texts: {chunk id: text}.  Returns f(run) -> chunk id per character (0 = none): every
    occurrence of a whole chunk text inside the run is attributed to that chunk."""
    items = sorted(((t, i) for i, t in texts.items() if t), key=lambda x: -len(x[0]))
    if not items:
        return lambda run: [0] * len(run)
    rx = re.compile("|".join("(%s)" % re.escape(t) for t, _ in items))
    ids = [i for _, i in items]

    def label(run):
        out = [0] * len(run)
        for m in rx.finditer(run):
            cid = ids[m.lastindex - 1]
            for j in range(m.start(), m.end()):
                out[j] = cid
        return out
    return label


def lex(s, urls=(), labeller=None):
    toks = []
    for m in _TOK.finditer(s):
        t = m.group(0)
        if m.group(1) is not None:
            try:
                v = [int(p) if p else 0 for p in m.group(1).split(";")]
            except ValueError:
                v = [999]
            if any(x >= 2 ** 31 for x in v):
                v = [999]
            toks.append(dict(k="sgr", v=v, l=[]))
        elif m.group(3) is not None:
            url = m.group(3)
            toks.append(dict(k="osc", v=[0 if url == "" else (urls.index(url) + 1 if url in urls else 99)], l=[]))
        elif t[0] == "\x1b" or len(t) == 1 and (ord(t) < 32 or ord(t) == 127) and t != "\n":
            toks.append(dict(k="ctl", v=[ord(c) for c in t], l=[]))
        else:
            toks.append(dict(k="t", v=[ord(c) for c in t], l=labeller(t) if labeller else [0] * len(t)))
    return toks


class _Pre(HTMLParser):
    def __init__(self, urls, rule_ids):
        super().__init__(convert_charrefs=True)
        self.urls, self.rule_ids = urls, rule_ids
        self.in_pre = 0
        self.in_style = False
        self.css = []
        self.stack = []          # (tag, rule text or None, link id or None)
        self.items = []          # (char, pending rule: ("inline", text) | ("class", name) | None, link id)

    def handle_starttag(self, tag, attrs):
        a = dict(attrs)
        if tag == "pre":
            self.in_pre += 1
            return
        if tag == "style":
            self.in_style = True
            return
        if not self.in_pre:
            return
        if tag == "span":
            if a.get("style") is not None:
                self.stack.append(("span", ("inline", a["style"]), None))
            else:
                self.stack.append(("span", ("class", a.get("class") or ""), None))
        elif tag == "a":
            href = a.get("href") or ""
            self.stack.append(("a", None, self.urls.index(href) + 1 if href in self.urls else 99))
        else:
            self.stack.append((tag, ("inline", "<%s>" % tag), None))     # an unexpected element shows up as a rule

    def handle_endtag(self, tag):
        if tag == "pre":
            self.in_pre -= 1
        elif tag == "style":
            self.in_style = False
        elif self.in_pre and self.stack:
            for i in range(len(self.stack) - 1, -1, -1):
                if self.stack[i][0] == tag:
                    del self.stack[i:]
                    break

    def handle_data(self, data):
        if self.in_style:
            self.css.append(data)
        elif self.in_pre:
            rule = next((r for _, r, _ in reversed(self.stack) if r is not None), None)
            link = next((k for _, _, k in reversed(self.stack) if k is not None), 0)
            for ch in data:
                self.items.append((ch, rule, link))


_CSS = re.compile(r"\.([A-Za-z0-9_-]+)\s*\{([^}]*)\}")


def html_project(html, urls=(), rule_ids=None):
    """rule_ids: dict (shared across one history) rule text -> small id, filled here."""
    rule_ids = {} if rule_ids is None else rule_ids
    p = _Pre(list(urls), rule_ids)
    p.feed(html)
    p.close()
    sheet = {name: body.strip() for name, body in _CSS.findall("".join(p.css))}
    chars, rules, links = [], [], []
    for ch, rule, link in p.items:
        chars.append(ord(ch))
        if rule is None:
            rules.append(0)
        else:
            text = rule[1].strip() if rule[0] == "inline" else sheet.get(rule[1], "?class " + rule[1])
            rules.append(rule_ids.setdefault(text, len(rule_ids) + 1))
        links.append(link)
    return chars, rules, links
