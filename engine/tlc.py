"""TLC runner: the only judge.  Modes M1 (exhaustive), M2 (behaviour generation), M3 (batch
trace / record validation), M4 (slice evaluation, as a batch of records).

All runs happen in a scratch copy of /verif/specs under /verif/.work so TLC's generated files
never pollute the tree.  Counts are parsed from TLC's own output.
"""
import json
import os
import re
import shutil
import subprocess
import time
from concurrent.futures import ThreadPoolExecutor

VERIF = os.path.dirname(os.path.dirname(os.path.abspath(__file__)))
SPECS = os.path.join(VERIF, "specs")
JAR = "/opt/veriftools/tla/tla2tools.jar:/opt/veriftools/tla/CommunityModules-deps.jar"
NCPU = os.cpu_count() or 4


class TLCFailure(Exception):
    """Machinery failure (spec does not parse, TLC crashed): exit 2, never a verdict."""


class TLCResult:
    def __init__(self, out, rc, wall, cmd):
        self.out, self.rc, self.wall, self.cmd = out, rc, wall, cmd
        m = re.findall(r"(\d+) states generated, (\d+) distinct states found, (\d+) states left", out)
        self.generated = int(m[-1][0]) if m else 0
        self.distinct = int(m[-1][1]) if m else 0
        m2 = re.search(r"The number of states generated: (\d+)", out)
        if m2 and not m:
            self.generated = self.distinct = int(m2.group(1))
        m = re.search(r"depth of the complete state graph search is (\d+)", out)
        self.diameter = int(m.group(1)) if m else 0
        self.violated = re.findall(r"Invariant (\S+) is violated", out)
        self.violated += re.findall(r"Action property (\S+) is violated", out)
        if "Temporal properties were violated" in out:
            self.violated.append("temporal")
        if "Deadlock reached" in out:
            self.violated.append("Deadlock")
        self.finished = "Model checking completed" in out or "Finished in" in out

    def coverage(self):
        """action name -> (distinct states found through it, total taken); from -coverage 1."""
        cov = {}
        for m in re.finditer(r"<(\w+) line \d+, col \d+ to line \d+, col \d+ of module (\w+)(?: \([\d ]+\))?>: (\d+):(\d+)", self.out):
            name = m.group(1)
            d, t = int(m.group(3)), int(m.group(4))
            od, ot = cov.get(name, (0, 0))
            cov[name] = (max(od, d), max(ot, t))
        return cov


_workroot = None


def workdir(tag):
    """Fresh scratch directory holding a copy of every spec."""
    global _workroot
    root = os.path.join(VERIF, ".work")
    os.makedirs(root, exist_ok=True)
    import uuid
    d = os.path.join(root, "%s-%d-%s" % (tag, os.getpid(), uuid.uuid4().hex[:10]))
    os.makedirs(d)
    for f in os.listdir(SPECS):
        if f.endswith((".tla", ".cfg")):
            shutil.copy(os.path.join(SPECS, f), d)
    return d


def cleanup(d):
    shutil.rmtree(d, ignore_errors=True)


def run(module, cfg=None, wd=None, env=None, workers=1, simulate=None, depth=None, seed=None,
        coverage=False, timeout=1800, extra=(), heap="2g", tag="tlc", deadlock=None, cfg_text=None):
    own = wd is None
    if own:
        wd = workdir(tag)
    cfg = cfg or module
    if cfg_text is not None:
        cfg = "%s_gen%d" % (module, time.time_ns() % 10**9)
        with open(os.path.join(wd, cfg + ".cfg"), "w") as f:
            f.write(cfg_text)
    meta = os.path.join(wd, "states-%d" % (time.time_ns() % 10**9))
    gc = "-XX:+UseSerialGC" if workers == 1 else "-XX:+UseParallelGC"
    import uuid as _uuid
    jtmp = os.path.join(wd, "jtmp-" + _uuid.uuid4().hex[:8])          # TLC unpacks its standard modules into java.io.tmpdir on every start
    os.makedirs(jtmp, exist_ok=True)
    cmd = ["java", gc, "-Xss64m", "-Djava.io.tmpdir=" + jtmp, "-Xmx" + heap, "-cp", JAR, "tlc2.TLC",
           "-workers", str(workers), "-metadir", meta, "-noGenerateSpecTE",
           "-config", cfg + ".cfg"]
    if simulate:
        cmd += ["-simulate", simulate]
    if depth:
        cmd += ["-depth", str(depth)]
    if seed is not None:
        cmd += ["-seed", str(seed)]
    if coverage:
        cmd += ["-coverage", "1"]
    if deadlock is False:
        cmd += ["-deadlock"]
    cmd += list(extra) + [module]
    e = dict(os.environ)
    e.update(env or {})
    t0 = time.time()

    def _lift_cap():          # the JVM reserves a large address space: undo ./check's RLIMIT_AS cap for the child
        import resource
        soft, hard = resource.getrlimit(resource.RLIMIT_AS)
        resource.setrlimit(resource.RLIMIT_AS, (hard, hard))
    try:
        p = subprocess.run(cmd, cwd=wd, env=e, stdout=subprocess.PIPE, stderr=subprocess.STDOUT,
                           timeout=timeout, text=True, errors="replace", preexec_fn=_lift_cap)
        out, rc = p.stdout, p.returncode
    except subprocess.TimeoutExpired as ex:
        out = (ex.stdout or b"")
        out = out.decode("utf8", "replace") if isinstance(out, bytes) else out
        rc = -9
    res = TLCResult(out, rc, time.time() - t0, " ".join(cmd[5:]))
    shutil.rmtree(meta, ignore_errors=True)
    shutil.rmtree(jtmp, ignore_errors=True)
    if own:
        cleanup(wd)
    # machinery failures
    if rc == -9 and not simulate:
        raise TLCFailure("TLC timed out after %ss: %s\n%s" % (timeout, res.cmd, out[-2000:]))
    if rc not in (0, 12, 11, 13, -9) or "Parsing or semantic analysis failed" in out:
        raise TLCFailure("TLC failed rc=%s: %s\n%s" % (rc, res.cmd, out[-6000:]))
    return res


# ---------------------------------------------------------------------------------------------
# M3 / M4: batch validation.  `records` is a list of JSON-able records; the Trace module reads
# them with JsonDeserialize(IOEnv.TRACE_FILE) and prints one <<"VERDICT", i, "..">> per record.

_DRIFT = re.compile(r'<<\s*"DRIFT",\s*(\d+),\s*"([^"]*)"\s*>>', re.S)          # drift notes a trace spec prints beside its verdicts
_VERDICT = re.compile(r'<<\s*"VERDICT",\s*(\d+),\s*"([^"]*)"\s*>>', re.S)   # TLC wraps long tuples over lines


def judge(module, records, cfg=None, nproc=None, tag="judge", timeout=3600, extra_json=None, chunk_min=50):
    """Returns (verdicts: list[str] aligned with records, stats dict).  A record without a
    VERDICT line gets verdict 'no-verdict' (treated as rejection by callers)."""
    n = len(records)
    if n == 0:
        return [], dict(states=0, transitions=0, wall=0.0, runs=0, cmds=[])
    nproc = nproc or NCPU
    k = max(1, min(nproc, n // chunk_min or 1))
    size = (n + k - 1) // k
    chunks = [(i, records[i:i + size]) for i in range(0, n, size)]
    wd = workdir(tag)
    verdicts = ["no-verdict"] * n
    stats = dict(states=0, transitions=0, wall=0.0, runs=0, cmds=[])

    def one(arg):
        base, recs = arg
        path = os.path.join(wd, "batch-%d.json" % base)
        payload = recs if extra_json is None else dict(extra_json, recs=recs)
        with open(path, "w") as f:
            json.dump(payload, f)
        r = run(module, cfg=cfg, wd=wd, env={"TRACE_FILE": path}, workers=1, timeout=timeout, deadlock=False)
        return base, len(recs), r

    t0 = time.time()
    try:
        with ThreadPoolExecutor(len(chunks)) as ex:
            for base, ln, r in ex.map(one, chunks):
                if r.violated:
                    raise TLCFailure("trace spec %s itself violated %s\n%s" % (module, r.violated, r.out[-3000:]))
                for m in _VERDICT.finditer(r.out):
                    i = int(m.group(1)) - 1
                    if 0 <= i < ln and verdicts[base + i] != "ok":
                        # several lines per record happen only for searching trace specs
                        # (linearisation): one accepting path is enough
                        verdicts[base + i] = re.sub(r"\s+", " ", m.group(2))
                for m in _DRIFT.finditer(r.out):
                    what = re.sub(r"^step \d+ ", "", re.sub(r"\s+", " ", m.group(2)))
                    d = stats.setdefault("drift", {})
                    d.setdefault(what, [0, base + int(m.group(1)) - 1])[0] += 1
                stats["states"] += r.distinct
                stats["transitions"] += r.generated
                stats["runs"] += 1
                if len(stats["cmds"]) < 1:
                    stats["cmds"].append("TRACE_FILE=<batch.json> tlc " + r.cmd)
    finally:
        cleanup(wd)
    stats["wall"] = time.time() - t0
    return verdicts, stats


# ---------------------------------------------------------------------------------------------
# M1: exhaustive check of a model configuration.

def model_check(module, cfg=None, workers=None, coverage=True, timeout=3600, env=None, tag="mc",
                require_actions=(), heap="6g", cfg_text=None):
    r = run(module, cfg=cfg, workers=workers or NCPU, coverage=coverage, timeout=timeout, env=env,
            tag=tag, heap=heap, cfg_text=cfg_text)
    cov = r.coverage() if coverage else {}
    missing = [a for a in require_actions if cov.get(a, (0, 0))[1] == 0]
    return r, cov, missing


# ---------------------------------------------------------------------------------------------
# M2: behaviour generation.  The MC module carries a history variable and PrintT's
# ToJson(<<"BEH", ...>>) lines from a CONSTRAINT; we collect those JSON payloads.

_BEH = re.compile(r'^"?(\{.*"beh".*\})"?$')


def behaviours(module, cfg=None, workers=1, simulate=None, depth=None, seed=None, timeout=1800, env=None,
               tag="gen", cfg_text=None):
    r = run(module, cfg=cfg, workers=workers, simulate=simulate, depth=depth, seed=seed,
            timeout=timeout, env=env, tag=tag, deadlock=False, cfg_text=cfg_text)
    behs = []
    for line in r.out.splitlines():
        line = line.strip()
        if '\\"beh\\"' in line or '"beh"' in line:
            s = line
            if s.startswith('"') and s.endswith('"'):
                try:
                    s = json.loads(s)
                except Exception:
                    s = s[1:-1].replace('\\"', '"')
            try:
                behs.append(json.loads(s))
            except Exception:
                pass
    return behs, r
