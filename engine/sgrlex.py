"""Lexical projection of a character stream into the events of Sgr.tla (trusted, purely lexical):
<<"c", cp>> per visible character, <<"sgr", [params]>> per ESC [ ... m, <<"nl">>, <<"link", id>> per OSC 8
(id: small int per distinct URI, 0 = link closed), <<"ctl", cp>> for other C0 controls, <<"unk">> for any
other escape sequence.  With controls=True a well-formed CSI sequence other than SGR (cursor movement, erase, private
modes: ESC [ parameters intermediates final) is <<"esc", [code points]>> instead of <<"unk">> - what a control segment
carries; the default keeps the older vocabulary."""
import re

_TOK = re.compile(r"\x1b\[([0-9;:]*)m|\x1b\]8;([^;\x1b\x07]*);([^\x1b\x07]*)(?:\x1b\\|\x07)|(\x1b\[[0-?]*[ -/]*[@-~])|\x1b.|\n|[^\x1b\n]", re.S)


def lex(s, links=None, controls=False):
    links = links if links is not None else {}
    out = []
    for m in _TOK.finditer(s):
        t = m.group(0)
        if t == "\n":
            out.append(["nl"])
        elif m.group(1) is not None:
            body = m.group(1)
            params = []
            ok = True
            for p in body.split(";"):
                if p == "":
                    if body != "":
                        params.append(0)
                elif p.isdigit() and p.isascii() and len(p) < 8:
                    params.append(int(p))
                else:
                    ok = False
            out.append(["sgr", params] if ok else ["unk"])
        elif m.group(3) is not None:
            uri = m.group(3)
            out.append(["link", 0 if uri == "" else links.setdefault(uri, len(links) + 1)])
        elif controls and m.group(4) is not None:
            out.append(["esc", [ord(ch) for ch in t]])
        elif t.startswith("\x1b"):
            out.append(["unk"])
        elif ord(t) < 32 or ord(t) == 127:
            out.append(["ctl", ord(t)])
        else:
            out.append(["c", ord(t)])
    return out
