"""dsched - deterministic scheduler for real Python threads (C10 / C11 / C12).

Exactly one scheduled thread runs at a time.  At a *yield point* (lock acquire/release, event
wait/set, thread start/join, file write/flush, mock-clock read, and - when enabled - every executed
line / opcode of selected modules) the running thread hands the decision to a strategy.  An
execution is fully determined by (program, choice list), which is what a replay file stores.

The scheduler only serialises and chooses: lock / event proxies implement the usual re-entrant
mutex and event semantics; sys.settrace does not alter program semantics.
"""
import random
import sys
import threading


class SchedAbort(BaseException):
    """Raised inside scheduled threads to unwind them after a deadlock / step limit."""


class STh:
    def __init__(self, sched, tid, fn, name):
        self.sched, self.tid, self.fn, self.name = sched, tid, fn, name
        self.sem = threading.Semaphore(0)
        self.state = "runnable"        # runnable | blocked | timed | done
        self.blocked_on = None
        self.exc = None
        self.real = None
        self.timed_event = None

    def __repr__(self):
        return "T%d(%s,%s)" % (self.tid, self.name, self.state)


class Scheduler:
    def __init__(self, strategy, trace_files=(), opcode_funcs=(), max_steps=400000, tick_budget=2):
        self.strategy = strategy
        self.trace_files = tuple(trace_files)
        self.opcode_funcs = set(opcode_funcs)
        self.max_steps = max_steps
        self.tick_budget = tick_budget
        self.threads = []
        self.current = None
        self.steps = 0
        self.choices = []          # chosen tid at every decision point (|options| > 1)
        self.events = []           # harness-visible event log (appended by proxies / harness)
        self.deadlock = None
        self.aborted = False
        self.done_evt = threading.Event()
        self._tls = threading.local()
        self.clock = 0

    # ---- thread management -------------------------------------------------------------------
    def spawn(self, fn, name="t"):
        t = STh(self, len(self.threads), fn, name)
        self.threads.append(t)

        def boot():
            self._tls.me = t
            t.sem.acquire()
            if self.trace_files:
                sys.settrace(self._tracer)
            try:
                if not self.aborted:
                    fn()
            except SchedAbort:
                pass
            except BaseException as ex:   # recorded, judged by the harness
                t.exc = ex
            finally:
                sys.settrace(None)
                self._finish(t)
        t.real = threading.Thread(target=boot, daemon=True)
        t.real.start()
        return t

    def me(self):
        return getattr(self._tls, "me", None)

    def _options(self):
        out = []
        for t in self.threads:
            if t.state == "runnable":
                out.append(t)
            elif t.state == "timed" and (t.timed_event.flag or t.timed_event.budget > 0):
                out.append(t)
        return out

    def _finish(self, t):
        t.state = "done"
        for o in self.threads:
            if o.state == "blocked" and o.blocked_on is t:
                o.state = "runnable"
                o.blocked_on = None
        self._handoff(t, finished=True)

    def _handoff(self, me, finished=False):
        """me cannot continue (blocked / timed / done): pick another thread or detect the end."""
        opts = self._options()
        if not opts:
            live = [t for t in self.threads if t.state != "done"]
            if live and not self.aborted:
                self.deadlock = [(t.tid, t.name, t.state, getattr(t.blocked_on, "name", repr(t.blocked_on))) for t in live]
                self._abort_all()
                if not finished:
                    raise SchedAbort()
                return
            if not live:
                self.done_evt.set()
            elif self.aborted:
                self._abort_all()
                if not finished:
                    raise SchedAbort()
            return
        nxt = self.strategy.choose(self, None, opts, "forced")
        if len(opts) > 1:
            self.choices.append(nxt.tid)
        self._switch(me, nxt, wait=not finished)

    def _abort_all(self):
        self.aborted = True
        live = [t for t in self.threads if t.state != "done"]
        if not live:
            self.done_evt.set()
            return
        # wake one; each woken thread raises SchedAbort, finishes, and wakes the next
        for t in live:
            if t is not self.me():
                t.state = "runnable"
                self.current = t
                t.sem.release()
                return
        # only me is left alive
        return

    def _switch(self, me, nxt, wait=True):
        self.current = nxt
        nxt.sem.release()
        if wait:
            me.sem.acquire()
            if self.aborted:
                raise SchedAbort()

    def yield_point(self, kind, info=None):
        me = self.me()
        if me is None or me is not self.current or self.aborted:
            if self.aborted and me is not None:
                raise SchedAbort()
            return
        self.steps += 1
        if self.steps > self.max_steps:
            self.deadlock = [("step-limit", self.steps)]
            self._abort_all()
            raise SchedAbort()
        opts = self._options()
        if len(opts) <= 1:
            return
        nxt = self.strategy.choose(self, me, opts, kind)
        self.choices.append(nxt.tid)
        if nxt is not me:
            self._switch(me, nxt)

    def block(self, on):
        me = self.me()
        me.state = "blocked"
        me.blocked_on = on
        self._handoff(me)

    def timed_wait(self, ev):
        """A wait with a timeout: the thread stays schedulable; being chosen while the event is
        not set means the timeout elapsed (bounded by the event's tick budget)."""
        me = self.me()
        me.state = "timed"
        me.timed_event = ev
        self._handoff(me)
        me.state = "runnable"
        me.timed_event = None
        if ev.flag:
            return True
        ev.budget -= 1
        return False

    def log(self, *ev):
        me = self.me()
        self.events.append((me.tid if me else -1,) + ev)

    # ---- running -----------------------------------------------------------------------------
    def run(self, fns, names=None, timeout=60):
        for i, fn in enumerate(fns):
            self.spawn(fn, (names or {}).get(i, "main%d" % i) if isinstance(names, dict) else (names[i] if names else "main%d" % i))
        opts = self._options()
        first = self.strategy.choose(self, None, opts, "start")
        if len(opts) > 1:
            self.choices.append(first.tid)
        self.current = first
        first.sem.release()
        ok = self.done_evt.wait(timeout)
        if not ok:
            self.deadlock = self.deadlock or [("wall-timeout",)]
            self.aborted = True
            for t in self.threads:
                t.sem.release()
        return self

    # ---- tracing -----------------------------------------------------------------------------
    def _tracer(self, frame, event, arg):
        if event != "call":
            return None
        code = frame.f_code
        if not code.co_filename.endswith(self.trace_files):
            return None
        if code.co_name in self.opcode_funcs:
            frame.f_trace_opcodes = True
        return self._local

    def _local(self, frame, event, arg):
        if event == "line":
            self.yield_point("line")
        elif event == "opcode":
            self.yield_point("opcode")
        return self._local

    # ---- proxies -----------------------------------------------------------------------------
    def RLock(self, name="lock"):
        return SRLock(self, name)

    def Event(self):
        return SEvent(self)

    def time(self):
        """Mock monotone clock: every reading is a yield point and advances the clock."""
        self.yield_point("clock")
        self.clock += 1
        v = float(self.clock)
        self.yield_point("clock-read")
        return v


class SRLock:
    _n = 0

    def __init__(self, sched, name="lock"):
        SRLock._n += 1
        self.sched, self.name = sched, "%s#%d" % (name, SRLock._n)
        self.owner = None
        self.count = 0

    def acquire(self, blocking=True, timeout=-1):
        s = self.sched
        me = s.me()
        if me is None:
            return True
        s.yield_point("acquire", self.name)
        while self.owner is not None and self.owner is not me:
            s.block(self)
        self.owner = me
        self.count += 1
        return True

    def release(self):
        s = self.sched
        me = s.me()
        if me is None:
            return
        if self.owner is not me:
            raise RuntimeError("cannot release un-acquired lock")
        self.count -= 1
        if self.count == 0:
            self.owner = None
            for t in s.threads:
                if t.state == "blocked" and t.blocked_on is self:
                    t.state = "runnable"
                    t.blocked_on = None
            s.yield_point("release", self.name)

    __enter__ = acquire

    def __exit__(self, *a):
        self.release()


class SEvent:
    def __init__(self, sched):
        self.sched = sched
        self.flag = False
        self.budget = sched.tick_budget
        self.name = "event"

    def is_set(self):
        return self.flag

    def set(self):
        self.flag = True
        for t in self.sched.threads:
            if t.state == "blocked" and t.blocked_on is self:
                t.state = "runnable"
                t.blocked_on = None
        self.sched.yield_point("set")

    def clear(self):
        self.flag = False

    def wait(self, timeout=None):
        s = self.sched
        s.yield_point("wait")
        if self.flag:
            return True
        if timeout is None:
            while not self.flag:
                s.block(self)
            return True
        return s.timed_wait(self)


class SThreadHandle:
    """Stands in for threading.Thread objects created by Rich (_RefreshThread, _TrackThread)."""

    @staticmethod
    def patch(cls, sched):
        def start(self):
            self._sth = sched.spawn(self.run, cls.__name__)
            sched.yield_point("spawn")

        def join(self, timeout=None):
            t = getattr(self, "_sth", None)
            if t is None:
                return
            sched.yield_point("join")
            while t.state != "done":
                sched.block(t)
        cls.start = start
        cls.join = join


class SFile:
    """Console.file stand-in: every write / flush is logged with the writing thread and is a yield point."""

    def __init__(self, sched, isatty=True):
        self.sched = sched
        self._tty = isatty
        self.chunks = []

    def write(self, s):
        self.sched.yield_point("write")
        me = self.sched.me()
        self.chunks.append((me.tid if me else -1, s))
        self.sched.events.append((me.tid if me else -1, "write", s))
        self.sched.yield_point("written")
        return len(s)

    def flush(self):
        self.sched.yield_point("flush")

    def isatty(self):
        return self._tty

    def getvalue(self):
        return "".join(c for _, c in self.chunks)


# ---- strategies ------------------------------------------------------------------------------

class Replay:
    """Follow a recorded choice list; afterwards continue non-preemptively."""

    def __init__(self, choices):
        self.choices = list(choices)
        self.i = 0

    def choose(self, sched, me, opts, kind):
        if self.i < len(self.choices):
            want = self.choices[self.i]
            self.i += 1
            for t in opts:
                if t.tid == want:
                    return t
        return default_choice(me, opts)


def default_choice(me, opts):
    if me is not None and me in opts:
        return me
    # prefer plainly runnable threads over timed waiters (a timeout fires only when chosen)
    for t in opts:
        if t.state == "runnable":
            return t
    return opts[0]


class RandomStrategy:
    def __init__(self, seed, p=0.15):
        self.rng = random.Random(seed)
        self.p = p

    def choose(self, sched, me, opts, kind):
        if me is not None and me in opts and self.rng.random() >= self.p:
            return me
        return self.rng.choice(opts)


class PCT:
    """Priority-based: random priorities, d priority change points at random steps."""

    def __init__(self, seed, depth=2, est_steps=300):
        self.rng = random.Random(seed)
        self.prio = {}
        self.change = set(self.rng.randrange(1, est_steps) for _ in range(depth))
        self.k = 0

    def choose(self, sched, me, opts, kind):
        self.k += 1
        for t in opts:
            if t.tid not in self.prio:
                self.prio[t.tid] = self.rng.random() + 1.0
        if self.k in self.change and me is not None:
            self.prio[me.tid] = self.rng.random() * 0.5 / (1 + self.k)
        return max(opts, key=lambda t: self.prio[t.tid])


class DFS:
    """Stateless depth-first exploration of schedules with a pre-emption bound.

    Use:  d = DFS(bound);  while d.more(): sched = Scheduler(d.strategy(), ...); run; d.done(sched)
    """

    def __init__(self, bound=1, max_runs=100000, kinds=None):
        self.bound = bound
        self.max_runs = max_runs
        self.kinds = kinds          # if set: only these yield kinds may be pre-empted
        self.prefix = []            # list of option indices to follow
        self.first = True
        self.runs = 0
        self.trail = None

    def more(self):
        return (self.first or self.prefix is not None) and self.runs < self.max_runs

    def strategy(self):
        self.first = False
        self.runs += 1
        self.trail = []             # (nopts, chosen_index, default_index, preempt_allowed)
        return _DFSRun(self)

    def done(self, sched=None):
        # backtrack: find last decision with an untried alternative within the bound
        trail = self.trail
        i = len(trail) - 1
        while i >= 0:
            nopts, chosen, dflt, allowed, counts = trail[i]
            # alternatives are tried in order: default first, then the other indices ascending
            order = [dflt] + [j for j in range(nopts) if j != dflt]
            pos = order.index(chosen)
            pre_before = sum(1 for (n, c, d, a, k) in trail[:i] if c != d and k)
            if pos + 1 < len(order) and allowed and (not counts or pre_before + 1 <= self.bound):
                self.prefix = [c for (_, c, _, _, _) in trail[:i]] + [order[pos + 1]]
                return
            i -= 1
        self.prefix = None


class _DFSRun:
    def __init__(self, dfs):
        self.dfs = dfs
        self.i = 0

    def choose(self, sched, me, opts, kind):
        dflt_t = default_choice(me, opts)
        dflt = opts.index(dflt_t)
        if len(opts) <= 1:
            return dflt_t
        # a forced switch (me not runnable) is not a pre-emption: all options are free
        forced = me is None or me not in opts
        allowed = True if forced else (self.dfs.kinds is None or kind in self.dfs.kinds)
        if self.i < len(self.dfs.prefix):
            c = self.dfs.prefix[self.i]
            if c >= len(opts):
                c = dflt
        else:
            c = dflt
        self.i += 1
        # forced choices (current thread cannot continue) do not count against the bound
        self.dfs.trail.append((len(opts), c, dflt, allowed, not forced))
        return opts[c]
