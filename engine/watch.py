"""CPU-time watchdog around calls into Rich.  A change under test can make a call loop or allocate for ever;
the driver turns that into an observation ("no-termination") that TLC judges, instead of the check hanging or
being killed.  ITIMER_VIRTUAL counts this process's CPU time, so machine load cannot trigger it.  Main thread only."""
import contextlib
import signal


class Hang(Exception):
    pass


def _on_alarm(signum, frame):
    raise Hang()


@contextlib.contextmanager
def cpu_deadline(seconds=5.0):
    old = signal.signal(signal.SIGVTALRM, _on_alarm)
    signal.setitimer(signal.ITIMER_VIRTUAL, seconds)
    try:
        yield
    finally:
        signal.setitimer(signal.ITIMER_VIRTUAL, 0)
        signal.signal(signal.SIGVTALRM, old)
