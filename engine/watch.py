"""CPU-time watchdogs around calls into Rich.  A change under test can make a call loop or allocate for ever;
the drivers turn that into an observation that TLC judges ("no-termination" / "Hang"), instead of the check
hanging or being killed.  ITIMER_VIRTUAL counts this process's own CPU time, so machine load (or waiting for a
TLC child) cannot trigger it.  Signals are delivered to the main thread only; the thread-based drivers
(C10-C12) have their own budget in engine/dsched.py.

  cpu_deadline(s)   explicit deadline around one call (used where a driver wants a tight bound)
  install_global()  safety net for every driver: a repeating tick; when the OUTERMOST frame that executes code
                    of the Rich tree is the same frame object at three consecutive ticks (>= 2 ticks of CPU inside
                    one call into Rich; real calls take milliseconds), Hang is raised inside that call."""
import atexit
import contextlib
import signal
import threading


class Hang(Exception):
    pass


_G = dict(root=None, tick=0.0, last=None, count=0, raised=0, on_limit=None)
FAST_TICK = 3.0     # after the first hang the tree under test is known to be faulty: later hangs are cut short
LIMIT = 6           # after that many hangs the run is ended through on_limit (harness: VIOLATION no-termination)


def _outermost_rich_frame(frame):
    found = None
    while frame is not None:
        if frame.f_code.co_filename.startswith(_G["root"]):
            found = frame
        frame = frame.f_back
    return found


def _on_tick(signum, frame):
    f = _outermost_rich_frame(frame)
    if f is None:
        _G["last"], _G["count"] = None, 0
        return
    if _G["last"] is f:
        _G["count"] += 1
    else:
        _G["last"], _G["count"] = f, 1
    if _G["count"] >= 3:
        _G["last"], _G["count"] = None, 0
        _G["raised"] += 1
        where = "%s:%d in %s" % (f.f_code.co_filename[len(_G["root"]):], f.f_lineno, f.f_code.co_name)
        msg = "one call into Rich used more than %.0f s of CPU (rich/%s)" % (2 * _G["tick"], where)
        if _G["raised"] == 1 and _G["tick"] > FAST_TICK:
            _G["tick"] = FAST_TICK
            signal.setitimer(signal.ITIMER_VIRTUAL, FAST_TICK, FAST_TICK)
        if _G["raised"] >= LIMIT and _G["on_limit"] is not None:
            _G["on_limit"](where, msg)
        raise Hang(msg)


def install_global(rich_root, tick=20.0):
    if threading.current_thread() is not threading.main_thread():
        return
    _G.update(root=rich_root.rstrip("/") + "/", tick=tick, last=None, count=0)
    signal.signal(signal.SIGVTALRM, _on_tick)
    signal.setitimer(signal.ITIMER_VIRTUAL, tick, tick)
    atexit.register(disarm)      # before the interpreter restores the default dispositions: a late tick would kill the process


def disarm():
    """stop the tick (called at exit, and by ./check as soon as the verdict is known)"""
    try:
        signal.setitimer(signal.ITIMER_VIRTUAL, 0)
        signal.signal(signal.SIGVTALRM, signal.SIG_IGN)
    except (ValueError, OSError):
        pass


def _on_alarm(signum, frame):
    raise Hang()


@contextlib.contextmanager
def cpu_deadline(seconds=5.0):
    old = signal.signal(signal.SIGVTALRM, _on_alarm)
    prev = signal.setitimer(signal.ITIMER_VIRTUAL, seconds)
    try:
        yield
    finally:
        signal.setitimer(signal.ITIMER_VIRTUAL, 0)
        signal.signal(signal.SIGVTALRM, old)
        if prev[0] > 0 or prev[1] > 0:          # re-arm the global tick
            signal.setitimer(signal.ITIMER_VIRTUAL, prev[1] or prev[0], prev[1])
