"""Run-time instrumentation of the tree under test for dsched runs (no source hooks):
substitutes the lock / event / thread names that rich.live, rich.progress and rich.console look
up at call time, for the duration of one scheduled execution."""
import threading
import types

from . import dsched


class Patched:
    def __init__(self, sched):
        self.sched = sched
        self.saved = []

    def _set(self, obj, name, val):
        self.saved.append((obj, name, getattr(obj, name)))
        setattr(obj, name, val)

    def __enter__(self):
        import rich.console, rich.live, rich.progress
        s = self.sched
        shim = types.SimpleNamespace(**{k: getattr(threading, k) for k in dir(threading) if not k.startswith("__")})
        shim.RLock = lambda: s.RLock("console")
        shim.Lock = lambda: s.RLock("console")
        self._set(rich.console, "threading", shim)
        for mod in (rich.live, rich.progress):
            self._set(mod, "RLock", lambda m=mod: s.RLock(m.__name__.split(".")[-1]))
            self._set(mod, "Event", s.Event)
        for cls in (rich.live._RefreshThread, rich.progress._RefreshThread, rich.progress._TrackThread):
            self.saved.append((cls, "start", cls.__dict__.get("start", _MISSING)))
            self.saved.append((cls, "join", cls.__dict__.get("join", _MISSING)))
            dsched.SThreadHandle.patch(cls, s)
        return self

    def __exit__(self, *a):
        for obj, name, val in reversed(self.saved):
            if val is _MISSING:
                try:
                    delattr(obj, name)
                except AttributeError:
                    pass
            else:
                setattr(obj, name, val)
        self.saved = []


_MISSING = object()
