#!/bin/sh
# Offline setup: nothing to build; verify the tools and that every specification parses.
set -e
cd "$(dirname "$0")"
command -v java >/dev/null
test -f /opt/veriftools/tla/tla2tools.jar
/venv/bin/python -c "import sys; sys.path.insert(0,'/repo'); import rich"
mkdir -p .work evidence replays
rm -rf .work/*
fail=0
for f in specs/MC_*.tla specs/Trace_*.tla; do
  [ -f "$f" ] || continue
  ( cd specs && java -cp /opt/veriftools/tla/tla2tools.jar:/opt/veriftools/tla/CommunityModules-deps.jar tla2sany.SANY "$(basename "$f")" >/tmp/sany.$$ 2>&1 ) || { cat /tmp/sany.$$; fail=1; }
  if grep -q "Semantic errors\|Parse Error\|Fatal errors" /tmp/sany.$$; then echo "SANY: $f"; cat /tmp/sany.$$; fail=1; fi
done
rm -f /tmp/sany.$$
exit $fail
