#!/bin/sh
# Offline setup: nothing to build; verify the tools and that every specification parses.
cd "$(dirname "$0")"
command -v java >/dev/null || { echo "no java"; exit 1; }
test -f /opt/veriftools/tla/tla2tools.jar || { echo "no tla2tools"; exit 1; }
/venv/bin/python -c "import sys; sys.path.insert(0,'/repo'); import rich" || exit 1
mkdir -p .work evidence replays
fail=0
for f in specs/MC_*.tla specs/Trace_*.tla; do
  [ -f "$f" ] || continue
  out=$(cd specs && java -cp /opt/veriftools/tla/tla2tools.jar:/opt/veriftools/tla/CommunityModules-deps.jar tla2sany.SANY "$(basename "$f")" 2>&1)
  if echo "$out" | grep -q "Semantic errors\|Parse Error\|Fatal errors\|Could not"; then
    echo "SANY: $f"; echo "$out" | grep -m1 -A6 "Errors\|Parse Error\|Fatal\|Could not"; fail=1
  fi
done
[ $fail = 0 ] || echo "WARNING: some specifications do not parse (their checks will report a machinery failure)"
exit 0
