"""X01 (beyond the listed properties, DESIGN.md §14): the ask loop of rich.prompt against specs/Prompt.tla.
M1 MC_Prompt (design satisfies the property part for every stream of <= 3 responses), M2 instances emitted by TLC
+ seeded random instances run on the real Prompt / IntPrompt / Confirm with a stream, M3 Trace_Prompt judges every run.
Not registered in MANIFEST.json (no listed property is decided here); evidence goes to evidence_extra/X01.json."""
import io, json, os, re
from engine import tlc
from engine.harness import Check

QUESTION = "Q?"
ALPHABET = [32, 49, 50, 45, 121, 110, 89, 97]
CHOICES = [[[49], [97]], [[49, 50], [45, 49]]]
class _DS(str):
    pass
class _DI(int):
    pass
# defaults recognisable by identity; Confirm gets a non-bool object (bool cannot be subclassed), which the prompt does not display
DEFAULTS = {"str": _DS("dflt"), "int": _DI(7), "confirm": _DI(1)}


def s(cps):
    return "".join(map(chr, cps))


def project(out, errs):
    """Lexical tokeniser of what the console showed: prompt tokens (with what they display) and error lines."""
    shown, parts, pos = [], [], 0
    rx_prompt = re.compile(re.escape(QUESTION) + r"( \[[^\]\n]*\])?( \([^)\n]*\))?: ")
    while pos < len(out):
        m = rx_prompt.match(out, pos)
        if m:
            shown.append("prompt"); parts.append(dict(choices=m.group(1) is not None, default=m.group(2) is not None)); pos = m.end(); continue
        for kind, text in errs:
            if out.startswith(text + "\n", pos):
                shown.append(kind); pos += len(text) + 1; break
        else:
            shown.append("other"); nl = out.find("\n", pos); pos = len(out) if nl < 0 else nl + 1
    return shown, parts


def run_one(case):
    from rich.console import Console
    from rich.prompt import Prompt, IntPrompt, Confirm
    from rich.text import Text
    cfg = case["cfg"]
    cls = dict(str=Prompt, int=IntPrompt, confirm=Confirm)[cfg["kind"]]
    console = Console(file=io.StringIO(), width=200, color_system=None, force_terminal=False, legacy_windows=False)
    stream = io.StringIO("".join(s(l) for l in case["lines"]))
    kw = dict(console=console, stream=stream, show_default=cfg["show_default"], show_choices=cfg["show_choices"])
    if cfg["haschoices"]:
        kw["choices"] = [s(c) for c in cfg["choices"]]
    if cfg["hasdefault"]:
        kw["default"] = DEFAULTS[cfg["kind"]]
    errs = [("choice", Text.from_markup(cls.illegal_choice_message).plain), ("validate", Text.from_markup(cls.validate_error_message).plain)]
    res, exc, returned = dict(t="none", s=[], n=0), "none", False
    # a stream that ends without an acceptable response and without a default makes the real loop spin on "" for ever
    # (documented use is interactive); such instances are outside the quantifier and are cut off by the read budget
    budget = [len(case["lines"]) + 1]
    real_readline = stream.readline
    class Stop(Exception):
        pass
    def readline(*a):
        if budget[0] == 0:
            raise Stop()
        budget[0] -= 1
        return real_readline(*a)
    stream.readline = readline
    try:
        if case.get("route") == "call":
            p = cls(QUESTION, **{k: v for k, v in kw.items() if k in ("console", "choices", "show_default", "show_choices")})
            v = p(stream=stream, **({"default": kw["default"]} if "default" in kw else {}))
        else:
            v = cls.ask(QUESTION, **kw)
        returned = True
        if cfg["hasdefault"] and v is DEFAULTS[cfg["kind"]]:
            res = dict(t="default", s=[], n=0)
        elif isinstance(v, bool):
            res = dict(t="bool", s=[], n=1 if v else 0)
        elif isinstance(v, int):
            res = dict(t="int", s=[], n=v) if abs(v) < 2 ** 30 else dict(t="int", s=[], n=2 ** 30)
        elif isinstance(v, str):
            res = dict(t="str", s=[ord(c) for c in v], n=0)
        else:
            res = dict(t="other", s=[], n=0)
    except Stop:
        returned = False
    except Exception as e:               # observation for TLC, not a driver crash
        exc = type(e).__name__
    shown, parts = project(console.file.getvalue(), errs)
    return dict(cfg=cfg, lines=case["lines"], shown=shown, parts=parts, res=res, returned=returned, exc=exc)


def run(chk):
    chk.level = "model_checking"
    r, cov, missing = tlc.model_check("MC_Prompt", cfg="MC_Prompt", require_actions=["Respond", "EndOfInput"])
    chk.add_tlc(r, "M1")
    if r.violated:
        raise tlc.TLCFailure("MC_Prompt: the ask-loop design violates its own property part:\n" + r.out[-1500:])
    cfg_text = open(os.path.join(tlc.SPECS, "MC_Prompt.cfg")).read().replace("GenDepth = 0", "GenDepth = 2").replace("MaxLines = 3", "MaxLines = 2")
    behs, r2 = tlc.behaviours("MC_Prompt", cfg_text=cfg_text, workers=4)
    chk.add_tlc(r2, "M2")
    cases = [dict(cfg=dict(b["beh"]["cfg"], default_typed=b["beh"]["cfg"]["kind"] != "confirm"), lines=b["beh"]["lines"]) for b in behs]
    cases = chk.rng.sample(cases, min(len(cases), chk.pick(3000, 20000)))
    rng = chk.rng
    for _ in range(chk.pick(3000, 30000)):
        kind = rng.choice(["str", "int", "confirm"])
        hc = kind != "confirm" and rng.random() < 0.5
        cfg = dict(kind=kind, haschoices=hc, choices=rng.choice(CHOICES), hasdefault=rng.random() < 0.5,
                   show_default=rng.random() < 0.7, show_choices=rng.random() < 0.7, default_typed=kind != "confirm")
        good = {"str": ["1", "a", "12", "-1"], "int": ["1", "12", "-1", " 2 ", "+1"], "confirm": ["y", "n", "Y", " N "]}[kind]
        lines = []
        for _ in range(rng.randint(0, 5)):
            if rng.random() < 0.35:
                w = [ord(c) for c in rng.choice(good)]
            else:
                w = [rng.choice(ALPHABET + [9, 43, 78]) for _ in range(rng.randint(0, 4))]
            lines.append(w + [10])
        if rng.random() < 0.15 and lines:
            lines[-1] = lines[-1][:-1] or [49]          # last line without a newline
        cases.append(dict(cfg=cfg, lines=lines, route=rng.choice(["ask", "call"])))
    if chk.replay_only:
        cases = [chk.replay_only["case"]]
    recs = []
    for c in cases:
        recs.append(run_one(c))
    verdicts, stats = tlc.judge("Trace_Prompt", recs)
    chk.add_tlc(stats, "M3"); chk.traces += len(recs)
    for c, rec, v in zip(cases, recs, verdicts):
        key = (rec["cfg"]["kind"], rec["cfg"]["haschoices"], rec["cfg"]["hasdefault"], tuple(rec["shown"]), rec["res"]["t"])
        chk.case(key, len(rec["shown"]) > 1)
        if len(chk.samples) < 5:
            chk.sample(dict(cfg=rec["cfg"], lines=[s(l) for l in rec["lines"]], shown=rec["shown"], res=rec["res"], verdict=v))
        if v != "ok":
            chk.reject("%s kind=%s choices=%s default=%s" % (v, rec["cfg"]["kind"], rec["cfg"]["haschoices"], rec["cfg"]["hasdefault"]),
                       dict(observed=rec), c)
    for d in stats.get("drift", []) if isinstance(stats, dict) else []:
        chk.drift_note(str(d))
    chk.rule = "distinct (kind, choices?, default?, shown sequence, result type); nontrivial = at least one rejected response"
    chk.trusted = "x01.project (regex tokeniser of the console output); result -> record mapping"
