"""C17 - Syntax and tracebacks show the source line for line under the right numbers.

M1  MC_Syntax: exhaustive model of the pipeline of rich/syntax.py (any lexer = any token
    partition) against the property part of Syntax.tla; the fixed design must satisfy it, the
    three "as the code is today" switches must each make TLC exhibit a defect.
M3  Trace_Syntax: real renders of Syntax(...) and Traceback.from_exception(...) of the tree
    under test, projected lexically (gutter number / pointer / code text) and judged by TLC.

Python here only generates inputs, runs Rich, and cuts the printed rows into
(number | none, marker flag, text); every comparison with the source is done by TLC.
"""
import importlib.util
import io
import itertools
import os
import re
import shutil
import sys
import traceback as pytraceback
from concurrent.futures import ThreadPoolExecutor

from engine import tlc
from engine.harness import Check, cps

VERIF = os.path.dirname(os.path.dirname(os.path.abspath(__file__)))
POINTER = "❱ "          # what syntax.py prints in front of a highlighted line number
LEGACY_POINTER = "> "   # ... on a legacy Windows console
ANSI = re.compile(r"\x1b\[[0-9;]*m")


def _gutters(pointer):
    return (re.compile(r"^(?:" + re.escape(pointer) + r"|  )( *)(\d+) "), re.compile(r"^(" + re.escape(pointer) + r"|  )( *)(\d+) $"))


GUTTER1, GUTTER = _gutters(POINTER)
LGUTTER1, LGUTTER = _gutters(LEGACY_POINTER)

LEXERS = ["python", "json", "html", "text", "nosuchlexer"]
# further lexer names (aliases, other capitalisation, lexers with their own newline / whitespace conventions); drawn less often
MORE_LEXERS = ["Python", "py", "python3", "c", "cpp", "yaml", "markdown", "bash", "rst", "xml", "css", "javascript", "sql", "ini",
               "diff", "ruby", "go", "rust", "toml", "docker", "make", "jinja", "html+jinja", "pycon", "console", "php", "tex",
               "default", ""]
THEMES = ["monokai", "ansi_dark", "ansi_light", "default"]
MORE_THEMES = ["vim", "native", "emacs", "bw", "nosuchtheme", "solarized-dark"]
BACKGROUNDS = [None, None, None, "red", "#102030", "rgb(1,2,3)", "default"]
EXTS = [".py", ".json", ".html", ".txt", ".nosuchext", "", ".PY", ".md", ".yaml"]

MC_ACTIONS = ["Expand", "LexKnown", "LexUnknown", "AssembleRanged", "AssembleWhole"]
MC_HEAD = "CONSTANTS\n  Alphabet = {120, 32, 9, 10}\n"
MC_TAIL = "SPECIFICATION Spec\nVIEW View\n%sCHECK_DEADLOCK FALSE\n"
INV_ALL = "INVARIANT AllOk\nINVARIANT TokensSpellText\nINVARIANT ExpectedAccepted\n"
INV_CLAUSES = "INVARIANT NoCrash\nINVARIANT CountRight\nINVARIANT NumbersRight\nINVARIANT TextRight\n"


def mc_cfg(maxlen, maxcuts, tabs, starts, stripnl, guard, suffix, inv):
    b = lambda v: "TRUE" if v else "FALSE"
    return (MC_HEAD + "  MaxLen = %d\n  MaxCuts = %d\n  Tabs = {%s}\n  Starts = {%s}\n" % (
        maxlen, maxcuts, ", ".join(map(str, tabs)), ", ".join(map(str, starts)))
        + "  StripNl = %s\n  GuardSkip = %s\n  SuffixFirst = %s\n" % (b(stripnl), b(guard), b(suffix))
        + MC_TAIL % inv)


# ---------------------------------------------------------------------------------------------
# projection (trusted base)

def need_cells(line):
    """Upper bound of the cell width of a line that does not depend on the tree under test:
    code points below U+0300 are 1 cell, everything else is counted as 2."""
    return sum(1 if ord(c) < 0x300 else 2 for c in line)


def project_rows(row_lines, numbers, legacy=False):
    """Cut printed rows into [hasn, n, m, t].  With numbers the gutter width is taken from the
    first row (pointer or two blanks, right-justified number, one blank) and applied to all."""
    rows, ok = [], True
    G1, G, PTR = (LGUTTER1, LGUTTER, LEGACY_POINTER) if legacy else (GUTTER1, GUTTER, POINTER)
    if not numbers:
        for ln in row_lines:
            rows.append(dict(hasn=False, n=0, m=False, t=cps(ln.rstrip(" "))))
        return rows, ok
    if not row_lines:
        return rows, ok
    m = G1.match(row_lines[0])
    if not m:
        return [dict(hasn=False, n=0, m=False, t=cps(ln.rstrip(" "))) for ln in row_lines], False
    g = m.end()
    for ln in row_lines:
        ln = ln.ljust(g)
        gut, code = ln[:g], ln[g:]
        mm = G.match(gut)
        if mm:
            rows.append(dict(hasn=True, n=int(mm.group(3)), m=mm.group(1) == PTR, t=cps(code.rstrip(" "))))
        elif gut.strip(" ") == "":
            rows.append(dict(hasn=False, n=0, m=False, t=cps(code.rstrip(" "))))
        else:
            ok = False
            rows.append(dict(hasn=False, n=0, m=False, t=cps(ln.rstrip(" "))))
    return rows, ok


def printed_lines(out):
    out = ANSI.sub("", out)
    lines = out.split("\n")
    if lines and lines[-1] == "":
        lines.pop()
    return lines


# ---------------------------------------------------------------------------------------------
# Syntax cases

def gutter_upper(case):
    """upper bound of the gutter width (pointer 2 + digits + blank), independent of the tree under test"""
    if not case["line_numbers"]:
        return 0
    return len(str(case["start_line"] + case["src"].count("\n") + 1)) + 3


def syn_mode(case):
    """exact: every expanded line certainly fits the visible code width; wrap: word_wrap on;
    prefix: word_wrap off and the width may crop the line.  Console.print crops at the console
    width, so the visible code width is min(code_width, console width - gutter)."""
    if case["word_wrap"]:
        return "wrap"
    src, tab = case["src"], case["tab_size"]
    need = max([need_cells(l.expandtabs(tab)) for l in src.split("\n")] or [0])
    visible = case["width"] - gutter_upper(case)
    avail = visible - 1 if case["code_width"] is None else min(case["code_width"], visible)
    return "exact" if need <= avail else "prefix"


def range_kind(case):
    rng = case["line_range"]
    if rng is None:
        return "none"
    pieces = case["src"].split("\n")
    nfull = len(pieces)
    ncore = max([i + 1 for i, p in enumerate(pieces) if p.strip(" \t") != ""] or [0])
    a, b = rng
    if b < a:
        return "empty"
    if b < 1:
        return "before"
    if a > nfull:
        return "beyond"
    if a >= 1 and b <= ncore:
        return "inside"
    if a > ncore:
        return "trailing-blank"
    return "straddle-start" if a < 1 and b <= ncore else "straddle-end"


def sel_ends_blank(case):
    """the last selected existing line is blank and is not one of the blank lines at the very end"""
    rng = case["line_range"]
    if rng is None:
        return False
    pieces = case["src"].split("\n")
    ncore = max([i + 1 for i, p in enumerate(pieces) if p.strip(" \t") != ""] or [0])
    a, b = rng
    return 1 <= b < ncore and b >= a and pieces[b - 1].strip(" \t") == ""


def effective_source(case):
    """dedent=True: "stripping of initial whitespace" is textwrap.dedent applied to the code before anything else -
    the lines the statement speaks of are then the lines of the dedented code"""
    import textwrap
    return textwrap.dedent(case["src"]) if case.get("dedent") else case["src"]


def run_syntax(case, workdir=None):
    """One real render -> record for Trace_Syntax."""
    from rich.console import Console
    from rich.syntax import Syntax
    color = case["color"]
    legacy = bool(case.get("legacy"))
    console = Console(width=case["width"], file=io.StringIO(), color_system=color, force_terminal=color is not None, legacy_windows=legacy)
    exc, out = "none", ""
    eff = dict(case, src=effective_source(case))
    known = case["lexer"] not in ("nosuchlexer", "default", "")
    try:
        kw = dict(theme=case["theme"], line_numbers=case["line_numbers"], start_line=case["start_line"],
                  line_range=tuple(case["line_range"]) if case["line_range"] is not None else None,
                  highlight_lines=set(case["highlight"]), code_width=case["code_width"],
                  tab_size=case["tab_size"], word_wrap=case["word_wrap"], indent_guides=case["indent_guides"])
        if case.get("dedent"):
            kw["dedent"] = True
        if case.get("background") is not None:
            kw["background_color"] = case["background"]
        if case.get("ext") is not None and workdir is not None:
            # Syntax.from_path: the code comes from a file, the lexer from its extension / content
            path = os.path.join(workdir, "c17src%s" % case["ext"])
            with open(path, "w", encoding="utf-8", newline="") as f:
                f.write(case["src"])
            known = case["ext"].lower() in (".py", ".json", ".html", ".md", ".yaml")
            syntax = Syntax.from_path(path, **kw)
        else:
            syntax = Syntax(case["src"], case["lexer"], **kw)
        pk = case.get("print") or {}
        console.print(syntax, **pk)
        out = console.file.getvalue()
    except Exception as e:     # a crash inside Rich is data for TLC
        exc = type(e).__name__
    rows, ok = project_rows(printed_lines(out), case["line_numbers"], legacy) if exc == "none" else ([], True)
    mode = syn_mode(eff)
    guides = bool(case["indent_guides"] and case["line_numbers"])
    plain = case["lexer"] in LEXERS and case.get("ext") is None and not case.get("dedent")
    return dict(kind="syn", src=cps(eff["src"]), tab=case["tab_size"], start=case["start_line"],
                numbers=case["line_numbers"], range=list(case["line_range"]) if case["line_range"] is not None else [],
                hl=sorted(case["highlight"]), mode=mode, guides=guides, known=known,
                conf=(mode == "exact" and not guides and plain), exc=exc, gutter_ok=ok, rows=rows)


def syn_signature(clause, case, rec):
    """failing clause + shape of the input: lexer class, numbering, range class, whether the source starts
    with a newline, whether the range starts after the last non-blank line, whether the selection is empty
    or ends in an interior blank line, guides, mode"""
    pieces = case["src"].split("\n")
    ncore = max([i + 1 for i, p in enumerate(pieces) if p.strip(" \t") != ""] or [0])
    lr = case["line_range"]
    yn = lambda v: "yes" if v else "no"
    if clause == "crash":
        clause = "crash:" + rec["exc"]
    return "%s kind=syn lexer=%s numbers=%s range=%s lead_nl=%s start_beyond=%s sel_empty=%s sel_ends_blank=%s guides=%s mode=%s" % (
        clause, "pygments" if rec["known"] else "unknown", yn(case["line_numbers"]), "none" if lr is None else "given",
        yn(case["src"].startswith("\n")), yn(lr is not None and lr[0] > ncore),
        yn(lr is not None and min(lr[1], len(pieces)) < max(lr[0], 1)), yn(sel_ends_blank(case)),
        yn(rec["guides"]), rec["mode"])


POOLS = {
    "python": ["x = 1", "def f(a):", "    return a + 1", "\tif a:", "\t\treturn '好好'", "# comment  ",
               "s = '''", "'''", "class A:", "    pass", "x=1;y=2", "print('é')  # café",
               "value = some_function(argument_one, argument_two, argument_three) + another_call(x)",
               "    \tmixed = [1,\t2]", "lambda: (yield)", "@decorator", "        deep = {'k': [1, 2, 3]}"],
    "json": ["{", '  "a": [1, 2, 3],', '\t"b": "文字",', "}", '  "nested": {"x": null, "y": true},', "[", "]",
             '    "long": "' + "abc " * 12 + '"'],
    "html": ["<html>", "  <body class='x'>", "\t<p>日本語</p>", "<script>var a = 1;</script>", "</html>",
             "<!-- c -->", "    <div id=\"a\" style=\"color: red\">text &amp; more</div>", "<style>p { color: red }</style>"],
    "misc": ["", " ", "   ", "\t", "x", "  x  ", "\tx\ty", "ａｂ", "a\tb", "1 2 3", "  7", "❱ 1 x", "│ x",
             "word " * 9 + "end", "好" * 14, "    " + "好" * 9 + " tail"],
    # characters str.splitlines() - but neither Python nor Rich - takes for line ends (FF / VT are left out: Text strips them)
    "breaks": ["a = 1  # \x1c fs", "# \x1d\x1e", "s = 'x\x85y'", "t = 'p\u2028q'  # ls", "\u2029", "    u = 1 # \x85", "> quoted", ">"],
}


def random_source(rng):
    pool = POOLS[rng.choice(["python", "python", "json", "html", "misc", "misc"])] + POOLS["misc"][:5]
    if rng.random() < 0.15:
        pool = pool + POOLS["breaks"] * 2
    lead = rng.choice([0, 0, 0, 1, 2, 3])
    body = []
    for _ in range(rng.choice([0, 1, 1, 2, 3, 4, 6, 9])):
        body.append(rng.choice(pool))
        if rng.random() < 0.2:
            body.extend([rng.choice(["", "", "  ", "\t"])] * rng.choice([1, 1, 2]))
    trail = rng.choice(["", "", "\n", "\n", "\n\n", "\n\n\n", "\n  \n", "  ", "\n\t"])
    if rng.random() < 0.12:          # an indented block (what dedent is for)
        ind = rng.choice(["    ", "  ", "\t", "        "])
        body = [ind + l if l.strip() else l for l in body]
    return "\n" * lead + "\n".join(body) + trail


def random_options(rng, src):
    pieces = src.split("\n")
    n = len(pieces)
    numbers = rng.random() < 0.75
    start = rng.choice([1, 1, 1, 0, 2, 10, 98, 999])
    # (without line numbers a range is given less often: the statement then only demands a run of unchanged source lines)
    rng_kind = rng.choice(["none", "none", "inside", "inside", "start", "end", "beyond", "empty", "zero"]) if numbers or rng.random() < 0.3 else "none"
    if rng_kind == "none":
        lr = None
    elif rng_kind == "inside":
        a = rng.randint(1, n)
        lr = (a, rng.randint(a, n))
    elif rng_kind == "start":
        lr = (rng.randint(-3, 0), rng.randint(1, n + 1))
    elif rng_kind == "end":
        lr = (rng.randint(1, n), n + rng.randint(1, 4))
    elif rng_kind == "beyond":
        lr = (n + rng.randint(1, 3), n + rng.randint(3, 6))
    elif rng_kind == "empty":
        lr = (rng.randint(2, n + 2), rng.randint(0, 1))
    else:
        lr = (0, 0)
    tab = rng.choice([4, 4, 4, 2, 8, 3, 1])
    word_wrap = rng.random() < 0.3
    need = max(need_cells(p.expandtabs(tab)) for p in pieces)
    wclass = rng.choice(["wide", "wide", "wide", "narrow", "cw-wide", "cw-narrow"])
    code_width = None
    gut = len(str(start + n + 1)) + 3
    if wclass == "wide":
        width = need + 12 + rng.randint(0, 30)
    elif wclass == "narrow":
        width = rng.randint(16, 34)
    elif wclass == "cw-wide":
        code_width = max(1, need + rng.randint(0, 10))
        width = code_width + gut + rng.choice([0, 1, 14, 40])
    else:
        code_width = rng.randint(4, 14)
        width = code_width + gut + rng.choice([0, 3, 20, 60])
    shown = [start + i for i in range(n)]
    highlight = sorted(set(rng.sample(shown, min(len(shown), rng.choice([0, 0, 1, 2]))) + ([start + n + 5] if rng.random() < 0.1 else [])))
    opts = dict(line_numbers=numbers, start_line=start, line_range=lr, tab_size=tab, word_wrap=word_wrap,
                code_width=code_width, width=max(width, 16), highlight=highlight,
                indent_guides=rng.random() < 0.3, theme=rng.choice(THEMES + THEMES + MORE_THEMES),
                color=rng.choice([None, None, None, "truecolor", "truecolor", "256", "standard"]))
    if rng.random() < 0.15:
        opts["dedent"] = True
    if rng.random() < 0.2:
        opts["background"] = rng.choice(BACKGROUNDS)
    if rng.random() < 0.12:
        opts["legacy"] = True
    if rng.random() < 0.15:
        opts["ext"] = rng.choice(EXTS)
    return opts


def enumerated_cases(chk):
    """every source of <= L characters over {x, space, tab, newline} x lexers x numbering/ranges"""
    L = chk.pick(3, 4)
    lexers = chk.pick(["python", "text", "nosuchlexer"], LEXERS)
    variants = [dict(line_numbers=False, line_range=None, start_line=1),
                dict(line_numbers=True, line_range=None, start_line=1),
                dict(line_numbers=True, line_range=None, start_line=9),
                dict(line_numbers=True, line_range=(2, 3), start_line=1),
                dict(line_numbers=True, line_range=(1, 1), start_line=5),
                dict(line_numbers=True, line_range=(0, 2), start_line=1),
                dict(line_numbers=True, line_range=(2, 9), start_line=1),
                dict(line_numbers=True, line_range=(7, 9), start_line=1)]
    if not chk.thorough:
        variants = variants[:2] + variants[3:4] + variants[6:]
    out = []
    for n in range(L + 1):
        for tup in itertools.product("x \t\n", repeat=n):
            src = "".join(tup)
            for lx in lexers:
                for v in variants:
                    out.append(dict(src=src, lexer=lx, tab_size=4, word_wrap=False, code_width=None, width=40,
                                    highlight=[], indent_guides=False, theme="monokai", color=None, **v))
    return out


STRUCTURED = ["\n\nx = 1", "\nx\n\ny\n", "x = 1\n\n\n", "a\n\nc\nd", "\n\n\ndef f():\n\treturn 1\n\n\n\nf()\n",
              "", "\n", "\n\n\n", "  \n\t\n", "x", "x\n", "\tx\n\t\ty\n  z", "{\n\n\t\"a\": 1\n}\n", "<p>\n\n</p>",
              "a\nb\nc\nd\ne\nf\ng\nh\ni\nj\nk\nl", "\n" * 9 + "x\n", "好\n\n好好\n"]


def structured_cases(chk):
    out = []
    for src in STRUCTURED:
        n = len(src.split("\n"))
        for lx in LEXERS:
            for numbers, lr in [(False, None), (True, None), (True, (1, 2)), (True, (2, n)), (True, (n, n + 3)),
                                (True, (-1, 1)), (True, (n + 1, n + 2)), (True, (3, 3))]:
                for guides, wrap in [(False, False), (True, False), (False, True)]:
                    out.append(dict(src=src, lexer=lx, tab_size=4, word_wrap=wrap, code_width=None, width=60,
                                    highlight=[2], indent_guides=guides, theme="ansi_dark", color=None,
                                    line_numbers=numbers, line_range=lr, start_line=1))
    return out


def long_source_cases(chk):
    """files of several hundred lines (what a traceback frame deep in a module shows): ranges inside, straddling the end and wholly
    beyond it, far from line 1 - code that treats "a range deep in a big file" specially lives here"""
    out = []
    for n in chk.pick([530, 640], [530, 640, 1100]):
        for final_nl in (False, True):
            src = "\n".join("v%d = %d" % (i, i) for i in range(1, n + 1)) + ("\n" if final_nl else "")
            for lx in ("python", "text"):
                for lr in [(n + 40, n + 50), (n - 1, n + 6), (n - 12, n - 9), (520, 523), (1, 2)]:
                    out.append(dict(src=src, lexer=lx, tab_size=4, word_wrap=False, code_width=None, width=60, highlight=[], indent_guides=False,
                                    theme="ansi_dark", color=None, line_numbers=True, line_range=lr, start_line=1))
    return out


# ---------------------------------------------------------------------------------------------
# Traceback cases: generated modules that raise at a chosen line

def filler(rng, k, wide=False):
    out = []
    for i in range(k):
        c = rng.randint(0, 5)
        out.append(["v%d = %d" % (i, i), "# filler %d" % i, "", "w%d = 'text %d'" % (i, i),
                    "# 注釈 %d" % i if wide else "# note %d" % i, "t%d = (%d, %d)" % (i, i, i + 1)][c])
    return out


def gen_tb_case(rng, idx):
    """-> dict(files={modname: text}, entry=[modname, funcname|None], shape=..)"""
    shape = rng.choice(["func", "func", "module-first", "module-last", "multi", "cross", "long", "chain",
                        "import-chain", "tabs", "longline", "formfeed", "context", "from-none", "recursion", "names",
                        "syntax-error", "exec", "deleted"])
    delete = []
    wide_window = None
    lead = rng.choice([0, 0, 1, 3, 5, 12])
    a = "c17m%d_a" % idx
    b = "c17m%d_b" % idx
    head = [""] * lead
    files, entry = {}, [a, "run"]
    if shape == "func":
        body = head + filler(rng, rng.randint(0, 4)) + ["def run():", "    x = 1", "", "    raise ValueError('boom')", "    return x"] + filler(rng, rng.randint(0, 5))
        files[a] = "\n".join(body) + rng.choice(["\n", "", "\n\n\n"])
    elif shape == "module-first":
        files[a] = "\n" * lead + "raise ValueError('first')" + rng.choice(["", "\n", "\nx = 1\ny = 2\n"])
        entry = [a, None]
    elif shape == "module-last":
        body = head + filler(rng, rng.randint(1, 8)) + ["raise ValueError('last')"]
        files[a] = "\n".join(body) + rng.choice(["", "\n"])
        entry = [a, None]
    elif shape == "multi":
        body = head + ["def h(v):", "\traise KeyError(v)", "", "", "def g(v):", "    if v:", "        return h(v)  # 呼び出し", "",
                       "def run():"] + ["    pass"] * rng.randint(0, 3) + ["    return g('k')"]
        files[a] = "\n".join(body) + "\n"
    elif shape == "cross":
        files[b] = "\n".join([""] * rng.choice([0, 2, 4]) + ["def inner(n):", "    return 1 // n"]) + rng.choice(["", "\n"])
        files[a] = "\n".join(head + ["import %s" % b, "", "def run():", "    return %s.inner(0)" % b]) + "\n"
    elif shape == "long":
        pre = filler(rng, rng.randint(100, 420), wide=True)
        body = head + pre + ["def run():", "    items = [1, 2, 3]", "    return items[7]"] + filler(rng, rng.randint(0, 30))
        files[a] = "\n".join(body) + "\n"
    elif shape == "chain":
        body = head + ["def inner():", "    raise ValueError('inner')", "", "def run():", "    try:", "        inner()",
                       "    except ValueError as e:", "", "        raise RuntimeError('outer') from e"]
        files[a] = "\n".join(body) + "\n"
    elif shape == "import-chain":
        files[b] = "\n" * rng.choice([0, 1, 3]) + "x = 1\nraise ImportError('inner module')\n"
        files[a] = "\n".join(head + ["y = 2", "import %s" % b]) + "\n"
        entry = [a, None]
    elif shape == "formfeed":
        # page breaks (and other characters str.splitlines() - but not Python - treats as line ends) well
        # above the failing line, outside the displayed window
        sep = rng.choice(["\x0c", "\x0c", "# \x0b", "# \x1c", "# \u2028", "# \x85"])
        wide_window = rng.random() < 0.4
        if wide_window:       # the window will show these lines: only separators Text does not strip from what it displays
            sep = rng.choice(["# \x1c", "# \u2028", "# \x85", "\x1d", "s = 'a\u2029b'"])
        body = head + ["# page one", sep, "A = 1", sep] + filler(rng, rng.randint(8, 14)) + ["def run():", "    return A // 0"] + filler(rng, rng.randint(0, 3))
        files[a] = "\n".join(body) + "\n"
    elif shape == "context":          # implicit chaining: an exception raised while another one is handled
        body = head + ["def inner():", "    return {}['k']", "", "def run():", "    try:", "        inner()",
                       "    except KeyError:", "        return int('x')  # 二つ目"] + filler(rng, rng.randint(0, 3))
        files[a] = "\n".join(body) + "\n"
    elif shape == "from-none":        # `from None` suppresses the context: one stack only
        body = head + ["def inner():", "    raise KeyError('k')", "", "def run():", "    try:", "        inner()",
                       "    except KeyError:", "        raise ValueError('clean') from None"]
        files[a] = "\n".join(body) + "\n"
    elif shape == "recursion":        # the same line in several frames
        body = head + filler(rng, rng.randint(0, 3)) + ["def down(n):", "    if n == 0:", "        raise RuntimeError('bottom')",
                                                         "    return down(n - 1) + 1", "", "def run():", "    return down(%d)" % rng.randint(1, 6)]
        files[a] = "\n".join(body) + "\n"
    elif shape == "names":            # frames of a lambda, a method, a nested function, a class body
        kind = rng.choice(["lambda", "method", "nested", "classbody"])
        if kind == "lambda":
            body = head + ["f = lambda d: d['missing']", "", "def run():", "    return f({})"]
        elif kind == "method":
            body = head + ["class K:", "    def m(self, x):", "", "        return x.nope", "", "def run():", "    return K().m(1)"]
        elif kind == "nested":
            body = head + ["def run():", "    def inner(v):", "        return v[3]", "    return inner(())"]
        else:
            body = head + ["def run():", "    class C:", "        a = 1", "        b = a // 0", "    return C"]
        files[a] = "\n".join(body) + "\n"
    elif shape == "syntax-error":     # the imported module does not compile: frames of the importer + Rich's syntax error panel
        files[b] = "\n".join([""] * rng.choice([0, 2]) + ["x = 1", rng.choice(["def broken(:", "y = (1,", "    indented = 1", "z = 1 +"]), "w = 2"]) + "\n"
        if rng.random() < 0.5:
            files[a] = "\n".join(head + ["v = 0", "import %s" % b]) + "\n"
            entry = [a, None]
        else:
            files[a] = "\n".join(head + ["def run():", "    import %s" % b, "    return 1"]) + "\n"
    elif shape == "exec":             # a frame without a source file (compiled from a string) between two frames with one
        files[a] = "\n".join(head + ["SRC = 'def call(f):\\n    return f()\\n'", "", "def inner():", "    return [][1]", "",
                                     "def run():", "    ns = {}", "    exec(compile(SRC, '<generated>', 'exec'), ns)",
                                     "    return ns['call'](inner)"]) + "\n"
    elif shape == "deleted":          # a frame whose file is gone when the traceback is rendered, between readable frames
        files[b] = "\n".join([""] * rng.choice([0, 3]) + ["def middle(f):", "    return f(0)"]) + "\n"
        files[a] = "\n".join(head + ["import %s" % b, "", "def last(n):", "    return 1 % n", "", "def run():", "    return %s.middle(last)" % b]) + "\n"
        delete = [b]
    elif shape == "tabs":
        body = head + ["def run():", "\tfor i in range(3):", "\t\tif i == 2:", "\t\t\traise IndexError(i)", "\t\tj = i", "\treturn j"]
        files[a] = "\n".join(body) + "\n"
    else:
        long_expr = " + ".join(["'segment%02d'" % i for i in range(12)])
        body = head + ["def run():", "    text = " + long_expr + "  # 長い", "    return text + 1"]
        files[a] = "\n".join(body) + "\n"
    width = rng.choice([100, 100, 100, None, 60, 130])
    word_wrap = rng.random() < 0.3 and width != 60
    # the public ways to a rendered traceback: Traceback.from_exception(...), Console.print_exception(...) and Traceback() inside
    # the except block (both start at the handler: the driver's own frames come first), Traceback.extract + Traceback(trace, ...)
    api = rng.choice(["from_exception", "from_exception", "print_exception", "ctor", "extract"])
    return dict(files=files, entry=entry, shape=shape, api=api, delete=delete, width=width, console_width=rng.choice([120, 120, 100, 140]),
                extra_lines=rng.choice([3, 3, 0, 1, 5]) if wide_window is False else rng.choice([12, 40]) if wide_window else rng.choice([3, 3, 0, 1, 5, 12, 40]),
                word_wrap=word_wrap, indent_guides=rng.random() < 0.7,
                theme=rng.choice([None, "monokai", "ansi_light"]),
                # locals are only asked for where the panel is too narrow to put them beside the code
                show_locals=rng.random() < 0.1 and (width or 999) <= 100,
                color=rng.choice([None, None, "truecolor"]))


def exception_chain(ev):
    """the stacks in the order Rich prints them (innermost cause first) - Python's own links"""
    chain, seen = [], set()
    while ev is not None and id(ev) not in seen:
        seen.add(id(ev))
        chain.append(ev)
        nxt = ev.__cause__
        if nxt is None and not ev.__suppress_context__:
            nxt = ev.__context__
        ev = nxt
    return list(reversed(chain))


def project_traceback(out, paths):
    """-> list of rendered frames [dict(path, hdr_lineno, lines=[code row strings])] in print order"""
    hdr = re.compile(r"^(" + "|".join(re.escape(p) for p in sorted(paths, key=len, reverse=True)) + r"):(\d+) in (\S+)\s*$")
    # the header of any frame - also of one without a file ("<string>:1 in <module>"), which follows the previous frame's code
    # without a blank row; code rows start with the gutter (blank or pointer), headers do not
    anyhdr = re.compile(r"^[^\s" + POINTER[0] + r"].*:(\d+) in (\S+)\s*$")
    frames, cur, state = [], None, None
    for ln in printed_lines(out):
        if not (len(ln) >= 4 and ln[0] == "│" and ln[-1] == "│"):
            cur = None
            continue
        inner = ln[2:-2]
        m = hdr.match(inner)
        if not m and anyhdr.match(inner):
            cur = None
            continue
        if m:
            cur = dict(path=m.group(1), hdr_lineno=int(m.group(2)), lines=[])
            frames.append(cur)
            state = "hdr"
            continue
        if cur is None:
            continue
        if inner.strip(" ") == "":
            if state == "hdr":
                state = "code"
            elif cur["lines"]:
                cur = None
            continue
        if state == "code" and not inner.lstrip(" ").startswith(("╭", "╰")):
            cur["lines"].append(inner)
        else:
            cur = None
    return frames


def run_traceback(case, workdir):
    """Write the modules, import, raise, render; -> list of per-frame records"""
    from rich.console import Console
    from rich.traceback import Traceback
    paths = {}
    os.makedirs(workdir, exist_ok=True)       # .work is shared: another check may have swept it
    for name, text in case["files"].items():
        p = os.path.join(workdir, name + ".py")
        with open(p, "w", encoding="utf-8", newline="") as f:
            f.write(text)
        paths[p] = text
    gone = {os.path.join(workdir, name + ".py") for name in case.get("delete", [])}
    api = case.get("api", "from_exception")
    truecolor = case["color"] == "truecolor"
    console = Console(width=case["console_width"], file=io.StringIO(), color_system="truecolor" if truecolor else None,
                      force_terminal=truecolor, legacy_windows=False)
    opts = dict(width=case["width"], extra_lines=case["extra_lines"], theme=case["theme"], word_wrap=case["word_wrap"])
    show_locals = bool(case["show_locals"]) and api in ("from_exception", "extract")
    state = dict(exc="none", out="", rendered=False)

    def render(make):
        """make() -> renderable or None (already printed)"""
        for g in gone:                                   # the file disappears between the failure and the report
            if os.path.exists(g):
                os.remove(g)
        try:
            r = make()
            if r is not None:
                console.print(r)
            state["out"] = console.file.getvalue()
        except Exception as e:
            state["exc"] = type(e).__name__
        state["rendered"] = True

    et = ev = tb = None
    old_flag = sys.dont_write_bytecode
    sys.dont_write_bytecode = True
    sys.path.insert(0, workdir)
    try:
        try:
            modname, func = case["entry"]
            importlib.invalidate_caches()
            spec = importlib.util.spec_from_file_location(modname, os.path.join(workdir, modname + ".py"))
            mod = importlib.util.module_from_spec(spec)
            spec.loader.exec_module(mod)
            if func:
                getattr(mod, func)()
        except Exception:
            et, ev, tb = sys.exc_info()
            # the entry points that read sys.exc_info() have to be called while the exception is being handled
            if api == "print_exception":
                render(lambda: console.print_exception(**opts))
            elif api == "ctor":
                render(lambda: Traceback(indent_guides=case["indent_guides"], **opts))
    finally:
        sys.path.remove(workdir)
        sys.dont_write_bytecode = old_flag
        for name in case["files"]:
            sys.modules.pop(name, None)
    if ev is None:
        raise RuntimeError("generated module did not raise: %r" % (case["entry"],))
    tb0 = tb
    while tb is not None and tb.tb_frame.f_code.co_filename not in paths:
        tb = tb.tb_next
    if tb is None:            # no frame of a generated file in the outermost stack (cannot happen with the shapes above)
        tb = tb0
    # ground truth: Python's own traceback links and line numbers
    expected = []
    for e in exception_chain(ev):
        t = tb if e is ev else e.__traceback__
        for fr, lineno in pytraceback.walk_tb(t):
            fn = fr.f_code.co_filename
            if fn in paths:
                expected.append((fn, lineno))
    if not state["rendered"]:
        if api == "extract":
            render(lambda: Traceback(Traceback.extract(et, ev, tb, show_locals=show_locals), show_locals=show_locals,
                                     indent_guides=case["indent_guides"], **opts))
        else:
            render(lambda: Traceback.from_exception(et, ev, tb, show_locals=show_locals, indent_guides=case["indent_guides"], **opts))
    exc, out = state["exc"], state["out"]
    guides = bool(case["indent_guides"]) if api != "print_exception" else True      # print_exception has no such option: the default is on
    rendered = project_traceback(out, paths) if exc == "none" else []
    eff_width = min(case["width"] or case["console_width"], case["console_width"])
    recs = []
    for i, (fn, lineno) in enumerate(expected):
        if fn in gone:        # "for every frame whose source file is readable"
            continue
        text = paths[fn]
        fr = rendered[i] if i < len(rendered) and rendered[i]["path"] == fn else None
        rows, ok = project_rows(fr["lines"], True) if fr else ([], True)
        if case["word_wrap"]:
            mode = "wrap"
        else:
            need = max(need_cells(l.expandtabs(4)) for l in text.split("\n"))
            # code_width is 88 (traceback.py:497); the panel leaves eff_width - 4 cells, the gutter takes <= 7
            mode = "exact" if need <= 88 and need <= eff_width - 12 else "prefix"
        recs.append(dict(kind="tb", src=cps(text), tab=4, lineno=lineno, extra=case["extra_lines"], mode=mode,
                         guides=guides, exc=exc, found=bool(fr and rows),
                         hdr_lineno=fr["hdr_lineno"] if fr else 0, gutter_ok=ok, rows=rows,
                         frame=i, nframes=len(expected), nrendered=len(rendered)))
    return recs


def tb_signature(clause, case, rec):
    """failing clause + shape: does the frame's file (for a crash: any file of the traceback) start with
    a newline, where the failing line sits, long file, guides, mode"""
    text = "".join(chr(c) for c in rec["src"])
    nlines = len(text.split("\n"))
    yn = lambda v: "yes" if v else "no"
    lead = text.startswith("\n")
    if clause == "crash":
        clause = "crash:" + rec["exc"]
        lead = any(t.startswith("\n") for t in case["files"].values())
    pos = "first" if rec["lineno"] == 1 else "last" if rec["lineno"] >= len(text.rstrip("\n").split("\n")) else "middle"
    return "%s kind=tb lead_nl=%s failing=%s long_file=%s guides=%s mode=%s shape=%s api=%s" % (
        clause, yn(lead), pos, yn(nlines > 99), yn(rec["guides"]), rec["mode"], case["shape"], case.get("api", "from_exception"))


# ---------------------------------------------------------------------------------------------

def run_m1(chk):
    """fixed design must satisfy the property part; each as-is switch must exhibit its defect"""
    quick = not chk.thorough
    main_cfg = mc_cfg(5 if quick else 6, 2, [2], [3] if quick else [1, 7], False, True, False, INV_ALL)
    small = lambda s, g, x: mc_cfg(3, 3, [2], [3], s, g, x, INV_CLAUSES)
    jobs = [("fixed", main_cfg, 8, True),
            ("asis-StripNl", small(True, True, False), 1, False),
            ("asis-NoGuardSkip", small(False, False, False), 1, False),
            ("asis-SuffixFirst", small(False, True, True), 1, False)]

    def one(job):
        label, cfgt, workers, cov = job
        return label, tlc.model_check("MC_Syntax", cfg_text=cfgt, workers=workers, coverage=cov,
                                      require_actions=MC_ACTIONS if cov else (), tag="c17-mc-" + label)
    with ThreadPoolExecutor(len(jobs)) as ex:
        results = dict(ex.map(one, jobs))
    r, cov, missing = results["fixed"]
    chk.add_tlc(r, "M1")
    if r.violated or missing or not r.finished:
        raise tlc.TLCFailure("MC_Syntax (fixed design): violated=%s never-fired=%s\n%s" % (r.violated, missing, r.out[-3000:]))
    chk.notes["m1_action_coverage"] = {k: v[1] for k, v in cov.items() if k in MC_ACTIONS}
    chk.notes["m1_bounds"] = "sources <= %d chars over {x, space, tab, newline}; token partitions with <= 2 cuts; 8 ranges" % (5 if quick else 6)
    exhibits = {}
    for label in ("asis-StripNl", "asis-NoGuardSkip", "asis-SuffixFirst"):
        ra, _, _ = results[label]
        chk.add_tlc(ra, "M1-asis")
        exhibits[label] = ra.violated
        if not ra.violated:
            chk.drift_note("model %s satisfies the property part (expected TLC to exhibit a defect of this design)" % label)
    chk.notes["m1_design_switches"] = exhibits


def run(chk: Check):
    chk.rule = ("a case is one (source, lexer, option set, console) render of Syntax (constructor or Syntax.from_path; options incl. dedent, "
                "background_color, 10 themes, ~35 lexer names, line ranges with and without line numbers; consoles without colour / standard / 256 / "
                "truecolor / legacy Windows) or one frame of a rendered Traceback (Traceback.from_exception / Console.print_exception / Traceback() "
                "in the handler / Traceback.extract + Traceback(trace); module shapes: function, module level, several frames, two files, long "
                "file, explicit / implicit / suppressed chaining, recursion, lambda / method / nested / class body, import of a module that does "
                "not compile, a frame without a file, a frame whose file is gone, page-break characters; every module path is rewritten with "
                "other content and rendered again); sources: every string of <= 3 (quick) / 4 (thorough) characters over {x, space, tab, newline}, "
                "a structured list (leading / interior / trailing blank lines, tabs, wide characters, empty, no final newline) "
                "and seeded random sources from python / json / html / misc line pools; non-trivial = at least two lines, "
                "or a tab, or a line range, or a traceback frame")
    chk.trusted = ["drivers/c17.py:project_rows (gutter = pointer|2 blanks + right-justified number + blank, width taken from the first row; "
                   "right padding of the code part removed)",
                   "drivers/c17.py:printed_lines (SGR sequences removed, split on newline)",
                   "drivers/c17.py:project_traceback (panel border removed, frame header '<path>:<n> in <name>', code rows up to the next blank row)",
                   "drivers/c17.py:syn_mode / need_cells (classifies a width as certainly wide enough: exact, else prefix; word_wrap: wrap)",
                   "Python's traceback.walk_tb as ground truth for frame line numbers"]
    chk.assumptions = [
        "row texts are compared modulo trailing spaces (the render pads rows; a source line's own trailing blanks are not observable)",
        "blank lines at the very end: any number of rows between the last non-blank line and the last newline-separated piece is accepted",
        "word_wrap off and a width that may crop (mode prefix): the row must be a prefix of the line, numbers still exact; "
        "exactness is only demanded when every line certainly fits (cells <= 2 per code point >= U+0300) or word_wrap is on",
        "word_wrap on: rows under one number concatenate to the line, runs of blanks at row breaks may be absorbed by padding",
        "indent guides: U+2502 is accepted where the (space padded) line has only blanks up to that column",
        "which lines a line_range selects is judged only with line numbers shown; without numbers the rows must be a contiguous run of "
        "unchanged source lines; ranges lying entirely before line 1 (end < 0) are not generated",
        "sources contain no carriage return, backspace, vertical tab or form feed (Text strips them from what it displays; in traceback files "
        "they only occur outside the displayed window), no BOM; other line separators of str.splitlines (FS GS RS NEL LS PS) do occur; "
        "start_line >= 0; tab_size >= 1",
        "dedent=True: the lines are those of textwrap.dedent(code) (applied before tab expansion)",
        "word wrapping may absorb any white space (str.isspace) at a row break, not only U+0020",
        "traceback: frames of generated files that are readable when the traceback is rendered (a frame without a file or whose file was "
        "removed is skipped, its neighbours are judged); failing line exists in the file; path fits the panel"]
    m1 = None
    if chk.replay_only:
        case = chk.replay_only["case"]
        if case.get("kind") == "tb":
            syn_cases, tb_cases = [], list(case.get("prior", [])) + [case["case"]]      # earlier cases that wrote the same paths
        else:
            syn_cases, tb_cases = [case["case"]], []
    else:
        # M1 runs beside the renders (it is mostly single-threaded: initial states, BFS levels)
        m1_pool = ThreadPoolExecutor(1)
        if os.environ.get("VERIF_C17_SKIP_M1"):          # development aid (trying mutants on a loaded machine); never set by ./check
            chk.notes["parts_run"] = "M1 skipped (VERIF_C17_SKIP_M1)"
            m1 = m1_pool.submit(lambda: None)
        else:
            m1 = m1_pool.submit(run_m1, chk)
        syn_cases = enumerated_cases(chk) + structured_cases(chk) + long_source_cases(chk)
        for _ in range(chk.pick(2500, 60000)):
            src = random_source(chk.rng)
            syn_cases.append(dict(src=src, lexer=chk.rng.choice(LEXERS + LEXERS + MORE_LEXERS), **random_options(chk.rng, src)))
        # histories on the file system: every module path is used by three cases in a row-independent order, each time with
        # other content (line count, text of the failing line) - a traceback must show the file as it is when it is rendered
        ntb = chk.pick(150, 1500)
        tb_cases = [gen_tb_case(chk.rng, i % max(1, ntb // 3)) for i in range(ntb)]

    recs, owners = [], []
    # generated modules live in a short-lived directory with a SHORT path: the traceback frame header
    # (path:line in function) must fit the narrow traceback widths, wherever /verif is checked out
    import tempfile
    workdir = tempfile.mkdtemp(prefix="c", dir="/tmp")
    try:
        for case in syn_cases:
            rec = run_syntax(case, workdir)
            recs.append(rec)
            owners.append(("syn", case))
            src = case["src"]
            chk.case(("syn", case), src.count("\n") >= 1 or "\t" in src or case["line_range"] is not None)
        for case in tb_cases:
            for rec in run_traceback(case, workdir):
                recs.append(rec)
                owners.append(("tb", case))
                chk.case(("tb", case, rec["frame"]), True)
    finally:
        shutil.rmtree(workdir, ignore_errors=True)

    # the cfg only selects which pipeline design the DRIFT comparison uses (never a verdict)
    verdicts, st = tlc.judge("Trace_Syntax", recs, cfg=os.environ.get("C17_TRACE_CFG", "Trace_Syntax"), chunk_min=40, nproc=8, tag="c17-judge")
    if m1 is not None:
        m1.result()             # re-raises a machinery failure of the model check
        m1_pool.shutdown()
    chk.add_tlc(st, "M3")
    chk.traces += len(recs)
    rejected, drifts, clauses = [], {}, {}
    for (kind, case), rec, v in zip(owners, recs, verdicts):
        clause, _, drift = v.partition(" drift:")
        clauses[clause] = clauses.get(clause, 0) + 1
        if drift:
            drifts[drift] = drifts.get(drift, 0) + 1
            drifts.setdefault("eg:" + drift, (kind, {k: case[k] for k in case if k != "files"} if kind == "tb" else case))
        if clause != "ok":
            rejected.append((len(rec["src"]), len(rec["rows"]), kind, case, rec, clause))
    rejected.sort(key=lambda t: (t[0], t[1]))          # smallest witness first per signature
    sigs = {}
    for _, _, kind, case, rec, clause in rejected:
        sig = syn_signature(clause, case, rec) if kind == "syn" else tb_signature(clause, case, rec)
        shown = dict(exc=rec["exc"], rows=[[r["n"] if r["hasn"] else None, r["m"], "".join(map(chr, r["t"]))] for r in rec["rows"][:12]])
        if kind == "tb":
            shown.update(lineno=rec["lineno"], frame=rec["frame"])
        detail = "%s; %s; observed %s" % (clause, ("src=%r lexer=%s opts=%s" % (
            case["src"], case["lexer"], {k: case[k] for k in ("line_numbers", "start_line", "line_range", "word_wrap", "code_width", "width", "indent_guides", "tab_size")})
            if kind == "syn" else "shape=%s entry=%s" % (case["shape"], case["entry"])), shown)
        sigs[sig] = sigs.get(sig, 0) + 1
        payload = dict(kind=kind, case=case, observed=shown)
        if kind == "tb":
            payload["prior"] = [c for c in tb_cases[:next(i for i, c in enumerate(tb_cases) if c is case)] if set(c["files"]) & set(case["files"])]
        chk.reject(sig, detail, payload)
    chk.notes["rejection_signatures"] = sigs
    for d, n in sorted((k, v) for k, v in drifts.items() if not k.startswith("eg:")):
        chk.drift_note("%s: %d record(s), e.g. %r" % (d, n, drifts["eg:" + d]))
    chk.notes["verdict_clauses"] = clauses
    chk.notes["records"] = dict(syntax=len(syn_cases), traceback_frames=len(recs) - len(syn_cases), tracebacks=len(tb_cases))
    modes = {}
    for rec in recs:
        modes[rec["kind"] + ":" + rec["mode"]] = modes.get(rec["kind"] + ":" + rec["mode"], 0) + 1
    chk.notes["modes"] = modes
    for (kind, case), rec in list(zip(owners, recs))[:: max(1, len(recs) // 5)]:
        chk.sample(dict(kind=kind, case={k: v for k, v in case.items() if k != "files"},
                        rows=[[r["n"] if r["hasn"] else None, r["m"], "".join(map(chr, r["t"]))] for r in rec["rows"][:8]]))
