"""Shared generator / builder / projector for the layout properties (C01, C09; C07, C08 can reuse it).

An *abstract tree* (JSON-able dict, vocabulary of specs/Layout.tla) IS the construction recipe:
`build()` instantiates the real Rich renderable from it, so tree <-> object correspondence is by
construction.  Fields TLC reads (see Layout.tla): k, cs, ov, nw, c, ch, pl, pr, w, ex, title, cols,
rows, box, edge, sh, sf, pe, cp, minw, caption, label, exp, chars.  All other fields are
construction-only (concrete code points, vertical padding, justify, styles, ...).

Python here never judges: `minw_py` / `inscope_py` exist only to CHOOSE which widths to render
(ladder from the structural minimum) and are cross-checked against TLC's MinW (reported in every
verdict); a mismatch is reported as DRIFT of the driver, not as a verdict.

Trusted projections: `project_text` (character -> <<class, cell width>> with
rich.cells.get_character_cell_size of the tree under test) and `line_widths` (segment stream ->
lines -> cell widths with rich.cells.cell_len of the tree under test; C13's subject)."""
import io
import json
import os

# ---- content alphabets ---------------------------------------------------------------------------
NARROW = "abcxyz-.0A"
WIDE = "\u4e16\u754c\u3042\U0001F600\U0001F63D\uff21"          # CJK, kana, emoji, fullwidth A
ZERO = "\u0301\u200b\u200d\u0300"                              # combining marks, ZWSP, ZWJ
SPACE = " "
WIDE_SPACE = "\u3000"
BOXES = ["ASCII", "ASCII2", "ASCII_DOUBLE_HEAD", "SQUARE", "SQUARE_DOUBLE_HEAD", "MINIMAL", "MINIMAL_HEAVY_HEAD",
         "MINIMAL_DOUBLE_HEAD", "SIMPLE", "SIMPLE_HEAD", "SIMPLE_HEAVY", "HORIZONTALS", "ROUNDED", "HEAVY",
         "HEAVY_EDGE", "HEAVY_HEAD", "DOUBLE", "DOUBLE_EDGE"]
CANON = {(0, 1): "a", (0, 2): "\u4e16", (0, 0): "\u0301", (1, 1): " ", (1, 2): "\u3000", (2, 0): "\n", (3, 0): "\t"}
_LINE_BOUNDARIES = set("\r\x0b\x0c\x1c\x1d\x1e\x85\u2028\u2029")


def _cw():
    from rich.cells import get_character_cell_size
    return get_character_cell_size


def project_text(s):
    """str -> [[class, width]] (Layout.tla: 0 char, 1 space, 2 newline, 3 tab, 4 other line boundary)"""
    cw = _cw()
    out = []
    for ch in s:
        if ch == "\n":
            cls = 2
        elif ch == "\t":
            cls = 3
        elif ch in _LINE_BOUNDARIES:
            cls = 4
        elif ch.isspace():
            cls = 1
        else:
            cls = 0
        out.append([cls, cw(ch)])
    return out


def text_of(node, key_s="s", key_cs="cs"):
    """concrete string of a text-carrying field: explicit code points if present, else canonical from cs"""
    if node.get(key_s) is not None:
        return "".join(map(chr, node[key_s]))
    return "".join(CANON.get((c[0], c[1]), "a") for c in node.get(key_cs, []))


def set_text(node, s, key_s="s", key_cs="cs"):
    node[key_s] = [ord(c) for c in s]
    node[key_cs] = project_text(s)


# ---- random content ------------------------------------------------------------------------------
def rand_text(rng, maxlen=12, newlines=True, tabs=True):
    r = rng.random()
    if r < 0.06:
        return ""
    n = rng.randint(1, maxlen) if rng.random() < 0.8 else rng.randint(1, 3 * maxlen)
    style = rng.choice(["ascii", "ascii", "mixed", "mixed", "wide", "zw", "ws"])
    out = []
    for _ in range(n):
        p = rng.random()
        if style == "ws":
            out.append(rng.choice("  \n" if newlines else " "))
            continue
        if p < 0.16:
            out.append(" ")
        elif p < 0.21 and newlines:
            out.append("\n")
        elif p < 0.225 and tabs:
            out.append("\t")
        elif p < 0.235:
            out.append(WIDE_SPACE)
        elif style == "ascii":
            out.append(rng.choice(NARROW))
        elif style == "wide":
            out.append(rng.choice(WIDE) if rng.random() < 0.8 else rng.choice(NARROW))
        elif style == "zw":
            out.append(rng.choice(ZERO) if rng.random() < 0.4 else rng.choice(NARROW + WIDE))
        else:
            q = rng.random()
            out.append(rng.choice(NARROW) if q < 0.55 else rng.choice(WIDE) if q < 0.85 else rng.choice(ZERO))
    return "".join(out)


def rand_title(rng):
    s = rand_text(rng, 8, newlines=False, tabs=False).strip()
    return s or rng.choice(["t", "\u4e16", "ab"])


def mk_txt(rng, cropped, maxlen=12):
    s = rand_text(rng, maxlen)
    t = dict(k="txt", ov="none", nw=False, src="text", jus="none")
    set_text(t, s)
    r = rng.random()
    if r < 0.35:
        t["src"] = "str"
    else:
        t["ov"] = rng.choice(["none", "fold", "fold", "crop", "ellipsis"])
        t["jus"] = rng.choice(["none", "none", "left", "center", "right", "full"])
        q = rng.random()
        if cropped and q < 0.10:
            t["ov"] = "ignore"
        elif cropped and q < 0.18:
            t["nw"] = True
        elif not cropped and q < 0.015:
            t["ov"] = "ignore"          # outside the quantifier on purpose (exercises InScope)
    return t


def _pad(rng, big=3):
    return rng.choice([0, 0, 1, 1, 2, big])


def gen(rng, depth, cropped=False, top=True):
    """random abstract tree with Nesting <= depth"""
    leafp = 0.25 if top else 0.45
    if depth <= 0 or rng.random() < leafp:
        r = rng.random()
        if r < 0.74:
            return mk_txt(rng, cropped)
        if r < 0.86:
            t = dict(k="rule", al=rng.choice(["left", "center", "right"]))
            set_text(t, rand_title(rng) if rng.random() < 0.55 else "", "ts", "title")
            set_text(t, rng.choice(["─", "─", "-", "世", "=-", "á", "━世"]), "chs", "chars")
            return t
        if r < 0.93:
            b, e = sorted([rng.choice([0, 0, 10, 33.3, 50, 99, 100]), rng.choice([0, 10, 50, 66.6, 100, 100])])
            return dict(k="bar", w=rng.choice([0, 0, 0, 1, 3, 10, 40]), size=100, begin=b, end=e)
        return dict(k="progressbar", w=rng.choice([0, 0, 0, 1, 3, 10, 40]), total=rng.choice([100, 100, 7, 0]),
                    completed=rng.choice([0, 3, 50, 100, 100, 250]), pulse=rng.random() < 0.2)
    d = depth - 1
    kind = rng.choice(["panel", "panel", "padding", "align", "constrain", "styled", "wrap2", "group", "group",
                       "table", "table", "table", "columns", "tree", "tree"])
    if kind == "panel":
        c = gen(rng, d, True, False)
        t = dict(k="panel", c=c, pl=_pad(rng), pr=_pad(rng), pt=rng.choice([0, 0, 1]), pb=rng.choice([0, 0, 1]),
                 w=0, ex=rng.random() < 0.6, ta=rng.choice(["left", "center", "right"]), box=rng.choice(BOXES))
        if rng.random() < 0.5:
            t["pl"], t["pr"] = rng.choice([(0, 0), (1, 1), (0, 0)])
        set_text(t, rand_title(rng) if rng.random() < 0.45 else "", "ts", "title")
        if rng.random() < 0.15:
            m = minw_py(t)
            t["w"] = max(1, m + rng.choice([0, 0, 1, 2, 5, 20]) - (rng.random() < 0.15) * rng.randint(1, 3))
        return t
    if kind == "padding":
        c = gen(rng, d, True, False)
        return dict(k="padding", c=c, pl=_pad(rng, 5), pr=_pad(rng, 5), pt=rng.choice([0, 0, 1]), pb=rng.choice([0, 0, 1]),
                    ex=rng.random() < 0.6, form=rng.choice([4, 4, 2, 1]))
    if kind in ("align", "constrain"):
        c = gen(rng, d, cropped, False)
        t = dict(k=kind, c=c, w=0)
        if kind == "align":
            t.update(al=rng.choice(["left", "center", "right"]), pad=rng.random() < 0.7)
        if rng.random() < (0.35 if kind == "align" else 0.85):
            m = minw_py(c)
            t["w"] = max(1, m + rng.choice([0, 0, 1, 2, 5, 20, 60]) - (rng.random() < 0.1) * rng.randint(1, 3))
        return t
    if kind in ("styled", "wrap2"):
        c = gen(rng, d, cropped, False)
        k = "styled" if kind == "styled" else rng.choice(["opaque", "cast"])
        if k == "cast" and c["k"] == "cast":
            k = "opaque"                # __rich__ returning another __rich__ object is not supported by Console.render
        return dict(k=k, c=c)
    if kind == "group":
        return dict(k="group", ch=[gen(rng, d, cropped, False) for _ in range(rng.choice([1, 2, 2, 3]))],
                    fit=rng.random() < 0.8)
    if kind == "table":
        nc = rng.choice([1, 1, 2, 2, 3, 4])
        nr = rng.choice([0, 1, 1, 2, 2, 3])
        cols = []
        for _ in range(nc):
            hdr = mk_txt(rng, True, 8)
            ftr = mk_txt(rng, True, 6)
            if rng.random() < 0.8:
                hdr.update(src="str", ov="none", nw=False, jus="none")
            if rng.random() < 0.8:
                ftr.update(src="str", ov="none", nw=False, jus="none")
            col = dict(hdr=hdr, ftr=ftr, w=0, minw=0, maxw=0, ratio=0, nw=False,
                       jus=rng.choice(["left", "left", "center", "right", "full"]),
                       ov=rng.choice(["ellipsis", "ellipsis", "fold", "crop"]))
            if rng.random() < 0.2:
                col["maxw"] = rng.randint(1, 8)
            if rng.random() < 0.3:
                col["ratio"] = rng.randint(1, 3)
            cols.append(col)
        rows = [[gen(rng, d if rng.random() < 0.35 else 0, True, False) for _ in range(nc)] for _ in range(nr)]
        t = dict(k="table", cols=cols, rows=rows, box=rng.choice(["none", "none"] + BOXES), edge=rng.random() < 0.75,
                 lines=rng.random() < 0.25, leading=rng.choice([0, 0, 0, 0, 1, 2, 3]), sh=rng.random() < 0.7,
                 sf=rng.random() < 0.3, pl=_pad(rng), pr=_pad(rng), pt=rng.choice([0, 0, 0, 1]), pb=rng.choice([0, 0, 0, 1]),
                 pe=rng.random() < 0.65, cp=rng.random() < 0.35, ex=rng.random() < 0.4, w=0, minw=0,
                 tj=rng.choice(["left", "center", "right"]), endsec=rng.random() < 0.15)
        if rng.random() < 0.5:
            t["pl"], t["pr"] = rng.choice([(1, 1), (0, 0), (0, 1)])
        set_text(t, rand_title(rng) if rng.random() < 0.3 else "", "ts", "title")
        set_text(t, rand_title(rng) if rng.random() < 0.2 else "", "cps", "caption")
        if rng.random() < 0.04:          # not free to wrap: outside the quantifier on purpose
            q = rng.randrange(5)
            if q == 0:
                rng.choice(cols)["w"] = rng.randint(1, 12)
            elif q == 1:
                rng.choice(cols)["minw"] = rng.randint(1, 12)
            elif q == 2:
                rng.choice(cols)["nw"] = True
            elif q == 3:
                t["w"] = rng.randint(1, 60)
            else:
                t["minw"] = rng.randint(1, 60)
        return t
    if kind == "columns":
        t = dict(k="columns", ch=[gen(rng, d if rng.random() < 0.4 else 0, True, False) for _ in range(rng.choice([0, 1, 2, 3, 4, 6]))],
                 w=0, pl=_pad(rng), pr=_pad(rng), pt=0, pb=rng.choice([0, 0, 1]), ex=rng.random() < 0.4, eq=rng.random() < 0.4,
                 cf=rng.random() < 0.4, rtl=rng.random() < 0.3, al=rng.choice(["none", "none", "left", "center", "right"]))
        if rng.random() < 0.6:
            t["pl"], t["pr"] = 1, 1
        set_text(t, rand_title(rng) if rng.random() < 0.25 else "", "ts", "title")
        if rng.random() < 0.03:
            t["w"] = rng.randint(1, 12)  # fixed-width columns: outside the quantifier on purpose
        return t
    if kind == "tree":
        def node(level):
            n = dict(k="tree", label=gen(rng, d if rng.random() < 0.4 else 0, True, False), exp=rng.random() < 0.85,
                     gs=rng.choice(["", "", "bold", "underline2"]), ch=[])
            if level < 3:
                n["ch"] = [node(level + 1) for _ in range(rng.choice([0, 0, 1, 2, 3] if level else [0, 1, 2, 3]))]
            return n
        return node(0)
    raise AssertionError(kind)


# ---- Python mirror of Layout!MinW / InScope (width selection only) ---------------------------------
def _wide(cs):
    return any(c[1] == 2 for c in cs)


def _leafmin(cs):
    return 2 if _wide(cs) else 1


def _titlemin(cs):
    return 0 if not cs else _leafmin(cs)


def table_pad(t, j, nc):
    left = 0 if (not t["pe"] and j == 0) else (max(0, t["pl"] - t["pr"]) if (t["cp"] and j > 0) else t["pl"])
    right = 0 if (not t["pe"] and j == nc - 1) else t["pr"]
    return left, right


def minw_py(t):
    k = t["k"]
    if k == "txt":
        return _leafmin(t["cs"])
    if k == "panel":
        return 2 + t["pl"] + t["pr"] + minw_py(t["c"])
    if k == "padding":
        return t["pl"] + t["pr"] + minw_py(t["c"])
    if k in ("align", "constrain", "styled", "opaque", "cast"):
        return minw_py(t["c"])
    if k == "group":
        return max([1] + [minw_py(c) for c in t["ch"]])
    if k == "table":
        nc = len(t["cols"])
        box = t["box"] != "none"
        tot = (2 if box and t["edge"] else 0) + (nc - 1 if box and nc else 0)
        for j, col in enumerate(t["cols"]):
            m = 1
            if t["sh"]:
                m = max(m, minw_py(col["hdr"]))
            if t["sf"]:
                m = max(m, minw_py(col["ftr"]))
            for row in t["rows"]:
                m = max(m, minw_py(row[j]))
            tot += sum(table_pad(t, j, nc)) + m
        return max(1, tot, _titlemin(t["title"]), _titlemin(t["caption"]))
    if k == "columns":
        return max([1, _titlemin(t["title"])] + [minw_py(c) for c in t["ch"]])
    if k == "tree":
        def tm(n, d):
            m = 4 * d + minw_py(n["label"])
            if n["exp"]:
                for c in n["ch"]:
                    m = max(m, tm(c, d + 1))
            return m
        return tm(t, 0)
    if k == "rule":
        return (2 if _wide(t["chars"]) or _wide(t["title"]) else 1) + (4 if t["title"] else 0)
    return 1


def inscope_py(t, cropped=False):
    k = t["k"]
    if k == "txt":
        return cropped or not (t["ov"] == "ignore" or t["nw"])
    if k == "panel":
        return (t["w"] == 0 or t["w"] >= minw_py(t)) and inscope_py(t["c"], True)
    if k == "padding":
        return inscope_py(t["c"], True)
    if k in ("align", "constrain"):
        return (t["w"] == 0 or t["w"] >= minw_py(t["c"])) and inscope_py(t["c"], cropped)
    if k in ("styled", "opaque", "cast"):
        return inscope_py(t["c"], cropped)
    if k == "group":
        return all(inscope_py(c, cropped) for c in t["ch"])
    if k == "table":
        if t["w"] or t["minw"] or any(c["w"] or c["minw"] or c["nw"] for c in t["cols"]):
            return False
        return (all(inscope_py(c["hdr"], True) and inscope_py(c["ftr"], True) for c in t["cols"])
                and all(inscope_py(x, True) for r in t["rows"] for x in r))
    if k == "columns":
        return t["w"] == 0 and all(inscope_py(c, True) for c in t["ch"])
    if k == "tree":
        return inscope_py(t["label"], True) and all(inscope_py(c, True) for c in t["ch"])
    return True


def subtrees(t, path=()):
    """(path, node) for every node that is itself a renderable handed to Console.render"""
    yield path, t
    k = t["k"]
    if "c" in t and k != "columns":
        yield from subtrees(t["c"], path + ("c",))
    if k in ("group", "columns"):
        for i, c in enumerate(t["ch"]):
            yield from subtrees(c, path + ("ch", i))
    elif k == "table":
        for j, col in enumerate(t["cols"]):
            yield from subtrees(col["hdr"], path + ("cols", j, "hdr"))
            yield from subtrees(col["ftr"], path + ("cols", j, "ftr"))
        for i, row in enumerate(t["rows"]):
            for j, c in enumerate(row):
                yield from subtrees(c, path + ("rows", i, j))
    elif k == "tree":
        yield from subtrees(t["label"], path + ("label",))
        for i, c in enumerate(t["ch"]):
            for p, n in subtrees(c, path + ("ch", i)):
                if p != path + ("ch", i):       # a child node is not rendered on its own; its label is
                    yield p, n
                else:
                    continue


def size(t):
    return sum(1 for _ in subtrees(t)) + sum(len(n.get("cs", [])) for _, n in subtrees(t))


def kinds(t):
    return sorted({n["k"] for _, n in subtrees(t)})


# ---- complete a TLC-generated tree with construction defaults -------------------------------------
def complete(t, salt=0):
    """TLC's trees carry only the fields Layout.tla reads; fill construction-only fields (deterministic)."""
    k = t["k"]
    if k == "txt":
        t.setdefault("s", None)
        t.setdefault("jus", "none")
        t.setdefault("nw", False)
        t.setdefault("src", "str" if (t.get("ov", "none") == "none" and not t["nw"] and salt % 2 == 0) else "text")
        if t.get("s") is None:
            set_text(t, text_of(t))
    elif k == "panel":
        t.setdefault("pt", 0); t.setdefault("pb", 0); t.setdefault("ta", ["left", "center", "right"][salt % 3])
        t.setdefault("box", BOXES[salt % len(BOXES)])
        if "ts" not in t:
            set_text(t, text_of(t, "ts", "title"), "ts", "title")
        complete(t["c"], salt + 1)
    elif k == "padding":
        t.setdefault("pt", 0); t.setdefault("pb", 0); t.setdefault("form", 4)
        complete(t["c"], salt + 1)
    elif k in ("align", "constrain", "styled", "opaque", "cast"):
        if k == "align":
            t.setdefault("al", "center"); t.setdefault("pad", True)
        if k == "cast" and t["c"]["k"] == "cast":
            t["k"] = "opaque"           # a cast of a cast is not a valid renderable
        complete(t["c"], salt + 1)
    elif k == "group":
        t.setdefault("fit", True)
        for i, c in enumerate(t["ch"]):
            complete(c, salt + i + 1)
    elif k == "table":
        for j, col in enumerate(t["cols"]):
            col.setdefault("jus", "left"); col.setdefault("ov", ["ellipsis", "fold", "crop"][(salt + j) % 3])
            complete(col["hdr"], salt); complete(col["ftr"], salt)
        for i, row in enumerate(t["rows"]):
            for j, c in enumerate(row):
                complete(c, salt + i + j + 1)
        for f, v in (("lines", False), ("leading", 0), ("pt", 0), ("pb", 0), ("ex", salt % 3 == 0), ("tj", "center"), ("endsec", False)):
            t.setdefault(f, v)
        if t["box"] == "SQUARE" and salt % 4:
            t["box"] = BOXES[salt % len(BOXES)]
        if "ts" not in t:
            set_text(t, text_of(t, "ts", "title"), "ts", "title")
        if "cps" not in t:
            set_text(t, text_of(t, "cps", "caption"), "cps", "caption")
    elif k == "columns":
        for f, v in (("pl", 1), ("pr", 1), ("pt", 0), ("pb", 0), ("ex", salt % 2 == 1), ("eq", salt % 3 == 1), ("cf", salt % 5 == 1),
                     ("rtl", False), ("al", "none")):
            t.setdefault(f, v)
        if "ts" not in t:
            set_text(t, text_of(t, "ts", "title"), "ts", "title")
        for i, c in enumerate(t["ch"]):
            complete(c, salt + i + 1)
    elif k == "tree":
        t.setdefault("gs", "")
        complete(t["label"], salt + 1)
        for i, c in enumerate(t["ch"]):
            complete(c, salt + i + 2)
    elif k == "rule":
        t.setdefault("al", ["center", "left", "right"][salt % 3])
        if "ts" not in t:
            set_text(t, text_of(t, "ts", "title"), "ts", "title")
        if "chs" not in t:
            set_text(t, text_of(t, "chs", "chars"), "chs", "chars")
    elif k == "bar":
        for f, v in (("w", 0), ("size", 100), ("begin", 10), ("end", 60)):
            t.setdefault(f, v)
    elif k == "progressbar":
        for f, v in (("w", 0), ("total", 100), ("completed", 100 if salt % 2 else 40), ("pulse", False)):
            t.setdefault(f, v)
    return t


# ---- abstract tree -> real renderable ------------------------------------------------------------
class Env:
    """classes of the tree under test + the two protocol-only renderables"""

    def __init__(self):
        from rich import box as rbox
        from rich.align import Align
        from rich.bar import Bar
        from rich.cells import cell_len
        from rich.columns import Columns
        from rich.console import Console, RenderGroup
        from rich.constrain import Constrain
        from rich.measure import Measurement
        from rich.padding import Padding
        from rich.panel import Panel
        from rich.progress_bar import ProgressBar
        from rich.rule import Rule
        from rich.styled import Styled
        from rich.table import Table
        from rich.text import Text
        from rich.tree import Tree
        self.__dict__.update(locals())

        class Opaque:                       # renderable without __rich_measure__
            def __init__(self, c):
                self.c = c

            def __rich_console__(self, console, options):
                yield self.c

        class Cast:                         # object cast via __rich__
            def __init__(self, c):
                self.c = c

            def __rich__(self):
                return self.c

        self.Opaque, self.Cast = Opaque, Cast
        self._consoles = {}
        self.budget_log = None

    def console(self, W):
        c = self._consoles.get(W)
        if c is None:
            c = self.Console(width=W, height=25, file=io.StringIO(), color_system=None, legacy_windows=False)
            self._consoles[W] = c
        return c

    # -- observing the budget handed to every renderable ------------------------------------------
    def watch(self):
        env = self
        Console = self.Console
        if getattr(Console, "_verif_orig_render", None) is None:
            Console._verif_orig_render = Console.render
            orig = Console.render

            def render(self, renderable, options=None):
                log = env.budget_log
                if log is not None:
                    o = options or self.options
                    log.append((id(renderable), o.max_width))
                return orig(self, renderable, options)
            Console.render = render

    def unwatch(self):
        orig = getattr(self.Console, "_verif_orig_render", None)
        if orig is not None:
            self.Console.render = orig
            self.Console._verif_orig_render = None


def _padform(t):
    top, r, b, l = t.get("pt", 0), t["pr"], t.get("pb", 0), t["pl"]
    form = t.get("form", 4)
    if form == 1 and top == r == b == l:
        return top
    if form == 2 and top == b and l == r:
        return (top, r)
    return (top, r, b, l)


def _sty(t, *names):
    """optional style options (strings, as a user writes them) - set by C14's stress only; they never change a layout"""
    st = t.get("sty") or {}
    return {n: st[n] for n in names if n in st}


def build(t, env, reg=None, path=()):
    """abstract tree -> real renderable; reg: id(object) -> [paths]"""
    k = t["k"]
    if k == "txt":
        s = text_of(t)
        if t.get("src", "text") == "str":
            obj = "".join(s)            # a fresh str object where possible
        else:
            obj = env.Text(s, justify=None if t.get("jus", "none") == "none" else t["jus"],
                           overflow=None if t.get("ov", "none") == "none" else t["ov"],
                           no_wrap=True if t.get("nw") else None)
    elif k == "panel":
        obj = env.Panel(build(t["c"], env, reg, path + ("c",)), getattr(env.rbox, t.get("box", "ROUNDED")),
                        title=text_of(t, "ts", "title") or None, title_align=t.get("ta", "center"),
                        expand=t["ex"], width=t["w"] or None, padding=(t.get("pt", 0), t["pr"], t.get("pb", 0), t["pl"]),
                        **_sty(t, "style", "border_style"))
    elif k == "padding":
        obj = env.Padding(build(t["c"], env, reg, path + ("c",)), _padform(t), expand=t["ex"], **_sty(t, "style"))
    elif k == "align":
        obj = env.Align(build(t["c"], env, reg, path + ("c",)), t.get("al", "center"), pad=t.get("pad", True), width=t["w"] or None,
                        **_sty(t, "style"))
    elif k == "constrain":
        obj = env.Constrain(build(t["c"], env, reg, path + ("c",)), t["w"] or None)
    elif k == "styled":
        obj = env.Styled(build(t["c"], env, reg, path + ("c",)), "bold")
    elif k == "opaque":
        obj = env.Opaque(build(t["c"], env, reg, path + ("c",)))
    elif k == "cast":
        obj = env.Cast(build(t["c"], env, reg, path + ("c",)))
    elif k == "group":
        obj = env.RenderGroup(*[build(c, env, reg, path + ("ch", i)) for i, c in enumerate(t["ch"])], fit=t.get("fit", True))
    elif k == "table":
        obj = env.Table(title=text_of(t, "ts", "title") or None, caption=text_of(t, "cps", "caption") or None,
                        width=t["w"] or None, min_width=t["minw"] or None,
                        box=None if t["box"] == "none" else getattr(env.rbox, t["box"]),
                        padding=(t.get("pt", 0), t["pr"], t.get("pb", 0), t["pl"]), collapse_padding=t["cp"], pad_edge=t["pe"],
                        expand=t.get("ex", False), show_header=t["sh"], show_footer=t["sf"], show_edge=t["edge"],
                        show_lines=t.get("lines", False), leading=t.get("leading", 0), title_justify=t.get("tj", "center"),
                        **_sty(t, "style", "border_style", "header_style", "footer_style", "title_style", "caption_style", "row_styles"))
        for j, col in enumerate(t["cols"]):
            obj.add_column(build(col["hdr"], env, reg, path + ("cols", j, "hdr")), build(col["ftr"], env, reg, path + ("cols", j, "ftr")),
                           justify=col.get("jus", "left"), overflow=col.get("ov", "ellipsis"), width=col["w"] or None,
                           min_width=col["minw"] or None, max_width=col["maxw"] or None, ratio=0 if col.get("rz") else (col["ratio"] or None),
                           no_wrap=col["nw"], **_sty(col, "style", "header_style", "footer_style"))
        for i, row in enumerate(t["rows"]):
            obj.add_row(*[build(c, env, reg, path + ("rows", i, j)) for j, c in enumerate(row)],
                        end_section=bool(t.get("endsec")) and i == 0, style=(t.get("sty") or {}).get("rows", {}).get(str(i)))
    elif k == "columns":
        obj = env.Columns([build(c, env, reg, path + ("ch", i)) for i, c in enumerate(t["ch"])],
                          padding=(t.get("pt", 0), t.get("pr", 1), t.get("pb", 0), t.get("pl", 1)), width=t["w"] or None,
                          expand=t.get("ex", False), equal=t.get("eq", False), column_first=t.get("cf", False),
                          right_to_left=t.get("rtl", False), align=None if t.get("al", "none") == "none" else t["al"],
                          title=text_of(t, "ts", "title") or None)
    elif k == "tree":
        def mk(n, p, parent):
            label = build(n["label"], env, reg, p + ("label",))
            kw = dict(expanded=n["exp"])
            if n.get("gs"):
                kw["guide_style"] = n["gs"]
            node = env.Tree(label, **kw) if parent is None else parent.add(label, **kw)
            for i, c in enumerate(n["ch"]):
                mk(c, p + ("ch", i), node)
            return node
        obj = mk(t, path, None)
    elif k == "rule":
        obj = env.Rule(text_of(t, "ts", "title"), characters=text_of(t, "chs", "chars") or "\u2500", align=t.get("al", "center"), **_sty(t, "style"))
    elif k == "bar":
        obj = env.Bar(t.get("size", 100), t.get("begin", 10), t.get("end", 60), width=t.get("w") or None)
    elif k == "progressbar":
        obj = env.ProgressBar(total=t.get("total", 100), completed=t.get("completed", 40), width=t.get("w") or None,
                              pulse=t.get("pulse", False), animation_time=0.0)
    else:
        raise ValueError("unknown kind %r" % k)
    if reg is not None:
        reg.setdefault(id(obj), []).append((path, obj))
    return obj


# ---- rendering and projection ---------------------------------------------------------------------
def line_widths(env, renderable, W):
    """Console.render with W cells available -> ([distinct line cell widths, descending], number of lines) or exception name"""
    console = env.console(W)
    try:
        segs = list(console.render(renderable, console.options))
    except Exception as e:          # a crash inside Rich is an observation (C14's subject), not a verdict here
        return None, type(e).__name__
    text = "".join(s.text for s in segs if not s.is_control)
    lines = text.split("\n")
    if lines and lines[-1] == "":
        lines.pop()
    cell_len = env.cell_len
    ws = [cell_len(l) for l in lines]
    return [sorted(set(ws), reverse=True), len(ws)], ""


def ladder(m, top=200, below=2):
    ws = list(range(max(1, m - below), m + 13))
    w = m + 13
    while w < top:
        ws.append(int(w))
        w = w * 1.5 + 1
    ws.append(top)
    return sorted({w for w in ws if 1 <= w <= top})


def tlc_view(t):
    """strip the bulky construction-only code point lists before sending a tree to TLC"""
    if isinstance(t, dict):
        return {k: tlc_view(v) for k, v in t.items() if k not in ("s", "ts", "cps", "chs")}
    if isinstance(t, list):
        return [tlc_view(x) for x in t]
    return t


def c01_records(env, tree, widths=None, subs=True, sub_cap=10):
    """render `tree` at every W of the ladder; then every sub-tree stand-alone at the budgets its parent handed down.
    -> list of (origin, abstract tree, record) ; origin = "top" | "sub:<path>" """
    reg = {}
    obj = build(tree, env, reg)
    m = minw_py(tree)
    ws = widths or ladder(m)
    env.watch()
    env.budget_log = log = []
    rs, excs = [], {}
    hb = []
    child_ids = {oid for oid, lst in reg.items() for path, _o in lst if path == ("c",)} if "c" in tree else set()
    for W in ws:
        start = len(log)
        r, exc = line_widths(env, obj, W)
        if r is None:
            excs[exc] = excs.get(exc, 0) + 1
            continue
        rs.append([W, r[0], r[1]])
        seen_b = {b for oid, b in log[start:] if oid in child_ids}
        if len(seen_b) == 1:
            hb.append([W, seen_b.pop()])
    env.budget_log = None
    out = [("top", tree, dict(p="C01", tree=tlc_view(tree), rs=rs, hb=hb), excs)]
    if not subs:
        return out
    budgets = {}
    for oid, b in log:
        for path, _o in reg.get(oid, ()):
            if path:
                budgets.setdefault(path, set()).add(b)
    nodes = dict(subtrees(tree))
    objs = {path: o for lst in reg.values() for path, o in lst}
    for path in sorted(budgets, key=lambda p: json.dumps(p)):
        node = nodes.get(path)
        if node is None or path not in objs:
            continue
        sm = minw_py(node)
        bs = sorted(b for b in budgets[path] if b >= 1)
        near = [b for b in bs if b >= sm - 1][:sub_cap - 2]
        pick = sorted(set(near + bs[-2:]))
        srs, sex = [], {}
        for b in pick:
            r, exc = line_widths(env, objs[path], b)
            if r is None:
                sex[exc] = sex.get(exc, 0) + 1
                continue
            srs.append([b, r[0], r[1]])
        if srs:
            out.append(("sub:" + "/".join(map(str, path)), node, dict(p="C01", tree=tlc_view(node), rs=srs), sex))
    return out


def avails(rng_seed, m, n_extra=4):
    import random
    r = random.Random(rng_seed)
    base = {0, 1, 2, 3, 4, 5, 200}
    base.update(range(max(0, m - 1), m + 7))
    w = m + 7
    while w < 200:
        base.add(int(w))
        w = w * 1.6 + 1
    for _ in range(n_extra):
        base.add(r.randint(0, 200))
    return sorted(base)


def c09_records(env, tree, avs=None, subs=True, seed=0):
    """Measurement.get(console, renderable, avail) for sampled avail in 0..200, and the renders at the reported
    maximum and minimum; the same for every sub-tree (fewer widths)."""
    reg = {}
    obj = build(tree, env, reg)
    out = []
    nodes = dict(subtrees(tree))
    todo = [((), tree, obj, avs or avails(seed, minw_py(tree)))]
    if subs:
        seen = set()
        for lst in reg.values():
            for path, o in lst:
                if path and path in nodes and path not in seen:
                    seen.add(path)
                    sm = minw_py(nodes[path])
                    todo.append((path, nodes[path], o, sorted({0, 1, 2, sm - 1 if sm > 1 else 0, sm, sm + 1, sm + 3, sm + 8, 40, 200})))
    todo.sort(key=lambda x: json.dumps(x[0]))
    mconsole = env.console(200)
    for path, node, o, alist in todo:
        ms, excs = [], {}
        cache = {}
        # the available width is also given implicitly: Measurement.get(console, r) measures against console.width
        sm0 = minw_py(node)
        defaults = [(w, True) for w in sorted({max(1, sm0), sm0 + 2, 17})] if not path else []
        for a, implicit in [(x, False) for x in alist] + defaults:
            try:
                mn, mx = env.Measurement.get(env.console(a), o) if implicit else env.Measurement.get(mconsole, o, a)
            except Exception as e:
                excs[type(e).__name__] = excs.get(type(e).__name__, 0) + 1
                continue
            entry = [a, mn, mx]
            bad = False
            for v in (mx, mn):
                if not isinstance(v, int) or v < 1 or v > 100000:
                    entry += [[], 0]
                    continue
                if v not in cache:
                    cache[v] = line_widths(env, o, v)
                r, exc = cache[v]
                if r is None:
                    excs[exc] = excs.get(exc, 0) + 1
                    bad = True
                    break
                entry += [r[0], r[1]]
            if not bad:
                ms.append(entry)
        if ms:
            out.append(("top" if not path else "sub:" + "/".join(map(str, path)), node, dict(p="C09", tree=tlc_view(node), ms=ms), excs))
    return out


# ---- signatures: shape of a (minimised) tree -------------------------------------------------------
_CLS = {(0, 0): "z", (0, 1): "a", (0, 2): "W", (1, 1): "s", (1, 2): "U", (2, 0): "n", (3, 0): "t"}


def _csig(cs, cap=6):
    s = "".join(_CLS.get((c[0], c[1]), "?") for c in cs)
    return s if len(s) <= cap else s[:cap] + "+"


def shape(t):
    k = t["k"]
    o = []
    if k == "txt":
        o.append(_csig(t["cs"]))
        if t.get("ov", "none") != "none":
            o.append(t["ov"])
        if t.get("nw"):
            o.append("nw")
        if t.get("jus", "none") != "none":
            o.append(t["jus"])
        if t.get("src") == "str":
            o.append("str")
        return "txt[%s]" % ",".join(o)
    if k == "panel":
        if t["title"]:
            o.append("title")
        if t["pl"] or t["pr"]:
            o.append("pad")
        if t["w"]:
            o.append("w")
        if not t["ex"]:
            o.append("fit")
        return "panel[%s](%s)" % (",".join(o), shape(t["c"]))
    if k == "padding":
        if not t["ex"]:
            o.append("fit")
        return "padding[%s](%s)" % (",".join(o), shape(t["c"]))
    if k in ("align", "constrain"):
        if t["w"]:
            o.append("w")
        return "%s[%s](%s)" % (k, ",".join(o), shape(t["c"]))
    if k in ("styled", "opaque", "cast"):
        return "%s(%s)" % (k, shape(t["c"]))
    if k == "group":
        return "group(%s)" % ",".join(shape(c) for c in t["ch"])
    if k == "table":
        if t["box"] != "none":
            o.append("box")
            if not t["edge"]:
                o.append("noedge")
        for f, n in (("lines", "lines"), ("sh", "hdr"), ("sf", "ftr"), ("cp", "collapse"), ("ex", "expand"), ("endsec", "endsec")):
            if t.get(f):
                o.append(n)
        if t.get("leading"):
            o.append("leading%d" % min(t["leading"], 2))
        if not t["pe"]:
            o.append("nopadedge")
        if t["pl"] or t["pr"]:
            o.append("pad")
        if t["title"] or t["caption"]:
            o.append("title")
        if any(c["maxw"] for c in t["cols"]):
            o.append("maxw")
        if any(c["ratio"] for c in t["cols"]):
            o.append("ratio")
        if t["w"] or t["minw"] or any(c["w"] or c["minw"] or c["nw"] for c in t["cols"]):
            o.append("unfree")
        cells = [shape(c) for r in t["rows"] for c in r]
        return "table[%s;%dx%d](%s)" % (",".join(o), len(t["cols"]), len(t["rows"]), ",".join(cells))
    if k == "columns":
        for f, n in (("eq", "equal"), ("ex", "expand"), ("cf", "colfirst"), ("rtl", "rtl")):
            if t.get(f):
                o.append(n)
        if t.get("al", "none") != "none":
            o.append("align")
        if t["title"]:
            o.append("title")
        if t["w"]:
            o.append("w")
        return "columns[%s](%s)" % (",".join(o), ",".join(shape(c) for c in t["ch"]))
    if k == "tree":
        return "tree[%s](%s;%s)" % ("" if t["exp"] else "collapsed", shape(t["label"]), ",".join(shape(c) for c in t["ch"]))
    if k == "rule":
        if t["title"]:
            o.append("title=" + _csig(t["title"]))
        o.append("chars=" + _csig(t["chars"]))
        return "rule[%s]" % ",".join(o)
    if k in ("bar", "progressbar"):
        if t.get("w"):
            o.append("w")
        if t.get("pulse"):
            o.append("pulse")
        return "%s[%s]" % (k, ",".join(o))
    return k


# ---- one-step reductions for delta debugging (every round is judged by TLC) ------------------------
def _clone(t):
    return json.loads(json.dumps(t))


def _leaf(s="a"):
    t = dict(k="txt", ov="none", nw=False, src="text", jus="none")
    set_text(t, s)
    return t


def _get(t, path):
    for p in path:
        t = t[p]
    return t


def _set(root, path, new):
    if not path:
        return new
    root = _clone(root)
    t = root
    for p in path[:-1]:
        t = t[p]
    t[path[-1]] = new
    return root


def reductions(tree):
    """simpler trees, most aggressive first"""
    out = []
    nodes = list(subtrees(tree))
    # tree child nodes are not yielded by subtrees(); walk them too for structural edits
    def tnodes(t, path):
        if t["k"] == "tree":
            for i, c in enumerate(t["ch"]):
                yield path + ("ch", i), c
                yield from tnodes(c, path + ("ch", i))
    allnodes = nodes + [x for p, n in nodes for x in tnodes(n, p)]
    for path, n in allnodes:                                        # hoist a sub-tree to the root
        if path:
            out.append(_clone(n))
    for path, n in allnodes:
        k = n["k"]
        istreekid = bool(path) and len(path) >= 2 and path[-2] == "ch" and _get(tree, path[:-2])["k"] == "tree"
        if k != "txt" and not istreekid:
            out.append(_set(tree, path, _leaf("a")))                # replace by a one-character leaf
        if k in ("panel", "padding", "align", "constrain", "styled", "opaque", "cast") and not istreekid:
            out.append(_set(tree, path, _clone(n["c"])))            # drop a wrapper
        if k in ("group", "columns", "tree"):
            for i in range(len(n["ch"])):
                m = _clone(n)
                del m["ch"][i]
                out.append(_set(tree, path, m))
            if k == "group" and len(n["ch"]) == 1:
                out.append(_set(tree, path, _clone(n["ch"][0])))
        if k == "tree" and n["label"]["k"] != "txt":
            pass
        if k == "table":
            for i in range(len(n["rows"])):
                m = _clone(n)
                del m["rows"][i]
                out.append(_set(tree, path, m))
            if len(n["cols"]) > 1:
                for j in range(len(n["cols"])):
                    m = _clone(n)
                    del m["cols"][j]
                    for r in m["rows"]:
                        del r[j]
                    out.append(_set(tree, path, m))
        # options back to defaults, one at a time
        defaults = dict(
            txt=dict(ov="none", nw=False, jus="none", src="text"),
            panel=dict(pl=0, pr=0, pt=0, pb=0, w=0, ex=True, ta="center", box="ROUNDED"),
            padding=dict(pl=0, pr=0, pt=0, pb=0, ex=True, form=4),
            align=dict(w=0, al="left", pad=True), constrain=dict(w=0), group=dict(fit=True),
            table=dict(box="none", edge=True, lines=False, leading=0, sh=False, sf=False, pl=0, pr=0, pt=0, pb=0, pe=True, cp=False,
                       ex=False, w=0, minw=0, tj="center", endsec=False),
            columns=dict(w=0, pl=0, pr=0, pt=0, pb=0, ex=False, eq=False, cf=False, rtl=False, al="none"),
            tree=dict(exp=True, gs=""), rule=dict(al="center"), bar=dict(w=0, begin=0, end=100),
            progressbar=dict(w=0, total=100, completed=100, pulse=False)).get(k, {})
        changed = [f for f, v in defaults.items() if n.get(f, v) != v]
        if len(changed) > 1:                                        # all options at once (saves rounds)
            m = _clone(n)
            for f in changed:
                m[f] = defaults[f]
            out.append(_set(tree, path, m))
        for f in changed:
            m = _clone(n)
            m[f] = defaults[f]
            out.append(_set(tree, path, m))
        if k == "table":
            m = _clone(n)
            m["rows"] = [[_leaf("a") for _ in r] for r in m["rows"]]
            for col in m["cols"]:
                col.update(hdr=_leaf("a"), ftr=_leaf("a"), maxw=0, ratio=0, w=0, minw=0, nw=False, jus="left", ov="ellipsis")
            if m != n:
                out.append(_set(tree, path, m))
        if k in ("group", "columns") and any(c["k"] != "txt" or text_of(c) != "a" for c in n["ch"]):
            m = _clone(n)
            m["ch"] = [_leaf("a") for _ in m["ch"]]
            out.append(_set(tree, path, m))
        if k == "table" and n["box"] not in ("none", "SQUARE"):
            m = _clone(n); m["box"] = "SQUARE"; out.append(_set(tree, path, m))
        if k == "table":
            for j, col in enumerate(n["cols"]):
                for f, v in (("maxw", 0), ("ratio", 0), ("w", 0), ("minw", 0), ("nw", False), ("jus", "left"), ("ov", "ellipsis")):
                    if col.get(f, v) != v:
                        m = _clone(n); m["cols"][j][f] = v; out.append(_set(tree, path, m))
        for fs, fc in (("ts", "title"), ("cps", "caption")):
            if n.get(fc):
                m = _clone(n); set_text(m, "", fs, fc); out.append(_set(tree, path, m))
                if len(n[fc]) > 1:
                    m = _clone(n); set_text(m, "t", fs, fc); out.append(_set(tree, path, m))
        if k == "rule" and text_of(n, "chs", "chars") != "-":
            m = _clone(n); set_text(m, "-", "chs", "chars"); out.append(_set(tree, path, m))
        if k == "txt":
            s = text_of(n)
            cands = []
            if len(s) > 1:
                cands += [s[:len(s) // 2], s[len(s) // 2:]] + [s[:i] + s[i + 1:] for i in range(len(s))][:16]
            for ch in set(s):
                rep = CANON.get(tuple(project_text(ch)[0]))
                if rep and rep != ch:
                    cands.append(s.replace(ch, rep))
            if s != "a":
                cands.append("a")
            for c in cands:
                if c != s:
                    m = _clone(n); set_text(m, c); out.append(_set(tree, path, m))
    seen, uniq = set(), []
    for c in out:
        key = json.dumps(c, sort_keys=True)
        if key not in seen:
            seen.add(key)
            uniq.append(c)
    uniq.sort(key=size)
    return uniq


# ---- orchestration shared by drivers/c01.py and drivers/c09.py -------------------------------------
_ENV = None


def env():
    global _ENV
    if _ENV is None:
        _ENV = Env()
    return _ENV


def _work(arg):
    pid, tree, subs, seed = arg
    e = env()
    if pid == "C01":
        return c01_records(e, tree, subs=subs)
    return c09_records(e, tree, subs=subs, seed=seed)


def produce(pid, trees, subs=True, nproc=None, seed=0):
    """[(origin, abstract tree, record, exceptions)] per tree, rendered by a pool of forked workers (pure functions of
    the tree: the result does not depend on the number of workers)"""
    args = [(pid, t, subs, seed * 1000003 + i) for i, t in enumerate(trees)]
    nproc = nproc or min(8, os.cpu_count() or 2)
    if len(args) < 24 or nproc <= 1:
        return [_work(a) for a in args]
    import multiprocessing as mp
    with mp.get_context("fork").Pool(nproc) as pool:
        return pool.map(_work, args, chunksize=max(1, len(args) // (nproc * 8)))


M1_ACTIONS = ["NewText", "MakeRule", "MakeBar", "WrapInPanel", "WrapInPadding", "WrapInAlign", "WrapInConstrain",
              "WrapInStyled", "MakeGroup", "MakeTable", "AddColumn", "AddRow", "MakeColumns", "AddItem", "MakeTree",
              "AddChild", "AddGrandChild"]
_MC_CFG = """CONSTANTS
  MaxOps = %d
  MaxNest = %d
  MaxStack = 2
  Opt = "%s"
SPECIFICATION Spec
%s
CHECK_DEADLOCK FALSE
"""
_M1_CHECKS = ("VIEW View\nINVARIANT MinWPositive\nINVARIANT TableLaw\nINVARIANT BudgetLaw\nINVARIANT CollapseLaw\n"
              "PROPERTY StepLawP\nPROPERTY ScopeLawP")


def model_part(chk, tlc):
    """M1: sanity laws of MinW / InScope / budget threading on all small builder histories (two configurations: wide and
    shallow, narrow and deep; together they must fire every builder action).  M2: TLC-generated trees for replay."""
    fired = {}
    for label, ops, nest, opt in (("wide", chk.pick(3, 4), 2, "mid"), ("deep", chk.pick(5, 6), 3, "min")):
        r, cov, _missing = tlc.model_check("MC_Layout", cfg_text=_MC_CFG % (ops, nest, opt, _M1_CHECKS), workers=8)
        chk.add_tlc(r, "M1")
        if r.violated or not r.finished:
            raise tlc.TLCFailure("MC_Layout(%s): violated=%s finished=%s\n%s" % (label, r.violated, r.finished, r.out[-3000:]))
        for a in M1_ACTIONS:
            fired[a] = fired.get(a, 0) + cov.get(a, (0, 0))[1]
        chk.notes.setdefault("m1", {})[label] = dict(max_ops=ops, max_nest=nest, options=opt, states=r.distinct, diameter=r.diameter)
    never = [a for a in M1_ACTIONS if not fired.get(a)]
    if never:
        raise tlc.TLCFailure("MC_Layout: builder actions never fired: %s" % never)
    chk.notes["m1_action_coverage"] = fired
    chk.mark("M1")
    # M2a: every history of <= 2 builder actions, full option products; M2b: random deeper histories (TLC -simulate)
    trees, seen = [], set()

    def take(behs):
        for b in behs:
            key = json.dumps(b["tree"], sort_keys=True)
            if key not in seen:
                seen.add(key)
                trees.append(complete(b["tree"], salt=len(trees)))
    behs, r2 = tlc.behaviours("MC_Layout", cfg_text=_MC_CFG % (2, 3, "full", "CONSTRAINT Emit"))
    chk.add_tlc(r2, "M2")
    take(behs)
    n_ex = len(trees)
    behs, r3 = tlc.behaviours("MC_Layout", cfg_text=_MC_CFG % (9, 3, "full", "CONSTRAINT Emit"),
                              simulate="num=%d" % chk.pick(60, 1500), depth=10, seed=chk.seed + 1)
    chk.add_tlc(r3, "M2")
    take(behs)
    if not trees:
        raise tlc.TLCFailure("MC_Layout generated no trees\n" + r2.out[-2000:])
    chk.notes["tlc_generated_trees"] = dict(exhaustive=n_ex, simulated=len(trees) - n_ex)
    chk.mark("M2")
    return trees


def parse_verdict(v):
    """'ok m=5 j=20' -> ('ok', {'m': 5, 'j': 20})"""
    parts = v.split(" ")
    kv = {}
    for p in parts[1:]:
        if "=" in p:
            a, b = p.split("=", 1)
            try:
                kv[a] = int(b)
            except ValueError:
                kv[a] = b
    return parts[0], kv


def judge(chk, tlc, pid, items, label="M3"):
    """items: [(origin, tree, record, excs)] -> verdict list (TLC's)"""
    recs = [it[2] for it in items]
    verdicts, st = tlc.judge("Trace_Layout", recs, tag=pid.lower() + "judge")
    chk.add_tlc(st, label)
    chk.traces += len(recs)
    return verdicts


def minimise(chk, tlc, pid, cases, max_rounds=40, per_round=300):
    """delta debugging; every round is ONE TLC batch over all candidate reductions of all still-active cases.
    cases: [(tree, verdict)] -> [(minimal tree, its verdict, its record)]"""
    cur = []
    for tree, v in cases:
        cur.append(dict(tree=tree, v=v, clause=v.split(" ")[0], rec=None, active=True))
    for _round in range(max_rounds):
        active = [c for c in cur if c["active"]]
        if not active:
            break
        cands, owner = [], []
        for ci, c in enumerate(active):
            for t in reductions(c["tree"])[:per_round]:
                cands.append(t)
                owner.append(ci)
        if not cands:
            break
        prod = produce(pid, cands, subs=False, seed=7)
        items = [p[0] for p in prod]
        verdicts = judge(chk, tlc, pid, items, "M3-minimise")
        done = set()
        for k, (ci, v) in enumerate(zip(owner, verdicts)):
            if ci in done:
                continue
            if v.split(" ")[0] == active[ci]["clause"]:
                active[ci].update(tree=cands[k], v=v, rec=items[k][2])
                done.add(ci)
        for ci, c in enumerate(active):
            if ci not in done:
                c["active"] = False
    out = []
    for c in cur:
        if c["rec"] is None:
            c["rec"] = produce(pid, [c["tree"]], subs=False, seed=7)[0][0][2]
        out.append((c["tree"], c["v"], c["rec"]))
    return out


def handle(chk, tlc, pid, items, verdicts, sig_extra, cap):
    """account verdicts; minimise rejected cases and report them.  sig_extra(verdict kv) -> width relation string"""
    rejected, oos, judged, mism = [], 0, 0, 0
    by_tree_rejected = set()
    for (origin, tree, rec, excs), v in zip(items, verdicts):
        word, kv = parse_verdict(v)
        if word in ("ok", "oos"):
            if "m" in kv and kv["m"] != minw_py(tree):
                mism += 1
                chk.drift_note("driver's MinW mirror differs from Layout!MinW on %s: py=%d tlc=%d" % (shape(tree)[:80], minw_py(tree), kv["m"]))
            if "d" in kv:
                chk.drift_note("%s handed its child another budget than Layout!ChildBudget at W=%s" % (shape(tree)[:60], kv["d"]))
            if word == "oos":
                oos += 1
            judged += kv.get("j", 0)
            continue
        if word == "no-verdict":
            raise tlc.TLCFailure("Trace_Layout gave no verdict for %s" % json.dumps(rec)[:600])
        rejected.append((origin, tree, rec, v))
    chk.notes["records_out_of_scope"] = chk.notes.get("records_out_of_scope", 0) + oos
    chk.notes["judged_width_points"] = chk.notes.get("judged_width_points", 0) + judged
    if not rejected:
        return
    # a rejected record with a rejected proper sub-tree (same clause) is attributed to the sub-tree (the smaller witness)
    keys = {}
    for origin, tree, rec, v in rejected:
        keys.setdefault(v.split(" ")[0], set()).add(json.dumps(tlc_view(tree), sort_keys=True))
    minimal = []
    for origin, tree, rec, v in rejected:
        clause = v.split(" ")[0]
        own = json.dumps(tlc_view(tree), sort_keys=True)
        subs_rej = False
        for path, n in subtrees(tree):
            if path and json.dumps(tlc_view(n), sort_keys=True) in keys[clause] and json.dumps(tlc_view(n), sort_keys=True) != own:
                subs_rej = True
                break
        if not subs_rej:
            minimal.append((origin, tree, rec, v))
    seen, uniq = set(), []
    for origin, tree, rec, v in sorted(minimal, key=lambda x: size(x[1])):
        key = (v.split(" ")[0], shape(tree))
        if key not in seen:
            seen.add(key)
            uniq.append((origin, tree, rec, v))
    # diverse selection under the cap: round-robin over (clause, root kind)
    groups = {}
    for u in uniq:
        groups.setdefault((u[3].split(" ")[0], u[1]["k"]), []).append(u)
    chosen = []
    while len(chosen) < cap and any(groups.values()):
        for g in sorted(groups):
            if groups[g] and len(chosen) < cap:
                chosen.append(groups[g].pop(0))
    chk.notes["rejected_records"] = chk.notes.get("rejected_records", 0) + len(rejected)
    chk.notes["rejected_minimised"] = chk.notes.get("rejected_minimised", 0) + len(chosen)
    chk.notes["rejected_not_minimised"] = chk.notes.get("rejected_not_minimised", 0) + len(uniq) - len(chosen)
    mins = minimise(chk, tlc, pid, [(c[1], c[3]) for c in chosen])
    for (origin, tree0, rec0, v0), (mt, mv, mrec) in zip(chosen, mins):
        word, kv = parse_verdict(mv)
        sig = "%s %s %s" % (word, shape(mt), sig_extra(word, kv))
        chk.reject(sig.strip(), "%s  (minimised from a %s record rejected with '%s')" % (mv, origin.split(":")[0], v0),
                   dict(tree=mt, record=mrec, verdict=mv, original=dict(tree=tree0, verdict=v0, origin=origin)))
