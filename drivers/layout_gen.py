"""Shared generator / builder / projector for the layout properties (C01, C09; C07, C08 can reuse it).

An *abstract tree* (JSON-able dict, vocabulary of specs/Layout.tla) IS the construction recipe:
`build()` instantiates the real Rich renderable from it, so tree <-> object correspondence is by
construction.  Fields TLC reads (see Layout.tla): k, cs, ov, nw, c, ch, pl, pr, w, ex, title, cols,
rows, box, edge, sh, sf, pe, cp, minw, caption, label, exp, chars.  All other fields are
construction-only (concrete code points, vertical padding, justify, styles, ...).

Python here never judges: `minw_py` / `inscope_py` exist only to CHOOSE which widths to render
(ladder from the structural minimum) and are cross-checked against TLC's MinW (reported in every
verdict); a mismatch is reported as DRIFT of the driver, not as a verdict.

Trusted projections: `project_text` (character -> <<class, cell width>> with
rich.cells.get_character_cell_size of the tree under test) and `line_widths` (segment stream ->
lines -> cell widths by bisection over the width table of the tree under test, independent of rich.cells."""
import io
import json
import os

# ---- content alphabets ---------------------------------------------------------------------------
NARROW = "abcxyz-.0A"
WIDE = "\u4e16\u754c\u3042\U0001F600\U0001F63D\uff21\uac00\U0001F469\uffe5\u1100\U0003fffd"   # CJK, kana, emoji, fullwidth A, Hangul syllable; the last wide BMP range (fullwidth yen), the first wide range (Hangul Jamo), the last wide range of the table
ZERO = "\u0301\u200b\u200d\u0300\ufe0f"                        # combining marks, ZWSP, ZWJ, VS16
SPACE = " "
WIDE_SPACE = "\u3000"
# audit-1: narrow non-ASCII blanks (NBSP, EN SPACE, MEDIUM MATHEMATICAL SPACE), narrow non-ASCII characters (precomposed, Thai
# SARA AM, a regional indicator, soft hyphen), Hangul (wide), a variation selector (zero width)
UNI_SPACE = "\u00a0\u2002\u205f"
NARROW_UNI = "\u00e9\u0e33\U0001F1EF\u00ad"
BOXES = ["ASCII", "ASCII2", "ASCII_DOUBLE_HEAD", "SQUARE", "SQUARE_DOUBLE_HEAD", "MINIMAL", "MINIMAL_HEAVY_HEAD",
         "MINIMAL_DOUBLE_HEAD", "SIMPLE", "SIMPLE_HEAD", "SIMPLE_HEAVY", "HORIZONTALS", "ROUNDED", "HEAVY",
         "HEAVY_EDGE", "HEAVY_HEAD", "DOUBLE", "DOUBLE_EDGE"]
CANON = {(0, 1): "a", (0, 2): "\u4e16", (0, 0): "\u0301", (1, 1): " ", (1, 2): "\u3000", (2, 0): "\n", (3, 0): "\t", (1, 0): "\x1c"}
# characters Text removes when it is constructed (strip_control_codes): a recipe never contains them (class 4 if it did)
_LINE_BOUNDARIES = set("\r\x0b\x0c")
# audit-1: characters str.splitlines() treats as line boundaries but Rich does not (Text.split("\n"), Text.wrap): they are
# white space (str.isspace(), re \s) of zero width INSIDE a line - class 1 like any other blank, width from the tree under test
SPLITLINES_ONLY = "\x1c\x1d\x1e\x85\u2028\u2029"


_TABLE = []


def table_char_width(ch):
    """the width the property speaks of: the entry of the width table (rich/_cell_widths.py of the tree under test) that holds the
    code point - looked up here by bisection over the table itself, NOT with rich.cells (whose lookup is C13's subject and may be
    the very thing a change broke): -1 entries count 0, code points in no entry count 1"""
    import bisect
    if not _TABLE:
        from rich._cell_widths import CELL_WIDTHS
        _TABLE.append([r[0] for r in CELL_WIDTHS])
        _TABLE.append(list(CELL_WIDTHS))
    cp = ord(ch)
    i = bisect.bisect_right(_TABLE[0], cp) - 1
    if i >= 0:
        lo, hi, w = _TABLE[1][i]
        if lo <= cp <= hi:
            return 0 if w == -1 else w
    return 1


def table_cell_len(s):
    return sum(table_char_width(ch) for ch in s)


def _cw():
    return table_char_width


def project_text(s):
    """str -> [[class, width]] (Layout.tla: 0 char, 1 space, 2 newline, 3 tab, 4 removed by Text)"""
    cw = _cw()
    out = []
    for ch in s:
        if ch == "\n":
            cls = 2
        elif ch == "\t":
            cls = 3
        elif ch in _LINE_BOUNDARIES:
            cls = 4
        elif ch.isspace():
            cls = 1
        else:
            cls = 0
        out.append([cls, cw(ch)])
    return out


def text_of(node, key_s="s", key_cs="cs"):
    """concrete string of a text-carrying field: explicit code points if present, else canonical from cs"""
    if node.get(key_s) is not None:
        return "".join(map(chr, node[key_s]))
    return "".join(CANON.get((c[0], c[1]), "a") for c in node.get(key_cs, []))


def set_text(node, s, key_s="s", key_cs="cs"):
    node[key_s] = [ord(c) for c in s]
    node[key_cs] = project_text(s)


# ---- random content ------------------------------------------------------------------------------
def rand_text(rng, maxlen=12, newlines=True, tabs=True):
    r = rng.random()
    if r < 0.06:
        return ""
    n = rng.randint(1, maxlen) if rng.random() < 0.8 else rng.randint(1, 3 * maxlen)
    style = rng.choice(["ascii", "ascii", "mixed", "mixed", "wide", "zw", "ws"])
    out = []
    for _ in range(n):
        p = rng.random()
        if style == "ws":
            out.append(rng.choice("  \n" if newlines else " "))
            continue
        if p < 0.16:
            out.append(" ")
        elif p < 0.21 and newlines:
            out.append("\n")
        elif p < 0.225 and tabs:
            out.append("\t")
        elif p < 0.235:
            out.append(WIDE_SPACE)
        elif p < 0.245:
            out.append(rng.choice(UNI_SPACE))
        elif p < 0.26:
            out.append(rng.choice(SPLITLINES_ONLY))
        elif p < 0.275 and style != "ascii":
            out.append(rng.choice(NARROW_UNI))
        elif style == "ascii":
            out.append(rng.choice(NARROW))
        elif style == "wide":
            out.append(rng.choice(WIDE) if rng.random() < 0.8 else rng.choice(NARROW))
        elif style == "zw":
            out.append(rng.choice(ZERO) if rng.random() < 0.4 else rng.choice(NARROW + WIDE))
        else:
            q = rng.random()
            out.append(rng.choice(NARROW) if q < 0.55 else rng.choice(WIDE) if q < 0.85 else rng.choice(ZERO))
    return "".join(out)


def rand_title(rng):
    s = rand_text(rng, 8, newlines=False, tabs=False).strip()
    return s or rng.choice(["t", "\u4e16", "ab"])


def mk_txt(rng, cropped, maxlen=12, hist_p=0.06):
    s = rand_text(rng, maxlen)
    t = dict(k="txt", ov="none", nw=False, src="text", jus="none")
    set_text(t, s)
    r = rng.random()
    if r < 0.35:
        t["src"] = "str"
    else:
        t["ov"] = rng.choice(["none", "fold", "fold", "crop", "ellipsis"])
        t["jus"] = rng.choice(["none", "none", "left", "center", "right", "full", "default"])
        q = rng.random()
        if cropped and q < 0.10:
            t["ov"] = "ignore"
        elif cropped and q < 0.18:
            t["nw"] = True
        elif not cropped and q < 0.015:
            t["ov"] = "ignore"          # outside the quantifier on purpose (exercises InScope)
        # audit-1 (all optional recipe fields): style spans (a rendered line is then several segments: the cropping /
        # padding code paths that walk a line segment by segment), a base style, the text's own tab size and `end`
        if s and rng.random() < 0.3:
            n = len(s)
            sp = []
            for _ in range(rng.choice([1, 1, 2, 3, 5])):
                a = rng.randint(0, n)
                b = rng.choice([a, a + 1, rng.randint(a, n), n, n + 3])
                sp.append([a, b, rng.choice(SPAN_STYLES)])
            t["sp"] = sp
        if rng.random() < 0.08:
            t["st"] = rng.choice(SPAN_STYLES)
        if rng.random() < (0.5 if "\t" in s else 0.02):
            t["tab"] = rng.choice([1, 2, 3, 4, 8])
        if cropped and rng.random() < (0.12 if (t["ov"] == "ignore" or t["nw"]) else 0.04):
            t["end"] = rng.choice(["none", "sp"])   # Layout.tla C10: only beneath a cropping container
        if s and rng.random() < hist_p:
            t["pre"] = gen_history(rng, s)
    return t


def gen_history(rng, s):
    """audit-1: object reuse.  The Text is built from s0, measured and rendered, then edited IN PLACE through its public methods
    (measured and rendered again after every edit); the object the recipe stands for is the edited one - its content (`s`, `cs`)
    is read back from the object when it is built (an observation; the edits themselves are C05's subject)."""
    n = len(s)
    ops = []
    for _ in range(rng.choice([1, 1, 2, 3])):
        q = rng.randrange(12)
        if q <= 2:
            ops.append(["right_crop", rng.randint(1, max(1, n))])
        elif q == 3:
            ops.append(["set_length", rng.randint(0, n + 3)])
        elif q == 4:
            ops.append(["rstrip"])
        elif q == 5:
            ops.append(["rstrip_end", rng.randint(0, n)])
        elif q == 6:
            ops.append(["truncate", rng.randint(1, n + 2), rng.choice(["crop", "ellipsis", "fold"]), rng.random() < 0.3])
        elif q == 7:
            ops.append(["append", rng.choice(["x", " yz", "\u4e16", "\nq"])])
        elif q == 8:
            ops.append([rng.choice(["pad_left", "pad_right", "pad"]), rng.randint(1, 3)])
        elif q == 9:
            ops.append(["plain", rand_text(rng, 6) or "p"])
        elif q == 10:
            ops.append(["expand_tabs"])
        else:
            ops.append(["align", rng.choice(["left", "center", "right"]), rng.randint(1, n + 4)])
    return dict(s0=[ord(c) for c in s], ops=ops)


def apply_history(env, obj, ops):
    """measure + render, then every edit followed by measure + render (anything a Text caches must follow the edits)"""
    c = env.console(80)
    narrow = c.options.update(width=5)

    def touch():
        try:
            env.Measurement.get(c, obj)
            env.Measurement.get(c, obj, 3)
            list(c.render(obj, narrow))
            list(c.render(obj, c.options))
        except Exception:
            pass
    touch()
    for op in ops:
        name, args = op[0], op[1:]
        try:
            if name == "plain":
                obj.plain = args[0]
            elif name == "truncate":
                obj.truncate(args[0], overflow=args[1], pad=args[2])
            else:
                getattr(obj, name)(*args)
        except Exception:                   # an edit that raises is C05's / C14's subject; the object stays as it is
            pass
        touch()


SPAN_STYLES = ["bold", "red", "italic on blue", "underline", "not bold", "dim", "reverse"]
_TEXT_ONLY = ("sp", "st", "tab", "end", "pre")


def _as_str(t):
    """turn a text recipe into the `str` form (a plain Python string has no options of its own)"""
    t.update(src="str", ov="none", nw=False, jus="none")
    for f in _TEXT_ONLY:
        t.pop(f, None)
    return t


def _pad(rng, big=3):
    return rng.choice([0, 0, 1, 1, 2, big])


ENV_DEFAULT = dict(via="console", cwd=0, asc=False, legacy=False, safe=True, color="none", ojus="none", oov="none", onw=False,
                   tab=8, hl=True, prt=False)


def gen_env(rng, bars=False, pr=False):
    """audit-1: the console / ConsoleOptions a recipe is rendered under (optional root field `env`; every field has the
    default of ENV_DEFAULT).  via: how the W cells are made available - a console of that width | a wider console and
    options.update(width=W) (what Console.print(width=) does: min_width = max_width = W) | options.update(max_width=W);
    asc / legacy / safe: ascii-only encoding, legacy_windows, Console(safe_box=); color: colour system (bars draw their
    remainder only with colour; "nocolor" = NO_COLOR on a truecolor console); ojus / oov / onw: justify / overflow / no_wrap
    handed in through the options (Console.print(justify=, overflow=, no_wrap=)); tab: Console(tab_size=); hl: Console(highlight=);
    prt: the recipe is shown with Console.print(...) on a console of width W and the printed lines are observed - print crops to
    the console width (Segment.split_and_crop_lines(pad=False)), so the console is a cropping container around the root and
    overflow="ignore" / no_wrap leaves are in scope at top level (Layout!RootCropped)."""
    e = dict(ENV_DEFAULT)
    if pr:
        e["prt"] = True
    elif rng.random() < 0.45:
        e["via"] = rng.choice(["update_width", "update_max"])
        e["cwd"] = rng.choice([1, 2, 7, 40, 150])
    if rng.random() < (0.3 if bars else 0.2):
        e["asc"] = True
    if rng.random() < (0.3 if bars else 0.2):
        e["legacy"] = True
    if rng.random() < 0.15:
        e["safe"] = False
    if rng.random() < (0.75 if bars else 0.3):       # bars draw their remainder only with colour
        e["color"] = rng.choice(["truecolor", "truecolor", "standard", "nocolor"])
    if rng.random() < 0.25:
        e["ojus"] = rng.choice(["default", "left", "center", "right", "full"])
    if rng.random() < 0.25:
        e["oov"] = rng.choice(["fold", "crop", "ellipsis", "ellipsis", "ignore"])
    if rng.random() < 0.1:
        e["onw"] = True
    if rng.random() < 0.15:
        e["tab"] = rng.choice([1, 2, 3, 4])
    if rng.random() < 0.15:
        e["hl"] = False
    return e


def env_of(tree):
    e = tree.get("env")
    if not e:
        return None
    return dict(ENV_DEFAULT, **e)


def env_is_default(e):
    return not e or all(e.get(k, v) == v for k, v in ENV_DEFAULT.items() if k != "cwd")


def _maybe_sty(rng, t, names, p=0.1):
    """style options given as strings (the `sty` field C14's stress also uses): they never change a layout, but styled
    padding / borders are separate segments"""
    if rng.random() < p:
        t["sty"] = {n: rng.choice(["on blue", "bold", "red", "dim"]) for n in names if rng.random() < 0.7}


def gen(rng, depth, cropped=False, top=True, env_p=0.5):
    """random abstract tree with Nesting <= depth; a top-level tree carries a console / options environment (`env`) with
    probability env_p"""
    pr = top and env_p > 0 and rng.random() < 0.15
    t = _gen(rng, depth, cropped or pr, top)
    if pr or (top and rng.random() < env_p):
        e = gen_env(rng, _has_bar(t), pr)
        if not env_is_default(e):
            t["env"] = e
    return t


def _gen(rng, depth, cropped=False, top=True):
    """random abstract tree with Nesting <= depth"""
    leafp = 0.25 if top else 0.45
    if depth <= 0 or rng.random() < leafp:
        r = rng.random()
        if r < 0.74:
            return mk_txt(rng, cropped)
        if r < 0.86:
            t = dict(k="rule", al=rng.choice(["left", "center", "right"]))
            set_text(t, rand_title(rng) if rng.random() < 0.55 else "", "ts", "title")
            set_text(t, rng.choice(["─", "─", "-", "世", "=-", "á", "━世"]), "chs", "chars")
            if t["title"] and rng.random() < 0.3:
                t["tt"] = True              # the title is a Text object
            _maybe_sty(rng, t, ("style",))
            return t
        if r < 0.93:
            b, e = sorted([rng.choice([0, 0, 10, 33.3, 50, 99, 100]), rng.choice([0, 10, 50, 66.6, 100, 100])])
            size = rng.choice([100, 100, 100, 1, 7])
            return dict(k="bar", w=rng.choice([0, 0, 0, 1, 3, 10, 40]), size=size, begin=b * size / 100, end=e * size / 100)
        t = dict(k="progressbar", w=rng.choice([0, 0, 0, 1, 3, 10, 40]), total=rng.choice([100, 100, 7, 0]),
                 completed=rng.choice([0, 1, 3, 33, 50, 99, 100, 100, 250]), pulse=rng.random() < 0.2)
        if t["pulse"]:
            t["at"] = rng.choice([0.0, 0.0, 0.33, 1.234, 77.7])
        return t
    d = depth - 1
    kind = rng.choice(["panel", "panel", "padding", "align", "constrain", "styled", "wrap2", "group", "group",
                       "table", "table", "table", "columns", "tree", "tree"])
    if kind == "panel":
        c = gen(rng, d, True, False)
        t = dict(k="panel", c=c, pl=_pad(rng), pr=_pad(rng), pt=rng.choice([0, 0, 1]), pb=rng.choice([0, 0, 1]),
                 w=0, ex=rng.random() < 0.6, ta=rng.choice(["left", "center", "right"]), box=rng.choice(BOXES))
        if rng.random() < 0.5:
            t["pl"], t["pr"] = rng.choice([(0, 0), (1, 1), (0, 0)])
        set_text(t, rand_title(rng) if rng.random() < 0.45 else "", "ts", "title")
        if rng.random() < 0.15:
            m = minw_py(t)
            t["w"] = max(1, m + rng.choice([0, 0, 1, 2, 5, 20]) - (rng.random() < 0.15) * rng.randint(1, 3))
        # audit-1: title as a Text object, safe_box, Panel.fit, the 1/2-value padding forms, style options
        if t["title"] and rng.random() < 0.3:
            t["tt"] = True
            if rng.random() < 0.6:
                t["ttj"] = rng.choice(["left", "center", "right", "full"])
        if rng.random() < 0.2:
            t["sb"] = rng.choice([True, False])
        if not t["ex"] and rng.random() < 0.3:
            t["fitcm"] = True
        t["form"] = rng.choice([4, 4, 2, 1])
        _maybe_sty(rng, t, ("style", "border_style"))
        return t
    if kind == "padding":
        c = gen(rng, d, True, False)
        t = dict(k="padding", c=c, pl=_pad(rng, 5), pr=_pad(rng, 5), pt=rng.choice([0, 0, 1]), pb=rng.choice([0, 0, 1]),
                 ex=rng.random() < 0.6, form=rng.choice([4, 4, 2, 1]))
        if rng.random() < 0.08:             # Padding.indent(renderable, level)
            t.update(pr=0, pt=0, pb=0, ex=False, form="indent")
        _maybe_sty(rng, t, ("style",))
        return t
    if kind in ("align", "constrain"):
        c = gen(rng, d, cropped, False)
        t = dict(k=kind, c=c, w=0)
        if kind == "align":
            t.update(al=rng.choice(["left", "center", "right"]), pad=rng.random() < 0.7)
        if rng.random() < (0.35 if kind == "align" else 0.85):
            m = minw_py(c)
            t["w"] = max(1, m + rng.choice([0, 0, 1, 2, 5, 20, 60]) - (rng.random() < 0.1) * rng.randint(1, 3))
        if kind == "align":
            if rng.random() < 0.25:
                t["cm"] = True              # the classmethods Align.left / Align.center / Align.right
            _maybe_sty(rng, t, ("style",))
        return t
    if kind in ("styled", "wrap2"):
        k = "styled" if kind == "styled" else rng.choice(["opaque", "cast"])
        vc = k == "styled" and rng.random() < 0.3
        c = gen(rng, d, cropped or vc, False)
        if k == "cast" and c["k"] == "cast":
            k = "opaque"                # __rich__ returning another __rich__ object is not supported by Console.render
        t = dict(k=k, c=c)
        if vc:
            t["impl"] = "vcenter"       # rich.align.VerticalCenter: a built-in wrapper, transparent for the width, that crops (render_lines)
        return t
    if kind == "group":
        t = dict(k="group", ch=[gen(rng, d, cropped, False) for _ in range(rng.choice([1, 2, 2, 3] * 5 + [0]))],     # audit-1: also an empty group
                 fit=rng.random() < 0.8)
        if rng.random() < 0.2:
            t["impl"] = "renderables"   # rich.containers.Renderables: the other built-in group
        return t
    if kind == "table":
        nc = rng.choice([1, 1, 2, 2, 3, 4] * 4 + [5, 6])
        nr = rng.choice([0, 1, 1, 2, 2, 3] * 4 + [5, 8])
        cols = []
        for _ in range(nc):
            hdr = mk_txt(rng, True, 8)
            ftr = mk_txt(rng, True, 6)
            if rng.random() < 0.8:
                _as_str(hdr)
            elif rng.random() < 0.3:        # audit-1: a header may be any renderable
                hdr = gen(rng, min(d, 1), True, False)
            if rng.random() < 0.8:
                _as_str(ftr)
            col = dict(hdr=hdr, ftr=ftr, w=0, minw=0, maxw=0, ratio=0, nw=False,
                       jus=rng.choice(["left", "left", "center", "right", "full", "default"]),
                       ov=rng.choice(["ellipsis", "ellipsis", "fold", "crop", "ignore"]))   # audit-1: "default", "ignore" (cells are cropped)
            if rng.random() < 0.2:
                col["maxw"] = rng.randint(1, 8)
            if rng.random() < 0.3:
                col["ratio"] = rng.randint(1, 3)
            cols.append(col)
        small = nc * nr > 12
        rows = [[gen(rng, d if (rng.random() < 0.35 and not small) else 0, True, False) for _ in range(nc)] for _ in range(nr)]
        t = dict(k="table", cols=cols, rows=rows, box=rng.choice(["none", "none"] + BOXES), edge=rng.random() < 0.75,
                 lines=rng.random() < 0.25, leading=rng.choice([0, 0, 0, 0, 1, 2, 3]), sh=rng.random() < 0.7,
                 sf=rng.random() < 0.3, pl=_pad(rng), pr=_pad(rng), pt=rng.choice([0, 0, 0, 1]), pb=rng.choice([0, 0, 0, 1]),
                 pe=rng.random() < 0.65, cp=rng.random() < 0.35, ex=rng.random() < 0.4, w=0, minw=0,
                 tj=rng.choice(["left", "center", "right"]), endsec=rng.random() < 0.15)
        if rng.random() < 0.5:
            t["pl"], t["pr"] = rng.choice([(1, 1), (0, 0), (0, 1)])
        set_text(t, rand_title(rng) if rng.random() < 0.3 else "", "ts", "title")
        set_text(t, rand_title(rng) if rng.random() < 0.2 else "", "cps", "caption")
        # audit-1 (optional recipe fields): padding given as int / 2-tuple, caption_justify, safe_box, highlight, columns handed to
        # the constructor (str headers or Column objects), rows shorter than the table / None cells, end_section on any row,
        # Table.grid(), title as Text, style options
        t["form"] = rng.choice([4, 4, 2, 1])
        t["cj"] = rng.choice(["left", "center", "right"])
        if rng.random() < 0.2:
            t["sb"] = rng.choice([True, False])
        if rng.random() < 0.15:
            t["hl"] = True
        if rng.random() < 0.25:
            t["hvia"] = "column" if rng.random() < 0.6 or any(c["hdr"].get("src") != "str" for c in cols) else "ctor"
        if nr and nc > 1 and rng.random() < 0.15:
            for row in rows[:rng.randint(1, nr)]:
                j = rng.randrange(nc)
                for jj in (range(j, nc) if rng.random() < 0.6 else [j]):
                    row[jj] = dict(_leaf(""), omit=True)
        if nr > 1 and rng.random() < 0.15:
            t["endrows"] = sorted(set(rng.randrange(nr) for _ in range(rng.randint(1, 3))))
        if rng.random() < 0.08:
            t.update(grid=True, box="none", sh=False, sf=False, edge=False)
            set_text(t, "", "ts", "title")
            set_text(t, "", "cps", "caption")
        if t["title"] and rng.random() < 0.3:
            t["tt"] = True
            if rng.random() < 0.5:
                t["ttj"] = rng.choice(["left", "center", "right", "full"])
        _maybe_sty(rng, t, ("style", "border_style", "header_style", "footer_style", "title_style", "caption_style", "row_styles"))
        if rng.random() < 0.04:          # not free to wrap: outside the quantifier on purpose
            q = rng.randrange(5)
            if q == 0:
                rng.choice(cols)["w"] = rng.randint(1, 12)
            elif q == 1:
                rng.choice(cols)["minw"] = rng.randint(1, 12)
            elif q == 2:
                rng.choice(cols)["nw"] = True
            elif q == 3:
                t["w"] = rng.randint(1, 60)
            else:
                t["minw"] = rng.randint(1, 60)
        return t
    if kind == "columns":
        t = dict(k="columns", ch=[gen(rng, d if rng.random() < 0.4 else 0, True, False) for _ in range(rng.choice([0, 1, 2, 3, 4, 6]))],
                 w=0, pl=_pad(rng), pr=_pad(rng), pt=0, pb=rng.choice([0, 0, 1]), ex=rng.random() < 0.4, eq=rng.random() < 0.4,
                 cf=rng.random() < 0.4, rtl=rng.random() < 0.3, al=rng.choice(["none", "none", "left", "center", "right"]))
        if rng.random() < 0.6:
            t["pl"], t["pr"] = 1, 1
        set_text(t, rand_title(rng) if rng.random() < 0.25 else "", "ts", "title")
        if rng.random() < 0.03:
            t["w"] = rng.randint(1, 12)  # fixed-width columns: outside the quantifier on purpose
        # audit-1: padding forms, items added with add_renderable, title as Text
        t["form"] = rng.choice([4, 4, 2, 1])
        if rng.random() < 0.2:
            t["addr"] = True
        if t["title"] and rng.random() < 0.3:
            t["tt"] = True
        return t
    if kind == "tree":
        def node(level):
            n = dict(k="tree", label=gen(rng, d if rng.random() < 0.4 else 0, True, False), exp=rng.random() < 0.85,
                     gs=rng.choice(["", "", "bold", "underline2"]), ch=[])
            if rng.random() < 0.15:
                n["tst"] = rng.choice(["green", "on blue", "bold"])       # audit-1: Tree(style=) / add(style=)
            if rng.random() < 0.1:
                n["hl"] = True
            if level < 3:
                n["ch"] = [node(level + 1) for _ in range(rng.choice([0, 0, 1, 2, 3] if level else [0, 1, 2, 3]))]
            return n
        return node(0)
    raise AssertionError(kind)


# ---- hand-listed boundary recipes: every kind of renderable x every environment preset (audit-1) ----------------------
def _env(**kw):
    return dict(ENV_DEFAULT, **kw)


ENV_PRESETS = ([_env(via=v, cwd=c) for v in ("update_width", "update_max") for c in (1, 60)]
               + [_env(asc=True), _env(legacy=True), _env(legacy=True, safe=False), _env(asc=True, legacy=True)]
               + [_env(color=c) for c in ("truecolor", "standard", "nocolor")]
               + [_env(asc=True, color="truecolor"), _env(legacy=True, color="standard"), _env(via="update_max", cwd=9, asc=True, color="truecolor")]
               + [_env(ojus=j) for j in ("default", "left", "center", "right", "full")]
               + [_env(oov=o) for o in ("fold", "crop", "ellipsis", "ignore")]
               + [_env(onw=True), _env(tab=1), _env(tab=4), _env(hl=False), _env(oov="ellipsis", ojus="right", via="update_width", cwd=3)]
               + [_env(prt=True), _env(prt=True, oov="ignore"), _env(prt=True, onw=True, ojus="center"), _env(prt=True, color="truecolor", asc=True)])
ENV_PRESETS_FEW = [_env(via="update_width", cwd=60), _env(via="update_max", cwd=1), _env(asc=True), _env(legacy=True), _env(color="truecolor"),
                   _env(ojus="right"), _env(ojus="full"), _env(oov="crop"), _env(oov="ellipsis"), _env(oov="ignore"), _env(onw=True),
                   _env(prt=True), _env(prt=True, oov="ignore")]


def boundary_trees():
    """small canonical recipes of every kind, each under every environment preset (leaf kinds: all presets; containers: the
    presets that reach a container's arithmetic)"""
    def T(s, **kw):
        t = _leaf(s)
        t.update(kw)
        return t

    def rule(title, chars, al="center", **kw):
        t = dict(k="rule", al=al, **kw)
        set_text(t, title, "ts", "title")
        set_text(t, chars, "chs", "chars")
        return t

    def titled(t, title, key_s="ts", key_cs="title"):
        set_text(t, title, key_s, key_cs)
        return t
    words = "ab cde \u4e16\u754c fgh\u0301 x"
    leaves = [dict(k="progressbar", w=0, total=100, completed=c, pulse=False) for c in (0, 1, 33, 99, 100, 250)]
    leaves += [dict(k="progressbar", w=0, total=100, completed=40, pulse=True, at=a) for a in (0.0, 0.33)]
    leaves += [dict(k="progressbar", w=6, total=7, completed=3, pulse=False), dict(k="progressbar", w=0, total=0, completed=0, pulse=False)]
    leaves += [dict(k="bar", w=0, size=100, begin=b, end=e) for b, e in ((0, 100), (10, 60), (33.3, 66.6), (0, 0), (99, 100))]
    leaves += [dict(k="bar", w=5, size=7, begin=1, end=6)]
    leaves += [rule("", "\u2500"), rule("", "\u4e16"), rule("", "=-"), rule("t", "\u2500"), rule("a\u4e16b", "\u2501\u4e16", "left"),
               rule("two words", "-", "right"), rule("Title", "\u2500", "center", tt=True)]
    leaves += [T(words), T(words, src="str"), T("a\tb\tc\u4e16", tab=3), T(words, jus="full"), T(words, ov="ellipsis", jus="center"),
               T("abcdefghij klm", sp=[[0, 3, "bold"], [2, 12, "red"], [5, 5, "dim"]], ov="crop"),
               T("aaa\x1cbbb"), T("ab\u2028cd ef\x85gh\nij\x1ekl\u2029\u4e16", src="str"), T("a\u00a0b\u2002c d")]
    inner = T(words)
    loose = T("abcdefghijklmnop \u4e16\u754c\u4e16\u754c", ov="ignore", sp=[[2, 9, "bold"], [4, 30, "red"]])
    boxes = []
    for c in (inner, loose):
        boxes.append(titled(dict(k="panel", c=c, pl=1, pr=1, pt=0, pb=0, w=0, ex=True, ta="center", box="ROUNDED"), "T\u4e16"))
        boxes.append(titled(dict(k="panel", c=c, pl=0, pr=2, pt=0, pb=0, w=0, ex=False, ta="left", box="HEAVY", fitcm=True, sb=False), ""))
        boxes.append(dict(k="padding", c=c, pl=2, pr=1, pt=0, pb=0, ex=True, form=4))
        boxes.append(dict(k="padding", c=c, pl=3, pr=0, pt=0, pb=0, ex=False, form="indent"))
    for j in ("left", "center", "right", "full"):
        boxes.append(titled(dict(k="panel", c=inner, pl=0, pr=0, pt=0, pb=0, w=0, ex=j != "right", ta="center", box="SQUARE", tt=True, ttj=j), "Ti"))
    boxes.append(dict(k="align", c=inner, w=0, al="center", pad=True))
    boxes.append(dict(k="align", c=inner, w=9, al="right", pad=False, cm=True))
    boxes.append(dict(k="constrain", c=inner, w=7))
    boxes.append(dict(k="styled", c=inner, impl="vcenter"))
    boxes.append(dict(k="styled", c=inner))
    boxes.append(dict(k="group", ch=[inner, rule("r", "-")], fit=True, impl="renderables"))
    boxes.append(dict(k="group", ch=[inner, dict(k="bar", w=0, size=100, begin=10, end=60)], fit=False))

    def col(h, **kw):
        c = dict(hdr=T(h, src="str"), ftr=T("f", src="str"), w=0, minw=0, maxw=0, ratio=0, nw=False, jus="left", ov="fold")
        c.update(kw)
        return c
    for opts in (dict(box="SQUARE", edge=True, pl=1, pr=1, pe=True, cp=False, ex=False),
                 dict(box="none", edge=True, pl=0, pr=2, pe=False, cp=True, ex=True),
                 dict(box="ROUNDED", edge=False, pl=0, pr=0, pe=True, cp=False, ex=True, hvia="column", form=2)):
        t = dict(k="table", cols=[col("h\u4e16", ratio=1), col("header two", ov="ignore", jus="default"), col("c", maxw=4, ov="ellipsis")],
                 rows=[[T(words), loose, T("x")], [T("y\nz"), dict(_leaf(""), omit=True), dict(_leaf(""), omit=True)]],
                 lines=False, leading=0, sh=True, sf=True, pt=0, pb=0, w=0, minw=0, tj="center", endsec=False, endrows=[0])
        t.update(opts)
        titled(t, "table title \u4e16", "ts", "title")
        titled(t, "cap", "cps", "caption")
        boxes.append(t)
    g = dict(k="table", cols=[col("", ov="crop"), col("", ratio=2)], rows=[[T(words), T("\u4e16\u754c ab")]], box="none", edge=False, lines=False,
             leading=0, sh=False, sf=False, pl=0, pr=1, pt=0, pb=0, pe=False, cp=True, ex=True, w=0, minw=0, tj="center", endsec=False, grid=True)
    titled(g, "", "ts", "title")
    titled(g, "", "cps", "caption")
    boxes.append(g)
    for kw in (dict(ex=False, eq=False, cf=False, rtl=False, al="none"), dict(ex=True, eq=True, cf=True, rtl=True, al="center", addr=True, form=2)):
        c = dict(k="columns", ch=[T("ab cd"), T("\u4e16\u754c"), T("efghij"), loose], w=0, pl=1, pr=1, pt=0, pb=0)
        c.update(kw)
        boxes.append(titled(c, "Col\u4e16"))
    boxes.append(dict(k="tree", label=T("root \u4e16"), exp=True, gs="", ch=[
        dict(k="tree", label=inner, exp=True, gs="bold", tst="green", ch=[dict(k="tree", label=loose, exp=True, gs="underline2", ch=[])]),
        dict(k="tree", label=T("leaf"), exp=False, gs="", ch=[dict(k="tree", label=T("hidden"), exp=True, gs="", ch=[])])]))
    out = []
    for t in leaves:
        out.append(_clone(t))
        out += [dict(_clone(t), env=dict(e)) for e in ENV_PRESETS]
    for t in boxes:
        out.append(_clone(t))
        out += [dict(_clone(t), env=dict(e)) for e in ENV_PRESETS_FEW]
    # the witness of the open finding "ProgressBar emits no line break" (known_findings.json), plain and with colour: always present
    pb = dict(k="group", ch=[dict(k="progressbar", w=0, total=100, completed=100, pulse=False), T("a")], fit=True)
    out += [_clone(pb), dict(_clone(pb), env=_env(color="truecolor"))]
    for t in out:
        complete(t)
    return out


# ---- Python mirror of Layout!MinW / InScope (width selection only) ---------------------------------
def _wide(cs):
    return any(c[1] == 2 for c in cs)


def _leafmin(cs):
    return 2 if _wide(cs) else 1


def _titlemin(cs):
    return 0 if not cs else _leafmin(cs)


def table_pad(t, j, nc):
    left = 0 if (not t["pe"] and j == 0) else (max(0, t["pl"] - t["pr"]) if (t["cp"] and j > 0) else t["pl"])
    right = 0 if (not t["pe"] and j == nc - 1) else t["pr"]
    return left, right


def minw_py(t):
    k = t["k"]
    if k == "txt":
        return _leafmin(t["cs"])
    if k == "panel":
        return 2 + t["pl"] + t["pr"] + minw_py(t["c"])
    if k == "padding":
        return t["pl"] + t["pr"] + minw_py(t["c"])
    if k in ("align", "constrain", "styled", "opaque", "cast"):
        return minw_py(t["c"])
    if k == "group":
        return max([1] + [minw_py(c) for c in t["ch"]])
    if k == "table":
        nc = len(t["cols"])
        box = t["box"] != "none"
        tot = (2 if box and t["edge"] else 0) + (nc - 1 if box and nc else 0)
        for j, col in enumerate(t["cols"]):
            m = 1
            if t["sh"]:
                m = max(m, minw_py(col["hdr"]))
            if t["sf"]:
                m = max(m, minw_py(col["ftr"]))
            for row in t["rows"]:
                m = max(m, minw_py(row[j]))
            tot += sum(table_pad(t, j, nc)) + m
        return max(1, tot, _titlemin(t["title"]), _titlemin(t["caption"]))
    if k == "columns":
        return max([1, _titlemin(t["title"])] + [minw_py(c) for c in t["ch"]])
    if k == "tree":
        def tm(n, d):
            m = 4 * d + minw_py(n["label"])
            if n["exp"]:
                for c in n["ch"]:
                    m = max(m, tm(c, d + 1))
            return m
        return tm(t, 0)
    if k == "rule":
        return (2 if _wide(t["chars"]) or _wide(t["title"]) else 1) + (4 if t["title"] else 0)
    return 1


def inscope_py(t, cropped=False, e=None):
    """mirror of Layout!ScopeE (e = the options-level overflow / no_wrap of the root's environment, see gen_env)"""
    k = t["k"]
    if e is None:
        ev = env_of(t) or ENV_DEFAULT
        e = (ev["oov"] == "ignore", bool(ev["onw"]))
        cropped = cropped or bool(ev["prt"])
    loose_opts = e[0] or e[1]
    if k == "txt":
        loose = (t["ov"] == "ignore" or (t["ov"] == "none" and e[0]) or t["nw"] or e[1] or t.get("end", "nl") != "nl")
        return cropped or not loose
    if k == "panel":
        return (t["w"] == 0 or t["w"] >= minw_py(t)) and inscope_py(t["c"], True, e)
    if k == "padding":
        return inscope_py(t["c"], True, e)
    if k in ("align", "constrain"):
        return (t["w"] == 0 or t["w"] >= minw_py(t["c"])) and inscope_py(t["c"], cropped, e)
    if k in ("styled", "opaque", "cast"):
        return inscope_py(t["c"], cropped or t.get("impl") == "vcenter", e)
    if k == "group":
        return all(inscope_py(c, cropped, e) for c in t["ch"])
    if k == "table":
        if t["w"] or t["minw"] or any(c["w"] or c["minw"] or c["nw"] for c in t["cols"]):
            return False
        if (t["title"] or t["caption"]) and loose_opts and not cropped:
            return False
        return (all(inscope_py(c["hdr"], True, e) and inscope_py(c["ftr"], True, e) for c in t["cols"])
                and all(inscope_py(x, True, e) for r in t["rows"] for x in r))
    if k == "columns":
        if t["title"] and loose_opts and not cropped:
            return False
        return t["w"] == 0 and all(inscope_py(c, True, e) for c in t["ch"])
    if k == "tree":
        return inscope_py(t["label"], True, e) and all(inscope_py(c, True, e) for c in t["ch"])
    return True


def subtrees(t, path=()):
    """(path, node) for every node that is itself a renderable handed to Console.render"""
    yield path, t
    k = t["k"]
    if "c" in t and k != "columns":
        yield from subtrees(t["c"], path + ("c",))
    if k in ("group", "columns"):
        for i, c in enumerate(t["ch"]):
            yield from subtrees(c, path + ("ch", i))
    elif k == "table":
        for j, col in enumerate(t["cols"]):
            yield from subtrees(col["hdr"], path + ("cols", j, "hdr"))
            yield from subtrees(col["ftr"], path + ("cols", j, "ftr"))
        for i, row in enumerate(t["rows"]):
            for j, c in enumerate(row):
                yield from subtrees(c, path + ("rows", i, j))
    elif k == "tree":
        yield from subtrees(t["label"], path + ("label",))
        for i, c in enumerate(t["ch"]):
            for p, n in subtrees(c, path + ("ch", i)):
                if p != path + ("ch", i):       # a child node is not rendered on its own; its label is
                    yield p, n
                else:
                    continue


def size(t):
    return sum(1 for _ in subtrees(t)) + sum(len(n.get("cs", [])) for _, n in subtrees(t))


def kinds(t):
    return sorted({n["k"] for _, n in subtrees(t)})


# ---- complete a TLC-generated tree with construction defaults -------------------------------------
def complete(t, salt=0):
    """TLC's trees carry only the fields Layout.tla reads; fill construction-only fields (deterministic)."""
    k = t["k"]
    if k == "txt":
        t.setdefault("s", None)
        t.setdefault("jus", "none")
        t.setdefault("nw", False)
        t.setdefault("src", "str" if (t.get("ov", "none") == "none" and not t["nw"] and salt % 2 == 0) else "text")
        if t.get("s") is None:
            set_text(t, text_of(t))
    elif k == "panel":
        t.setdefault("pt", 0); t.setdefault("pb", 0); t.setdefault("ta", ["left", "center", "right"][salt % 3])
        t.setdefault("box", BOXES[salt % len(BOXES)])
        if "ts" not in t:
            set_text(t, text_of(t, "ts", "title"), "ts", "title")
        complete(t["c"], salt + 1)
    elif k == "padding":
        t.setdefault("pt", 0); t.setdefault("pb", 0); t.setdefault("form", 4)
        complete(t["c"], salt + 1)
    elif k in ("align", "constrain", "styled", "opaque", "cast"):
        if k == "align":
            t.setdefault("al", "center"); t.setdefault("pad", True)
        if k == "cast" and t["c"]["k"] == "cast":
            t["k"] = "opaque"           # a cast of a cast is not a valid renderable
        complete(t["c"], salt + 1)
    elif k == "group":
        t.setdefault("fit", True)
        for i, c in enumerate(t["ch"]):
            complete(c, salt + i + 1)
    elif k == "table":
        for j, col in enumerate(t["cols"]):
            col.setdefault("jus", "left"); col.setdefault("ov", ["ellipsis", "fold", "crop"][(salt + j) % 3])
            complete(col["hdr"], salt); complete(col["ftr"], salt)
        for i, row in enumerate(t["rows"]):
            for j, c in enumerate(row):
                complete(c, salt + i + j + 1)
        for f, v in (("lines", False), ("leading", 0), ("pt", 0), ("pb", 0), ("ex", salt % 3 == 0), ("tj", "center"), ("endsec", False)):
            t.setdefault(f, v)
        if t["box"] == "SQUARE" and salt % 4:
            t["box"] = BOXES[salt % len(BOXES)]
        if "ts" not in t:
            set_text(t, text_of(t, "ts", "title"), "ts", "title")
        if "cps" not in t:
            set_text(t, text_of(t, "cps", "caption"), "cps", "caption")
    elif k == "columns":
        for f, v in (("pl", 1), ("pr", 1), ("pt", 0), ("pb", 0), ("ex", salt % 2 == 1), ("eq", salt % 3 == 1), ("cf", salt % 5 == 1),
                     ("rtl", False), ("al", "none")):
            t.setdefault(f, v)
        if "ts" not in t:
            set_text(t, text_of(t, "ts", "title"), "ts", "title")
        for i, c in enumerate(t["ch"]):
            complete(c, salt + i + 1)
    elif k == "tree":
        t.setdefault("gs", "")
        complete(t["label"], salt + 1)
        for i, c in enumerate(t["ch"]):
            complete(c, salt + i + 2)
    elif k == "rule":
        t.setdefault("al", ["center", "left", "right"][salt % 3])
        if "ts" not in t:
            set_text(t, text_of(t, "ts", "title"), "ts", "title")
        if "chs" not in t:
            set_text(t, text_of(t, "chs", "chars"), "chs", "chars")
    elif k == "bar":
        for f, v in (("w", 0), ("size", 100), ("begin", 10), ("end", 60)):
            t.setdefault(f, v)
    elif k == "progressbar":
        for f, v in (("w", 0), ("total", 100), ("completed", 100 if salt % 2 else 40), ("pulse", False)):
            t.setdefault(f, v)
    return t


# ---- abstract tree -> real renderable ------------------------------------------------------------
class Env:
    """classes of the tree under test + the two protocol-only renderables"""

    def __init__(self):
        from rich import box as rbox
        from rich.align import Align, VerticalCenter
        from rich.bar import Bar
        from rich.cells import cell_len
        from rich.columns import Columns
        from rich.console import Console, RenderGroup
        from rich.constrain import Constrain
        from rich.containers import Renderables
        from rich.measure import Measurement
        from rich.padding import Padding
        from rich.panel import Panel
        from rich.progress_bar import ProgressBar
        from rich.rule import Rule
        from rich.styled import Styled
        from rich.table import Column, Table
        from rich.text import Text
        from rich.tree import Tree
        self.__dict__.update(locals())

        class Opaque:                       # renderable without __rich_measure__
            def __init__(self, c):
                self.c = c

            def __rich_console__(self, console, options):
                yield self.c

        class Cast:                         # object cast via __rich__
            def __init__(self, c):
                self.c = c

            def __rich__(self):
                return self.c

        self.Opaque, self.Cast = Opaque, Cast
        self._consoles = {}
        self.budget_log = None

    def console(self, W, cfg=None):
        """console of width W; cfg (see gen_env) selects encoding / legacy_windows / safe_box / colour / tab size / highlight"""
        if not cfg:
            key = W
        else:
            key = (W, cfg["asc"], cfg["legacy"], cfg["safe"], cfg["color"], cfg["tab"], cfg["hl"], cfg["prt"])
        c = self._consoles.get(key)
        if c is None:
            if not cfg:
                c = self.Console(width=W, height=25, file=io.StringIO(), color_system=None, legacy_windows=False)
            else:
                f = _AsciiFile() if cfg["asc"] else io.StringIO()
                col = cfg["color"]
                c = self.Console(width=W, height=25, file=f, color_system=None if col == "none" else ("truecolor" if col == "nocolor" else col),
                                 legacy_windows=cfg["legacy"], safe_box=cfg["safe"], no_color=col == "nocolor", tab_size=cfg["tab"],
                                 highlight=cfg["hl"], record=cfg["prt"])
            self._consoles[key] = c
        return c

    def console_options(self, W, cfg=None):
        """(console, ConsoleOptions) that make exactly W cells available (options.max_width = W) the way cfg says"""
        if not cfg:
            c = self.console(W)
            return c, c.options
        via = cfg["via"]
        if via == "console":
            c = self.console(W, cfg)
            o = c.options
        else:
            c = self.console(W + max(1, cfg["cwd"]), cfg)
            o = c.options.update(width=W) if via == "update_width" else c.options.update(max_width=W)
        kw = {}
        if cfg["ojus"] != "none":
            kw["justify"] = cfg["ojus"]
        if cfg["oov"] != "none":
            kw["overflow"] = cfg["oov"]
        if cfg["onw"]:
            kw["no_wrap"] = True
        if kw:
            o = o.update(**kw)
        return c, o

    # -- observing the budget handed to every renderable ------------------------------------------
    def watch(self):
        env = self
        Console = self.Console
        if getattr(Console, "_verif_orig_render", None) is None:
            Console._verif_orig_render = Console.render
            orig = Console.render

            def render(self, renderable, options=None):
                log = env.budget_log
                if log is not None:
                    o = options or self.options
                    log.append((id(renderable), o.max_width))
                return orig(self, renderable, options)
            Console.render = render

    def unwatch(self):
        orig = getattr(self.Console, "_verif_orig_render", None)
        if orig is not None:
            self.Console.render = orig
            self.Console._verif_orig_render = None


class _AsciiFile(io.StringIO):
    encoding = "ascii"


def _padform(t):
    top, r, b, l = t.get("pt", 0), t["pr"], t.get("pb", 0), t["pl"]
    form = t.get("form", 4)
    if form == 1 and top == r == b == l:
        return top
    if form == 2 and top == b and l == r:
        return (top, r)
    return (top, r, b, l)


def _sty(t, *names):
    """optional style options (strings, as a user writes them) - set by C14's stress and, rarely, by gen; they never change a layout"""
    st = t.get("sty") or {}
    out = {n: st[n] for n in names if n in st}
    if isinstance(out.get("row_styles"), str):
        out["row_styles"] = [out["row_styles"], ""]
    return out


def _title(t, env):
    """title / caption: str, or a Text object when the recipe says so (`tt`), then possibly with a justify of its own (`ttj`:
    9.10.0 rendered such a Panel title console-width + 4 cells wide; fixed by cb011ff)"""
    s = text_of(t, "ts", "title")
    if not s:
        return None
    if not t.get("tt"):
        return s
    return env.Text(s, justify=t.get("ttj") or None)


def build(t, env, reg=None, path=()):
    """abstract tree -> real renderable; reg: id(object) -> [paths]"""
    k = t["k"]
    if k == "txt":
        s = text_of(t)
        if t.get("src", "text") == "str":
            obj = "".join(s)            # a fresh str object where possible
        else:
            kw = {}
            if t.get("st"):
                kw["style"] = t["st"]
            if t.get("tab"):
                kw["tab_size"] = t["tab"]
            if t.get("end", "nl") != "nl":
                kw["end"] = {"none": "", "sp": " "}[t["end"]]
            pre = t.get("pre")
            if pre:
                s = "".join(map(chr, pre["s0"]))
            obj = env.Text(s, justify=None if t.get("jus", "none") == "none" else t["jus"],
                           overflow=None if t.get("ov", "none") == "none" else t["ov"],
                           no_wrap=True if t.get("nw") else None, **kw)
            for a, b, sty in t.get("sp") or ():
                obj.stylize(sty, a, b)
            if pre:
                apply_history(env, obj, pre["ops"])
                set_text(t, obj.plain)      # the recipe describes the object as it is now
    elif k == "panel":
        kw = dict(title=_title(t, env), title_align=t.get("ta", "center"), width=t["w"] or None, padding=_padform(t),
                  **_sty(t, "style", "border_style"))
        if t.get("sb") is not None:
            kw["safe_box"] = t["sb"]
        child = build(t["c"], env, reg, path + ("c",))
        if t.get("fitcm") and not t["ex"]:
            obj = env.Panel.fit(child, getattr(env.rbox, t.get("box", "ROUNDED")), **kw)
        else:
            obj = env.Panel(child, getattr(env.rbox, t.get("box", "ROUNDED")), expand=t["ex"], **kw)
    elif k == "padding":
        child = build(t["c"], env, reg, path + ("c",))
        if t.get("form") == "indent" and not (t["ex"] or t["pr"] or t.get("pt", 0) or t.get("pb", 0)):
            obj = env.Padding.indent(child, t["pl"])
        else:
            obj = env.Padding(child, _padform(t), expand=t["ex"], **_sty(t, "style"))
    elif k == "align":
        child = build(t["c"], env, reg, path + ("c",))
        if t.get("cm"):
            obj = getattr(env.Align, t.get("al", "center"))(child, pad=t.get("pad", True), width=t["w"] or None, **_sty(t, "style"))
        else:
            obj = env.Align(child, t.get("al", "center"), pad=t.get("pad", True), width=t["w"] or None, **_sty(t, "style"))
    elif k == "constrain":
        obj = env.Constrain(build(t["c"], env, reg, path + ("c",)), t["w"] or None)
    elif k == "styled":
        if t.get("impl") == "vcenter":
            obj = env.VerticalCenter(build(t["c"], env, reg, path + ("c",)))
        else:
            obj = env.Styled(build(t["c"], env, reg, path + ("c",)), "bold")
    elif k == "opaque":
        obj = env.Opaque(build(t["c"], env, reg, path + ("c",)))
    elif k == "cast":
        obj = env.Cast(build(t["c"], env, reg, path + ("c",)))
    elif k == "group":
        kids = [build(c, env, reg, path + ("ch", i)) for i, c in enumerate(t["ch"])]
        if t.get("impl") == "renderables":
            obj = env.Renderables(kids)
        else:
            obj = env.RenderGroup(*kids, fit=t.get("fit", True))
    elif k == "table":
        tkw = dict(padding=_padform(t), collapse_padding=t["cp"], pad_edge=t["pe"], expand=t.get("ex", False))
        colkw = []
        for j, col in enumerate(t["cols"]):
            colkw.append(dict(justify=col.get("jus", "left"), overflow=col.get("ov", "ellipsis"), width=col["w"] or None,
                              min_width=col["minw"] or None, max_width=col["maxw"] or None, ratio=0 if col.get("rz") else (col["ratio"] or None),
                              no_wrap=col["nw"], **_sty(col, "style", "header_style", "footer_style")))
        hdrs = [build(col["hdr"], env, reg, path + ("cols", j, "hdr")) for j, col in enumerate(t["cols"])]
        ftrs = [build(col["ftr"], env, reg, path + ("cols", j, "ftr")) for j, col in enumerate(t["cols"])]
        hvia = "add" if t.get("grid") else t.get("hvia", "add")      # Table.grid() takes no headers
        if hvia == "ctor" and not all(isinstance(h, str) for h in hdrs):
            hvia = "column"
        heads = ()
        if hvia == "column":
            heads = [env.Column(header=h, footer=f, **kw) for h, f, kw in zip(hdrs, ftrs, colkw)]
        elif hvia == "ctor":
            heads = hdrs
        if t.get("grid"):
            obj = env.Table.grid(**tkw)
        else:
            if t.get("sb") is not None:
                tkw["safe_box"] = t["sb"]
            obj = env.Table(*heads, title=_title(t, env), caption=text_of(t, "cps", "caption") or None,
                            width=t["w"] or None, min_width=t["minw"] or None,
                            box=None if t["box"] == "none" else getattr(env.rbox, t["box"]),
                            show_header=t["sh"], show_footer=t["sf"], show_edge=t["edge"],
                            show_lines=t.get("lines", False), leading=t.get("leading", 0), title_justify=t.get("tj", "center"),
                            caption_justify=t.get("cj", "center"), highlight=bool(t.get("hl")),
                            **_sty(t, "style", "border_style", "header_style", "footer_style", "title_style", "caption_style", "row_styles"),
                            **tkw)
        if hvia == "add":
            for h, f, kw in zip(hdrs, ftrs, colkw):
                obj.add_column(h, f, **kw)
        elif hvia == "ctor":                # Table("a", "b"): the options are then set on the public Column records
            for column, f, kw in zip(obj.columns, ftrs, colkw):
                column.footer = f
                for name, v in kw.items():
                    setattr(column, name, v)
        ends = set(t.get("endrows") or ([0] if t.get("endsec") else []))
        for i, row in enumerate(t["rows"]):
            cells = [None if c.get("omit") else build(c, env, reg, path + ("rows", i, j)) for j, c in enumerate(row)]
            while cells and cells[-1] is None:
                cells.pop()                 # a row shorter than the table
            obj.add_row(*cells, end_section=i in ends, style=(t.get("sty") or {}).get("rows", {}).get(str(i)))
    elif k == "columns":
        kids = [build(c, env, reg, path + ("ch", i)) for i, c in enumerate(t["ch"])]
        pad = _padform(dict(pt=t.get("pt", 0), pr=t.get("pr", 1), pb=t.get("pb", 0), pl=t.get("pl", 1), form=t.get("form", 4)))
        obj = env.Columns([] if t.get("addr") else kids,
                          padding=pad, width=t["w"] or None,
                          expand=t.get("ex", False), equal=t.get("eq", False), column_first=t.get("cf", False),
                          right_to_left=t.get("rtl", False), align=None if t.get("al", "none") == "none" else t["al"],
                          title=_title(t, env))
        if t.get("addr"):
            for kid in kids:
                obj.add_renderable(kid)
    elif k == "tree":
        def mk(n, p, parent):
            label = build(n["label"], env, reg, p + ("label",))
            kw = dict(expanded=n["exp"])
            if n.get("gs"):
                kw["guide_style"] = n["gs"]
            if n.get("tst"):
                kw["style"] = n["tst"]
            if n.get("hl"):
                kw["highlight"] = True
            node = env.Tree(label, **kw) if parent is None else parent.add(label, **kw)
            for i, c in enumerate(n["ch"]):
                mk(c, p + ("ch", i), node)
            return node
        obj = mk(t, path, None)
    elif k == "rule":
        title = text_of(t, "ts", "title")
        obj = env.Rule(env.Text(title) if (t.get("tt") and title) else title, characters=text_of(t, "chs", "chars") or "\u2500",
                       align=t.get("al", "center"), **_sty(t, "style"))
    elif k == "bar":
        obj = env.Bar(t.get("size", 100), t.get("begin", 10), t.get("end", 60), width=t.get("w") or None)
    elif k == "progressbar":
        obj = env.ProgressBar(total=t.get("total", 100), completed=t.get("completed", 40), width=t.get("w") or None,
                              pulse=t.get("pulse", False), animation_time=t.get("at", 0.0))
    else:
        raise ValueError("unknown kind %r" % k)
    if reg is not None:
        reg.setdefault(id(obj), []).append((path, obj))
    return obj


# ---- rendering and projection ---------------------------------------------------------------------
def line_widths(env, renderable, W, cfg=None):
    """Console.render with W cells available -> ([distinct line cell widths, descending], number of lines) or exception name"""
    if cfg and cfg["prt"]:           # through Console.print on a recording console of width W: the printed lines
        console = env.console(W, cfg)
        kw = {}
        if cfg["ojus"] != "none":
            kw["justify"] = cfg["ojus"]
        if cfg["oov"] != "none":
            kw["overflow"] = cfg["oov"]
        if cfg["onw"]:
            kw["no_wrap"] = True
        try:
            console.print(renderable, **kw)
            text = console.export_text(clear=True, styles=False)
        except Exception as e:
            return None, type(e).__name__
        finally:
            console.file.seek(0)
            console.file.truncate()
    else:
        console, options = env.console_options(W, cfg)
        try:
            segs = list(console.render(renderable, options))
        except Exception as e:          # a crash inside Rich is an observation (C14's subject), not a verdict here
            return None, type(e).__name__
        text = "".join(s.text for s in segs if not s.is_control)
    lines = text.split("\n")
    if lines and lines[-1] == "":
        lines.pop()
    ws = [table_cell_len(l) for l in lines]
    return [sorted(set(ws), reverse=True), len(ws)], ""


def sub_env(cfg):
    """the environment a sub-tree is rendered under when it is rendered stand-alone: the same console, plain options"""
    if not cfg:
        return None
    return dict(cfg, via="console", cwd=0, ojus="none", oov="none", onw=False, prt=False)


def ladder(m, top=200, below=2):
    ws = list(range(max(1, m - below), m + 13))
    w = m + 13
    while w < top:
        ws.append(int(w))
        w = w * 1.5 + 1
    ws.append(top)
    return sorted({w for w in ws if 1 <= w <= top})


def tlc_view(t):
    """strip the bulky construction-only code point lists before sending a tree to TLC"""
    if isinstance(t, dict):
        return {k: tlc_view(v) for k, v in t.items() if k not in ("s", "ts", "cps", "chs", "sp", "sty", "pre") and v is not None}
    if isinstance(t, list):
        return [tlc_view(x) for x in t]
    return t


def c01_records(env, tree, widths=None, subs=True, sub_cap=10):
    """render `tree` at every W of the ladder; then every sub-tree stand-alone at the budgets its parent handed down.
    -> list of (origin, abstract tree, record) ; origin = "top" | "sub:<path>" """
    reg = {}
    obj = build(tree, env, reg)
    m = minw_py(tree)
    ws = widths or ladder(m)
    cfg = env_of(tree)
    subcfg = sub_env(cfg)
    env.watch()
    env.budget_log = log = []
    rs, excs = [], {}
    hb = []
    child_ids = {oid for oid, lst in reg.items() for path, _o in lst if path == ("c",)} if "c" in tree else set()
    for W in ws:
        start = len(log)
        r, exc = line_widths(env, obj, W, cfg)
        if r is None:
            excs[exc] = excs.get(exc, 0) + 1
            continue
        rs.append([W, r[0], r[1]])
        seen_b = {b for oid, b in log[start:] if oid in child_ids}
        if len(seen_b) == 1:
            hb.append([W, seen_b.pop()])
    env.budget_log = None
    out = [("top", tree, dict(p="C01", tree=tlc_view(tree), rs=rs, hb=hb), excs)]
    if not subs:
        return out
    budgets = {}
    for oid, b in log:
        for path, _o in reg.get(oid, ()):
            if path:
                budgets.setdefault(path, set()).add(b)
    nodes = dict(subtrees(tree))
    objs = {path: o for lst in reg.values() for path, o in lst}
    for path in sorted(budgets, key=lambda p: json.dumps(p)):
        node = nodes.get(path)
        if node is None or path not in objs:
            continue
        sm = minw_py(node)
        bs = sorted(b for b in budgets[path] if b >= 1)
        near = [b for b in bs if b >= sm - 1][:sub_cap - 2]
        pick = sorted(set(near + bs[-2:]))
        srs, sex = [], {}
        for b in pick:
            r, exc = line_widths(env, objs[path], b, subcfg)
            if r is None:
                sex[exc] = sex.get(exc, 0) + 1
                continue
            srs.append([b, r[0], r[1]])
        if srs:
            if subcfg and not env_is_default(subcfg):
                node = dict(node, env=subcfg)       # the stand-alone render of the sub-tree happened under this console
            out.append(("sub:" + "/".join(map(str, path)), node, dict(p="C01", tree=tlc_view(node), rs=srs), sex))
    return out


def avails(rng_seed, m, n_extra=4):
    import random
    r = random.Random(rng_seed)
    base = {0, 1, 2, 3, 4, 5, 200}
    base.update(range(max(0, m - 1), m + 7))
    w = m + 7
    while w < 200:
        base.add(int(w))
        w = w * 1.6 + 1
    for _ in range(n_extra):
        base.add(r.randint(0, 200))
    return sorted(base)


def c09_records(env, tree, avs=None, subs=True, seed=0):
    """Measurement.get(console, renderable, avail) for sampled avail in 0..200, and the renders at the reported
    maximum and minimum; the same for every sub-tree (fewer widths)."""
    reg = {}
    obj = build(tree, env, reg)
    out = []
    nodes = dict(subtrees(tree))
    cfg = env_of(tree)
    subcfg = sub_env(cfg)
    todo = [((), tree, obj, avs or avails(seed, minw_py(tree)))]
    if subs:
        seen = set()
        for lst in reg.values():
            for path, o in lst:
                if path and path in nodes and path not in seen:
                    seen.add(path)
                    sm = minw_py(nodes[path])
                    todo.append((path, nodes[path], o, sorted({0, 1, 2, sm - 1 if sm > 1 else 0, sm, sm + 1, sm + 3, sm + 8, 40, 200})))
    todo.sort(key=lambda x: json.dumps(x[0]))
    for path, node, o, alist in todo:
        ms, excs = [], {}
        cache = {}
        ncfg = subcfg if path else cfg
        mconsole = env.console(200, ncfg)
        # the available width is also given implicitly: Measurement.get(console, r) measures against console.width
        sm0 = minw_py(node)
        defaults = [(w, True) for w in sorted({max(1, sm0), sm0 + 2, 17})] if not path else []
        for a, implicit in [(x, False) for x in alist] + defaults:
            try:
                mn, mx = env.Measurement.get(env.console(a, ncfg), o) if implicit else env.Measurement.get(mconsole, o, a)
            except Exception as e:
                excs[type(e).__name__] = excs.get(type(e).__name__, 0) + 1
                continue
            entry = [a, mn, mx]
            bad = False
            for v in (mx, mn):
                if not isinstance(v, int) or v < 1 or v > 100000:
                    entry += [[], 0]
                    continue
                if v not in cache:
                    cache[v] = line_widths(env, o, v, ncfg)
                r, exc = cache[v]
                if r is None:
                    excs[exc] = excs.get(exc, 0) + 1
                    bad = True
                    break
                entry += [r[0], r[1]]
            if not bad:
                ms.append(entry)
        if ms:
            if path and ncfg and not env_is_default(ncfg):
                node = dict(node, env=ncfg)
            out.append(("top" if not path else "sub:" + "/".join(map(str, path)), node, dict(p="C09", tree=tlc_view(node), ms=ms), excs))
    return out


# ---- signatures: shape of a (minimised) tree -------------------------------------------------------
_CLS = {(0, 0): "z", (0, 1): "a", (0, 2): "W", (1, 1): "s", (1, 2): "U", (2, 0): "n", (3, 0): "t", (1, 0): "b"}


def _csig(cs, cap=6):
    s = "".join(_CLS.get((c[0], c[1]), "?") for c in cs)
    return s if len(s) <= cap else s[:cap] + "+"


def shape(t, _col=None):
    """shape of a recipe for signatures.  A colour system in the root's environment is shown on the bars (the only renderables it
    changes the width of): bar[color], progressbar[color,pulse]"""
    if _col is None:
        ev = env_of(t)
        _col = "color" if (ev and ev["color"] in ("truecolor", "standard")) else ""
    return _shape(t, _col)


def _has_bar(t):
    return any(n["k"] in ("bar", "progressbar") for _, n in subtrees(t))


def _shape(t, _col):
    k = t["k"]
    o = []
    shape = lambda x: _shape(x, _col)
    if k == "txt":
        o.append(_csig(t["cs"]))
        if t.get("ov", "none") != "none":
            o.append(t["ov"])
        if t.get("nw"):
            o.append("nw")
        if t.get("jus", "none") != "none":
            o.append(t["jus"])
        if t.get("src") == "str":
            o.append("str")
        if t.get("sp") or t.get("st"):
            o.append("styled")
        if t.get("tab"):
            o.append("tab%d" % t["tab"])
        if t.get("end", "nl") != "nl":
            o.append("end=" + t["end"])
        if t.get("pre"):
            o.append("after=" + "+".join(sorted({op[0] for op in t["pre"]["ops"]})))
        return "txt[%s]" % ",".join(o)
    if k == "panel":
        if t["title"]:
            o.append("title")
        if t["pl"] or t["pr"]:
            o.append("pad")
        if t["w"]:
            o.append("w")
        if not t["ex"]:
            o.append("fit")
        if t.get("tt") and t["title"]:
            o.append("ttext" + ("-" + t["ttj"] if t.get("ttj") else ""))
        if t.get("sb") is False:
            o.append("unsafe")
        return "panel[%s](%s)" % (",".join(o), shape(t["c"]))
    if k == "padding":
        if not t["ex"]:
            o.append("fit")
        return "padding[%s](%s)" % (",".join(o), shape(t["c"]))
    if k in ("align", "constrain"):
        if t["w"]:
            o.append("w")
        return "%s[%s](%s)" % (k, ",".join(o), shape(t["c"]))
    if k in ("styled", "opaque", "cast"):
        return "%s(%s)" % (t.get("impl") or k, shape(t["c"]))
    if k == "group":
        return "%s(%s)" % (t.get("impl") or "group", ",".join(shape(c) for c in t["ch"]))
    if k == "table":
        if t["box"] != "none":
            o.append("box")
            if not t["edge"]:
                o.append("noedge")
        for f, n in (("lines", "lines"), ("sh", "hdr"), ("sf", "ftr"), ("cp", "collapse"), ("ex", "expand"), ("endsec", "endsec")):
            if t.get(f):
                o.append(n)
        if t.get("leading"):
            o.append("leading%d" % min(t["leading"], 2))
        if not t["pe"]:
            o.append("nopadedge")
        if t["pl"] or t["pr"]:
            o.append("pad")
        if t["title"] or t["caption"]:
            o.append("title")
        if any(c["maxw"] for c in t["cols"]):
            o.append("maxw")
        if any(c["ratio"] for c in t["cols"]):
            o.append("ratio")
        if t["w"] or t["minw"] or any(c["w"] or c["minw"] or c["nw"] for c in t["cols"]):
            o.append("unfree")
        if any(c.get("ov") == "ignore" for c in t["cols"]):
            o.append("colignore")
        if t.get("grid"):
            o.append("grid")
        if t.get("hvia", "add") != "add" and not t.get("grid"):
            o.append("hvia=" + t["hvia"])
        if any(c.get("omit") for r in t["rows"] for c in r):
            o.append("shortrows")
        cells = [shape(c) for r in t["rows"] for c in r]
        return "table[%s;%dx%d](%s)" % (",".join(o), len(t["cols"]), len(t["rows"]), ",".join(cells))
    if k == "columns":
        for f, n in (("eq", "equal"), ("ex", "expand"), ("cf", "colfirst"), ("rtl", "rtl")):
            if t.get(f):
                o.append(n)
        if t.get("al", "none") != "none":
            o.append("align")
        if t["title"]:
            o.append("title")
        if t["w"]:
            o.append("w")
        return "columns[%s](%s)" % (",".join(o), ",".join(shape(c) for c in t["ch"]))
    if k == "tree":
        return "tree[%s](%s;%s)" % ("" if t["exp"] else "collapsed", shape(t["label"]), ",".join(shape(c) for c in t["ch"]))
    if k == "rule":
        if t["title"]:
            o.append("title=" + _csig(t["title"]))
        o.append("chars=" + _csig(t["chars"]))
        return "rule[%s]" % ",".join(o)
    if k in ("bar", "progressbar"):
        if t.get("w"):
            o.append("w")
        if t.get("pulse"):
            o.append("pulse")
        if _col:
            o.append(_col)
        return "%s[%s]" % (k, ",".join(o))
    return k


def env_sig(tree):
    """the non-default part of a recipe's environment, for signatures ('' when everything is default)"""
    e = env_of(tree)
    if env_is_default(e):
        return ""
    o = []
    if e["via"] != "console":
        o.append(e["via"])
    for f in ("prt", "asc", "legacy", "onw"):
        if e[f]:
            o.append("print" if f == "prt" else f)
    if not e["safe"]:
        o.append("unsafe")
    if not e["hl"]:
        o.append("nohl")
    for f in ("color", "ojus", "oov"):
        if e[f] != "none" and not (f == "color" and e[f] in ("truecolor", "standard") and _has_bar(tree)):
            o.append("%s=%s" % (f, e[f]))
    if e["tab"] != 8:
        o.append("tab=%d" % e["tab"])
    return " env=" + ",".join(o) if o else ""


# ---- one-step reductions for delta debugging (every round is judged by TLC) ------------------------
def _clone(t):
    return json.loads(json.dumps(t))


def _leaf(s="a"):
    t = dict(k="txt", ov="none", nw=False, src="text", jus="none")
    set_text(t, s)
    return t


def _get(t, path):
    for p in path:
        t = t[p]
    return t


def _set(root, path, new):
    if not path:
        return new
    root = _clone(root)
    t = root
    for p in path[:-1]:
        t = t[p]
    t[path[-1]] = new
    return root


def reductions(tree):
    """simpler trees, most aggressive first"""
    out = []
    nodes = list(subtrees(tree))
    # tree child nodes are not yielded by subtrees(); walk them too for structural edits
    def tnodes(t, path):
        if t["k"] == "tree":
            for i, c in enumerate(t["ch"]):
                yield path + ("ch", i), c
                yield from tnodes(c, path + ("ch", i))
    allnodes = nodes + [x for p, n in nodes for x in tnodes(n, p)]
    for path, n in allnodes:                                        # hoist a sub-tree to the root
        if path:
            out.append(_clone(n))
    for path, n in allnodes:
        k = n["k"]
        istreekid = bool(path) and len(path) >= 2 and path[-2] == "ch" and _get(tree, path[:-2])["k"] == "tree"
        if k != "txt" and not istreekid:
            out.append(_set(tree, path, _leaf("a")))                # replace by a one-character leaf
        if k in ("panel", "padding", "align", "constrain", "styled", "opaque", "cast") and not istreekid:
            out.append(_set(tree, path, _clone(n["c"])))            # drop a wrapper
        if k in ("group", "columns", "tree"):
            for i in range(len(n["ch"])):
                m = _clone(n)
                del m["ch"][i]
                out.append(_set(tree, path, m))
            if k == "group" and len(n["ch"]) == 1:
                out.append(_set(tree, path, _clone(n["ch"][0])))
        if k == "tree" and n["label"]["k"] != "txt":
            pass
        if k == "table":
            for i in range(len(n["rows"])):
                m = _clone(n)
                del m["rows"][i]
                out.append(_set(tree, path, m))
            if len(n["cols"]) > 1:
                for j in range(len(n["cols"])):
                    m = _clone(n)
                    del m["cols"][j]
                    for r in m["rows"]:
                        del r[j]
                    out.append(_set(tree, path, m))
        # options back to defaults, one at a time
        defaults = dict(
            txt=dict(ov="none", nw=False, jus="none", src="text", sp=None, st=None, tab=None, end="nl", pre=None),
            panel=dict(pl=0, pr=0, pt=0, pb=0, w=0, ex=True, ta="center", box="ROUNDED", tt=False, ttj=None, sb=None, fitcm=False, form=4, sty=None),
            padding=dict(pl=0, pr=0, pt=0, pb=0, ex=True, form=4, sty=None),
            align=dict(w=0, al="left", pad=True, cm=False, sty=None), constrain=dict(w=0), group=dict(fit=True, impl=None),
            styled=dict(impl=None),
            table=dict(box="none", edge=True, lines=False, leading=0, sh=False, sf=False, pl=0, pr=0, pt=0, pb=0, pe=True, cp=False,
                       ex=False, w=0, minw=0, tj="center", endsec=False, form=4, cj="center", sb=None, hl=False, hvia="add", endrows=None,
                       grid=False, tt=False, ttj=None, sty=None),
            columns=dict(w=0, pl=0, pr=0, pt=0, pb=0, ex=False, eq=False, cf=False, rtl=False, al="none", form=4, addr=False, tt=False),
            tree=dict(exp=True, gs="", tst=None, hl=False), rule=dict(al="center", tt=False, sty=None), bar=dict(w=0, begin=0, end=100, size=100),
            progressbar=dict(w=0, total=100, completed=100, pulse=False, at=0.0)).get(k, {})
        changed = [f for f, v in defaults.items() if n.get(f, v) != v]
        def _reset(m, f):
            if defaults[f] is None:
                m.pop(f, None)
            else:
                m[f] = defaults[f]
        if len(changed) > 1:                                        # all options at once (saves rounds)
            m = _clone(n)
            for f in changed:
                _reset(m, f)
            out.append(_set(tree, path, m))
        for f in changed:
            m = _clone(n)
            _reset(m, f)
            out.append(_set(tree, path, m))
        if k == "table":
            m = _clone(n)
            m["rows"] = [[_leaf("a") for _ in r] for r in m["rows"]]
            for col in m["cols"]:
                col.update(hdr=_leaf("a"), ftr=_leaf("a"), maxw=0, ratio=0, w=0, minw=0, nw=False, jus="left", ov="ellipsis")
            if m != n:
                out.append(_set(tree, path, m))
        if k in ("group", "columns") and any(c["k"] != "txt" or text_of(c) != "a" for c in n["ch"]):
            m = _clone(n)
            m["ch"] = [_leaf("a") for _ in m["ch"]]
            out.append(_set(tree, path, m))
        if k == "table" and n["box"] not in ("none", "SQUARE"):
            m = _clone(n); m["box"] = "SQUARE"; out.append(_set(tree, path, m))
        if k == "table":
            for j, col in enumerate(n["cols"]):
                for f, v in (("maxw", 0), ("ratio", 0), ("w", 0), ("minw", 0), ("nw", False), ("jus", "left"), ("ov", "ellipsis")):
                    if col.get(f, v) != v:
                        m = _clone(n); m["cols"][j][f] = v; out.append(_set(tree, path, m))
        for fs, fc in (("ts", "title"), ("cps", "caption")):
            if n.get(fc):
                m = _clone(n); set_text(m, "", fs, fc); out.append(_set(tree, path, m))
                if len(n[fc]) > 1:
                    m = _clone(n); set_text(m, "t", fs, fc); out.append(_set(tree, path, m))
        if k == "rule" and text_of(n, "chs", "chars") != "-":
            m = _clone(n); set_text(m, "-", "chs", "chars"); out.append(_set(tree, path, m))
        if k == "txt" and n.get("pre") and len(n["pre"]["ops"]) > 1:
            for i in range(len(n["pre"]["ops"])):
                m = _clone(n); del m["pre"]["ops"][i]; out.append(_set(tree, path, m))
        if k == "txt" and n.get("pre"):
            s0 = "".join(map(chr, n["pre"]["s0"]))
            if len(s0) > 2:
                for c in (s0[:len(s0) // 2], s0[len(s0) // 2:]):
                    m = _clone(n); m["pre"]["s0"] = [ord(ch) for ch in c]; out.append(_set(tree, path, m))
        elif k == "txt":
            s = text_of(n)
            cands = []
            if len(s) > 1:
                cands += [s[:len(s) // 2], s[len(s) // 2:]] + [s[:i] + s[i + 1:] for i in range(len(s))][:16]
            for ch in set(s):
                rep = CANON.get(tuple(project_text(ch)[0]))
                if rep and rep != ch:
                    cands.append(s.replace(ch, rep))
            if s != "a":
                cands.append("a")
            for c in cands:
                if c != s:
                    m = _clone(n); set_text(m, c); out.append(_set(tree, path, m))
    # audit-1: the environment of the root - dropped altogether, then field by field; every candidate that lost it (a hoisted
    # sub-tree, a dropped root wrapper) is also tried with it
    e = env_of(tree)
    if e and not env_is_default(e):
        bare = _clone(tree)
        bare.pop("env", None)
        out.insert(0, bare)
        for f, v in ENV_DEFAULT.items():
            if f != "cwd" and e[f] != v:
                m = _clone(tree)
                m["env"] = dict(e, **{f: v})
                if env_is_default(m["env"]):
                    m.pop("env")
                out.append(m)
        out += [dict(c, env=dict(e)) for c in out if "env" not in c]
    seen, uniq = set(), []
    for c in out:
        key = json.dumps(c, sort_keys=True)
        if key not in seen:
            seen.add(key)
            uniq.append(c)
    uniq.sort(key=size)
    return uniq


# ---- orchestration shared by drivers/c01.py and drivers/c09.py -------------------------------------
_ENV = None


def env():
    global _ENV
    if _ENV is None:
        _ENV = Env()
    return _ENV


def _work(arg):
    pid, tree, subs, seed = arg
    e = env()
    if pid == "C01":
        return c01_records(e, tree, subs=subs)
    return c09_records(e, tree, subs=subs, seed=seed)


def produce(pid, trees, subs=True, nproc=None, seed=0):
    """[(origin, abstract tree, record, exceptions)] per tree, rendered by a pool of forked workers (pure functions of
    the tree: the result does not depend on the number of workers)"""
    args = [(pid, t, subs, seed * 1000003 + i) for i, t in enumerate(trees)]
    nproc = nproc or min(8, os.cpu_count() or 2)
    if len(args) < 24 or nproc <= 1:
        return [_work(a) for a in args]
    import multiprocessing as mp
    with mp.get_context("fork").Pool(nproc) as pool:
        return pool.map(_work, args, chunksize=max(1, len(args) // (nproc * 8)))


M1_ACTIONS = ["NewText", "MakeRule", "MakeBar", "WrapInPanel", "WrapInPadding", "WrapInAlign", "WrapInConstrain",
              "WrapInStyled", "MakeGroup", "MakeTable", "AddColumn", "AddRow", "MakeColumns", "AddItem", "MakeTree",
              "AddChild", "AddGrandChild"]
_MC_CFG = """CONSTANTS
  MaxOps = %d
  MaxNest = %d
  MaxStack = 2
  Opt = "%s"
SPECIFICATION Spec
%s
CHECK_DEADLOCK FALSE
"""
_M1_CHECKS = ("VIEW View\nINVARIANT MinWPositive\nINVARIANT TableLaw\nINVARIANT BudgetLaw\nINVARIANT CollapseLaw\n"
              "PROPERTY StepLawP\nPROPERTY ScopeLawP")


def model_part(chk, tlc):
    """M1: sanity laws of MinW / InScope / budget threading on all small builder histories (two configurations: wide and
    shallow, narrow and deep; together they must fire every builder action).  M2: TLC-generated trees for replay."""
    fired = {}
    for label, ops, nest, opt in (("wide", chk.pick(3, 4), 2, "mid"), ("deep", chk.pick(5, 6), 3, "min")):
        r, cov, _missing = tlc.model_check("MC_Layout", cfg_text=_MC_CFG % (ops, nest, opt, _M1_CHECKS), workers=8)
        chk.add_tlc(r, "M1")
        if r.violated or not r.finished:
            raise tlc.TLCFailure("MC_Layout(%s): violated=%s finished=%s\n%s" % (label, r.violated, r.finished, r.out[-3000:]))
        for a in M1_ACTIONS:
            fired[a] = fired.get(a, 0) + cov.get(a, (0, 0))[1]
        chk.notes.setdefault("m1", {})[label] = dict(max_ops=ops, max_nest=nest, options=opt, states=r.distinct, diameter=r.diameter)
    never = [a for a in M1_ACTIONS if not fired.get(a)]
    if never:
        raise tlc.TLCFailure("MC_Layout: builder actions never fired: %s" % never)
    chk.notes["m1_action_coverage"] = fired
    chk.mark("M1")
    # M2a: every history of <= 2 builder actions, full option products; M2b: random deeper histories (TLC -simulate)
    trees, seen = [], set()

    def take(behs):
        for b in behs:
            key = json.dumps(b["tree"], sort_keys=True)
            if key not in seen:
                seen.add(key)
                t = complete(b["tree"], salt=len(trees))
                if len(trees) % 3 == 2:             # audit-1: every third TLC-generated tree is rendered under a non-default environment
                    import random
                    e = gen_env(random.Random(len(trees)))
                    if not env_is_default(e):
                        t["env"] = e
                trees.append(t)
    behs, r2 = tlc.behaviours("MC_Layout", cfg_text=_MC_CFG % (2, 3, "full", "CONSTRAINT Emit"))
    chk.add_tlc(r2, "M2")
    take(behs)
    n_ex = len(trees)
    behs, r3 = tlc.behaviours("MC_Layout", cfg_text=_MC_CFG % (9, 3, "full", "CONSTRAINT Emit"),
                              simulate="num=%d" % chk.pick(60, 1500), depth=10, seed=chk.seed + 1)
    chk.add_tlc(r3, "M2")
    take(behs)
    if not trees:
        raise tlc.TLCFailure("MC_Layout generated no trees\n" + r2.out[-2000:])
    chk.notes["tlc_generated_trees"] = dict(exhaustive=n_ex, simulated=len(trees) - n_ex)
    chk.mark("M2")
    return trees


def parse_verdict(v):
    """'ok m=5 j=20' -> ('ok', {'m': 5, 'j': 20})"""
    parts = v.split(" ")
    kv = {}
    for p in parts[1:]:
        if "=" in p:
            a, b = p.split("=", 1)
            try:
                kv[a] = int(b)
            except ValueError:
                kv[a] = b
    return parts[0], kv


def judge(chk, tlc, pid, items, label="M3"):
    """items: [(origin, tree, record, excs)] -> verdict list (TLC's)"""
    recs = [it[2] for it in items]
    verdicts, st = tlc.judge("Trace_Layout", recs, tag=pid.lower() + "judge")
    chk.add_tlc(st, label)
    chk.traces += len(recs)
    return verdicts


def minimise(chk, tlc, pid, cases, max_rounds=40, per_round=300):
    """delta debugging; every round is ONE TLC batch over all candidate reductions of all still-active cases.
    cases: [(tree, verdict)] -> [(minimal tree, its verdict, its record)]"""
    cur = []
    for tree, v in cases:
        cur.append(dict(tree=tree, v=v, clause=v.split(" ")[0], rec=None, active=True))
    for _round in range(max_rounds):
        active = [c for c in cur if c["active"]]
        if not active:
            break
        cands, owner = [], []
        for ci, c in enumerate(active):
            for t in reductions(c["tree"])[:per_round]:
                cands.append(t)
                owner.append(ci)
        if not cands:
            break
        prod = produce(pid, cands, subs=False, seed=7)
        items = [p[0] for p in prod]
        verdicts = judge(chk, tlc, pid, items, "M3-minimise")
        done = set()
        for k, (ci, v) in enumerate(zip(owner, verdicts)):
            if ci in done:
                continue
            if v.split(" ")[0] == active[ci]["clause"]:
                active[ci].update(tree=cands[k], v=v, rec=items[k][2])
                done.add(ci)
        for ci, c in enumerate(active):
            if ci not in done:
                c["active"] = False
    out = []
    for c in cur:
        if c["rec"] is None:
            c["rec"] = produce(pid, [c["tree"]], subs=False, seed=7)[0][0][2]
        out.append((c["tree"], c["v"], c["rec"]))
    return out


def handle(chk, tlc, pid, items, verdicts, sig_extra, cap):
    """account verdicts; minimise rejected cases and report them.  sig_extra(verdict kv) -> width relation string"""
    rejected, oos, judged, mism = [], 0, 0, 0
    by_tree_rejected = set()
    for (origin, tree, rec, excs), v in zip(items, verdicts):
        word, kv = parse_verdict(v)
        if word in ("ok", "oos"):
            if "m" in kv and kv["m"] != minw_py(tree):
                mism += 1
                chk.drift_note("driver's MinW mirror differs from Layout!MinW on %s: py=%d tlc=%d" % (shape(tree)[:80], minw_py(tree), kv["m"]))
            if "d" in kv:
                chk.drift_note("%s handed its child another budget than Layout!ChildBudget at W=%s" % (shape(tree)[:60], kv["d"]))
            if word == "oos":
                oos += 1
            judged += kv.get("j", 0)
            continue
        if word == "no-verdict":
            raise tlc.TLCFailure("Trace_Layout gave no verdict for %s" % json.dumps(rec)[:600])
        rejected.append((origin, tree, rec, v))
    chk.notes["records_out_of_scope"] = chk.notes.get("records_out_of_scope", 0) + oos
    chk.notes["judged_width_points"] = chk.notes.get("judged_width_points", 0) + judged
    if not rejected:
        return
    # a rejected record with a rejected proper sub-tree (same clause) is attributed to the sub-tree (the smaller witness)
    keys = {}

    def _key(t):
        return json.dumps({f: x for f, x in tlc_view(t).items() if f != "env"}, sort_keys=True)
    for origin, tree, rec, v in rejected:
        keys.setdefault(v.split(" ")[0], set()).add(_key(tree))
    minimal = []
    for origin, tree, rec, v in rejected:
        clause = v.split(" ")[0]
        own = _key(tree)
        subs_rej = False
        for path, n in subtrees(tree):
            if path and _key(n) in keys[clause] and _key(n) != own:
                subs_rej = True
                break
        if not subs_rej:
            minimal.append((origin, tree, rec, v))
    seen, uniq = set(), []
    for origin, tree, rec, v in sorted(minimal, key=lambda x: size(x[1])):
        key = (v.split(" ")[0], shape(tree), env_sig(tree))
        if key not in seen:
            seen.add(key)
            uniq.append((origin, tree, rec, v))
    # diverse selection under the cap: round-robin over (clause, root kind)
    groups = {}
    for u in uniq:
        groups.setdefault((u[3].split(" ")[0], u[1]["k"]), []).append(u)
    chosen = []
    while len(chosen) < cap and any(groups.values()):
        for g in sorted(groups):
            if groups[g] and len(chosen) < cap:
                chosen.append(groups[g].pop(0))
    chk.notes["rejected_records"] = chk.notes.get("rejected_records", 0) + len(rejected)
    chk.notes["rejected_minimised"] = chk.notes.get("rejected_minimised", 0) + len(chosen)
    chk.notes["rejected_not_minimised"] = chk.notes.get("rejected_not_minimised", 0) + len(uniq) - len(chosen)
    mins = minimise(chk, tlc, pid, [(c[1], c[3]) for c in chosen])
    for (origin, tree0, rec0, v0), (mt, mv, mrec) in zip(chosen, mins):
        word, kv = parse_verdict(mv)
        sig = "%s %s %s" % (word, shape(mt), sig_extra(word, kv))
        sig = sig.strip() + env_sig(mt)
        chk.reject(sig.strip(), "%s  (minimised from a %s record rejected with '%s')" % (mv, origin.split(":")[0], v0),
                   dict(tree=mt, record=mrec, verdict=mv, original=dict(tree=tree0, verdict=v0, origin=origin)))
