"""C03 - the ANSI stream written means exactly what the styled segments say (and, for truecolor
output, C19's decoder round trip).  Styled segment sequences are printed on real consoles of
every colour system / NO_COLOR / terminal / legacy-windows configuration - the SAME Style objects
on several consoles in a row -; the written characters are tokenised lexically and TLC interprets
them with the independent terminal automaton Sgr.tla (Trace_Sgr)."""
import io

from engine import tlc
from engine.harness import Check
from engine.sgrlex import lex

ATTRS = ["bold", "dim", "italic", "underline", "blink", "blink2", "reverse", "conceal", "strike", "underline2", "frame", "encircle", "overline"]
SYSTEMS = ["none", "standard", "256", "truecolor", "windows"]
TEXTS = ["a", "xy", " ", "\n", "世", "é", "0", "q\nr", "tab"]


def proj_color(c):
    if c is None or c.is_default:
        return dict(k="def", a=0, b=0, c=0)
    t = c.type.name
    if t in ("STANDARD", "WINDOWS"):
        return dict(k="std", a=c.number, b=0, c=0)
    if t == "EIGHT_BIT":
        return dict(k="std", a=c.number, b=0, c=0) if c.number < 16 else dict(k="idx", a=c.number, b=0, c=0)
    tr = c.triplet
    return dict(k="rgb", a=tr.red, b=tr.green, c=tr.blue)


def proj_style(st, links):
    if st is None:
        return dict(attrs=[], fg=proj_color(None), bg=proj_color(None), link=0)
    return dict(attrs=[i + 1 for i, a in enumerate(ATTRS) if getattr(st, a)], fg=proj_color(st.color), bg=proj_color(st.bgcolor),
                link=0 if not st.link else links.setdefault(st.link, len(links) + 1))


_MEANING = {}      # id(style) -> (style, what it meant when it was created)


def remember(st):
    """Snapshot of what a style means, taken when it is created: a later in-place change of a shared Style
    object (e.g. by a NO_COLOR console) must show up as a difference, not silently change the expectation."""
    _MEANING[id(st)] = (st, dict(attrs=[i + 1 for i, a in enumerate(ATTRS) if getattr(st, a)], color=st.color, bgcolor=st.bgcolor, link=st.link))
    return st


def expected_pen(st, cfg, links):
    """What the style MEANS on this console: attributes set to True, colours after the documented
    down-conversion (Color.downgrade - C18's subject), link unless legacy windows."""
    from rich.color import ColorSystem
    if cfg["system"] == "none" or st is None:
        return dict(attrs=[], fg=proj_color(None), bg=proj_color(None), link=0)
    sysmap = {"standard": ColorSystem.STANDARD, "256": ColorSystem.EIGHT_BIT, "truecolor": ColorSystem.TRUECOLOR, "windows": ColorSystem.WINDOWS}
    cs = sysmap[cfg["system"]]
    held = _MEANING.get(id(st))
    m = held[1] if held is not None and held[0] is st else dict(attrs=[i + 1 for i, a in enumerate(ATTRS) if getattr(st, a)], color=st.color, bgcolor=st.bgcolor, link=st.link)
    p = dict(attrs=list(m["attrs"]), link=0)
    for key, col in (("fg", m["color"]), ("bg", m["bgcolor"])):
        p[key] = proj_color(None) if (col is None or cfg["nocolor"]) else proj_color(col.downgrade(cs))
    if m["link"] and not cfg["legacy"]:
        p["link"] = links.setdefault(m["link"], len(links) + 1)
    return p


def random_style(rng, Style):
    kw = {a: rng.choice([None, None, None, None, True, True, False]) for a in ATTRS}

    def col():
        r = rng.random()
        if r < 0.3:
            return None
        if r < 0.36:
            return "default"
        if r < 0.6:
            return rng.choice(["black", "red", "green", "yellow", "blue", "magenta", "cyan", "white", "bright_black", "bright_red",
                               "bright_green", "bright_yellow", "bright_blue", "bright_magenta", "bright_cyan", "bright_white"])
        if r < 0.8:
            return "color(%d)" % rng.choice([0, 7, 8, 15, 16, 17, 231, 232, 255, rng.randrange(256)])
        return "#%02x%02x%02x" % tuple(rng.choice([0, 1, 95, 128, 254, 255, rng.randrange(256)]) for _ in range(3))
    link = rng.choice([None, None, None, "https://example.org/a", "https://example.org/b?x=1", "https://example.org/c?q=rich;lang=en&x=%20#frag",
                       "file:///tmp/a b;c"])
    return remember(Style(color=col(), bgcolor=col(), link=link, **kw))


class TtyFile(io.StringIO):
    """A file that claims to be a terminal: force_terminal=False must still win."""

    def isatty(self):
        return True


def make_console(cfg):
    from rich.console import Console
    f = TtyFile() if cfg.get("tty") else io.StringIO()
    cs = None if cfg["system"] == "none" else cfg["system"]
    c = Console(file=f, force_terminal=cfg["terminal"], color_system=cs, width=400, no_color=cfg["nocolor"], legacy_windows=cfg["legacy"],
                _environ={}, highlight=False)
    if cs is None:
        c._color_system = None
    return c, f


def print_case(segs, cfg, links):
    """segs: [(text, Style|None, is_control)] printed once on a console of configuration cfg."""
    from rich.segment import Segment

    class Segs:
        def __rich_console__(self, console, options):
            for text, st, ctl in segs:
                yield Segment(text, st, ctl) if ctl else Segment(text, st)
    console, f = make_console(cfg)
    rec = dict(cfg=cfg, exc="none", hasdec=False, dec=[], segs=[], out=[])
    try:
        console.print(Segs(), end="")
    except Exception as ex:
        rec["exc"] = type(ex).__name__
    out = f.getvalue()
    rec["out"] = lex(out, links)
    rec["segs"] = [dict(text=[ord(ch) for ch in text], pen=expected_pen(st, cfg, links)) for text, st, ctl in segs if not ctl]
    if cfg["system"] == "truecolor" and not cfg["legacy"] and not cfg["nocolor"] and rec["exc"] == "none":
        from rich.ansi import AnsiDecoder
        dec = AnsiDecoder()
        cells = []
        try:
            lines = out.split("\n")
            for li, line in enumerate(lines):
                t = dec.decode_line(line)
                for seg in t.render(console):
                    p = proj_style(seg.style, links)
                    for ch in seg.text:
                        cells.append([ord(ch), p])
                if li < len(lines) - 1:
                    cells.append([10, proj_style(None, links)])
            rec["hasdec"] = True
            rec["dec"] = cells
        except Exception as ex:
            rec["exc"] = "decoder-" + type(ex).__name__
    return rec, out


def random_case(rng, Style):
    """One history: a pool of Style objects reused on several consoles in a row."""
    pool = [random_style(rng, Style) for _ in range(rng.randint(1, 4))] + [None]
    segs = []
    for _ in range(rng.randint(1, 6)):
        if rng.random() < 0.1:
            segs.append(("\x07", None, True))
        else:
            segs.append((rng.choice(TEXTS), rng.choice(pool), False))
    cfgs = []
    for _ in range(rng.randint(1, 4)):
        system = rng.choice(SYSTEMS)
        legacy = rng.random() < 0.15 and system != "none"
        cfgs.append(dict(system="windows" if legacy else system, nocolor=rng.random() < 0.15, terminal=rng.random() < 0.8, legacy=legacy,
                         tty=rng.random() < 0.3))
    return segs, cfgs


def describe(segs, cfgs):
    return dict(segments=[(t, str(st) if st is not None else None, ctl) for t, st, ctl in segs], consoles=cfgs)


def run_cases(chk, n, only_decoder=False):
    from rich.style import Style
    recs, meta = [], []
    _MEANING.clear()
    for _ in range(n):
        segs, cfgs = random_case(chk.rng, Style)
        if only_decoder:
            cfgs = [dict(system="truecolor", nocolor=False, terminal=True, legacy=False, tty=False)]
            segs = [sg for sg in segs if not sg[2]] or [("a", None, False)]     # styled text only: control codes are not text
        links = {}
        for i, cfg in enumerate(cfgs):
            rec, out = print_case(segs, cfg, links)
            recs.append(rec)
            meta.append((segs, cfgs, i))
    return recs, meta


def judge(chk, recs, meta, label, prefix=""):
    verdicts, st = tlc.judge("Trace_Sgr", recs)
    chk.add_tlc(st, label)
    chk.traces += len(recs)
    for rec, (segs, cfgs, i), v in zip(recs, meta, verdicts):
        styled = any(s["pen"]["attrs"] or s["pen"]["fg"]["k"] != "def" or s["pen"]["bg"]["k"] != "def" for s in rec["segs"])
        chk.case((repr(describe(segs, cfgs)), i), styled)
        if v != "ok":
            if prefix == "decoder" and not v.startswith("decoder"):
                continue        # the encoder clauses are C03's
            if prefix == "" and v.startswith("decoder"):
                continue        # the decoder clause is C19's
            cfg = cfgs[i]
            reused = i > 0 and any(c["system"] != cfg["system"] for c in cfgs[:i])
            sig = "%s system=%s nocolor=%s terminal=%s%s legacy=%s%s" % (v, cfg["system"], cfg["nocolor"], cfg["terminal"], "(tty file)" if cfg.get("tty") else "", cfg["legacy"],
                                                                     " style-reused-after-other-system" if reused else "")
            chk.reject(sig, v, dict(part=prefix or "encoder", segments=[(t, None if s is None else repr_style(s), ctl) for t, s, ctl in segs], consoles=cfgs[:i + 1]))
    return verdicts


def repr_style(st):
    return dict(attrs={a: getattr(st, a) for a in ATTRS if getattr(st, a) is not None}, color=st.color.name if st.color else None,
                bgcolor=st.bgcolor.name if st.bgcolor else None, link=st.link)


def rebuild(case):
    from rich.style import Style
    segs = []
    cache = {}
    for t, s, ctl in case["segments"]:
        if s is None:
            segs.append((t, None, ctl))
        else:
            key = repr(s)
            if key not in cache:
                cache[key] = remember(Style(color=s["color"], bgcolor=s["bgcolor"], link=s["link"], **s["attrs"]))
            segs.append((t, cache[key], ctl))
    return segs, case["consoles"]


def run(chk: Check):
    chk.rule = ("a case is (segment sequence, console configuration, position in a history): 1-6 segments with styles over the 13 tri-state "
                "attributes x {none, default, 16 standard, indexed, 24-bit} foreground x same background x optional link, bell control segments, "
                "printed on 1-4 consoles in a row (colour system none/standard/256/truecolor/windows x no_color x terminal x legacy windows) that "
                "share the Style objects; distinct by (segments, consoles, position); non-trivial = some segment carries an attribute or colour")
    chk.trusted = ["engine/sgrlex.py (lexical tokeniser)", "drivers/c03.py:expected_pen (Style getters; Color.downgrade for the documented down-conversion, judged by C18)"]
    chk.assumptions = ["console wide enough not to wrap or crop"]
    if chk.replay_only:
        segs, cfgs = rebuild(chk.replay_only["case"])
        links, recs, meta = {}, [], []
        for i, cfg in enumerate(cfgs):
            rec, out = print_case(segs, cfg, links)
            recs.append(rec)
            meta.append((segs, cfgs, i))
        judge(chk, recs, meta, "M3")
        return
    r, cov, missing = tlc.model_check("MC_Sgr", coverage=False)
    chk.add_tlc(r, "M1-encoder-design-vs-terminal")
    if r.violated:
        raise tlc.TLCFailure("MC_Sgr violated %s\n%s" % (r.violated, r.out[-2000:]))
    chk.mark("M1")
    recs, meta = run_cases(chk, chk.pick(2500, 40000))
    chk.mark("execute")
    judge(chk, recs, meta, "M3")
    chk.mark("judge")
    if recs:
        segs, cfgs, i = meta[-1]
        chk.sample(dict(case=describe(segs, cfgs), printed_on=cfgs[i], output_events=recs[-1]["out"][:25]))
