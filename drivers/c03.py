"""C03 - the ANSI stream written means exactly what the styled segments say (and, for truecolor
output, C19's decoder round trip).  Styled segment sequences are written through real consoles of
every colour system / NO_COLOR / terminal / legacy-windows configuration - the SAME Style objects
on several consoles in a row -; the written characters are tokenised lexically and TLC interprets
them with the independent terminal automaton Sgr.tla (Trace_Sgr).

A case (JSON-able, = the replay payload):
  styles   recipes of the Style objects of the history (how each is BUILT: keywords, Style.parse, +, chain / combine,
           copy, update_link, without_color, from_color, null, rendered beforehand for another colour system)
  segs     [[text, style index | None, is_control]]
  mode     how the segments reach the console: "segs" one renderable yielding Segments, "split" the same in 2-3 prints
           on one console, "text" a rich.text.Text with one span per segment, "str" console.print(str, style=) per
           segment, "out" console.out(str, style=) per segment
  pbase    style index | None: print(style=) / Text(style=) under the segment styles
  cbase    style index | None: Console(style=) under the segment styles (never together with pbase: the statement does
           not say which of the two lies under the other)
  crop     print(crop=)
  decapi   "line" | "all": AnsiDecoder.decode_line per line / AnsiDecoder.decode of the whole output
  consoles [cfg]: system (or "auto" + TERM / COLORTERM), nocolor (by argument or by NO_COLOR in the environment),
           force (force_terminal True / False / None = ask the file), tty (the file claims to be one), legacy, record"""
import os
import sys
import io

from engine import tlc
from engine.harness import Check
from engine.sgrlex import lex

ATTRS = ["bold", "dim", "italic", "underline", "blink", "blink2", "reverse", "conceal", "strike", "underline2", "frame", "encircle", "overline"]
SHORT = {"bold": "b", "dim": "d", "italic": "i", "underline": "u", "reverse": "r", "conceal": "c", "strike": "s", "underline2": "uu", "overline": "o"}
SYSTEMS = ["none", "standard", "256", "truecolor", "windows"]
# no C0 controls and no ESC inside text: a terminal would interpret them, whatever the console does
TEXTS = ["a", "xy", " ", "\n", "\u4e16", "\xe9", "0", "q\nr", "tab", "", "a;b", "[x]", "]8;;", "m", "0m", "\\", "1;31", "ab cd  e", "  x ", "\uff21\uff22",
         "e\u0301", "\U0001f642", "\u200b", "[/]", "38;5;1m", "\n\n", "x\n"]
STD_NAMES = ["black", "red", "green", "yellow", "blue", "magenta", "cyan", "white", "bright_black", "bright_red", "bright_green", "bright_yellow",
             "bright_blue", "bright_magenta", "bright_cyan", "bright_white"]
NAMES_256 = ["grey0", "navy_blue", "dark_orange3", "grey100", "purple", "orange1", "grey3", "grey93", "deep_pink4", "light_coral"]
LINKS = ["https://example.org/a", "https://example.org/b?x=1", "https://example.org/c?q=rich;lang=en&x=%20#frag", "file:///tmp/a b;c",
         "x", "mailto:a@b.c", "https://example.org/]m[0m", "https://\u4f8b.org/\xfc"]
CONTROLS = ["\x07", "\x1b[?25l", "\x1b[?25h", "\x1b[2K", "\x1b[1A", "\r", "\x1b[H", "\x1b[2J", "\x1b[1A\x1b[2K"]


# ------------------------------------------------------------------------------------------ recipes -> objects
def build_color(rc):
    from rich.color import Color, ColorSystem
    from rich.color_triplet import ColorTriplet
    if rc is None or isinstance(rc, str):
        return rc                                   # a string is handed to Style / parse as it is
    k = rc["k"]
    if k == "parse":
        return Color.parse(rc["v"])
    if k == "rgb":
        return Color.from_rgb(*rc["v"])
    if k == "triplet":
        return Color.from_triplet(ColorTriplet(*rc["v"]))
    if k == "ansi":
        return Color.from_ansi(rc["v"])
    if k == "win":
        return Color.parse(rc["v"]).downgrade(ColorSystem.WINDOWS)
    if k == "default":
        return Color.default()
    raise ValueError(k)


def build_style(r, built=None):
    from rich.color import ColorSystem
    from rich.style import Style
    k = r["r"]
    if k == "kw":
        return Style(color=build_color(r.get("color")), bgcolor=build_color(r.get("bgcolor")), link=r.get("link"), **r.get("attrs", {}))
    if k == "parse":
        return Style.parse(r["d"])
    if k == "null":
        return Style.null()
    if k == "add":
        return build_style(r["a"]) + build_style(r["b"])
    if k == "chain":
        return Style.chain(*[build_style(x) for x in r["items"]])
    if k == "combine":
        return Style.combine([build_style(x) for x in r["items"]])
    if k == "copy":
        return build_style(r["a"]).copy()
    if k == "ulink":
        return build_style(r["a"]).update_link(r["link"])
    if k == "nocolor":
        return build_style(r["a"]).without_color
    if k == "fromcolor":
        from rich.color import Color
        fg, bg = build_color(r.get("color")), build_color(r.get("bgcolor"))
        return Style.from_color(Color.parse(fg) if isinstance(fg, str) else fg, Color.parse(bg) if isinstance(bg, str) else bg)
    if k == "prerender":
        # the object has already produced codes for some colour system before the history starts
        st = build_style(r["a"])
        cs = {"standard": ColorSystem.STANDARD, "256": ColorSystem.EIGHT_BIT, "truecolor": ColorSystem.TRUECOLOR, "windows": ColorSystem.WINDOWS}[r["sys"]]
        st.render("x", color_system=cs)
        return st
    raise ValueError(k)


def col_recipe(rng):
    r = rng.random()
    if r < 0.28:
        return None
    if r < 0.34:
        return rng.choice(["default", dict(k="default")])
    if r < 0.52:
        return rng.choice(STD_NAMES)
    if r < 0.56:
        return rng.choice(NAMES_256)
    if r < 0.70:
        n = rng.choice([0, 7, 8, 15, 16, 17, 231, 232, 255, rng.randrange(256)])
        return rng.choice(["color(%d)" % n, dict(k="ansi", v=n)])
    if r < 0.75:
        return dict(k="win", v=rng.choice(STD_NAMES))
    t = [rng.choice([0, 1, 95, 128, 254, 255, rng.randrange(256)]) for _ in range(3)]
    if rng.random() < 0.15:
        t = [t[0]] * 3                              # greys
    return rng.choice(["#%02x%02x%02x" % tuple(t), "#%02X%02X%02X" % tuple(t), "rgb(%d,%d,%d)" % tuple(t), dict(k="rgb", v=t), dict(k="triplet", v=t)])


def col_word(rc, rng):
    """a colour recipe as a word of a style definition (None if it has no spelling)"""
    if isinstance(rc, str):
        return rc
    if isinstance(rc, dict) and rc["k"] == "ansi":
        return "color(%d)" % rc["v"]
    if isinstance(rc, dict) and rc["k"] in ("rgb", "triplet"):
        return "#%02x%02x%02x" % tuple(rc["v"])
    if isinstance(rc, dict) and rc["k"] == "default":
        return "default"
    return None


def leaf_recipe(rng):
    r = rng.random()
    attrs = {a: v for a in ATTRS for v in [rng.choice([None, None, None, None, True, True, False])] if v is not None}
    link = rng.choice([None, None, None] + LINKS)
    fg, bg = col_recipe(rng), col_recipe(rng)
    if r < 0.55:
        return dict(r="kw", attrs=attrs, color=fg, bgcolor=bg, link=link)
    if r < 0.80:
        words = []
        for a, v in attrs.items():
            w = SHORT[a] if a in SHORT and rng.random() < 0.4 else a
            words.append(w if v else "not " + w)
        f, b = col_word(fg, rng), col_word(bg, rng)
        if f:
            words.append(f)
        if b:
            words.append("on " + b)
        rng.shuffle(words)
        if link and " " not in link:
            words.append("link " + link)
        return dict(r="parse", d=" ".join(words) or "none")
    if r < 0.88:
        return dict(r="fromcolor", color=fg, bgcolor=bg)
    if r < 0.92:
        return dict(r="null")
    # styles that say something without switching anything on: only False attributes / only a link / only "default"
    return rng.choice([dict(r="kw", attrs={a: False for a in rng.sample(ATTRS, rng.randint(1, 3))}),
                       dict(r="kw", link=rng.choice(LINKS)), dict(r="kw", color="default", bgcolor="default"),
                       dict(r="kw", attrs={a: True for a in ATTRS}), dict(r="kw", attrs={rng.choice(ATTRS): True})])


def style_recipe(rng, depth=0):
    r = rng.random()
    if depth >= 2 or r < 0.62:
        return leaf_recipe(rng)
    sub = lambda: style_recipe(rng, depth + 1)
    if r < 0.72:
        return dict(r="add", a=sub(), b=sub())
    if r < 0.77:
        return dict(r=rng.choice(["chain", "combine"]), items=[sub() for _ in range(rng.randint(1, 3))])
    if r < 0.82:
        return dict(r="copy", a=sub())
    if r < 0.88:
        return dict(r="ulink", a=sub(), link=rng.choice([None] + LINKS))
    if r < 0.92:
        return dict(r="nocolor", a=sub())
    return dict(r="prerender", a=sub(), sys=rng.choice(SYSTEMS[1:]))


# ------------------------------------------------------------------------------------------ projections
def proj_color(c):
    if c is None or c.is_default:
        return dict(k="def", a=0, b=0, c=0)
    t = c.type.name
    if t in ("STANDARD", "WINDOWS"):
        return dict(k="std", a=c.number, b=0, c=0)
    if t == "EIGHT_BIT":
        return dict(k="std", a=c.number, b=0, c=0) if c.number < 16 else dict(k="idx", a=c.number, b=0, c=0)
    tr = c.triplet
    return dict(k="rgb", a=tr.red, b=tr.green, c=tr.blue)


UNSET = dict(k="unset", a=0, b=0, c=0)


def proj_style(st, links):
    if st is None:
        return dict(attrs=[], fg=proj_color(None), bg=proj_color(None), link=0)
    return dict(attrs=[i + 1 for i, a in enumerate(ATTRS) if getattr(st, a)], fg=proj_color(st.color), bg=proj_color(st.bgcolor),
                link=0 if not st.link else links.setdefault(st.link, len(links) + 1))


_MEANING = {}      # id(style) -> (style, what it meant when it was created)


def snapshot(st):
    return dict(on=[i + 1 for i, a in enumerate(ATTRS) if getattr(st, a) is True], off=[i + 1 for i, a in enumerate(ATTRS) if getattr(st, a) is False],
                color=st.color, bgcolor=st.bgcolor, link=st.link)


def remember(st):
    """Snapshot of what a style means, taken when it is created: a later in-place change of a shared Style
    object (e.g. by a NO_COLOR console) must show up as a difference, not silently change the expectation."""
    _MEANING[id(st)] = (st, snapshot(st))
    return st


def layer(st, system, links):
    """One style as a layer of Trace_Sgr: attributes switched on / off, colours (after the documented down-conversion
    to the console's colour system, Color.downgrade - C18's subject) or unset, link id or 0.  What NO_COLOR, a disabled
    colour system and legacy windows do to it is the specification's business, not the projection's."""
    from rich.color import ColorSystem
    held = _MEANING.get(id(st))
    m = held[1] if held is not None and held[0] is st else snapshot(st)
    cs = {"standard": ColorSystem.STANDARD, "256": ColorSystem.EIGHT_BIT, "truecolor": ColorSystem.TRUECOLOR, "windows": ColorSystem.WINDOWS}.get(system)
    out = dict(on=m["on"], off=m["off"], link=0 if not m["link"] else links.setdefault(m["link"], len(links) + 1))
    for key, col in (("fg", m["color"]), ("bg", m["bgcolor"])):
        out[key] = UNSET if col is None else proj_color(col if cs is None else col.downgrade(cs))
    return out


# ------------------------------------------------------------------------------------------ execution
class TtyFile(io.StringIO):
    """A file that claims to be a terminal: force_terminal=False must still win."""

    def isatty(self):
        return True


def make_console(cfg, cbase=None):
    from rich.console import Console
    f = TtyFile() if cfg.get("tty") else io.StringIO()
    env = dict(cfg.get("auto") or {})
    if cfg.get("nocolor_env"):
        env["NO_COLOR"] = "1"
    if cfg.get("auto") is not None:
        cs = "auto"
    else:
        cs = None if cfg["system"] == "none" else cfg["system"]
    force = cfg["force"] if "force" in cfg else cfg["terminal"]
    c = Console(file=f, force_terminal=force, color_system=cs, width=400, no_color=(None if cfg.get("nocolor_env") else cfg["nocolor"]),
                legacy_windows=cfg["legacy"], _environ=env, highlight=False, record=bool(cfg.get("record")), style=cbase)
    return c, f


def effective(cfg, console):
    """the configuration as the statement names it: colour system in force (for "auto" the one the console reports),
    NO_COLOR, is the target a terminal (forced, else what the file says), legacy windows"""
    system = cfg["system"]
    if cfg.get("auto") is not None:
        system = console.color_system or "none"
    force = cfg["force"] if "force" in cfg else cfg["terminal"]
    return dict(system=system, nocolor=bool(cfg["nocolor"]), terminal=bool(cfg.get("tty")) if force is None else bool(force), legacy=bool(cfg["legacy"]))


def print_case(case, styles, cfg, links):
    """the case's segments written once through a console of configuration cfg; styles: the built Style objects."""
    from rich.segment import Segment
    from rich.text import Text
    segs = [(t, None if s is None else styles[s], ctl) for t, s, ctl in case["segs"]]
    mode = case.get("mode", "segs")
    pbase = None if case.get("pbase") is None else styles[case["pbase"]]
    cbase = None if case.get("cbase") is None else styles[case["cbase"]]
    if mode not in ("segs", "split"):
        segs = [sg for sg in segs if not sg[2]]

    class Segs:
        def __init__(self, part):
            self.part = part

        def __rich_console__(self, console, options):
            for text, st, ctl in self.part:
                yield Segment(text, st, ctl) if ctl else Segment(text, st)
    console, f = make_console(cfg, cbase)
    eff = effective(cfg, console)
    rec = dict(cfg=eff, exc="none", hasdec=False, dec=[], segs=[], out=[], ctls=[])
    try:
        if mode == "segs":
            console.print(Segs(segs), end="", style=pbase, crop=case.get("crop", True))
        elif mode == "split":
            k = max(1, min(len(segs), case.get("pieces", 2)))
            step = -(-len(segs) // k)
            for i in range(0, len(segs), step):
                console.print(Segs(segs[i:i + step]), end="", style=pbase, crop=case.get("crop", True))
        elif mode == "text":
            t = Text(end="", style=pbase if pbase is not None else "")
            for text, st, ctl in segs:
                t.append(text, st)
            console.print(t, end="", crop=case.get("crop", True))
        elif mode == "str":
            for text, st, ctl in segs:
                console.print(text, style=st, end="", markup=False, emoji=False, highlight=False, crop=case.get("crop", True))
        else:
            for text, st, ctl in segs:
                console.out(text, style=st, end="", highlight=False)
    except Exception as ex:
        rec["exc"] = type(ex).__name__
    out = f.getvalue()
    rec["out"] = lex(out, links, controls=True)
    base = [b for b in (cbase, pbase if mode in ("segs", "split", "text") else None) if b is not None]
    for text, st, ctl in segs:
        if ctl:
            rec["ctls"].extend(lex(text, links, controls=True))
        else:
            rec["segs"].append(dict(text=[ord(ch) for ch in text], layers=[layer(x, eff["system"], links) for x in base + ([st] if st is not None else [])]))
    if eff["system"] == "truecolor" and rec["exc"] == "none":
        from rich.ansi import AnsiDecoder
        dec = AnsiDecoder()
        cells = []
        try:
            if case.get("decapi", "line") == "all":
                texts = list(dec.decode(out))
                if out.endswith("\n") or out == "":
                    texts.append(None)
            else:
                texts = [dec.decode_line(line) for line in out.split("\n")]
            for li, t in enumerate(texts):
                if t is not None:
                    for seg in t.render(console):
                        p = proj_style(seg.style, links)
                        for ch in seg.text:
                            cells.append([ord(ch), p])
                if li < len(texts) - 1:
                    cells.append([10, proj_style(None, links)])
            rec["hasdec"] = True
            rec["dec"] = cells
        except Exception as ex:
            rec["exc"] = "decoder-" + type(ex).__name__
    return rec, out


def run_case(case):
    """-> records (one per console of the history) ; the Style objects are built once and shared by all consoles"""
    styles = [remember(build_style(r)) for r in case["styles"]]
    links = {}
    recs = []
    for cfg in case["consoles"]:
        rec, out = print_case(case, styles, cfg, links)
        recs.append(rec)
    return recs


# ------------------------------------------------------------------------------------------ generation
def random_cfg(rng):
    system = rng.choice(SYSTEMS)
    legacy = rng.random() < 0.2 and system != "none"
    if legacy and rng.random() < 0.6:
        system = "windows"                           # what a legacy console really has; the other systems remain combinable
    auto = None
    force = rng.choice([True, True, True, False, None])
    tty = rng.random() < 0.4
    if rng.random() < 0.12:
        auto = rng.choice([{"TERM": "xterm-256color"}, {"TERM": "xterm"}, {"COLORTERM": "truecolor", "TERM": "xterm"}, {"COLORTERM": "24bit"},
                           {"TERM": "dumb"}, {"TERM": "unknown"}, {"TERM": "linux-16color"}, {}])
        system = "auto"
        legacy = False
    nocolor = rng.random() < 0.18
    return dict(system=system, auto=auto, nocolor=nocolor, nocolor_env=nocolor and rng.random() < 0.4, force=force, tty=tty, legacy=legacy,
                record=rng.random() < 0.15)


def random_case(rng, only_decoder=False):
    """One history: a pool of Style objects reused on several consoles in a row."""
    n = rng.randint(1, 4)
    styles = [style_recipe(rng) for _ in range(n)]
    segs = []
    for _ in range(rng.randint(1, 8)):
        if rng.random() < 0.1 and not only_decoder:
            # (a control segment may carry a style: it is still not text, and still not for a non-terminal)
            segs.append([rng.choice(CONTROLS), rng.choice([None, None, rng.randrange(n)]), True])
        else:
            segs.append([rng.choice(TEXTS), rng.choice(list(range(n)) + [None]), False])
    mode = rng.choice(["segs", "segs", "segs", "split", "text", "str", "out"])
    case = dict(styles=styles, segs=segs, mode=mode, pieces=rng.randint(2, 3), pbase=None, cbase=None, crop=rng.random() < 0.7,
                decapi=rng.choice(["line", "all"]))
    if rng.random() < 0.25 and mode not in ("str", "out"):
        # (print(str, style=) under a console style: the style argument IS the segment's style there, and which of the two
        # lies under the other is not stated)
        case["cbase" if rng.random() < 0.4 else "pbase"] = rng.randrange(n)
    if only_decoder:
        # styled text only (control codes are not text), printed in truecolor
        if not any(not sg[2] for sg in segs):
            segs.append(["a", None, False])
        case["consoles"] = [dict(system="truecolor", auto=None, nocolor=rng.random() < 0.1, nocolor_env=False, force=True, tty=False,
                                 legacy=rng.random() < 0.1, record=False)]
    else:
        case["consoles"] = [random_cfg(rng) for _ in range(rng.randint(1, 4))]
    return case


def sweep_cases():
    """hand-listed: every attribute alone (on, and off over an "on" base), every standard colour, the boundaries of the
    indexed and 24-bit ranges, default, as foreground and as background - each on all five colour systems in a row (same
    objects), once more under NO_COLOR, on legacy windows and on a non-terminal."""
    row = [dict(system=s, auto=None, nocolor=False, nocolor_env=False, force=True, tty=False, legacy=False, record=False) for s in SYSTEMS]
    extra = [dict(row[3], nocolor=True), dict(row[1], nocolor=True, nocolor_env=True), dict(row[4], legacy=True), dict(row[3], force=False, tty=True),
             dict(row[2], force=None, tty=True), dict(row[2], force=None, tty=False)]
    singles = [dict(r="kw", attrs={a: True}) for a in ATTRS] + [dict(r="parse", d=a) for a in ATTRS] + [dict(r="parse", d=s) for s in SHORT.values()]
    cols = STD_NAMES + ["color(%d)" % n for n in (0, 7, 8, 15, 16, 17, 51, 196, 231, 232, 243, 255)] + ["#000000", "#ffffff", "#ff0000", "#010203", "#808080", "default"]
    singles += [dict(r="kw", color=c) for c in cols] + [dict(r="kw", bgcolor=c) for c in cols]
    singles += [dict(r="kw", link=l) for l in LINKS]
    for r in singles:
        yield dict(styles=[r], segs=[["a", 0, False], ["b", None, False], ["\x1b[2K", None, True], ["\x07", 0, True], ["c\nd", 0, False]], mode="segs", pbase=None, cbase=None, crop=True,
                   decapi="line", consoles=row + extra)
    everything = dict(r="kw", attrs={a: True for a in ATTRS}, color="red", bgcolor="#010203", link=LINKS[2])
    for a in ATTRS:
        # an attribute switched off over a base that has everything on
        yield dict(styles=[everything, dict(r="kw", attrs={a: False})], segs=[["a", 1, False], ["b", None, False], ["c", 1, False]], mode="segs", pbase=0, cbase=None,
                   crop=True, decapi="all", consoles=row + extra[:3])
    # construction routes applied to the null style and to each other
    null = dict(r="null")
    red = dict(r="parse", d="red")
    routes = [dict(r="ulink", a=null, link="x"), dict(r="ulink", a=dict(r="kw"), link="x"), dict(r="add", a=null, b=red), dict(r="add", a=red, b=null),
              dict(r="copy", a=null), dict(r="copy", a=dict(r="kw", link="x", attrs=dict(bold=True))), dict(r="nocolor", a=red), dict(r="nocolor", a=dict(r="parse", d="bold red on blue")),
              dict(r="fromcolor", color=None, bgcolor=None), dict(r="fromcolor", color="red", bgcolor=None), dict(r="fromcolor", color=None, bgcolor="#010203"),
              dict(r="chain", items=[null]), dict(r="combine", items=[null, red, dict(r="kw", attrs=dict(bold=True))]), dict(r="ulink", a=dict(r="kw", link="x", color="red"), link=None),
              dict(r="add", a=dict(r="prerender", a=dict(r="kw", color="#ff0000"), sys="truecolor"), b=dict(r="kw", attrs=dict(bold=True))),
              dict(r="copy", a=dict(r="prerender", a=dict(r="kw", color="#ff0000", attrs=dict(bold=True)), sys="standard")),
              dict(r="ulink", a=dict(r="prerender", a=dict(r="kw", color="#ff0000", attrs=dict(bold=True)), sys="256"), link="x"),
              dict(r="nocolor", a=dict(r="prerender", a=dict(r="kw", color="#ff0000", attrs=dict(bold=True)), sys="truecolor"))]
    for r in routes:
        yield dict(styles=[r], segs=[["a", 0, False], ["b", None, False], ["c", 0, False]], mode="segs", pbase=None, cbase=None, crop=False, decapi="all",
                   consoles=row + extra[:3])
    for mode in ("segs", "split", "text", "str", "out"):
        for base in ("pbase", "cbase", None):
            c = dict(styles=[everything, dict(r="kw", color="color(9)", attrs=dict(bold=False)), dict(r="kw", bgcolor="default", link="x")],
                     segs=[["a", 1, False], [" ", 2, False], ["b", None, False], ["q\nr", 1, False], ["", 2, False], ["z", 2, False]], mode=mode, pieces=3,
                     pbase=None, cbase=None, crop=mode != "out", decapi="all", consoles=row + extra)
            if base and mode not in ("str", "out"):
                c[base] = 0
            yield c


def big_cases(thorough=False):
    """one flush of several hundred segments (a long table, a log of a few hundred lines): neighbouring segments whose styles write
    the same SGR parameters and differ in what SGR does not carry (the hyperlink), or write different parameters for the same look"""
    row = [dict(system=s, auto=None, nocolor=False, nocolor_env=False, force=True, tty=False, legacy=False, record=False) for s in ("truecolor", "256", "standard")]
    styles = [dict(r="kw", attrs=dict(bold=True)), dict(r="kw", attrs=dict(bold=True), link=LINKS[0]), dict(r="kw", attrs=dict(bold=True), link=LINKS[1]),
              dict(r="kw", link=LINKS[2]), dict(r="parse", d="bold"), dict(r="kw", color="red"), dict(r="kw", color="color(1)")]
    for n, order in (((90, (0, 1, 2)), (150, (None, 3, None)), (400, (4, 1, 0, 2)), (300, (5, 6, 3, None))) if thorough else ((90, (0, 1, 2)),)):
        segs = []
        for i in range(n):
            for j, si in enumerate(order):
                segs.append(["%s%d" % ("abcd"[j], i % 10), si, False])
            segs.append(["\n", None, False])
        for mode in (("segs", "text") if thorough else ("segs",)):
            yield dict(styles=styles, segs=segs, mode=mode, pieces=2, pbase=None, cbase=None, crop=False, decapi="all", consoles=row if thorough else row[:1])


def describe(case, i):
    return dict(case, consoles=case["consoles"][:i + 1])


def upgrade(case):
    """replay files written before the case format above: {segments: [(text, style dict | None, ctl)], consoles}"""
    if "segments" not in case:
        return case
    styles, segs, idx = [], [], {}
    for t, s, ctl in case["segments"]:
        if s is None:
            segs.append([t, None, ctl])
        else:
            key = repr(s)
            if key not in idx:
                idx[key] = len(styles)
                styles.append(dict(r="kw", attrs=s["attrs"], color=s["color"], bgcolor=s["bgcolor"], link=s["link"]))
            segs.append([t, idx[key], ctl])
    return dict(styles=styles, segs=segs, mode="segs", pbase=None, cbase=None, crop=True, decapi="line", consoles=case["consoles"])


def run_cases(chk, n, only_decoder=False, sweep=False):
    recs, meta = [], []
    _MEANING.clear()
    cases = (list(sweep_cases()) + list(big_cases(os.environ.get("VERIF_TIER") == "thorough"))) if sweep else []
    cases += [random_case(chk.rng, only_decoder) for _ in range(n)]
    for case in cases:
        for i, rec in enumerate(run_case(case)):
            recs.append(rec)
            meta.append((case, i))
    return recs, meta


def judge(chk, recs, meta, label, prefix=""):
    verdicts, st = tlc.judge("Trace_Sgr", recs)
    chk.add_tlc(st, label)
    chk.traces += len(recs)
    for rec, (case, i), v in zip(recs, meta, verdicts):
        styled = any(l["on"] or l["fg"]["k"] not in ("def", "unset") or l["bg"]["k"] not in ("def", "unset") for s in rec["segs"] for l in s["layers"])
        chk.case((repr(case), i), styled)
        if v != "ok":
            if prefix == "decoder" and not v.startswith("decoder"):
                continue        # the encoder clauses are C03's
            if prefix == "" and v.startswith("decoder"):
                continue        # the decoder clause is C19's
            cfg, eff = case["consoles"][i], rec["cfg"]
            reused = i > 0 and any(r["cfg"]["system"] != eff["system"] for r, (c2, j) in zip(recs, meta) if c2 is case and j < i)
            force = cfg["force"] if "force" in cfg else cfg.get("terminal")
            sig = "%s system=%s%s nocolor=%s%s terminal=%s%s legacy=%s mode=%s%s%s" % (
                v, eff["system"], "(auto)" if cfg.get("auto") is not None else "", eff["nocolor"], "(env)" if cfg.get("nocolor_env") else "", eff["terminal"],
                "(tty file)" if cfg.get("tty") and force is False else ("(asked the file)" if force is None else ""), eff["legacy"], case.get("mode", "segs"),
                " base=%s" % ("console" if case.get("cbase") is not None else "print") if (case.get("cbase") is not None or case.get("pbase") is not None) else "",
                " style-reused-after-other-system" if reused else "")
            if v.startswith("control-code") and any(ctl and st is not None for t, st, ctl in case["segs"]):
                sig += " styled-control"
            chk.reject(sig, v, dict(describe(case, i), part=prefix or "encoder"))
    return verdicts


def repo_suite_traces(chk):
    """Code -> spec on the repository's OWN executions: the tree's test-suite runs under tools/pytest_sgrtrace.py, which logs one
    Trace_Sgr record per Console._render_buffer call (segments in, characters out); TLC judges each with the terminal automaton.
    Whether the tests themselves pass is not our business; a tree without tests/ is skipped (noted in the evidence)."""
    import json, subprocess, tempfile
    from engine.harness import rich_src, VERIF
    src = rich_src()
    if not os.path.isdir(os.path.join(src, "tests")):
        chk.notes["repo_suite_traces"] = "skipped: no tests/ in the tree under test"
        return
    out = tempfile.mktemp(prefix="sgrtrace-", suffix=".json", dir=os.path.join(VERIF, ".work") if os.path.isdir(os.path.join(VERIF, ".work")) else None)
    env = dict(os.environ, SGRTRACE_OUT=out, PYTHONPATH=VERIF + os.pathsep + src, VERIF_NO_WATCHDOG="1")
    env.pop("PYTEST_ADDOPTS", None)
    try:
        subprocess.run([sys.executable, "-m", "pytest", "-q", "-x", "--co", "-q", "-p", "no:cacheprovider", "tests"], cwd=src, env=env,
                       stdout=subprocess.DEVNULL, stderr=subprocess.DEVNULL, timeout=300)
        subprocess.run([sys.executable, "-m", "pytest", "-q", "-p", "no:cacheprovider", "-p", "tools.pytest_sgrtrace", "tests"], cwd=src, env=env,
                       stdout=subprocess.DEVNULL, stderr=subprocess.DEVNULL, timeout=900)
        with open(out) as f:
            data = json.load(f)
    except Exception as ex:          # the suite could not be run or recorded here: nothing to judge (not a verdict)
        chk.notes["repo_suite_traces"] = "skipped: %s" % type(ex).__name__
        return
    finally:
        if os.path.exists(out):
            os.remove(out)
    recs = data["records"]
    verdicts, st = tlc.judge("Trace_Sgr", recs, chunk_min=12, tag="judge-suite")
    chk.add_tlc(st, "M3-repo-suite")
    chk.traces += len(recs)
    chk.notes["repo_suite_traces"] = dict(data["stats"], judged=len(recs))
    for rec, v in zip(recs, verdicts):
        styled = any(l["on"] or l["fg"]["k"] not in ("def", "unset") or l["bg"]["k"] not in ("def", "unset") for sg in rec["segs"] for l in sg["layers"])
        chk.case(("suite", rec.get("test"), len(rec["out"]), repr(rec["out"][:12])), styled)
        if v != "ok" and not v.startswith("decoder"):
            eff = rec["cfg"]
            chk.reject("%s system=%s nocolor=%s terminal=%s legacy=%s mode=repo-test-suite" % (v, eff["system"], eff["nocolor"], eff["terminal"], eff["legacy"]),
                       "%s in %s" % (v, rec.get("test")), dict(suite_record=rec))


def _disarm_watchdog_at_exit():
    """engine/watch.py's repeating CPU tick is still armed when the interpreter shuts down; once Python has restored the default
    signal dispositions a tick kills the process (SIGVTALRM) and the exit status of a finished check is lost - seen after the
    thorough tier, whose 100 000 records take long to free.  Disarm it first (atexit runs before the handlers are restored)."""
    import atexit
    import signal
    atexit.register(lambda: signal.setitimer(signal.ITIMER_VIRTUAL, 0))


def run(chk: Check):
    _disarm_watchdog_at_exit()
    chk.rule = ("a case is (segment sequence, how it is written, console configuration, position in a history): 1-8 segments (texts incl. empty, "
                "wide, combining, punctuation that looks like escape parameters) with styles over the 13 tri-state attributes x {none, default, 16 "
                "standard, indexed, 24-bit, windows-typed} foreground x same background x optional link, built by keywords / Style.parse / + / chain / "
                "combine / copy / update_link / without_color / from_color / null / rendered beforehand; control segments (bell, CSI sequences, CR); "
                "written as one renderable, in several prints, as a Text with spans, by print(str, style=) or out(str, style=), optionally over a "
                "print-level or console-level base style, cropped or not; on 1-4 consoles in a row (colour system none/standard/256/truecolor/windows "
                "or detected from TERM/COLORTERM x NO_COLOR by argument or environment x terminal forced / not forced / asked of the file x legacy "
                "windows x recording) that share the Style objects; plus a hand-listed sweep of every attribute / colour kind alone on all systems; "
                "distinct by (case, position); non-trivial = some segment carries an attribute or colour")
    chk.trusted = ["engine/sgrlex.py (lexical tokeniser)",
                   "drivers/c03.py:layer (Style getters read when the style is created; Color.downgrade for the documented down-conversion, judged by C18)"]
    chk.assumptions = ["console wide enough not to wrap or crop", "text without C0 controls / ESC (a terminal would interpret them)",
                       "print-level and console-level base styles are not combined in one case (their relative order is not stated)"]
    if chk.replay_only:
        case = upgrade(chk.replay_only["case"])
        recs = run_case(case)
        judge(chk, recs, [(case, i) for i in range(len(recs))], "M3")
        return
    r, cov, missing = tlc.model_check("MC_Sgr", coverage=False)
    chk.add_tlc(r, "M1-encoder-design-vs-terminal")
    if r.violated:
        raise tlc.TLCFailure("MC_Sgr violated %s\n%s" % (r.violated, r.out[-2000:]))
    chk.mark("M1")
    recs, meta = run_cases(chk, chk.pick(2500, 40000), sweep=True)
    chk.mark("execute")
    judge(chk, recs, meta, "M3")
    chk.mark("judge")
    if recs:
        case, i = meta[-1]
        chk.sample(dict(case=describe(case, i), printed_on=recs[-1]["cfg"], output_events=recs[-1]["out"][:25]))
    repo_suite_traces(chk)
